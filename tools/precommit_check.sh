#!/bin/sh
# Sanity of what is about to be committed (not part of any registered check):
#  /repo clean, generated Coq files equal to a fresh regeneration, full Coq build, evidence from the unchanged tree.
cd /verif
rc=0
[ -z "$(git -C /repo status --porcelain)" ] || { echo "FAIL: /repo is not clean"; rc=1; }
cp coq/gen/Consts.v /tmp/Consts.v.before
python3 tools/extract_facts.py >/dev/null 2>&1 || { echo "FAIL: extract_facts"; rc=1; }
cmp -s coq/gen/Consts.v /tmp/Consts.v.before || { echo "FAIL: coq/gen/Consts.v was stale (now regenerated)"; rc=1; }
( cd coq && flock /verif/.cache/lock sh -c 'timeout 3000 make -j16 >/dev/null 2>/tmp/precommit.make.err' ) || { echo "FAIL: coq build"; tail -5 /tmp/precommit.make.err; rc=1; }
for f in evidence/C*.json; do
  python3 - "$f" <<'PY' || rc=1
import json, sys
d = json.load(open(sys.argv[1]))
bad = []
if d.get("violations", 0): bad.append("violations=%s" % d["violations"])
if d.get("seed") != 1: bad.append("seed=%s" % d.get("seed"))
if d["coverage"].get("proof_broken"): bad.append("proof_broken")
if bad:
    print("FAIL: %s: %s" % (sys.argv[1], ", ".join(bad))); sys.exit(1)
PY
done
grep -rn "Admitted\|admit\b\|^Axiom\|^Parameter\|^Conjecture" coq/theories coq/proofs coq/props coq/gen --include=*.v | grep -v "(\*" | head -3 | grep . && { echo "FAIL: forbidden vernacular"; rc=1; }
[ $rc -eq 0 ] && echo "precommit: ok"
exit $rc
