import sys, json
sys.path.insert(0, '/verif/tools')
from vlib import *

def H(s): return hexb(s.encode() if isinstance(s,str) else s)
tree = [["dir",H("root"),0o755],["dir",H("root/a"),0o755],["dir",H("root/a/b"),0o755],["file",H("root/a/f"),H("hi"),0o644],
        ["symlink",H("root/l"),H("a/f")],["symlink",H("root/abs"),H("/a")],["symlink",H("root/loop"),H("loop")],
        ["symlink",H("root/a/up"),H("../a/b")],["dir",H("outside"),0o755],["symlink",H("root/esc"),H("../../outside")]]
paths = ["a","l","a/../l","abs/f","loop","a/up/..","esc","nonexist/x","a/f/","","/","..","a//b/.", "a/up", "abs/../esc/."]
jobs=[]
i=0
for p in paths:
    for nf in (False,True):
        i+=1
        jobs.append({"id":i,"tree":tree,"op":{"k":"resolve","path":H(p),"nofollow":nf}})
deny = sys.argv[1].split(',') if len(sys.argv)>1 and sys.argv[1] else []
ok, lg = build_driver(); print("build", ok, lg)
rc,out,results = run_driver(jobs, deny=deny)
print("driver rc", rc, out[-500:])
warm = results[0]; cfg = warm_config(warm); print(cfg)
cases=[]
for r in results[1:]:
    j = jobs[r['id']-1]
    kernel = cfg['openat2']
    term = ("enc_replay_diag (enc_res enc_fd) (run_trace (r_resolve 3 %s 3 %s 0 {| rs_kernel := %s; rs_flags := 0 |} %s %s %s) %s 0)"
            % ("true" if cfg['openat2'] else "false", coq_phandle(cfg), "true" if kernel else "false",
               cz(r['root_fd']), cb(j['op']['path']), "true" if j['op']['nofollow'] else "false", trace_to_coq(r['trace'])))
    cases.append((r['id'], term))
import time; t=time.time()
res, errs = coq_eval(cases)
print("coq", time.time()-t, errs[:1])

def filt(trace):
    return [e for e in trace if ev_to_coq(e) is not None]
for r in results[1:]:
    j = jobs[r['id']-1]
    rr = res.get(r['id'])
    out = r['res'].get('ok',{}).get('fd') if 'ok' in r['res'] else (r['res'].get('err',{}).get('kind'), r['res'].get('err',{}).get('errno'))
    print(r['id'], unhex(j['op']['path']), j['op']['nofollow'], out, len(r['trace']), rr)
    if rr and rr[0] in (2,3,1):
        ft = filt(r['trace'])
        for e in ft[max(0,rr[1]-3):rr[1]+2]:
            d={k:(bytes.fromhex(v).decode('latin1') if k in('path','out','path2','target') else v) for k,v in e.items() if k not in ('st','stx')}
            print('      ', d)
