"""Generators: trees, paths, flag sets.  Every choice comes from the one
random.Random handed in, so a seed replays exactly."""
from vlib import hexb

H = hexb

NAMES = ["a", "b", "c", "d", "e", "f0", "g", "x y", "k (deleted)"]


def gen_tree(rng, nobj=None, with_outside=True):
    """Returns (ops, meta). ops create `root` (the Root) and `outside` (sibling,
    never inside) in the sandbox.  meta: dirs/files/links lists of root-relative
    paths (str)."""
    nobj = nobj if nobj is not None else rng.randint(1, 12)
    ops = [["dir", H("root"), 0o755]]
    dirs = [""]          # root-relative, "" = root itself
    files, links, fifos = [], [], []
    used = set()
    if with_outside:
        ops += [["dir", H("outside"), 0o755], ["file", H("outside/secret"), H("s3cret"), 0o644],
                ["dir", H("outside/sub"), 0o755]]

    def fresh(parent):
        for _ in range(40):
            n = rng.choice(NAMES) if rng.random() < 0.8 else rng.choice("pqrstuv") + str(rng.randint(0, 9))
            p = (parent + "/" + n) if parent else n
            if p not in used:
                used.add(p)
                return p
        return None

    def rel_target(frm_dir):
        """a link body pointing somewhere, relative to the link's directory"""
        kind = rng.random()
        allobjs = [d for d in dirs if d] + files + links + fifos
        if kind < 0.35 and allobjs:
            tgt = rng.choice(allobjs)
            # relative path from frm_dir to tgt
            ups = frm_dir.count("/") + 1 if frm_dir else 0
            body = "../" * ups + tgt
            if rng.random() < 0.5 and frm_dir and tgt.startswith(frm_dir + "/"):
                body = tgt[len(frm_dir) + 1:]
        elif kind < 0.55 and allobjs:
            body = "/" + rng.choice(allobjs)                     # absolute: clamped to the root
        elif kind < 0.65:
            body = rng.choice(["..", "../..", "../../..", "../../outside", "../../../outside/secret",
                               "/../outside", "/../../outside/secret"])   # escaping
        elif kind < 0.72:
            body = rng.choice(["nonexistent", "no/such/path", "/nope", "../nope"])   # dangling
        elif kind < 0.80:
            body = rng.choice([".", "/", "./", "//", "/.", "./."])
        elif kind < 0.9 and allobjs:
            t = rng.choice(allobjs)
            body = rng.choice(["/%s/", "//%s", "/./%s", "/%s/.", "/%s//", "/%s/..", "/%s/../%s"]).replace("%s", t)
        else:
            body = None   # self / mutual loop: filled by caller
        return body

    for _ in range(nobj):
        parent = rng.choice(dirs)
        p = fresh(parent)
        if p is None:
            continue
        k = rng.random()
        if k < 0.35:
            ops.append(["dir", H("root/" + p), rng.choice([0o755, 0o755, 0o700, 0o777])])
            dirs.append(p)
        elif k < 0.55:
            ops.append(["file", H("root/" + p), H("data"), 0o644])
            files.append(p)
        elif k < 0.60:
            ops.append(["fifo", H("root/" + p), 0o644])
            fifos.append(p)
        elif k < 0.64 and files:
            ops.append(["hardlink", H("root/" + p), H("root/" + rng.choice(files))])
            files.append(p)
        else:
            body = rel_target(parent)
            if body is None:
                base = p.rsplit("/", 1)[-1]
                body = rng.choice([base, "./" + base, "/" + p])      # self loop
            ops.append(["symlink", H("root/" + p), H(body)])
            links.append(p)
    # occasionally a long chain of links
    if rng.random() < 0.2:
        n = rng.choice([3, 8, 39, 40, 41, 45])
        tgt = rng.choice(files + [d for d in dirs if d] + ["nonexistent"])
        prev = "/" + tgt
        for i in range(n):
            name = "ch%d" % i
            if name in used:
                break
            used.add(name)
            ops.append(["symlink", H("root/" + name), H(prev)])
            links.append(name)
            prev = name
    meta = {"dirs": dirs, "files": files, "links": links, "fifos": fifos}
    return ops, meta


def gen_path(rng, meta, malformed=False):
    """A mostly-valid path: a walk over names of the tree with decorations."""
    if malformed:
        return rng.choice(["", "/", "//", ".", "..", "../..", "../../../..", "./.", "/..", "/../..",
                           "a" * 256, "a/" + "b" * 300, "k (deleted)", "a/..//../b/", "/./", "...",
                           "a/./../a/.", "nonexistent/..", "nonexistent/../a"])
    objs = [d for d in meta["dirs"] if d] + meta["files"] + meta["links"] + meta["fifos"]
    if not objs:
        objs = ["a"]
    base = rng.choice(objs)
    comps = base.split("/")
    out = []
    for c in comps:
        r = rng.random()
        if r < 0.08:
            out.append(".")
        if r > 0.92:
            out.append("")
        out.append(c)
        if rng.random() < 0.12:
            out.append("..")
            out.append(c if rng.random() < 0.7 else rng.choice(NAMES))
    if rng.random() < 0.3:
        # continue below a link / dir with another name
        out.append(rng.choice([o.rsplit("/", 1)[-1] for o in objs] + ["..", ".", "nonexistent"]))
    if rng.random() < 0.15:
        out.append("..")
    p = "/".join(out)
    if rng.random() < 0.25:
        p = "/" + p
    if rng.random() < 0.15:
        p = p + "/"
    if rng.random() < 0.05:
        p = p + "/."
    return p


O = {"RDONLY": 0, "WRONLY": 1, "RDWR": 2, "CREAT": 0o100, "EXCL": 0o200, "NOCTTY": 0o400, "TRUNC": 0o1000,
     "APPEND": 0o2000, "NONBLOCK": 0o4000, "DSYNC": 0o10000, "DIRECT": 0o40000, "LARGEFILE": 0o100000,
     "DIRECTORY": 0o200000, "NOFOLLOW": 0o400000, "NOATIME": 0o1000000, "CLOEXEC": 0o2000000,
     "SYNC": 0o4010000, "PATH": 0o10000000, "TMPFILE": 0o20200000}


def gen_oflags(rng, safe_fifo=True):
    acc = rng.choice([O["RDONLY"], O["RDONLY"], O["WRONLY"], O["RDWR"]])
    fl = acc
    if rng.random() < 0.3:
        fl = O["PATH"] | (O["RDONLY"])
    for name, p in (("DIRECTORY", 0.2), ("NOFOLLOW", 0.3), ("APPEND", 0.15), ("NONBLOCK", 1.0 if safe_fifo else 0.2),
                    ("NOATIME", 0.1), ("CLOEXEC", 0.3), ("SYNC", 0.05), ("DSYNC", 0.05), ("NOCTTY", 0.1), ("DIRECT", 0.12)):
        if rng.random() < p:
            fl |= O[name]
    if fl & O["PATH"]:
        # openat2 is strict: with O_PATH only O_DIRECTORY, O_NOFOLLOW and O_CLOEXEC are accepted
        fl &= O["PATH"] | O["DIRECTORY"] | O["NOFOLLOW"] | O["CLOEXEC"]
    return fl


def link_budget_cases(repo="/repo"):
    """Deterministic boundary cases for the link budgets: chains of exactly k links for k around the kernel's budget (40)
    and around the library's own constant (read from the source), walked from the top link, bare and with more components."""
    import re
    try:
        mx = int(re.search(r"const MAX_SYMLINK_TRAVERSALS: usize = (\d+);", open(repo + "/src/resolvers.rs").read()).group(1))
    except Exception:
        mx = 128
    lens = sorted({38, 39, 40, 41, 42, mx - 2, mx - 1, mx, mx + 1})
    out = []
    for n in lens:
        if n < 1:
            continue
        tree = [["dir", H("root"), 0o755], ["dir", H("outside"), 0o755], ["dir", H("root/d"), 0o755], ["file", H("root/d/f"), H("data"), 0o644]]
        prev = "d"
        for i in range(n):
            tree.append(["symlink", H("root/ch%d" % i), H(prev)])
            prev = "ch%d" % i
        top = "ch%d" % (n - 1)
        for p in (top, top + "/f", top + "/../d/f", top + "/."):
            out.append((tree, p, n))
    return out


def link_body_shape_cases():
    """Deterministic cases for the *shape* of link bodies: empty components ("//", leading and trailing "/"), "." and ".."
    inside a body, bodies that end in "/" on files, directories and other links -- walked bare, with more components, with a
    trailing slash, and through a second link.  A trailing "/" in a body demands a directory exactly as it does in a path."""
    tree = [["dir", H("root"), 0o755], ["dir", H("outside"), 0o755], ["file", H("root/file"), H("data"), 0o644],
            ["dir", H("root/dir"), 0o755], ["file", H("root/dir/f"), H("x"), 0o644], ["dir", H("root/dir/sub"), 0o755],
            ["symlink", H("root/fs"), H("file/")], ["symlink", H("root/afs"), H("/file/")], ["symlink", H("root/fss"), H("file//")],
            ["symlink", H("root/fdot"), H("file/.")], ["symlink", H("root/ds"), H("dir/")], ["symlink", H("root/ads"), H("/dir//")],
            ["symlink", H("root/dsl"), H("dir//sub")], ["symlink", H("root/ddot"), H("dir/./sub/..")], ["symlink", H("root/to_fs"), H("fs")],
            ["symlink", H("root/to_ds_s"), H("ds/")], ["symlink", H("root/dangs"), H("nonexistent/")], ["symlink", H("root/lead"), H("//dir/f")],
            ["symlink", H("root/dir/up_s"), H("../file/")], ["symlink", H("root/dir/up_ds"), H("../dir/sub/")],
            # bodies WITHOUT any real component: nothing is queued for them, so whatever bookkeeping a resolver keeps per link
            # (the emulated backend's symlink stack) has to cope with an entry that is finished the moment it is made
            ["symlink", H("root/rootlink"), H("/")], ["symlink", H("root/dotlink"), H(".")], ["symlink", H("root/dotsl"), H("./")],
            ["symlink", H("root/slashes"), H("//")], ["symlink", H("root/dir/here"), H(".")], ["symlink", H("root/dir/rootdot"), H("/.")],
            ["symlink", H("root/dir/dotdot"), H("./.")], ["symlink", H("root/to_rootlink"), H("rootlink")]]
    paths = ["fs", "afs", "fss", "fdot", "ds", "ads", "dsl", "ddot", "to_fs", "to_ds_s", "dangs", "lead", "dir/up_s", "dir/up_ds",
             "fs/", "ds/", "ds/f", "ads/sub", "to_ds_s/f", "fs/x", "dir/up_ds/..", "ds/../file", "fs/..", "dir/up_s/..",
             "rootlink", "rootlink/dir", "rootlink/dir/sub", "dotlink", "dotlink/dir", "dotsl/dir/sub", "slashes", "slashes/dir",
             "dir/here", "dir/here/sub", "dir/rootdot/dir", "dir/dotdot/sub", "to_rootlink/dir", "rootlink/dotlink/dir/here"]
    return [(tree, p_) for p_ in paths]
