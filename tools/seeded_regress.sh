#!/bin/sh
# Re-apply every seeded property-breaking change to /repo (one at a time), run the check that is
# recorded as catching it, expect a VIOLATION, and restore /repo.  Not part of any registered check:
# a regression guard for the checks themselves.  Usage: tools/seeded_regress.sh [name-prefix]
cd /verif
if [ -n "$(git -C /repo status --porcelain)" ]; then echo "/repo is not clean"; exit 2; fi
fail=0
bak=$(mktemp -d) ; cp -a evidence/. "$bak"/
for d in seeded/${1:-}*/; do
  name=$(basename "$d")
  prop=${name%%-*}
  if ! (cd /repo && patch -p1 -F3 -s --no-backup-if-mismatch < "/verif/$d/patch.diff" >/dev/null 2>&1); then
    echo "SKIP  $name: patch does not apply to the current tree"
    git -C /repo checkout -- . ; git -C /repo clean -fdq -- src include go-pathrs contrib 2>/dev/null
    continue
  fi
  out=$(./check "$prop" 2>&1 | grep -v '^KNOWN')
  n=$(printf '%s\n' "$out" | grep -c '^VIOLATION')
  c=$(printf '%s\n' "$out" | grep '^VIOLATION' | grep -vc 'no-failing-input-found')
  git -C /repo checkout -- . ; git -C /repo clean -fdq -- src include go-pathrs contrib 2>/dev/null
  if [ "$n" -gt 0 ]; then echo "CAUGHT $name: $n violation line(s), $c with a concrete input"; else echo "MISSED $name"; fail=1; fi
done
# put the evidence of the unchanged tree back, and the generated Coq files (they were regenerated from changed sources)
rm -rf evidence ; mkdir -p evidence ; cp -a "$bak"/. evidence/ ; rm -rf "$bak"
git -C /verif checkout -- coq/gen 2>/dev/null ; python3 tools/extract_facts.py >/dev/null 2>&1
exit $fail
