"""C05: only single, non-followed components are ever handed to the kernel.

Proof: props/C05.v (all_calls Pdn / Pd over every model program, all answers).
Tie T1: every recorded trace is replayed through the model (exact call
sequence); the theorem's predicate disc_b is evaluated on the recorded calls.
Runtime oracle (model-free): monitor_call on every real notification."""
import random

import jobs as J
import model as M
from vlib import run_driver_parallel, coq_eval, warm_config, trace_to_coq, unhex

FOLLOW_OK_KINDS = {"reopen", "open", "mkdir_all", "proc_open"}


def analyse(ck, job, res, cfg, ps, stats, cases, deny_tag):
    tr = res.get("trace", [])
    stats["calls"] += len(tr)
    k = job["op"]["k"]
    if "panic" in res.get("res", {}):
        stats["panics"] += 1    # C10's business; the monitor still judges the calls made
    for which, t in (("handle construction", res.get("handle_trace", [])), ("operation", tr)):
        for i, ev in enumerate(t):
            why = M.monitor_call(ev)
            if why:
                ck.violation("C05 discipline: " + why,
                             {"job": J.describe(job), "deny": deny_tag, "phase": which, "index": i, "call": ev,
                              "handle_deny": job.get("handle_deny")})
                return
    stats["calls"] += len(res.get("handle_trace", []))
    for i in M.follow_sites(tr):
        ev = tr[i]
        prev = tr[i - 1] if i > 0 else {}
        dominated = (prev.get("c") == "statx" and prev.get("fd") == ev["fd"] and prev.get("path") == ev["path"]
                     and prev.get("ret", -1) >= 0)
        asked_nofollow = k == "proc_open" and (not job["op"].get("follow") or job["op"]["flags"] & M.O_NOFOLLOW)
        if k not in FOLLOW_OK_KINDS or not dominated or asked_nofollow:
            ck.violation("C05: openat without O_NOFOLLOW outside the two verified procfs follow sites",
                         {"job": J.describe(job), "deny": deny_tag, "index": i, "call": ev, "prev": prev})
            return
        stats["follow_sites"] += 1
    if job.get("api", "rust") != "rust" or "setup_err" in res.get("res", {}):
        return
    prog, enc = M.op_program(job, res, cfg, ps)
    if prog is None:
        return
    t = trace_to_coq(tr)
    term = (f"let t := {t} in enc_replay_diag {enc} (run_trace ({prog}) t 0) ++ ((-7)%Z :: trace_disc t)")
    cases.append((len(cases), term, job, res, deny_tag))


def run(ck):
    rng = random.Random(ck.seed)
    thorough = ck.tier == "thorough"
    scale = 6 if thorough else 1
    ps = M.sysctl_ps()
    base = []
    base += J.lookup_jobs(rng, 10 * scale, 6, idbase=0)
    base += J.mutator_jobs(rng, 10 * scale, 6, idbase=100000, snap="none")
    base += J.reopen_jobs(rng, 8 * scale, idbase=200000)
    base += J.proc_jobs(rng, 40 * scale, idbase=300000)
    base += J.with_fault(rng, base, frac=0.35)
    # a few C-API runs (monitor only)
    capi = []
    for j in base[:30 * scale]:
        if j["op"]["k"] in ("resolve", "open", "readlink", "create_file", "mkdir_all", "remove_all", "rename", "proc_open", "proc_readlink"):
            j2 = dict(j)
            j2["id"] = j["id"] + 5000000
            j2["api"] = "c"
            capi.append(j2)
            if len(capi) % 3 == 0 and not j["op"]["k"].startswith("proc_") and j["op"]["k"] != "reopen":
                # the same call with AT_FDCWD in place of the root descriptor: must be refused without touching anything
                j3 = dict(j2)
                j3["id"] = j["id"] + 6000000
                j3["op"] = dict(j["op"], root_fd_raw=-100)
                j3.pop("policy", None)
                capi.append(j3)
    alljobs = base + capi
    byjob = {j["id"]: j for j in alljobs}
    stats = {"calls": 0, "panics": 0, "follow_sites": 0, "jobs": 0, "t1_ok": 0, "t1_bad": 0, "kinds": {}, "outcomes": {}}
    cases = []
    warm_seen = 0
    for deny in ((), ("openat2",)):
        tag = ",".join(deny) or "none"
        warm, results, errs = run_driver_parallel(alljobs, deny=deny, tag="c05" + tag.replace(",", ""))
        if errs:
            ck.notes.append("driver errors: " + errs[0][-300:])
        for w in warm:
            warm_seen += 1
            # the warm-up (cold start of every lazily initialised global) is monitored too
            for i, ev in enumerate(w["trace"]):
                why = M.monitor_call(ev, cold=True)
                if why:
                    ck.violation("C05 discipline (cold start): " + why, {"deny": tag, "index": i, "call": ev})
                    break
        for jid, res in results.items():
            job = byjob[jid]
            cfg = warm_config(res["_warm"])
            stats["jobs"] += 1
            k = job["op"]["k"]
            stats["kinds"][k] = stats["kinds"].get(k, 0) + 1
            r = res.get("res", {})
            oc = "ok" if ("ok" in r or "unit" in r or "bytes" in r or "num" in r) else \
                 ("err:%s:%s" % (r["err"]["kind"], r["err"]["errno"]) if "err" in r else
                  ("cerr" if "cerr" in r else ("panic" if "panic" in r else "setup_err")))
            stats["outcomes"][oc] = stats["outcomes"].get(oc, 0) + 1
            analyse(ck, job, res, cfg, ps, stats, cases, tag)
    # ---- error paths: every fallback a failing call may trigger is an execution too ("success and error paths alike").
    # For a fixed set of operations: one fault at every call of the unfaulted trace x a catalogue of errnos a kernel can
    # plausibly answer there; every call of every such run is judged by the model-free monitor.
    from props.C10 import OPS as SWEEP_OPS, TREE as SWEEP_TREE
    ERRNOS = (13, 1, 38, 22, 18, 16, 30, 39, 95, 12, 5) if thorough else (13, 1, 38, 22)
    for deny in ((), ("openat2",)):
        tag = ",".join(deny) or "none"
        basej = []
        for i, op in enumerate(SWEEP_OPS):
            j = {"id": 7000000 + i, "op": op, "snap": "none"}
            if not op["k"].startswith("proc_"):
                j["tree"] = SWEEP_TREE
            basej.append(j)
        _, bres, _ = run_driver_parallel(basej, deny=deny, tag="c05sb" + tag.replace(",", ""), shards=4)
        sweep = []
        for j in basej:
            b_ = bres.get(j["id"])
            if not b_ or "trace" not in b_:
                continue
            for at, ev in enumerate(b_["trace"]):
                if ev["c"] in ("gettid", "geteuid", "close") or (ev["c"] == "fcntl" and ev.get("cmd") == 1):
                    continue
                for en in ERRNOS:
                    j2 = dict(j)
                    j2["id"] = 8000000 + len(sweep)
                    j2["policy"] = {"fault": {"at": at, "errno": en}}
                    sweep.append(j2)
        if not thorough and len(sweep) > 1500:
            # quick: every (operation, call kind, errno) at least once, then a sample
            seen_, keep, rest_ = set(), [], []
            for j2 in sweep:
                b_ = bres[j2["id"] if False else [x["id"] for x in basej if x["op"] is j2["op"]][0]]
                key = (id(j2["op"]), b_["trace"][j2["policy"]["fault"]["at"]]["c"], j2["policy"]["fault"]["errno"])
                (keep if key not in seen_ else rest_).append(j2)
                seen_.add(key)
            sweep = keep + rng.sample(rest_, min(len(rest_), max(0, 1500 - len(keep))))
        sby = {j2["id"]: j2 for j2 in sweep}
        _, sres, _ = run_driver_parallel(sweep, deny=deny, tag="c05sw" + tag.replace(",", ""))
        for jid, res in sres.items():
            job = sby[jid]
            stats["error_path_runs"] = stats.get("error_path_runs", 0) + 1
            for which, t in (("handle construction", res.get("handle_trace", [])), ("operation", res.get("trace", []))):
                bad = next(((i, ev, M.monitor_call(ev)) for i, ev in enumerate(t) if M.monitor_call(ev)), None)
                if bad:
                    ck.violation("C05 discipline (error path): " + bad[2],
                                 {"job": J.describe(job), "deny": tag, "phase": which, "index": bad[0], "call": bad[1],
                                  "injected": job["policy"]["fault"]})
                    break
            stats["calls"] += len(res.get("trace", []))
    # T1: replay through the model, and evaluate disc_b on the real calls
    if ck.proof_broken:
        # the development does not build: the model cannot be evaluated; the
        # model-free monitor above is the search for a failing input
        cases_eval = []
    else:
        cases_eval = [(cid, term) for cid, term, _, _, _ in cases]
    evals, cerrs = coq_eval(cases_eval, header="From PV Require Import Replay Discipline.", tag="c05")
    if cerrs:
        ck.violation("T1: Coq evaluation of the case files failed", {"log": cerrs[0][-1500:]}, False)
    nontrivial = set()
    samples = []
    for cid, term, job, res, tag in cases:
        enc = evals.get(cid)
        if enc is None:
            continue
        cut = enc.index(-7) if -7 in enc else len(enc)
        rep, bad = enc[:cut], enc[cut + 1:]
        if bad:
            ck.violation("C05: disc_b (the theorem's predicate) rejects a recorded call",
                         {"job": J.describe(job), "deny": tag, "indices": bad})
        ok = rep and rep[0] == 0 and M.outcome_matches(res, rep[2:])
        if ok:
            stats["t1_ok"] += 1
            key = (job["op"]["k"], tag, rep[1], tuple(rep[2:5]))
            if rep[1] > 1:
                nontrivial.add(key)
            if len(samples) < 6 and rep[1] > 20:
                samples.append({"job": J.describe(job), "deny": tag, "calls_replayed": rep[1], "model_outcome": rep[2:6]})
        else:
            stats["t1_bad"] += 1
            if "panic" in res.get("res", {}) and rep and rep[0] == 4:
                stats["t1_ok"] += 1     # model and implementation panic at the same place (C10 reports it)
                stats["t1_bad"] -= 1
                continue
            tr = [e for e in res["trace"] if e["c"] != "fcntl" or e.get("cmd") != 1]
            at = rep[1] if rep and len(rep) > 1 else -1
            ck.violation("T1: model and implementation disagree on the system-call sequence (op %s)" % job["op"]["k"],
                         {"job": J.describe(job), "deny": tag, "replay": rep, "real_outcome": res.get("res"),
                          "around": tr[max(0, at - 2):at + 2]}, False)
    cov = {
        "evaluations": stats["jobs"] + stats.get("error_path_runs", 0),
        "distinct_nontrivial": len(nontrivial),
        "error_path_runs_monitored": stats.get("error_path_runs", 0),
        "rule": "random trees (1-12 objects + link chains) x random ops/paths/flags, procfs ops on three handle kinds, "
                "35% re-run with one injected fault, both kernel feature sets, plus C-API runs; a case is non-trivial "
                "when its trace has more than one call and T1 replay matched; distinct by (op, feature set, trace length, outcome)",
        "samples": samples or [{"note": "no sample with >20 calls"}],
        "traces_validated_against_impl": stats["t1_ok"],
        "syscalls_monitored": stats["calls"],
        "follow_sites_seen": stats["follow_sites"],
        "t1_mismatches": stats["t1_bad"],
        "op_histogram": stats["kinds"],
        "outcome_histogram": stats["outcomes"],
        "warmups_monitored": warm_seen,
        "disagreements_checked": stats["t1_bad"],
    }
    assumptions = ["kernel answers are arbitrary in the theorems (no file-system model in the trusted base)",
                   "exempt calls are the closed list inside disc_b (procfs constructors, FrozenFd error-text calls, thread-self probes)",
                   "Root::open (opens the root itself from a caller path) and feature probes happen outside the traced regions"]
    return cov, assumptions
