"""C03: mutating Root operations never touch anything outside the root.

Proof: props/C03.v.  Runtime: the sandbox holds the root and, next to it,
'outside' directories that were never inside the root; the whole sandbox is
snapshotted before and after every call.  Static part: every mutating operation
x path spellings ('..', '.', absolute, through escaping links).  Schedule part:
deterministic preemption as in C02 -- every relevant boundary x attacker action.
Oracle: no entry of a never-inside directory is added, removed, replaced,
renamed or modified (beyond what the attacker did himself)."""
import random

import jobs as J
import model as M
import sched as S
from gen import H, O
from vlib import run_driver_parallel, unhex
from props.C14 import snapmap

FOREIGN_DIRS = [b"", b"outside", b"outside/sub", b"outside/sub/c", b"root (deleted)"]          # "" = the sandbox directory itself (the root's parent)
ATTACKER_NAMES = {b"outside/stolen_b", b"outside/stolen_a", b"outside/stolen_e", b"root (deleted)/stolen_a2", b"root (deleted)/stolen_d2"}

MUTATORS = [
    {"k": "remove_all", "path": H("d")},
    {"k": "remove_all", "path": H("a/b/../../d")},
    {"k": "remove_all", "path": H("a")},
    {"k": "remove_file", "path": H("a/b/c/../f")},
    {"k": "remove_dir", "path": H("d/e/../../spare/../d/e")},
    {"k": "create", "path": H("a/b/c/../new"), "type": "file", "mode": 0o644},
    {"k": "create", "path": H("l/c/newdir"), "type": "dir", "mode": 0o755},
    {"k": "create", "path": H("d/e/../lnk"), "type": "symlink", "target": H("../../outside/secret")},
    {"k": "create", "path": H("a/b/hl"), "type": "hardlink", "target": H("d/e/../x")},
    {"k": "create_file", "path": H("a/b/../b/cf"), "flags": O["WRONLY"] | O["TRUNC"], "mode": 0o600},
    {"k": "create_file", "path": H("a/b/f"), "flags": O["WRONLY"] | O["TRUNC"], "mode": 0o600},
    {"k": "mkdir_all", "path": H("a/b/c/../x/y/z"), "mode": 0o755},
    {"k": "mkdir_all", "path": H("d/s/p/q"), "mode": 0o700},
    {"k": "mkdir_all", "path": H("a/b/../../n1/n2"), "mode": 0o755},
    {"k": "mkdir_all", "path": H("a/b/c/../../../m1"), "mode": 0o755},
    {"k": "create", "path": H("a/b/../../newf"), "type": "file", "mode": 0o644},
    {"k": "create_file", "path": H("a/b/c/../../../cf2"), "flags": O["WRONLY"] | O["CREAT"], "mode": 0o600},
    {"k": "rename", "src": H("a/b/c/../f"), "dst": H("d/e/../moved"), "flags": 0},
    {"k": "rename", "src": H("d/e"), "dst": H("a/b/c/e2"), "flags": 1},
]

SPELLINGS = ["..", ".", "", "/", "../outside", "../outside/sub/f", "a/../..", "evil_dir", "evil_dir/", "evil_dir/f", "evil_dir/c", "evil_up",
             "evil_up/outside", "evil_file", "/../outside/secret", "a/b/../../../outside/sub", "evil_dir/../secret", "evil_dir/newentry",
             "a/b/c/../../../..", "d/s/../../..", "evil_up/newentry"]


def foreign_view(snap):
    """entries whose parent directory was never inside the root: (path, mode, dev, ino, size, body)"""
    m = snapmap(snap)
    out = {}
    for p, e in m.items():
        parent = p.rsplit(b"/", 1)[0] if b"/" in p else b""
        if p != b"root" and (parent in FOREIGN_DIRS or is_foreign_dir(parent)):
            out[p] = (e[1], e[3], e[4], e[6], e[7])
    return out


def is_foreign_dir(parent):
    """any directory of the sandbox that is neither the root / below it nor inside something the attacker moved out of the root
    (the attacker's entries are all named stolen_*): e.g. the levels of the deeper-than-PATH_MAX place outside/deep"""
    if parent == b"root" or parent.startswith(b"root/"):
        return False
    return not any(c.startswith(b"stolen_") for c in parent.split(b"/"))


def foreign_ok(before, after, attacked):
    b_, a = foreign_view(before), foreign_view(after)
    problems = []
    for p in sorted(set(a) - set(b_)):
        if not (attacked and (p in ATTACKER_NAMES or p.rsplit(b"/", 1)[-1].startswith(b"stolen_"))):
            problems.append(("added", p.decode("latin1")[-200:]))
    for p in sorted(set(b_) - set(a)):
        problems.append(("removed", p.decode("latin1")))
    for p in sorted(set(a) & set(b_)):
        if a[p] != b_[p] and (a[p][0] & 0o170000) != 0o040000:
            problems.append(("modified", p.decode("latin1")))
        elif (a[p][1], a[p][2]) != (b_[p][1], b_[p][2]):
            problems.append(("replaced", p.decode("latin1")))
    return problems


def run(ck):
    rng = random.Random(ck.seed)
    thorough = ck.tier == "thorough"
    tree = S.scenario_tree()
    stats = {"static": 0, "attacked": 0, "by_op": {}, "ok": 0, "err": 0, "boundaries": 0}
    nontrivial = set()
    samples = []
    # ---- static: every mutating operation x spellings that try to get out
    static = []
    jid = 0
    for sp in SPELLINGS:
        for op in ({"k": "remove_all", "path": H(sp)}, {"k": "remove_file", "path": H(sp)}, {"k": "remove_dir", "path": H(sp)},
                   {"k": "create", "path": H(sp), "type": "file", "mode": 0o644}, {"k": "create", "path": H(sp), "type": "dir", "mode": 0o755},
                   {"k": "create", "path": H(sp), "type": "symlink", "target": H("x")}, {"k": "create", "path": H("a/hl"), "type": "hardlink", "target": H(sp)},
                   {"k": "create", "path": H(sp), "type": "hardlink", "target": H("a/b/f")}, {"k": "create", "path": H(sp), "type": "fifo", "mode": 0o644},
                   {"k": "create_file", "path": H(sp), "flags": O["WRONLY"] | O["TRUNC"], "mode": 0o600},
                   {"k": "mkdir_all", "path": H(sp), "mode": 0o755}, {"k": "mkdir_all", "path": H(sp + "/x/y"), "mode": 0o755},
                   {"k": "rename", "src": H(sp), "dst": H("a/moved"), "flags": 0}, {"k": "rename", "src": H("a/b/f"), "dst": H(sp), "flags": 0},
                   {"k": "rename", "src": H("d"), "dst": H(sp), "flags": 2}):
            jid += 1
            static.append({"id": jid, "tree": tree, "op": op, "snap": "all", "trace": False})
    for deny in (("openat2",), ()):
        tag = ",".join(deny) or "none"
        _, results, errs = run_driver_parallel(static, deny=deny, tag="c03s" + tag)
        byid = {j["id"]: j for j in static}
        for jid_, res in results.items():
            job = byid[jid_]
            r = res.get("res", {})
            if "setup_err" in r:
                continue
            stats["static"] += 1
            stats["by_op"][job["op"]["k"]] = stats["by_op"].get(job["op"]["k"], 0) + 1
            desc = {"job": J.describe({"op": job["op"]}), "resolver": "emulated" if deny else "openat2", "outcome": r}
            if "panic" in r:
                ck.violation("C03: a mutating operation panicked", desc)
                continue
            probs = foreign_ok(res.get("snap_before"), res.get("snap_after"), False)
            if probs:
                ck.violation("C03: a mutating operation touched an entry of a directory that was never inside the root", dict(desc, touched=probs[:10]))
            nontrivial.add((job["op"]["k"], str(job["op"].get("path", job["op"].get("src"))), tag))
    # ---- schedules
    base = S.flag_variants([{"id": i + 1, "tree": tree, "op": op, "snap": "all"} for i, op in enumerate(MUTATORS)])
    for deny in (("openat2",), ()):
        tag = ",".join(deny) or "none"
        _, bl, _ = run_driver_parallel(base, deny=deny, tag="c03b" + tag, shards=4)
        for b in bl.values():
            if foreign_ok(b.get("snap_before"), b.get("snap_after"), False):
                ck.violation("C03: baseline (no attacker) touched the outside", {"outcome": b.get("res")})
        jobs = S.make_jobs(base, bl, rng, thorough, max_per_job=None if thorough else 260, pairs=thorough)
        stats["boundaries"] += sum(len(S.boundaries(b["trace"])) for b in bl.values() if "trace" in b)
        for j in jobs:
            j["trace"] = False
        byid = {j["id"]: j for j in jobs}
        _, results, errs = run_driver_parallel(jobs, deny=deny, tag="c03" + tag)
        for jid_, res in results.items():
            job = byid[jid_]
            r = res.get("res", {})
            if "setup_err" in r or not res.get("attack_log"):
                continue
            stats["attacked"] += 1
            stats["by_op"][job["op"]["k"]] = stats["by_op"].get(job["op"]["k"], 0) + 1
            desc = {"job": J.describe({"op": job["op"]}), "attack": job["attack_desc"], "resolver": "emulated" if deny else "openat2",
                    "resolver_flags": "NO_SYMLINKS" if job.get("rflags") else "none", "outcome": r, "attack_log": res.get("attack_log")}
            if "panic" in r:
                ck.violation("C03: a mutating operation panicked under attack", desc)
                continue
            if "ok" in r or "unit" in r:
                stats["ok"] += 1
            else:
                stats["err"] += 1
            probs = foreign_ok(res.get("snap_before"), res.get("snap_after"), True)
            if probs:
                ck.violation("C03: under attack, a mutating operation touched an entry of a directory that was never inside the root",
                             dict(desc, touched=probs[:10]))
            fb = {e[0]: e[1:3] for e in res.get("fds_before", [])}
            fa = {e[0]: e[1:3] for e in res.get("fds_after", [])}
            ret_fd = r.get("ok", {}).get("fd") if "ok" in r else None
            if set(fa) - set(fb) - ({ret_fd} if ret_fd is not None else set()) or set(fb) - set(fa):
                ck.violation("C03/C11: descriptor table changed under attack", dict(desc, before=res.get("fds_before"), after=res.get("fds_after")))
            nontrivial.add((job["op"]["k"], str(job["op"].get("path", job["op"].get("src"))), job.get("rflags", 0), str(job["attack_desc"]["at"]), job["attack_desc"]["action"], tag))
            if len(samples) < 4 and "err" in r and r["err"]["kind"] == "SafetyViolation":
                samples.append(desc)
    cov = {
        "evaluations": stats["static"] + stats["attacked"],
        "distinct_nontrivial": len(nontrivial),
        "exhaustive": bool(thorough),
        "rule": "static: 15 mutating operation shapes x 21 path spellings aimed at the outside ('..', '.', '', absolute, through links to the root's "
                "parent / a sibling / a foreign file); schedules: 19 mutating calls (each also on a Root with NO_SYMLINKS when its path names no link) x %s relevant boundaries "
                "x 13 attacker actions (move out / up / to a place deeper than PATH_MAX, exchange with links, unlink)%s; both backends; "
                "oracle on the whole sandbox (root, its parent, sibling directories); distinct by (op, path | boundary+action, backend)"
                % ("all" if thorough else "sampled (260 per call)", " plus do/undo pairs" if thorough else ""),
        "samples": samples or [{"note": "none"}],
        "static_runs": stats["static"], "attacked_runs": stats["attacked"], "succeeded_under_attack": stats["ok"], "failed_under_attack": stats["err"],
        "op_histogram": stats["by_op"], "boundaries_in_baselines": stats["boundaries"],
    }
    assumptions = ["the attacker acts between system calls; the chain above the root is not renamed; attacker-moved directories are not re-populated "
                   "with foreign objects (DESIGN.md C02: A1-A3)",
                   "entries the attacker himself moved to the outside are not counted as touched by the library"]
    return cov, assumptions
