"""C09: reopen yields the same inode for any descriptor number and /proc state.

Proof: props/C09.v (creation flags refused, descriptor-number independence of
the magic-link name, single follow site, balance).  Tie T1: reopen traces are
replayed through the model.  Runtime oracle: identity (dev, ino) of the result
vs the handle, F_GETFL / FD_CLOEXEC, ELOOP for symlink handles, and the kernel's
own answer for a raw open of /proc/self/fd/N with the same flags."""
import random

import jobs as J
import model as M
from gen import H, O
from vlib import run_driver_parallel, coq_eval, warm_config, trace_to_coq, unhex, cb
import fsmodel as F

TREE = [["dir", H("root"), 0o755], ["dir", H("root/d"), 0o755], ["file", H("root/d/inner"), H("i"), 0o644],
        ["file", H("root/f"), H("content"), 0o644], ["fifo", H("root/p"), 0o644], ["symlink", H("root/l"), H("f")],
        ["sock", H("root/s")], ["chr", H("root/null")], ["dir", H("root/e"), 0o755], ["file", H("root/g"), H("other"), 0o600],
        ["symlink", H("root/dl"), H("d")]]
TARGETS = [("d", False, "dir"), ("f", False, "file"), ("p", False, "fifo"), ("l", True, "symlink"), ("l", False, "file"),
           ("s", False, "sock"), ("null", False, "chr"), ("e", False, "dir"), ("dl", True, "symlink")]
FDNUMS = [None, 0, 1, 2, 3, 64, 1023]


def histories(path, kind):
    p = "root/" + path
    hs = [[], [["rename", H(p), H("root/moved")]],
          [["rename", H(p), H("root/moved")], ["file", H(p), H("impostor"), 0o644]],     # replaced by a new file of the same name
          [["rename", H(p), H("root/moved")], ["symlink", H(p), H("g")]],                 # replaced by a symlink
          [["exchange", H(p), H("root/g")]]]
    if kind == "dir":
        hs.append([["rmdir", H(p)]] if path == "e" else [["rename", H(p), H("root/moved")], ["dir", H(p), 0o755]])
    else:
        hs.append([["unlink", H(p)]])
        hs.append([["unlink", H(p)], ["file", H(p), H("new"), 0o644]])
    return hs


def flagsets(rng, kind, n):
    out = []
    for _ in range(n):
        acc = rng.choice([O["RDONLY"], O["WRONLY"], O["RDWR"]])
        fl = acc
        if kind == "fifo":
            fl |= O["NONBLOCK"]
            if acc == O["WRONLY"]:
                fl = O["RDWR"] | O["NONBLOCK"]
        if rng.random() < 0.25:
            fl = O["PATH"]
        for name, p in (("APPEND", 0.2), ("NONBLOCK", 0.3), ("DIRECTORY", 0.2), ("NOFOLLOW", 0.3), ("NOATIME", 0.15),
                        ("CLOEXEC", 0.3), ("SYNC", 0.1), ("DSYNC", 0.1), ("NOCTTY", 0.1), ("LARGEFILE", 0.1)):
            if rng.random() < p:
                fl |= O[name]
        out.append(fl)
    out.append(O["RDONLY"] | O["CREAT"])
    out.append(O["WRONLY"] | O["CREAT"] | O["EXCL"])
    out.append(O["RDWR"] | O["TMPFILE"])
    out.append(O["RDONLY"] | O["EXCL"])
    return out


ACCMASK = 3
STATUS = O["APPEND"] | O["NONBLOCK"] | O["DIRECT"] | O["NOATIME"] | O["DSYNC"] | O["SYNC"] | O["DIRECTORY"] | O["PATH"]


def run(ck):
    rng = random.Random(ck.seed)
    thorough = ck.tier == "thorough"
    ps = M.sysctl_ps()
    jobs = []
    jid = 0
    for (path, nofollow, kind) in TARGETS:
        for hist in histories(path, kind):
            fsets = flagsets(rng, kind, 6 if thorough else 2)
            for fl in fsets:
                for fdnum in (FDNUMS if thorough else rng.sample(FDNUMS, 3) + [0]):
                    if kind == "dir" and fl & 3 and not fl & O["PATH"]:
                        pass   # EISDIR from the kernel: still compared with the raw oracle
                    jid += 1
                    op = {"k": "reopen", "path": H(path), "nofollow": nofollow, "flags": fl, "history": hist}
                    if fdnum is not None:
                        op["fdnum"] = fdnum
                    jobs.append({"id": jid, "tree": TREE, "op": op, "api": "c" if rng.random() < 0.3 else "rust",
                                 "meta": {"kind": kind, "fdnum": fdnum, "nhist": len(hist)}})
    # threads with a private descriptor table (unshare(CLONE_FILES)): the leader holds a decoy at the same number
    ujobs = []
    for path, fl in (("f", O["RDONLY"]), ("d", O["RDONLY"] | O["DIRECTORY"]), ("f", O["PATH"]), ("g", O["RDWR"])):
        jid += 1
        ujobs.append({"id": jid, "tree": TREE, "op": {"k": "reopen_unshared", "path": H(path), "flags": fl}})
    # "a NEW open file description": handles made from ordinary descriptors (Handle::from_fd / pathrs_reopen on a non-O_PATH fd),
    # reopened with exactly the flags they already have and with others; offsets and status flags must not be shared
    APPEND, NONBLOCK = 0o2000, 0o4000
    for path, hfl, fl in (("f", O["RDONLY"], O["RDONLY"]), ("f", O["RDWR"], O["RDWR"]), ("f", O["RDWR"] | APPEND, O["RDWR"] | APPEND),
                          ("f", O["WRONLY"], O["WRONLY"]), ("f", O["RDONLY"], O["RDWR"]), ("f", O["RDWR"], O["RDONLY"]),
                          ("f", O["RDONLY"] | NONBLOCK, O["RDONLY"] | NONBLOCK), ("g", O["RDONLY"], O["RDONLY"]),
                          ("d", O["RDONLY"] | O["DIRECTORY"], O["RDONLY"] | O["DIRECTORY"]), ("d", O["RDONLY"], O["RDONLY"])):
        jid += 1
        ujobs.append({"id": jid, "tree": TREE, "op": {"k": "reopen_ofd", "path": H(path), "hflags": hfl, "flags": fl}})
    byid = {j["id"]: j for j in jobs + ujobs}
    stats = {"runs": 0, "ok": 0, "eloop": 0, "refused": 0, "other_err": 0, "t1_ok": 0, "t1_bad": 0, "by_kind": {}, "by_fd": {}}
    nontrivial = set()
    samples = []
    cases = []
    kcases = []
    MKOPS, IDMAP = F.tree_to_mkops(TREE)
    REV_ID = {v: k for k, v in IDMAP.items()}
    for deny in ((), ("openat2",)):
        tag = ",".join(deny) or "none"
        _, results, errs = run_driver_parallel(jobs + ujobs, deny=deny, tag="c09" + tag)
        for jid, res in results.items():
            job = byid[jid]
            op = job["op"]
            r = res.get("res", {})
            if op["k"] == "reopen_ofd":
                if "setup_err" in r or not r.get("ok"):
                    continue
                stats["new_description_runs"] = stats.get("new_description_runs", 0) + 1
                d_ = {"resolver": "emulated procfs" if deny else "openat2", "handle_opened_with": oct(op["hflags"]), "reopened_with": oct(op["flags"]),
                      "path": unhex(op["path"]).decode(), "observed": r}
                if not r["same_inode"]:
                    ck.violation("C09: reopen of a handle made from an ordinary descriptor did not return the handle's inode", d_)
                elif r["handle_offset_after"] != r["handle_offset_before"] or r["handle_getfl_after"] != r["handle_getfl_before"]:
                    ck.violation("C09: reopen did not return a NEW open file description: seeking / F_SETFL on the result moved the "
                                 "handle's own offset / changed its status flags (the result aliases the handle)", d_)
                continue
            if op["k"] == "reopen_unshared":
                if "setup_err" in r or "res" not in r:
                    continue
                stats["unshared"] = stats.get("unshared", 0) + 1
                rr, h = r["res"], r["handle"]
                if "ok" not in rr or (rr["ok"]["dev"], rr["ok"]["ino"]) != (h["dev"], h["ino"]):
                    ck.violation("C09: reopen from a thread with a private descriptor table did not return the handle's inode "
                                 "(the thread-group leader holds another file at the same descriptor number)",
                                 {"job": J.describe(job), "deny": tag, "handle": h, "outcome": rr})
                continue
            if "setup_err" in r:
                continue
            stats["runs"] += 1
            kind = job["meta"]["kind"]
            stats["by_kind"][kind] = stats["by_kind"].get(kind, 0) + 1
            stats["by_fd"][str(job["meta"]["fdnum"])] = stats["by_fd"].get(str(job["meta"]["fdnum"]), 0) + 1
            fl = op["flags"]
            desc = {"job": J.describe(job), "fdnum": op.get("fdnum"), "history": op["history"], "deny": tag, "api": job["api"],
                    "outcome": r, "handle": res.get("handle"), "kernel_raw_reopen": res.get("oracle")}
            err = r.get("err") or ({"kind": "C", "errno": r["cerr"].get("errno")} if "cerr" in r else None)
            creation = bool(fl & (O["CREAT"] | O["EXCL"])) or (fl & O["TMPFILE"]) == O["TMPFILE"]
            hmode = res["handle"]["mode"] & 0o170000
            if "panic" in r:
                ck.violation("C09: reopen panicked", desc)
                continue
            if hmode == 0o120000:
                stats["eloop"] += 1
                if not err or err.get("errno") != 40:
                    ck.violation("C09: reopen of a handle that refers to a symlink did not fail with ELOOP", desc)
                continue
            if creation:
                stats["refused"] += 1
                bad = not err or (err["kind"] != "InvalidArgument" and not (err["kind"] == "C" and err.get("errno") == 22))
                if bad:
                    ck.violation("C09: reopen did not refuse creation flags (O_CREAT/O_EXCL/O_TMPFILE)", desc)
                continue
            orc = res.get("oracle", {})
            if "ok" in r:
                stats["ok"] += 1
                o = r["ok"]
                h = res["handle"]
                if (o["dev"], o["ino"]) != (h["dev"], h["ino"]):
                    ck.violation("C09: reopen returned a different inode than the handle refers to", desc)
                elif not o.get("getfd", 0) & 1:
                    ck.violation("C09: reopened descriptor is not close-on-exec", desc)
                elif (o["getfl"] & ACCMASK) != (fl & ACCMASK) and not fl & O["PATH"]:
                    ck.violation("C09: reopened descriptor has a different access mode than requested", desc)
                elif "ok" in orc and (o["getfl"] & STATUS) != (orc["ok"]["getfl"] & STATUS):
                    ck.violation("C09: reopened descriptor's status flags differ from a raw reopen with the same flags", desc)
                elif "errno" in orc:
                    ck.violation("C09: reopen succeeded where the kernel refuses the same reopen (errno %d)" % orc["errno"], desc)
                nontrivial.add((kind, fl, op.get("fdnum"), len(op["history"]), tag, "ok"))
            else:
                stats["other_err"] += 1
                if "ok" in orc:
                    ck.violation("C09: reopen failed (%s) although the object can be reopened with these flags" % (err,), desc)
                elif err and orc.get("errno") not in (None, err.get("errno")):
                    ck.violation("C09: reopen failed with errno %s, the kernel's own reopen gives %s" % (err.get("errno"), orc.get("errno")), desc)
                nontrivial.add((kind, fl, op.get("fdnum"), len(op["history"]), tag, str(err)))
            # "with the requested flags plus O_CLOEXEC|O_NOCTTY": judged on the call that does the reopen (the kernel does not keep
            # O_NOCTTY in the file flags, so F_GETFL cannot tell) -- the openat of the handle's fd magic-link by its decimal name
            hfd = (res.get("handle") or {}).get("fd")
            for ev in res.get("trace", []) or []:
                if ev["c"] == "openat" and hfd is not None and unhex(ev.get("path", "")) == str(hfd).encode() and not ev.get("flags", 0) & O["NOFOLLOW"]:
                    stats["reopen_calls_seen"] = stats.get("reopen_calls_seen", 0) + 1
                    missing = [n for n in ("CLOEXEC", "NOCTTY") if not ev["flags"] & O[n]]
                    if missing:
                        ck.violation("C09: the open that performs the reopen lacks O_%s" % "/O_".join(missing), dict(desc, call=ev))
                    if (ev["flags"] & ACCMASK) != (fl & ACCMASK) and not fl & O["PATH"]:
                        ck.violation("C09: the open that performs the reopen does not carry the requested access mode", dict(desc, call=ev))
            if len(samples) < 5 and op.get("fdnum") == 0 and op["history"]:
                samples.append(desc)
            # tie T2': the static kernel model's answers to reopen's own calls (fstat, the procfs reads, statx by name, the
            # follow-open) against the answers the running kernel gave -- plain files and directories, no history, openat2 present
            if (job["api"] == "rust" and not deny and not op["history"] and "ok" in r and job["meta"]["kind"] in ("file", "dir")
                    and not op.get("nofollow") and res.get("handle") and res.get("rootpath")):
                cfg0 = warm_config(res["_warm"])
                hid = REV_ID.get(H("root/" + {"l": "f"}.get(unhex(op["path"]).decode(), unhex(op["path"]).decode())))
                if cfg0.get("procfd") is not None and hid is not None:
                    kterm = (f"let s := build {MKOPS} in let '(bad, n) := agree_trace s {cb(res['rootpath'])} "
                             f"[({res['handle']['fd']}%Z, {hid}%nat); ({cfg0['procfd']}%Z, PB s)] {trace_to_coq(res['trace'])} 0 0 in [Z.of_N bad; Z.of_N n]")
                    kcases.append((len(kcases), kterm, desc, res["trace"]))
            if job["api"] == "rust" and rng.random() < (0.5 if thorough else 0.2):
                cfg = warm_config(res["_warm"])
                prog, enc = M.op_program(job, res, cfg, ps)
                if prog:
                    cases.append((len(cases), f"enc_replay_diag {enc} (run_trace ({prog}) {trace_to_coq(res['trace'])} 0)", job, res, tag))
    if not ck.proof_broken and kcases:
        kevals, kerrs = coq_eval([(c[0], c[1]) for c in kcases], header="From PV Require Import Static.\nFrom PV Require Import FSModel.", tag="c09k")
        if kerrs:
            ck.violation("T2': Coq evaluation of the static-kernel cases failed", {"log": kerrs[0][-1500:]}, False)
        for cid, term, desc, tr in kcases:
            got = kevals.get(cid)
            if got is None or len(got) != 2:
                continue
            stats["static_traces"] = stats.get("static_traces", 0) + 1
            stats["static_calls"] = stats.get("static_calls", 0) + got[1]
            if got[0] != 0:
                evs = [e for e in tr if e["c"] != "fcntl" or e.get("cmd") != 1]
                ck.violation("T2': the static kernel model disagrees with the answer the running kernel gave to a call of reopen",
                             dict(desc, call_index=got[0] - 1, around=evs[max(0, got[0] - 3):got[0] + 1]), False)
    if not ck.proof_broken:
        evals, cerrs = coq_eval([(c[0], c[1]) for c in cases], header="From PV Require Import Replay.", tag="c09")
        if cerrs:
            ck.violation("T1: Coq evaluation of the case files failed", {"log": cerrs[0][-1500:]}, False)
        for cid, term, job, res, tag in cases:
            rep = evals.get(cid)
            if rep is None:
                continue
            if rep[0] == 0 and M.outcome_matches(res, rep[2:]):
                stats["t1_ok"] += 1
            else:
                stats["t1_bad"] += 1
                at = rep[1] if len(rep) > 1 else -1
                tr = [e for e in res["trace"] if e["c"] != "fcntl" or e.get("cmd") != 1]
                ck.violation("T1: model and implementation disagree on reopen",
                             {"job": J.describe(job), "fdnum": job["op"].get("fdnum"), "deny": tag, "replay": rep,
                              "real_outcome": res.get("res"), "around": tr[max(0, at - 2):at + 2]}, False)
    cov = {
        "evaluations": stats["runs"],
        "distinct_nontrivial": len(nontrivial),
        "rule": "handles to {dir, file, fifo, socket, chr device, symlink (nofollow), symlink target} x histories "
                "{none, renamed, renamed+replaced by file, renamed+replaced by symlink, exchanged, unlinked, unlinked+recreated, rmdir} "
                "x flag sets (random access-mode/status products + the four creation-flag sets) x descriptor numbers "
                "{as returned, 0, 1, 2, 3, 64, 1023} x both kernel feature sets, Rust and C API; "
                "non-trivial = a run that reached the identity/flag comparison; distinct by (kind, flags, fd, history, feature set, outcome)",
        "samples": samples or [{"note": "none"}],
        "reopened_ok": stats["ok"], "symlink_eloop": stats["eloop"], "creation_refused": stats["refused"],
        "other_errors_compared_with_kernel": stats["other_err"],
        "unshared_fd_table_runs": stats.get("unshared", 0), "new_open_file_description_runs": stats.get("new_description_runs", 0),
        "by_inode_kind": stats["by_kind"], "by_descriptor_number": stats["by_fd"],
        "reopen_calls_whose_flags_were_judged": stats.get("reopen_calls_seen", 0),
        "static_kernel_traces_validated": stats.get("static_traces", 0), "static_kernel_calls_compared": stats.get("static_calls", 0),
        "traces_validated_against_impl": stats["t1_ok"], "t1_mismatches": stats["t1_bad"],
        "disagreements_checked": stats["t1_bad"],
    }
    assumptions = ["that /proc/<tid>/fd/N denotes the open file description itself (not its current name) is the kernel's "
                   "contract; it is exercised by the history runs, not proved",
                   "over-mounted host /proc states are exercised by C06's mount-namespace runs"]
    return cov, assumptions
