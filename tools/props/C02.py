"""C02: lookups never escape the root under any concurrent attacker schedule.

Proof: props/C02.v (structure of the emulated walk for all kernel answers: every
'..' step and every completed lookup is dominated by check_current; bounded
retry of the openat2 backend).  Runtime: deterministic preemption -- for each
scenario lookup the baseline trace is recorded, then for EVERY relevant
system-call boundary and every attacker action (move out, exchange with a link
to outside, exchange with a sibling, unlink; thorough: do/undo pairs) the
supervisor performs the action right before that call.  Oracle: a returned
object (or link body) belongs to an inode that was inside the root."""
import random

import jobs as J
import model as M
import sched as S
from gen import H, O
from vlib import run_driver_parallel, coq_eval, warm_config, trace_to_coq, unhex, cb

LOOKUPS = [
    {"k": "resolve", "path": H("a/b/../b/f")},
    {"k": "resolve", "path": H("a/b/c/../..")},
    {"k": "resolve", "path": H("a/b/c/../../b/c/g")},
    {"k": "resolve", "path": H("up/a/b")},
    {"k": "resolve", "path": H("l/../b/f"), "nofollow": True},
    {"k": "resolve", "path": H("abs/c/../f")},
    {"k": "resolve", "path": H("d/s/../e/h")},
    {"k": "open", "path": H("a/b/c/../f"), "flags": O["RDONLY"]},
    {"k": "open", "path": H("a/b/../.."), "flags": O["RDONLY"] | O["DIRECTORY"]},
    {"k": "open", "path": H("l/c/../../b/f"), "flags": O["PATH"]},
    {"k": "readlink", "path": H("a/b/../../l")},
    {"k": "readlink", "path": H("d/e/../s")},
    # a trailing link / file reached right after a '..': the names have host twins where the walk lands if a/b was moved out
    {"k": "resolve", "path": H("a/b/../hlink"), "nofollow": True},
    {"k": "readlink", "path": H("a/b/../hlink")},
    {"k": "open", "path": H("a/b/../hlink"), "flags": O["PATH"] | O["NOFOLLOW"]},
    {"k": "resolve", "path": H("a/b/../hlink")},
    {"k": "resolve", "path": H("a/b/c/../../hfile")},
    {"k": "open", "path": H("a/b/../hfile"), "flags": O["RDONLY"]},
    # a '..' that is expected to land on the root itself, and what is looked up from there
    {"k": "resolve", "path": H("a/..")},
    {"k": "open", "path": H("d/../."), "flags": O["PATH"] | O["DIRECTORY"]},
    {"k": "resolve", "path": H("a/../hfile")},
    {"k": "readlink", "path": H("d/../hlink")},
    # the LAST component is '..' and the lookup does not follow trailing links: whatever special-cases "the last component of a
    # no-follow lookup" must not special-case away the checks that a '..' needs
    {"k": "resolve", "path": H("a/b/.."), "nofollow": True},
    {"k": "resolve", "path": H("a/b/c/../.."), "nofollow": True},
    {"k": "open", "path": H("a/b/.."), "flags": O["PATH"] | O["NOFOLLOW"] | O["DIRECTORY"]},
    {"k": "open", "path": H("l/c/.."), "flags": O["RDONLY"] | O["NOFOLLOW"] | O["DIRECTORY"]},
    {"k": "resolve", "path": H("d/e/.."), "nofollow": True},
]


def run(ck):
    rng = random.Random(ck.seed)
    thorough = ck.tier == "thorough"
    ps = M.sysctl_ps()
    tree = S.scenario_tree()
    base = S.flag_variants([{"id": i + 1, "tree": tree, "op": op} for i, op in enumerate(LOOKUPS)])
    stats = {"runs": 0, "attacks_applied": 0, "ok": 0, "err": 0, "violation_kind": {}, "boundaries": 0, "t1_ok": 0, "t1_bad": 0, "by_action": {}}
    nontrivial = set()
    samples = []
    cases = []
    for deny in (("openat2",), ()):
        tag = ",".join(deny) or "none"
        _, bl, _ = run_driver_parallel(base, deny=deny, tag="c02b" + tag, shards=4)
        jobs = S.make_jobs(base, bl, rng, thorough, max_per_job=None if thorough else 420, pairs=thorough)
        stats["boundaries"] += sum(len(S.boundaries(b["trace"])) for b in bl.values() if "trace" in b)
        byid = {j["id"]: j for j in jobs}
        _, results, errs = run_driver_parallel(jobs, deny=deny, tag="c02" + tag)
        for jid, res in results.items():
            job = byid[jid]
            r = res.get("res", {})
            if "setup_err" in r:
                continue
            stats["runs"] += 1
            alog = res.get("attack_log", [])
            if not alog:
                continue            # the walk ended before that boundary: nothing was attacked
            stats["attacks_applied"] += 1
            act = job["attack_desc"]["action"]
            stats["by_action"][act] = stats["by_action"].get(act, 0) + 1
            inside = S.inside_idents(res, tree)
            desc = {"lookup": J.describe({"op": job["op"]}), "attack": job["attack_desc"], "resolver": "emulated" if deny else "openat2",
                    "outcome": r, "attack_log": alog}
            if "panic" in r:
                ck.violation("C02: lookup panicked under attack", desc)
                continue
            if "ok" in r:
                stats["ok"] += 1
                ident = (r["ok"]["dev"], r["ok"]["ino"])
                if ident not in inside:
                    ck.violation("C02: a lookup returned an object that was never inside the root", desc)
            elif "bytes" in r:
                stats["ok"] += 1
                body = unhex(r["bytes"])
                legit = {unhex(op[2]) for op in tree if op[0] == "symlink" and unhex(op[1]).startswith(b"root/")}
                if body not in legit:
                    ck.violation("C02: readlink returned the body of a link that was never inside the root", desc)
            else:
                stats["err"] += 1
            fb = {e[0]: e[1:3] for e in res.get("fds_before", [])}
            fa = {e[0]: e[1:3] for e in res.get("fds_after", [])}
            ret_fd = r.get("ok", {}).get("fd") if "ok" in r else None
            if set(fa) - set(fb) - ({ret_fd} if ret_fd is not None else set()) or set(fb) - set(fa):
                ck.violation("C02/C11: descriptor table changed under attack", dict(desc, before=res.get("fds_before"), after=res.get("fds_after")))
            nontrivial.add((job["op"]["k"], job["op"]["path"], str(job["attack_desc"]["at"]), act, tag, "ok" if ("ok" in r or "bytes" in r) else r.get("err", {}).get("kind")))
            if len(samples) < 5 and "err" in r and r["err"]["kind"] == "SafetyViolation":
                samples.append(desc)
            if job.get("api", "rust") == "rust" and rng.random() < (0.03 if thorough else 0.05):
                cfg = warm_config(res["_warm"])
                prog, enc = M.op_program(job, res, cfg, ps)
                if prog:
                    cases.append((len(cases), f"enc_replay_diag {enc} (run_trace ({prog}) {trace_to_coq(res['trace'])} 0)", job, res, tag))
    if not ck.proof_broken:
        evals, cerrs = coq_eval([(c[0], c[1]) for c in cases], header="From PV Require Import Replay.", tag="c02")
        if cerrs:
            ck.violation("T1: Coq evaluation of the case files failed", {"log": cerrs[0][-1500:]}, False)
        for cid, term, job, res, tag in cases:
            rep = evals.get(cid)
            if rep is None:
                continue
            if rep[0] == 0 and M.outcome_matches(res, rep[2:]):
                stats["t1_ok"] += 1
            else:
                stats["t1_bad"] += 1
                at = rep[1] if len(rep) > 1 else -1
                tr = [e for e in res["trace"] if e["c"] != "fcntl" or e.get("cmd") != 1]
                ck.violation("T1: model and implementation disagree on a lookup under attack",
                             {"lookup": J.describe({"op": job["op"]}), "attack": job["attack_desc"], "deny": tag, "replay": rep,
                              "real_outcome": res.get("res"), "around": tr[max(0, at - 2):at + 2]}, False)
    # ---- tie for the pure part of check_current: std::path equality and PathBuf::push against the model's path_eq / push_all
    pieces = ["/", "//", ".", "..", "a", "b", "root", "srv", "b (deleted)", "x.y", "...", " ", "a/b", "./", "/."]
    pairs = []
    for _ in range(1500 if thorough else 400):
        a = "".join(rng.choice(pieces) + rng.choice(["/", "/", "", "//"]) for _ in range(rng.randint(0, 5)))
        if rng.random() < 0.6:
            # a re-spelling of a (same components, different separators / dots) or a near miss
            bb = a.replace("/", rng.choice(["/", "//", "/./"]))
            bb = bb + rng.choice(["", "/", "/.", "/..", "x"])
        else:
            bb = "".join(rng.choice(pieces) + rng.choice(["/", ""]) for _ in range(rng.randint(0, 5)))
        comps = ["."] + [rng.choice(["a", "b", "x.y", "b (deleted)", "...", " "]) for _ in range(rng.randint(0, 3))]
        pairs.append((a, bb, comps))
    _, pres, _ = run_driver_parallel([{"id": 1, "op": {"k": "path_eq", "pairs": [[H(a), H(bb), [H(c) for c in comps]] for a, bb, comps in pairs]}, "trace": False}],
                                     tag="c02p", shards=1)
    eqs = (pres.get(1) or {}).get("res", {}).get("eqs", [])
    pcases = [(i, "[if path_eq %s %s then 1%%Z else 0%%Z] ++ map Z.of_N (push_all %s [%s])" % (cb(H(a)), cb(H(bb)), cb(H(a)), "; ".join(cb(H(c)) for c in comps)))
              for i, (a, bb, comps) in enumerate(pairs)]
    stats["path_pairs"] = 0
    if eqs and not ck.proof_broken:
        pev, perrs = coq_eval(pcases, header="From PV Require Import OpathM.", tag="c02p")
        if perrs:
            ck.violation("tie: Coq evaluation of the path cases failed", {"log": perrs[0][-1500:]}, False)
        for i, (a, bb, comps) in enumerate(pairs):
            got = pev.get(i)
            if got is None or i >= len(eqs):
                continue
            stats["path_pairs"] += 1
            std_eq, std_join = eqs[i][0], unhex(eqs[i][1])
            if bool(got[0]) != bool(std_eq):
                ck.violation("tie: the model's path_eq differs from std::path::Path equality", {"a": a, "b": bb, "std": std_eq, "model": bool(got[0])}, False)
            if bytes(got[1:]) != std_join:
                ck.violation("tie: the model's push_all differs from PathBuf::push", {"base": a, "pushed": comps, "std": std_join.decode("latin1"),
                                                                                    "model": bytes(got[1:]).decode("latin1")}, False)
    cov = {
        "evaluations": stats["runs"],
        "distinct_nontrivial": len(nontrivial),
        "exhaustive": bool(thorough),
        "rule": "27 lookups with '..'/symlink components (resolve, resolve_nofollow, open_subpath, readlink) on one scenario tree x %s relevant "
                "system-call boundaries of the baseline trace x 11 attacker actions (move a/b, a, d/e out of the root; move a/b up; exchange a/b, a, d, d/e, a/b/f "
                "with links to outside / '../..'; exchange with a sibling; unlink)%s, both backends; non-trivial = the attack was really applied "
                "before the walk ended; distinct by (lookup, boundary, action, backend, outcome)" % ("all" if thorough else "sampled (420 per lookup)",
                                                                                                      " plus do/undo pairs" if thorough else ""),
        "samples": samples or [{"note": "no SafetyViolation sample"}],
        "attacked_runs": stats["attacks_applied"], "still_succeeded": stats["ok"], "failed_safely": stats["err"],
        "boundaries_in_baselines": stats["boundaries"], "by_action": stats["by_action"],
        "path_comparisons_validated_against_std": stats["path_pairs"],
        "traces_validated_against_impl": stats["t1_ok"], "t1_mismatches": stats["t1_bad"], "disagreements_checked": stats["t1_bad"],
    }
    assumptions = ["the attacker acts between system calls (inside one openat2 the kernel's own RESOLVE_IN_ROOT guarantee is assumed)",
                   "the chain from the file-system root down to the root directory is not renamed (a moved root is documented as unsupported)",
                   "the attacker catalogue never populates a moved-out directory with foreign objects (DESIGN.md C02, assumption A3)"]
    return cov, assumptions
