"""C10: a failing system call anywhere inside an operation yields a clean error.

Proof: props/C10.v (panic sites, bounded EAGAIN loops, never-partial, for all
answers).  Tie T1: faulted traces are replayed through the model.  Runtime:
for every operation x scenario the baseline trace is measured, then single
faults are injected at (sampled / all) indices x errno catalogue; repeated
EAGAIN and descriptor exhaustion; cold start."""
import os
import random
import subprocess
import json

import jobs as J
import model as M
from gen import H, O
from vlib import run_driver_parallel, coq_eval, warm_config, trace_to_coq, DRIVER, ENV, RUN, unhex

CATALOGUE = [24, 23, 12, 13, 5, 4, 38, 11]   # EMFILE ENFILE ENOMEM EACCES EIO EINTR ENOSYS EAGAIN

TREE = [["dir", H("root"), 0o755], ["dir", H("outside"), 0o755], ["file", H("outside/secret"), H("s"), 0o644],
        ["dir", H("root/a"), 0o755], ["dir", H("root/a/b"), 0o755], ["file", H("root/a/b/f"), H("data"), 0o644],
        ["symlink", H("root/l"), H("a/b")], ["symlink", H("root/abs"), H("/a")], ["dir", H("root/d"), 0o755],
        ["dir", H("root/d/e"), 0o755], ["file", H("root/d/e/g"), H("x"), 0o644], ["symlink", H("root/d/s"), H("../../outside")],
        ["file", H("root/file"), H("hello"), 0o644], ["symlink", H("root/esc"), H("../outside/secret")]]

OPS = [
    {"k": "resolve", "path": H("l/../b/f")},
    {"k": "resolve", "path": H("abs/b/../b/f"), "nofollow": True},
    {"k": "open", "path": H("l/f"), "flags": O["RDONLY"]},
    {"k": "readlink", "path": H("a/../l")},
    {"k": "create", "path": H("a/new"), "type": "file", "mode": 0o644},
    {"k": "create", "path": H("l/hl"), "type": "hardlink", "target": H("file")},
    {"k": "create", "path": H("a/sl"), "type": "symlink", "target": H("../../outside")},
    {"k": "create_file", "path": H("a/b/cf"), "flags": O["WRONLY"], "mode": 0o600},
    {"k": "mkdir_all", "path": H("l/x/y/z"), "mode": 0o755},
    {"k": "remove_file", "path": H("a/b/f")},
    {"k": "remove_dir", "path": H("a/b")},
    {"k": "remove_all", "path": H("d")},
    {"k": "remove_all", "path": H("file")},          # a non-directory: when its unlink fails there is nothing to scan
    {"k": "remove_all", "path": H("a/b/f")},
    {"k": "rename", "src": H("file"), "dst": H("a/b/moved"), "flags": 0},
    {"k": "rename", "src": H("file"), "dst": H("a/b/f"), "flags": 1},          # RENAME_NOREPLACE onto an existing file: must fail
    {"k": "rename", "src": H("file"), "dst": H("a/b/moved2"), "flags": 1},
    {"k": "rename", "src": H("file"), "dst": H("l/f"), "flags": 2},            # RENAME_EXCHANGE
    {"k": "reopen", "path": H("file"), "flags": O["RDONLY"]},
    {"k": "reopen", "path": H("file"), "flags": O["PATH"]},
    {"k": "reopen", "path": H("a/b"), "flags": O["PATH"] | O["DIRECTORY"]},
    {"k": "proc_open", "base": "self", "path": H("status"), "flags": O["RDONLY"]},
    {"k": "proc_open", "base": "thread", "path": H("fd"), "flags": O["PATH"], "follow": True},
    {"k": "proc_readlink", "base": "self", "path": H("cwd")},
]


EFFECT_CALLS = {"mkdirat", "mknodat", "symlinkat", "linkat", "renameat", "renameat2", "unlinkat"}


def outside(snap):
    return [e for e in (snap or []) if not (unhex(e[0]).startswith(b"root/") or unhex(e[0]) == b"root")]


def strip_ids(snap):
    # [rel, mode, uid, dev, ino, nlink, size, body]: drop dev/ino (fresh per sandbox)
    return sorted((e[0], e[1], e[2], e[5], e[6], e[7]) for e in (snap or []))


KNOWN_PANICS = {
    "F-I-threadself": "candidate /proc/thread-self path should work",
    "F-I-sysctl": "should be able to parse fs.protected_symlinks",
    "F-I-globalprocfs": "should be able to get some /proc handle",
}


def all_constructors_failed(trace):
    """F-I is the panic of the first use of the global handle when *every* way of getting a /proc handle has failed: the last
    resort, open("/proc"), is only reached after fsopen and open_tree, so its failure in the trace is what identifies the finding.
    A panic with the same message after a failure of one constructor only is a different violation."""
    tree = [e for e in trace if e["c"] == "open_tree" and e["ret"] < 0]
    last = [e for e in trace if e["c"] == "openat" and e.get("fd") == -100 and unhex(e.get("path", "")) == b"/proc" and e["ret"] < 0]
    return bool(tree) and bool(last)


def classify_panic(ck, msg, trace):
    for f in ck.known:
        pat = f.get("match", {}).get("panic_contains")
        if pat and pat in msg and (f["id"] != "F-I-globalprocfs" or all_constructors_failed(trace or [])):
            return f
    return None


def run(ck):
    rng = random.Random(ck.seed)
    thorough = ck.tier == "thorough"
    ps = M.sysctl_ps()
    stats = {"runs": 0, "faulted": 0, "panics_known": 0, "ok_after_fault": 0, "err_after_fault": 0, "t1_ok": 0, "t1_bad": 0,
             "by_errno": {}, "by_op": {}, "eagain_runs": 0, "cold_runs": 0}
    samples = []
    cases = []
    nontrivial = set()
    for deny in ((), ("openat2",)):
        tag = ",".join(deny) or "none"
        # 1. baselines
        basejobs = []
        for i, op in enumerate(OPS):
            j = {"id": i, "tree": TREE, "op": op, "snap": "all"}
            if op["k"].startswith("proc_"):
                j = {"id": i, "op": op, "snap": "none"}
            basejobs.append(j)
        _, bres, _ = run_driver_parallel(basejobs, deny=deny, tag="c10b" + tag, shards=4)
        # 2. faulted runs
        fjobs = []
        jid = 1000
        for bj in basejobs:
            b = bres.get(bj["id"])
            if b is None:
                continue
            # the fault index counts fallible calls only
            L = sum(1 for e in b["trace"] if e["c"] not in ("gettid", "geteuid", "close") and not (e["c"] == "fcntl" and e.get("cmd") == 1))
            idxs = list(range(L))
            # the calls that do the work (create / remove / rename): always faulted, with every errno
            fall = [e for e in b["trace"] if e["c"] not in ("gettid", "geteuid", "close") and not (e["c"] == "fcntl" and e.get("cmd") == 1)]
            effect = {i for i, e in enumerate(fall) if e["c"] in EFFECT_CALLS or (e["c"] in ("openat", "openat2") and e.get("flags", 0) & O["CREAT"])}
            if not thorough:
                rng.shuffle(idxs)
                idxs = sorted(set(idxs[:max(6, min(len(idxs), 10 if L > 100 else L // 3))]) | effect)
            errnos = CATALOGUE if thorough else None
            for i in idxs:
                for e in (CATALOGUE if i in effect else (errnos or rng.sample(CATALOGUE, 2))):
                    jid += 1
                    j = dict(bj)
                    j["id"] = jid
                    j["policy"] = {"fault": {"at": i, "errno": e}}
                    j["base"] = bj["id"]
                    fjobs.append(j)
            # descriptor exhaustion from index i on
            for i in sorted(set([0, 1] + (idxs[::3] if thorough else idxs[:2]))):
                jid += 1
                j = dict(bj)
                j["id"] = jid
                j["policy"] = {"fault": {"at": i, "errno": 24, "sticky": True,
                                         "only": ["openat", "openat2", "fcntl", "fsopen", "fsmount", "open_tree"]}}
                j["base"] = bj["id"]
                fjobs.append(j)
            # repeated EAGAIN on openat2
            if not deny:
                for k in (1, 15, 16, 17):
                    jid += 1
                    j = dict(bj)
                    j["id"] = jid
                    j["policy"] = {"fault": {"at": 0, "errno": 11, "count": k, "only": ["openat2"]}}
                    j["base"] = bj["id"]
                    j["eagain"] = k
                    fjobs.append(j)
        byid = {j["id"]: j for j in fjobs}
        _, fres, errs = run_driver_parallel(fjobs, deny=deny, tag="c10f" + tag)
        for jid, res in fres.items():
            job = byid[jid]
            base = bres[job["base"]]
            stats["runs"] += 1
            r = res.get("res", {})
            injected = any(e.get("inj") for e in res.get("trace", []))
            if not injected:
                continue
            stats["faulted"] += 1
            k = job["op"]["k"]
            stats["by_op"][k] = stats["by_op"].get(k, 0) + 1
            en = job["policy"]["fault"]["errno"]
            stats["by_errno"][en] = stats["by_errno"].get(en, 0) + 1
            desc = {"job": J.describe(job), "deny": tag, "outcome": r}
            if res.get("runaway"):
                # only the sequences the property quantifies over are injected here (single faults, EAGAIN repeated, descriptor
                # exhaustion from an index on); the driver lifts a fault after 6000 calls of one operation and says so
                ck.violation("C10: the operation did not end while descriptor-creating calls kept failing: it went on issuing calls until the "
                             "fault was lifted (does not loop forever)", dict(desc, errno=en, runaway=res["runaway"],
                                                                                 last_calls=[e_["c"] for e_ in res.get("trace", [])[-12:]]))
                continue
            if "panic" in r:
                kf = classify_panic(ck, r["panic"], res.get("trace"))
                if kf:
                    stats["panics_known"] += 1
                    ck.known_finding(kf["id"], kf["what"])
                else:
                    ck.violation("C10: operation panicked under an injected fault: " + r["panic"][:200], desc)
                continue
            if res.get("wall_ms", 0) > 20000:
                ck.violation("C10: operation took %d ms under an injected fault (looping?)" % res["wall_ms"], desc)
            if res.get("snap_before") is not None and outside(res["snap_before"]) != outside(res["snap_after"]):
                ck.violation("C10: something outside the root changed under an injected fault", desc)
            fb = {e[0]: e[1:3] for e in res.get("fds_before", [])}
            fa = {e[0]: e[1:3] for e in res.get("fds_after", [])}
            ret_fd = r.get("ok", {}).get("fd") if "ok" in r else None
            if set(fa) - set(fb) - ({ret_fd} if ret_fd is not None else set()) or set(fb) - set(fa):
                ck.violation("C10: descriptor table changed under an injected fault", dict(desc, before=res.get("fds_before"), after=res.get("fds_after")))
            succeeded = "ok" in r or "unit" in r or "bytes" in r
            if succeeded:
                stats["ok_after_fault"] += 1
                # reported success => the work was done: same effect and same kind of result as the unfaulted run
                br = base.get("res", {})
                bsucc = "ok" in br or "unit" in br or "bytes" in br
                if not bsucc:
                    ck.violation("C10: success reported under a fault although the unfaulted call fails", dict(desc, baseline=br))
                elif res.get("snap_after") is not None and strip_ids(res["snap_after"]) != strip_ids(base["snap_after"]):
                    ck.violation("C10: success reported but the resulting tree differs from the unfaulted run "
                                 "(work not done)", dict(desc, tree=strip_ids(res["snap_after"]), expected=strip_ids(base["snap_after"])))
                elif "bytes" in r and r["bytes"] != br.get("bytes"):
                    ck.violation("C10: success reported with a different result than the unfaulted run", dict(desc, baseline=br))
                elif "ok" in r and "ok" in br and (r["ok"].get("mode"), r["ok"].get("getfl")) != (br["ok"].get("mode"), br["ok"].get("getfl")):
                    ck.violation("C10: success reported with a different kind of descriptor than the unfaulted run", dict(desc, baseline=br))
            else:
                stats["err_after_fault"] += 1
            if "eagain" in job:
                stats["eagain_runs"] += 1
                kk = job["eagain"]
                n_o2 = sum(1 for e in res["trace"] if e["c"] == "openat2")
                hit = sum(1 for e in res["trace"] if e.get("inj"))
                err = r.get("err", {})
                if hit >= 16 and kk >= 16 and not k.startswith("proc_") and k != "reopen":
                    # (procfs open_follow deliberately falls back to a non-following open when its
                    #  readlink step fails, so a different error -- or success -- is legitimate there)
                    if err.get("kind") != "SafetyViolation":
                        ck.violation("C10: 16 EAGAINs from openat2 did not surface as a SafetyViolation", desc)
                elif err.get("errno") == 11:
                    ck.violation("C10: EAGAIN from openat2 surfaced as an OS error instead of being retried", desc)
                if "ok" in r and False:
                    pass
            nontrivial.add((k, tag, en, job["policy"]["fault"].get("at"), "ok" if succeeded else str(r.get("err", {}).get("kind"))))
            if len(samples) < 6 and rng.random() < 0.02:
                samples.append({"job": J.describe(job), "deny": tag, "outcome": r})
            # T1 on a sample of the faulted traces
            if job.get("api", "rust") == "rust" and rng.random() < (0.5 if thorough else 0.25):
                cfg = warm_config(res["_warm"])
                prog, enc = M.op_program(job, res, cfg, ps)
                if prog is not None:
                    cases.append((len(cases), f"enc_replay_diag {enc} (run_trace ({prog}) {trace_to_coq(res['trace'])} 0)", job, res, tag))
        # 3. cold start: a fault during the first-use initialisation of the globals
        nfault = 140 if thorough else 24
        procs = []
        os.makedirs(RUN, exist_ok=True)
        # what the process does AFTER a faulted first use: whatever the library caches at first use (kernel-feature probes, the
        # procfs handle, sysctl values) must not be poisoned by one transient failure -- the same lookups answer as in a
        # process whose warm-up was not disturbed
        probes = [{"id": 1, "tree": TREE, "op": {"k": "resolve", "path": H("l/../b/f")}, "trace": False},
                  {"id": 2, "tree": TREE, "op": {"k": "reopen", "path": H("file"), "flags": O["RDONLY"]}, "trace": False},
                  {"id": 3, "tree": TREE, "op": {"k": "mkdir_all", "path": H("a/x/y"), "mode": 0o755}, "trace": False},
                  {"id": 4, "tree": TREE, "op": {"k": "rename", "src": H("a/b/f"), "dst": H("file"), "flags": 1}, "trace": False},
                  {"id": 5, "tree": TREE, "op": {"k": "rename", "src": H("a/b/f"), "dst": H("file"), "flags": 2}, "trace": False},
                  {"id": 6, "op": {"k": "proc_readlink", "base": "self", "path": H("exe")}, "trace": False},
                  {"id": 7, "tree": TREE, "op": {"k": "readlink", "path": H("esc")}, "trace": False}]
        probe_text = "".join(json.dumps(j) + "\n" for j in probes)

        def pclass(r):
            if "err" in r:
                return ("err", r["err"]["kind"], r["err"]["errno"])
            if "panic" in r:
                return ("panic",)
            return ("ok",) + (("bytes", r["bytes"]) if "bytes" in r else ())
        jf0 = os.path.join(RUN, f"c10cold.{os.getpid()}.{tag}.base.jobs")
        open(jf0, "w").write(probe_text)
        subprocess.run([DRIVER] + (["--deny", ",".join(deny)] if deny else []) + [jf0, jf0 + ".out"], stdout=subprocess.DEVNULL,
                       stderr=subprocess.DEVNULL, env=ENV, timeout=120)
        probe_base = {}
        try:
            for line in open(jf0 + ".out"):
                rec = json.loads(line)
                if rec.get("id") != "warmup":
                    probe_base[rec["id"]] = pclass(rec.get("res", {}))
        except OSError:
            pass
        for f_ in (jf0, jf0 + ".out"):
            try:
                os.remove(f_)
            except OSError:
                pass
        plan = []
        for at in range(nfault):
            for en in ((24, 5, 13) if thorough else (rng.choice(CATALOGUE),)):
                plan.append((at, en, ""))
        for at in range(12 if thorough else 8):
            plan.append((at, 24, ":s"))        # descriptor exhaustion from the at-th descriptor-creating call on
        for pi, (at, en, sticky) in enumerate(plan):
            if True:
                jf = os.path.join(RUN, f"c10cold.{os.getpid()}.{tag}.{at}.{en}{sticky.replace(':', '')}.jobs")
                of = jf + ".out"
                open(jf, "w").write("" if sticky else probe_text)
                cmd = [DRIVER] + (["--deny", ",".join(deny)] if deny else []) + ["--warm-fault", f"{at}:{en}{sticky}", jf, of]
                procs.append((at, en, jf, of, subprocess.Popen(cmd, stdout=subprocess.DEVNULL, stderr=subprocess.DEVNULL, env=ENV)))
            if len(procs) >= 16 or pi == len(plan) - 1:
                for at2, en2, jf, of, p in procs:
                    try:
                        p.wait(timeout=60)
                    except subprocess.TimeoutExpired:
                        p.kill()
                        ck.violation("C10: cold start with a fault at call %d (errno %d) did not finish" % (at2, en2), {"deny": tag})
                    after = {}
                    try:
                        lines = open(of).read().splitlines()
                        w = json.loads(lines[0])
                        for line in lines[1:]:
                            rec = json.loads(line)
                            after[rec["id"]] = pclass(rec.get("res", {}))
                    except Exception:
                        w = None
                    for f_ in (jf, of):
                        try:
                            os.remove(f_)
                        except OSError:
                            pass
                    if w is None:
                        ck.violation("C10: process died during cold start with a fault at call %d (errno %d)" % (at2, en2), {"deny": tag})
                        continue
                    stats["cold_runs"] += 1
                    if after and probe_base and "panic" not in w.get("res", {}):
                        stats["cold_probe_runs"] = stats.get("cold_probe_runs", 0) + 1
                        for pid_, want in probe_base.items():
                            got_ = after.get(pid_)
                            if got_ != want and got_ is not None and got_[0] == "err":
                                # fail-closed degradation (e.g. ENOSYS from the statx of the procfs handle's mount id at first use is
                                # tolerated as "no mount ids", after which every verified lookup fails with EXDEV): every later
                                # operation still "returns an error"; not what C10 is about -- counted, not reported
                                stats["degraded_after_cold_fault"] = stats.get("degraded_after_cold_fault", 0) + 1
                                continue
                            if got_ != want:
                                ck.violation("C10: after one fault during first-use initialisation, a later operation of the same process panics or reports a "
                                             "success that differs from an undisturbed process' (state cached at first use was poisoned)",
                                             {"deny": tag, "fault_at": at2, "errno": en2, "faulted_call": (w.get("trace") or [{}] * (at2 + 1))[at2].get("c") if len(w.get("trace") or []) > at2 else None,
                                              "operation": J.describe({"op": probes[pid_ - 1]["op"]}), "undisturbed": want, "after_the_fault": after.get(pid_)})
                                break
                    if "panic" in w.get("res", {}):
                        kf = classify_panic(ck, w["res"]["panic"], w.get("trace"))
                        if kf:
                            stats["panics_known"] += 1
                            ck.known_finding(kf["id"], kf["what"])
                        else:
                            ck.violation("C10: first-use initialisation panicked under an injected fault: " + w["res"]["panic"][:200],
                                         {"deny": tag, "fault_at": at2, "errno": en2})
                procs = []
    # T1
    if not ck.proof_broken:
        evals, cerrs = coq_eval([(c[0], c[1]) for c in cases], header="From PV Require Import Replay.", tag="c10")
        if cerrs:
            ck.violation("T1: Coq evaluation of the case files failed", {"log": cerrs[0][-1500:]}, False)
        for cid, term, job, res, tag in cases:
            rep = evals.get(cid)
            if rep is None:
                continue
            if rep[0] == 0 and M.outcome_matches(res, rep[2:]):
                stats["t1_ok"] += 1
            else:
                stats["t1_bad"] += 1
                at = rep[1] if len(rep) > 1 else -1
                tr = [e for e in res["trace"] if e["c"] != "fcntl" or e.get("cmd") != 1]
                ck.violation("T1: model and implementation disagree under an injected fault (op %s)" % job["op"]["k"],
                             {"job": J.describe(job), "deny": tag, "replay": rep, "real_outcome": res.get("res"),
                              "around": tr[max(0, at - 2):at + 2]}, False)
    cov = {
        "evaluations": stats["runs"] + stats["cold_runs"],
        "distinct_nontrivial": len(nontrivial),
        "rule": "17 operations x fixed scenario tree x both kernel feature sets; for each the baseline trace is measured and a "
                "single fault is injected at %s fallible call indices x errnos of {EMFILE ENFILE ENOMEM EACCES EIO EINTR ENOSYS EAGAIN}, "
                "plus EMFILE-from-index-onwards, EAGAINx{1,15,16,17} on openat2 and cold-start faults in fresh processes; "
                "non-trivial = the fault was actually delivered; distinct by (op, feature set, errno, index, outcome kind)"
                % ("all" if thorough else "a sample of"),
        "exhaustive": bool(thorough),
        "samples": samples or [{"note": "none sampled"}],
        "faults_delivered": stats["faulted"],
        "ok_after_fault": stats["ok_after_fault"],
        "err_after_fault": stats["err_after_fault"],
        "known_panics_seen": stats["panics_known"],
        "eagain_sequence_runs": stats["eagain_runs"],
        "cold_start_runs": stats["cold_runs"],
        "cold_start_runs_followed_by_probe_operations": stats.get("cold_probe_runs", 0),
        "later_operations_failing_closed_after_a_cold_start_fault": stats.get("degraded_after_cold_fault", 0),
        "traces_validated_against_impl": stats["t1_ok"],
        "t1_mismatches": stats["t1_bad"],
        "by_errno": stats["by_errno"],
        "by_op": stats["by_op"],
        "disagreements_checked": stats["t1_bad"],
    }
    assumptions = ["faults are injected at system-call granularity by the supervisor; calls that cannot fail (gettid, geteuid, close, "
                   "the debug-only fcntl(F_GETFD)) are never chosen",
                   "ENOENT/EEXIST/ENOTDIR are not in the catalogue: injecting them is lying about the file system",
                   "'no success for work not done' is judged against the unfaulted run of the same job on an identical tree"]
    return cov, assumptions
