"""C15: the emulated resolver enforces fs.protected_symlinks exactly like the kernel.

Proof: props/C15.v (the decision rule for all uids/modes; position handling).
Correspondence: for every combination of directory mode x directory owner x link
owner x caller uid x link position x sysctl value, the emulated backend, the
kernel's raw openat2 (as that uid) and the Coq rule are compared."""
import itertools
import random

from gen import H, O
from vlib import run_driver, coq_eval, cb

COQ_TARGETS = ("theories/FSModel.vo", "theories/Symlinks.vo", "theories/OpathM.vo", "proofs/SymlinkProofs.vo")
UIDS = [0, 2000, 3000, 4000]
SYSCTL = "/proc/sys/fs/protected_symlinks"
RES = 16 | 2


REST = {"trailing": [], "intermediate": ["f"], "trailing-of-body": [], "trailing-with-slash": [""], "trailing-with-slashes": ["", ""],
        "before-dot": ["."]}


def tree_for(dmode, duid, luid):
    # root/d: the directory under test; inside: target file, a link to it, a link to a sub-directory, a link whose body ends in another link
    return [["dir", H("root"), 0o755], ["dir", H("root/d"), 0o777], ["file", H("root/d/target"), H("t"), 0o644],
            ["dir", H("root/d/sub"), 0o755], ["file", H("root/d/sub/f"), H("f"), 0o644],
            ["symlink", H("root/d/lnk"), H("target")], ["symlink", H("root/d/dlnk"), H("sub")], ["symlink", H("root/d/ll"), H("lnk")],
            ["chown", H("root/d/lnk"), luid, luid], ["chown", H("root/d/dlnk"), luid, luid], ["chown", H("root/d/ll"), luid, luid],
            ["chown", H("root/d"), duid, duid], ["chmod", H("root/d"), dmode]]


POSITIONS = {"trailing": "d/lnk", "intermediate": "d/dlnk/f", "trailing-of-body": "d/ll",
             "trailing-with-slash": "d/dlnk/", "trailing-with-slashes": "d/dlnk//", "before-dot": "d/dlnk/."}


def run(ck):
    rng = random.Random(ck.seed)
    saved = open(SYSCTL).read().strip()
    stats = {"combos": 0, "kernel_eacces": 0, "emu_eacces": 0, "rule_checked": 0}
    nontrivial = set()
    samples = []
    cases = []
    try:
        for sysctl in (1, 0):
            open(SYSCTL, "w").write(str(sysctl))
            jobs, meta = [], {}
            jid = 0
            for dmode, duid, luid, caller, pos in itertools.product([0o1777, 0o777, 0o1755, 0o755], [0, 2000, 3000], [0, 2000, 3000],
                                                                    [0, 2000, 4000], POSITIONS):
                tree = tree_for(dmode, duid, luid)
                base = jid
                jid += 1
                jobs.append({"id": jid, "tree": tree, "op": {"k": "resolve", "path": H(POSITIONS[pos])}, "as_uid": caller})
                jid += 1
                jobs.append({"id": jid, "tree": tree, "op": {"k": "raw_openat2", "path": H(POSITIONS[pos]), "flags": O["PATH"], "resolve": RES}, "as_uid": caller})
                meta[base] = (dmode, duid, luid, caller, pos, jid - 1, jid)
            # emulated library run (openat2 denied during warm-up => emulated backend for the whole process) and raw kernel run
            rc, out, res_e = run_driver(jobs, deny=("openat2",), tag="c15e%d" % sysctl)
            rc2, out2, res_k = run_driver([j for j in jobs if j["op"]["k"] == "raw_openat2"], tag="c15k%d" % sysctl)
            by_e = {r["id"]: r for r in res_e if r.get("id") != "warmup"}
            by_k = {r["id"]: r for r in res_k if r.get("id") != "warmup"}
            for base, (dmode, duid, luid, caller, pos, lid, kid) in meta.items():
                le, kk = by_e.get(lid), by_k.get(kid)
                if not le or not kk:
                    continue
                re_, rk = le.get("res", {}), kk.get("res", {})
                if "setup_err" in re_ or "setup_err" in rk:
                    continue
                stats["combos"] += 1

                def cls(r):
                    if "ok" in r:
                        return "ok"
                    if "err" in r:
                        return "err:%s" % r["err"]["errno"]
                    return str(r)[:40]
                ce, ckn = cls(re_), cls(rk)
                stats["kernel_eacces"] += ckn == "err:13"
                stats["emu_eacces"] += ce == "err:13"
                desc = {"sysctl": sysctl, "dir_mode": oct(dmode), "dir_uid": duid, "link_uid": luid, "caller_uid": caller, "position": pos,
                        "path": POSITIONS[pos], "kernel": ckn, "emulated": ce}
                if ce != ckn:
                    ck.violation("C15: the emulated resolver and the kernel disagree on following a symlink under fs.protected_symlinks", desc)
                nontrivial.add((sysctl, dmode, duid, luid, caller, pos, ckn))
                if len(samples) < 6 and ckn == "err:13":
                    samples.append(desc)
                # the Coq rule on the same arguments (trailing positions are where the kernel applies it)
                # the components still to walk after the link decide whether its position is trailing: by the kernel's notion for
                # the kernel's rule, by the library's own (ps_trailing, shaped by T0) for the library's
                rest = "[" + "; ".join(cb(H(c)) for c in REST[pos]) + "]"
                term = (f"[if k_may_follow {sysctl} {caller} {dmode} {duid} {luid} (k_trailing {rest}) then 1%Z else 0%Z; "
                        f"if emu_may_follow {sysctl} {caller} {dmode} {duid} {luid} (ps_trailing {rest}) then 1%Z else 0%Z]")
                cases.append((len(cases), term, ckn, ce, desc))
    finally:
        open(SYSCTL, "w").write(saved)
    if not ck.proof_broken:
        evals, cerrs = coq_eval([(c[0], c[1]) for c in cases], header="From PV Require Import FSModel Symlinks OpathM SymlinkProofs.", tag="c15")
        if cerrs:
            ck.violation("correspondence: Coq evaluation of the rule failed", {"log": cerrs[0][-1500:]}, False)
        for cid, term, ckn, ce, desc in cases:
            got = evals.get(cid)
            if got is None:
                continue
            stats["rule_checked"] += 1
            if (got[0] == 1) != (ckn != "err:13"):
                ck.violation("T2: the model of the kernel's protected_symlinks rule disagrees with the running kernel", dict(desc, model_allows=bool(got[0])), False)
            if (got[1] == 1) != (ce != "err:13"):
                ck.violation("T2: the model of the emulated rule disagrees with the library", dict(desc, model_allows=bool(got[1])), False)
    cov = {
        "evaluations": stats["combos"],
        "distinct_nontrivial": len(nontrivial),
        "exhaustive": True,
        "rule": "directory mode {1777, 0777, 1755, 0755} x directory owner {0, 2000, 3000} x link owner {0, 2000, 3000} x caller uid {0, 2000, 4000} "
                "x link position {trailing, intermediate, trailing of a trailing link's body, trailing + '/', trailing + '//', before '/.'} x sysctl {1, 0} = 1296 combinations, all run: emulated "
                "backend as that uid vs the kernel's raw openat2 as that uid vs the Coq rules; distinct by (all parameters, kernel outcome)",
        "samples": samples or [{"note": "none"}],
        "kernel_refusals": stats["kernel_eacces"], "emulated_refusals": stats["emu_eacces"], "rule_evaluations_in_coq": stats["rule_checked"],
        "traces_validated_against_impl": stats["rule_checked"], "disagreements_checked": 0,
    }
    assumptions = ["fs.protected_symlinks is set by the check for its duration and restored afterwards (root in a private VM)",
                   "calls run on a thread whose effective uid was changed with a raw setresuid (per-thread credentials); untraced",
                   "the sysctl is cached by the library at first use: each sysctl value gets its own driver process"]
    return cov, assumptions
