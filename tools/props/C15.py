"""C15: the emulated resolver enforces fs.protected_symlinks exactly like the kernel.

Proof: props/C15.v (the decision rule for all uids/modes; position handling).
Correspondence: for every combination of directory mode x directory owner x link
owner x caller uid x link position x sysctl value, the emulated backend, the
kernel's raw openat2 (as that uid) and the Coq rule are compared."""
import itertools
import random

from gen import H, O
import concurrent.futures

from vlib import run_driver, coq_eval, cb, unhex

COQ_TARGETS = ("theories/FSModel.vo", "theories/Symlinks.vo", "theories/OpathM.vo", "proofs/SymlinkProofs.vo")
UIDS = [0, 2000, 3000, 4000]
SYSCTL = "/proc/sys/fs/protected_symlinks"
RES = 16 | 2


REST = {"trailing": [], "intermediate": ["f"], "trailing-of-body": [], "trailing-with-slash": [""], "trailing-with-slashes": ["", ""],
        "before-dot": ["."]}


def tree_for(dmode, duid, luid):
    # root/d: the directory under test; inside: target file, a link to it, a link to a sub-directory, a link whose body ends in another link
    return [["dir", H("root"), 0o755], ["dir", H("root/d"), 0o777], ["file", H("root/d/target"), H("t"), 0o644],
            ["dir", H("root/d/sub"), 0o755], ["file", H("root/d/sub/f"), H("f"), 0o644],
            ["symlink", H("root/d/lnk"), H("target")], ["symlink", H("root/d/dlnk"), H("sub")], ["symlink", H("root/d/ll"), H("lnk")],
            ["chown", H("root/d/lnk"), luid, luid], ["chown", H("root/d/dlnk"), luid, luid], ["chown", H("root/d/ll"), luid, luid],
            ["chown", H("root/d"), duid, duid], ["chmod", H("root/d"), dmode]]


POSITIONS = {"trailing": "d/lnk", "intermediate": "d/dlnk/f", "trailing-of-body": "d/ll",
             "trailing-with-slash": "d/dlnk/", "trailing-with-slashes": "d/dlnk//", "before-dot": "d/dlnk/."}


def first_read_fails(ck, rng, stats):
    """The library reads the sysctl at first use and caches it.  A transient failure of that first read must not change what
    later lookups do: in a fresh process the warm-up lookup (through a trailing link, emulated backend) gets one fault at every
    call around its read of /proc/sys/fs/protected_symlinks; the lookups that follow must answer as in the unfaulted process."""
    combos = [(0o1777, 0, 3000, 2000, "trailing"), (0o1777, 0, 3000, 2000, "trailing-of-body"), (0o1777, 0, 2000, 2000, "trailing"),
              (0o1777, 0, 3000, 2000, "intermediate"), (0o777, 0, 3000, 2000, "trailing")]
    jobs = [{"id": i + 1, "tree": tree_for(dm, du, lu), "op": {"k": "resolve", "path": H(POSITIONS[pos])}, "as_uid": ca}
            for i, (dm, du, lu, ca, pos) in enumerate(combos)]
    rc, out, base = run_driver(jobs, deny=("openat2",), tag="c15f")
    warm = next((r for r in base if r.get("id") == "warmup"), None)
    want = {r["id"]: outcome(r.get("res", {})) for r in base if r.get("id") != "warmup"}
    if not warm or "trace" not in warm or "err:13" not in want.values():
        return
    tr = warm["trace"]
    hits = [e["i"] for e in tr if b"protected_symlinks" in unhex(e.get("path", "")) or unhex(e.get("path", "")) in (b"sys", b"fs")]
    if not hits:
        return
    lo, hi = max(0, min(hits) - 3), min(len(tr) - 1, max(hits) + 8)
    thorough = ck.tier == "thorough"
    plan = [(at, en) for at in range(lo, hi + 1) for en in ((24, 5, 12, 4) if thorough else (24, 5))]
    if not thorough:
        # always the calls that name the sysctl itself and their neighbours; a sample of the rest
        core = {i + d for i in hits for d in (0, 1, 2, 3) if b"protected_symlinks" in unhex(tr[i].get("path", ""))}
        plan = [p_ for p_ in plan if p_[0] in core] + rng.sample([p_ for p_ in plan if p_[0] not in core], 12)

    def one(arg):
        at, en = arg
        return at, en, run_driver(jobs, deny=("openat2",), tag="c15f%d_%d" % (at, en), extra_args=["--warm-fault", "%d:%d" % (at, en)], timeout=120)
    with concurrent.futures.ThreadPoolExecutor(max_workers=8) as ex:
        for at, en, (rc_, out_, res_) in ex.map(one, plan):
            got = {r["id"]: outcome(r.get("res", {})) for r in res_ if r.get("id") != "warmup"}
            stats["first_read_faults"] = stats.get("first_read_faults", 0) + 1
            if not got:
                ck.violation("C15: the process did not survive a single fault during the first read of fs.protected_symlinks",
                             {"fault_at_call": at, "errno": en, "call": tr[at]["c"], "rc": rc_, "out": out_[-300:]})
                continue
            for jid, w in want.items():
                # the rule is what is judged: a protected link that is now followed, or a harmless one that is now refused by the
                # rule; other errors after a fault (the lookup failing closed for an unrelated reason) are not this property's
                if (w, got.get(jid)) in (("err:13", "ok"), ("ok", "err:13")):
                    dm, du, lu, ca, pos = combos[jid - 1]
                    ck.violation("C15: after one failed read of fs.protected_symlinks (at first use) later lookups no longer follow the kernel's rule",
                                 {"fault_at_call": at, "errno": en, "faulted_call": {k: v for k, v in tr[at].items() if k in ("c", "path", "fd")},
                                  "sysctl": 1, "dir_mode": oct(dm), "dir_uid": du, "link_uid": lu, "caller_uid": ca, "position": pos,
                                  "path": POSITIONS[pos], "unfaulted_process": w, "after_the_fault": got.get(jid)})
                    break


def hops(ck, stats, nontrivial):
    """The directory that matters is the one HOLDING the link that is judged, wherever the walk came from: the judged link is
    reached through another (harmless, caller-owned) link that sits in a directory of the opposite kind -- with an absolute body,
    a relative body leading up and over, and with the judged link directly in the root (whose mode is varied too).  Kernel's raw
    openat2 as that uid vs the emulated backend as that uid, sysctl = 1."""
    jobs, meta = [], {}
    jid = 0
    for dmode, rmode, luid, caller in itertools.product([0o1777, 0o755], [0o755, 0o1777], [3000, 2000], [2000, 4000]):
        emode = 0o755 if dmode == 0o1777 else 0o1777
        tree = [["dir", H("root"), 0o755], ["dir", H("root/d"), 0o777], ["dir", H("root/e"), 0o777], ["file", H("root/d/target"), H("t"), 0o644],
                ["symlink", H("root/d/lnk"), H("target")], ["symlink", H("root/rl"), H("d/target")],
                ["symlink", H("root/e/h_abs"), H("/d/lnk")], ["symlink", H("root/e/h_rel"), H("../d/lnk")], ["symlink", H("root/e/h_root"), H("/rl")],
                ["symlink", H("root/d/h_root"), H("/rl")], ["symlink", H("root/e/h_up"), H("../rl")],
                ["chown", H("root/d/lnk"), luid, luid], ["chown", H("root/rl"), luid, luid]] + \
               [["chown", H("root/" + h), caller, caller] for h in ("e/h_abs", "e/h_rel", "e/h_root", "d/h_root", "e/h_up")] + \
               [["chmod", H("root/d"), dmode], ["chmod", H("root/e"), emode], ["chmod", H("root"), rmode]]
        for path in ("e/h_abs", "e/h_rel", "e/h_root", "d/h_root", "e/h_up", "rl", "d/lnk"):
            base = jid
            jid += 1
            jobs.append({"id": jid, "tree": tree, "op": {"k": "resolve", "path": H(path)}, "as_uid": caller})
            jid += 1
            jobs.append({"id": jid, "tree": tree, "op": {"k": "raw_openat2", "path": H(path), "flags": O["PATH"], "resolve": RES}, "as_uid": caller})
            meta[base] = (dmode, emode, rmode, luid, caller, path, jid - 1, jid)
    rc, out, res_e = run_driver(jobs, deny=("openat2",), tag="c15he")
    rc2, out2, res_k = run_driver([j for j in jobs if j["op"]["k"] == "raw_openat2"], tag="c15hk")
    by_e = {r["id"]: r for r in res_e if r.get("id") != "warmup"}
    by_k = {r["id"]: r for r in res_k if r.get("id") != "warmup"}
    for base, (dmode, emode, rmode, luid, caller, path, lid, kid) in meta.items():
        le, kk = by_e.get(lid), by_k.get(kid)
        if not le or not kk or "setup_err" in le.get("res", {}) or "setup_err" in kk.get("res", {}):
            continue
        ce, ckn = outcome(le.get("res", {})), outcome(kk.get("res", {}))
        stats["hop_cases"] = stats.get("hop_cases", 0) + 1
        stats["hop_kernel_refusals"] = stats.get("hop_kernel_refusals", 0) + (ckn == "err:13")
        nontrivial.add(("hop", dmode, rmode, luid, caller, path, ckn))
        if ce != ckn:
            ck.violation("C15: the emulated resolver and the kernel disagree on a link that is reached through another link "
                         "(the rule is judged with the directory that holds the link)",
                         {"sysctl": 1, "mode_of_d": oct(dmode), "mode_of_e": oct(emode), "mode_of_the_root": oct(rmode), "owner_of_the_judged_link": luid,
                          "caller_uid": caller, "path": path, "links": {"e/h_abs": "/d/lnk", "e/h_rel": "../d/lnk", "e/h_root": "/rl", "d/h_root": "/rl",
                                                                         "e/h_up": "../rl", "rl": "d/target", "d/lnk": "target"},
                          "kernel": ckn, "emulated": ce})


def outcome(r):
    if "ok" in r:
        return "ok"
    if "err" in r:
        return "err:%s" % r["err"]["errno"]
    return str(r)[:40]


def run(ck):
    rng = random.Random(ck.seed)
    saved = open(SYSCTL).read().strip()
    stats = {"combos": 0, "kernel_eacces": 0, "emu_eacces": 0, "rule_checked": 0}
    nontrivial = set()
    samples = []
    cases = []
    try:
        for sysctl in (1, 0):
            open(SYSCTL, "w").write(str(sysctl))
            jobs, meta = [], {}
            jid = 0
            for dmode, duid, luid, caller, pos in itertools.product([0o1777, 0o777, 0o1755, 0o755], [0, 2000, 3000], [0, 2000, 3000],
                                                                    [0, 2000, 4000], POSITIONS):
                tree = tree_for(dmode, duid, luid)
                base = jid
                jid += 1
                jobs.append({"id": jid, "tree": tree, "op": {"k": "resolve", "path": H(POSITIONS[pos])}, "as_uid": caller})
                jid += 1
                jobs.append({"id": jid, "tree": tree, "op": {"k": "raw_openat2", "path": H(POSITIONS[pos]), "flags": O["PATH"], "resolve": RES}, "as_uid": caller})
                meta[base] = (dmode, duid, luid, caller, pos, jid - 1, jid)
            # emulated library run (openat2 denied during warm-up => emulated backend for the whole process) and raw kernel run
            rc, out, res_e = run_driver(jobs, deny=("openat2",), tag="c15e%d" % sysctl)
            rc2, out2, res_k = run_driver([j for j in jobs if j["op"]["k"] == "raw_openat2"], tag="c15k%d" % sysctl)
            by_e = {r["id"]: r for r in res_e if r.get("id") != "warmup"}
            by_k = {r["id"]: r for r in res_k if r.get("id") != "warmup"}
            for base, (dmode, duid, luid, caller, pos, lid, kid) in meta.items():
                le, kk = by_e.get(lid), by_k.get(kid)
                if not le or not kk:
                    continue
                re_, rk = le.get("res", {}), kk.get("res", {})
                if "setup_err" in re_ or "setup_err" in rk:
                    continue
                stats["combos"] += 1

                def cls(r):
                    if "ok" in r:
                        return "ok"
                    if "err" in r:
                        return "err:%s" % r["err"]["errno"]
                    return str(r)[:40]
                ce, ckn = cls(re_), cls(rk)
                stats["kernel_eacces"] += ckn == "err:13"
                stats["emu_eacces"] += ce == "err:13"
                desc = {"sysctl": sysctl, "dir_mode": oct(dmode), "dir_uid": duid, "link_uid": luid, "caller_uid": caller, "position": pos,
                        "path": POSITIONS[pos], "kernel": ckn, "emulated": ce}
                if ce != ckn:
                    ck.violation("C15: the emulated resolver and the kernel disagree on following a symlink under fs.protected_symlinks", desc)
                nontrivial.add((sysctl, dmode, duid, luid, caller, pos, ckn))
                if len(samples) < 6 and ckn == "err:13":
                    samples.append(desc)
                # the Coq rule on the same arguments (trailing positions are where the kernel applies it)
                # the components still to walk after the link decide whether its position is trailing: by the kernel's notion for
                # the kernel's rule, by the library's own (ps_trailing, shaped by T0) for the library's
                rest = "[" + "; ".join(cb(H(c)) for c in REST[pos]) + "]"
                term = (f"[if k_may_follow {sysctl} {caller} {dmode} {duid} {luid} (k_trailing {rest}) then 1%Z else 0%Z; "
                        f"if emu_may_follow {sysctl} {caller} {dmode} {duid} {luid} (ps_trailing {rest}) then 1%Z else 0%Z]")
                cases.append((len(cases), term, ckn, ce, desc))
            if sysctl == 1:
                hops(ck, stats, nontrivial)
                first_read_fails(ck, rng, stats)
    finally:
        open(SYSCTL, "w").write(saved)
    if not ck.proof_broken:
        evals, cerrs = coq_eval([(c[0], c[1]) for c in cases], header="From PV Require Import FSModel Symlinks OpathM SymlinkProofs.", tag="c15")
        if cerrs:
            ck.violation("correspondence: Coq evaluation of the rule failed", {"log": cerrs[0][-1500:]}, False)
        for cid, term, ckn, ce, desc in cases:
            got = evals.get(cid)
            if got is None:
                continue
            stats["rule_checked"] += 1
            if (got[0] == 1) != (ckn != "err:13"):
                ck.violation("T2: the model of the kernel's protected_symlinks rule disagrees with the running kernel", dict(desc, model_allows=bool(got[0])), False)
            if (got[1] == 1) != (ce != "err:13"):
                ck.violation("T2: the model of the emulated rule disagrees with the library", dict(desc, model_allows=bool(got[1])), False)
    cov = {
        "evaluations": stats["combos"],
        "distinct_nontrivial": len(nontrivial),
        "exhaustive": True,
        "rule": "directory mode {1777, 0777, 1755, 0755} x directory owner {0, 2000, 3000} x link owner {0, 2000, 3000} x caller uid {0, 2000, 4000} "
                "x link position {trailing, intermediate, trailing of a trailing link's body, trailing + '/', trailing + '//', before '/.'} x sysctl {1, 0} = 1296 combinations, all run: emulated "
                "backend as that uid vs the kernel's raw openat2 as that uid vs the Coq rules; distinct by (all parameters, kernel outcome)",
        "samples": samples or [{"note": "none"}],
        "first_read_fault_runs": stats.get("first_read_faults", 0),
        "links_reached_through_another_link_cases": stats.get("hop_cases", 0), "of_which_refused_by_the_kernel": stats.get("hop_kernel_refusals", 0),
        "kernel_refusals": stats["kernel_eacces"], "emulated_refusals": stats["emu_eacces"], "rule_evaluations_in_coq": stats["rule_checked"],
        "traces_validated_against_impl": stats["rule_checked"], "disagreements_checked": 0,
    }
    assumptions = ["fs.protected_symlinks is set by the check for its duration and restored afterwards (root in a private VM)",
                   "calls run on a thread whose effective uid was changed with a raw setresuid (per-thread credentials); untraced",
                   "the sysctl is cached by the library at first use: each sysctl value gets its own driver process"]
    return cov, assumptions
