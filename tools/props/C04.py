"""C04: the kernel and the emulated resolver backends are observationally equivalent.

Proof: props/C04.v (lookup equivalence from C01; every parent-based operation is
`resolve_parent` followed by a continuation that does not depend on the backend).
Direct differential (no model): the same job is run in a process that sees
openat2 and in one where the supervisor answers ENOSYS; success/failure, error
kind and errno, the object (by creation path), F_GETFL & ~O_NOFOLLOW, FD_CLOEXEC
and the complete resulting tree are compared."""
import random

import gen
import jobs as J
from gen import H, O
from vlib import run_driver_parallel, unhex

COQ_TARGETS = ("theories/FSModel.vo", "proofs/FSProofs.vo", "theories/Replay.vo")


def canon(res, job):
    ob = res.get("objs", {})
    rv = {}
    for hp in [H("root")] + [op[1] for op in job.get("tree", [])]:
        ident = ob.get(hp)
        if ident:
            rv.setdefault((ident[0], ident[1]), hp)
    r = res.get("res", {})
    if "ok" in r:
        o = r["ok"]
        return ("ok", rv.get((o["dev"], o["ino"]), "new:%o" % (o["mode"] & 0o170000)), o["getfl"] & ~O["NOFOLLOW"], o.get("getfd", 0) & 1)
    if "unit" in r:
        return ("unit",)
    if "bytes" in r:
        return ("bytes", r["bytes"])
    if "err" in r:
        return ("err", r["err"]["kind"], r["err"]["errno"])
    return ("other", str(r)[:80])


def snap_canon(snap):
    return sorted((e[0], e[1], e[2], e[5], e[6], e[7]) for e in (snap or []))


def run(ck):
    rng = random.Random(ck.seed)
    thorough = ck.tier == "thorough"
    scale = 10 if thorough else 1
    jobs = []
    jobs += J.lookup_jobs(rng, 14 * scale, 6, idbase=0)
    jobs += J.mutator_jobs(rng, 20 * scale, 6, idbase=100000, snap="all")
    # NUL bytes and the empty path, explicitly
    tree, meta = gen.gen_tree(rng)
    for i, p in enumerate(["", "a\0b", "\0", "a/\0", "/", "//", "a/..\0/b"]):
        jobs.append({"id": 900000 + i, "tree": tree, "op": {"k": "resolve", "path": H(p)}, "snap": "all", "meta": {"path": p}})
        jobs.append({"id": 900100 + i, "tree": tree, "op": {"k": "mkdir_all", "path": H(p), "mode": 0o755}, "snap": "all", "meta": {"path": p}})
        jobs.append({"id": 900200 + i, "tree": tree, "op": {"k": "open", "path": H(p), "flags": O["PATH"]}, "snap": "all", "meta": {"path": p}})
    # the link budgets' boundaries: chains of exactly k links around 40 and around the library's own constant, under every kind of operation
    for i, (btree, bp, n) in enumerate(gen.link_budget_cases()):
        base_id = 950000 + i * 10
        jobs.append({"id": base_id, "tree": btree, "op": {"k": "resolve", "path": H(bp)}, "meta": {"path": bp}})
        jobs.append({"id": base_id + 1, "tree": btree, "op": {"k": "open", "path": H(bp), "flags": O["PATH"]}, "meta": {"path": bp}})
        if "/" not in bp:
            jobs.append({"id": base_id + 2, "tree": btree, "op": {"k": "mkdir_all", "path": H(bp + "/n1/n2"), "mode": 0o755}, "meta": {"path": bp}})
            jobs.append({"id": base_id + 3, "tree": btree, "op": {"k": "create", "path": H(bp + "/newf"), "type": "file", "mode": 0o644}, "meta": {"path": bp}})
            jobs.append({"id": base_id + 4, "tree": btree, "op": {"k": "remove_file", "path": H(bp + "/f")}, "meta": {"path": bp}})
            jobs.append({"id": base_id + 5, "tree": btree, "op": {"k": "readlink", "path": H(bp)}, "meta": {"path": bp}})
    # the shape of link bodies (empty components, trailing slashes on files / directories / links), under several kinds of operation
    for i, (stree, sp) in enumerate(gen.link_body_shape_cases()):
        base_id = 970000 + i * 10
        jobs.append({"id": base_id, "tree": stree, "op": {"k": "resolve", "path": H(sp)}, "meta": {"path": sp}})
        jobs.append({"id": base_id + 1, "tree": stree, "op": {"k": "resolve", "path": H(sp), "nofollow": True}, "meta": {"path": sp}})
        jobs.append({"id": base_id + 2, "tree": stree, "op": {"k": "open", "path": H(sp), "flags": O["RDONLY"]}, "meta": {"path": sp}})
        jobs.append({"id": base_id + 3, "tree": stree, "op": {"k": "mkdir_all", "path": H(sp + "/m1"), "mode": 0o755}, "meta": {"path": sp}})
        jobs.append({"id": base_id + 4, "tree": stree, "op": {"k": "create", "path": H(sp + "/newf"), "type": "file", "mode": 0o644}, "meta": {"path": sp}})
    # the I/O status flags the property names (append, non-blocking, direct, sync, noatime, directory) on every kind of object:
    # a flag word openat2 accepts can still be refused by the OBJECT (O_DIRECT on a directory or a fifo is EINVAL at open time) --
    # outcome, error class and errno must be the same on both backends
    ftree = [["dir", H("root"), 0o755], ["dir", H("root/d"), 0o755], ["file", H("root/f"), H("data"), 0o644], ["fifo", H("root/p"), 0o644],
             ["symlink", H("root/ld"), H("d")], ["symlink", H("root/lf"), H("f")], ["symlink", H("root/lp"), H("p")]]
    fid = 990000
    for path in ("d", "f", "p", "ld", "lf", "lp", "d/", "f/"):
        for fl in (O["DIRECT"], O["DIRECT"] | O["RDWR"], O["DIRECT"] | O["NONBLOCK"], O["DIRECT"] | O["DIRECTORY"], O["NOATIME"], O["APPEND"] | O["WRONLY"],
                   O["SYNC"] | O["WRONLY"], O["NONBLOCK"] | O["DIRECTORY"], O["NOFOLLOW"] | O["DIRECT"]):
            if path in ("p", "lp") and not fl & O["NONBLOCK"]:
                fl |= O["NONBLOCK"]          # never block on the fifo
            fid += 1
            jobs.append({"id": fid, "tree": ftree, "op": {"k": "open", "path": H(path), "flags": fl}, "snap": "all", "meta": {"path": path}})
    for j in jobs:
        j["trace"] = False
        j.setdefault("snap", "all")
    byid = {j["id"]: j for j in jobs}
    res = {}
    for deny in ((), ("openat2",)):
        tag = ",".join(deny) or "none"
        _, results, errs = run_driver_parallel(jobs, deny=deny, tag="c04" + tag)
        res[tag] = results
    stats = {"pairs": 0, "kinds": {}, "outcomes": {}, "too_many_links": 0}
    nontrivial = set()
    samples = []
    suspects = []
    confirmed_pass = [False]

    def report(what, desc, jid):
        # A disagreement seen while 16 driver processes (and whatever else runs on the machine) were busy is re-run alone before it
        # is reported: under concurrent renames the kernel's own walk answers EAGAIN -- and, having started over after a failed
        # RCU walk with its link counter not reset, ELOOP -- for lookups it resolves when asked again.  A real difference persists.
        if confirmed_pass[0]:
            ck.violation(what, desc)
        else:
            suspects.append(jid)

    def judge_all(ids):
      for jid in ids:
          job = byid[jid]
          a, b_ = res["none"].get(jid), res["openat2"].get(jid)
          if not a or not b_ or "setup_err" in a.get("res", {}) or "setup_err" in b_.get("res", {}):
              continue
          op = job["op"]
          fl = op.get("flags", 0) if op["k"] in ("open",) else 0
          # the property quantifies over flag sets openat2 accepts and at most 40 link traversals
          nlinks = sum(1 for o in job.get("tree", []) if o[0] == "symlink")
          ca, cb_ = canon(a, job), canon(b_, job)
          stats["pairs"] += 1
          stats["kinds"][op["k"]] = stats["kinds"].get(op["k"], 0) + 1
          stats["outcomes"][str(ca[:2] if ca[0] != "err" else ca)] = stats["outcomes"].get(str(ca[:2] if ca[0] != "err" else ca), 0) + 1
          desc = {"job": J.describe(job), "with_openat2": ca, "emulated": cb_}
          if "panic" in a.get("res", {}) or "panic" in b_.get("res", {}):
              ck.violation("C04: an operation panicked", desc)
              continue
          differ = ca != cb_
          if any(b"\0" in unhex(op[k]) for k in ("path", "src", "dst") if k in op):
              # a path with an embedded NUL has no kernel meaning (C01 quantifies over NUL-free strings): the one thing
              # required of both backends is that they refuse it instead of silently cutting it short
              if ca[0] != "err" or cb_[0] != "err":
                  ck.violation("C04: a path with an embedded NUL byte was not refused (truncated at the NUL?)", desc)
              stats["nul_paths"] = stats.get("nul_paths", 0) + 1
              continue
          tree_differ = snap_canon(a.get("snap_after")) != snap_canon(b_.get("snap_after"))
          # (more than 40 traversals need at least 41 links in the tree: generated paths never walk the same link twice that often)
          if (differ or tree_differ) and nlinks >= 41 and (ca == ("err", "OsError", 40) or cb_ == ("err", "OsError", 40)):
              stats["too_many_links"] += 1        # outside the property's quantification (more than 40 traversals)
              continue
          if differ and ca[0] == "ok" and cb_[0] == "ok" and ca[1] == cb_[1] == H("root") and ca[3] == cb_[3] \
                  and (ca[2] ^ cb_[2]) == O["DIRECTORY"] and op["k"] == "resolve":
              kf = [f for f in ck.known if f["id"] == "F-N-rootdup-odirectory"]
              if kf:
                  ck.known_finding(kf[0]["id"], kf[0]["what"])
                  continue
          if differ:
              report("C04: the two resolver backends give different outcomes for the same operation", desc, jid)
          elif tree_differ:
              report("C04: the two resolver backends leave different trees behind", dict(desc, tree_openat2=snap_canon(a.get("snap_after")),
                                                                                             tree_emulated=snap_canon(b_.get("snap_after"))), jid)
          nontrivial.add((op["k"], str(ca)[:60], job.get("meta", {}).get("path", "")))
          if len(samples) < 6 and ca[0] == "err" and op["k"] in ("mkdir_all", "rename", "create"):
              samples.append(desc)
    judge_all(list(byid))
    if suspects:
        stats["rerun_alone"] = len(suspects)
        again = [byid[j] for j in suspects]
        for deny in ((), ("openat2",)):
            tag = ",".join(deny) or "none"
            _, results, errs = run_driver_parallel(again, deny=deny, tag="c04r" + tag, shards=1)
            res[tag].update(results)
        confirmed_pass[0] = True
        stats["pairs"] -= len(suspects)
        judge_all(list(suspects))
    cov = {
        "evaluations": stats["pairs"],
        "distinct_nontrivial": len(nontrivial),
        "rule": "random trees x {resolve, resolve_nofollow, open_subpath (flag products openat2 accepts), readlink, create x7 inode types, "
                "create_file, mkdir_all, remove_file, remove_dir, remove_all, rename (plain/NOREPLACE/EXCHANGE)} x path spellings incl. '', NUL bytes, "
                "'..', trailing '/'; each job run with and without openat2; distinct by (op, outcome, path)",
        "samples": samples or [{"note": "none"}],
        "pairs_compared": stats["pairs"], "op_histogram": stats["kinds"], "outcome_histogram": stats["outcomes"],
        "disagreements_rerun_alone": stats.get("rerun_alone", 0), "skipped_more_than_40_links": stats["too_many_links"], "nul_paths_refused_by_both": stats.get("nul_paths", 0),
        "programs": stats["pairs"], "disagreements_checked": 0,
    }
    assumptions = ["walks needing more than 40 link traversals are outside the property's quantification (they are C01's known finding F-H)",
                   "both runs build the tree from the same creation list in separate sandboxes; objects are identified by creation path"]
    return cov, assumptions
