"""C13: remove_all removes exactly the named subtree and never follows links.

Proof: props/C13.v.  Runtime: whole-sandbox snapshots (inside and outside the
root); on success the difference is exactly the entry (in-root parent by the
kernel's raw openat2, final name) and everything below it; link targets
inside/outside the root are untouched; '.'/'..' are refused without effect;
several callers racing on one path all succeed and leave it absent."""
import random

import gen
import jobs as J
import model as M
from gen import H, O
import dyn as D
from vlib import run_driver_parallel, coq_eval, warm_config, trace_to_coq, unhex
from props.C14 import split, diff, canon_path, RES

# the case files of this check import the monitors: keep them compiled against the current generated constants
COQ_TARGETS = ("theories/Replay.vo", "theories/Discipline.vo", "theories/FdBalance.vo", "proofs/MonitorProofs.vo", "theories/Dyn.vo")


def deep_tree(rng):
    """deep/wide subtree 'v' with links to siblings, parents and outside"""
    t = [["dir", H("root"), 0o755], ["dir", H("outside"), 0o755], ["file", H("outside/secret"), H("s"), 0o644],
         ["dir", H("outside/sub"), 0o755], ["file", H("outside/sub/deep"), H("d"), 0o644],
         ["dir", H("root/keep"), 0o755], ["file", H("root/keep/precious"), H("p"), 0o644], ["dir", H("root/v"), 0o755]]
    dirs = ["v"]
    for i in range(rng.randint(3, 14)):
        d = rng.choice(dirs)
        k = rng.random()
        name = "%s/n%d" % (d, i)
        if k < 0.4:
            t.append(["dir", H("root/" + name), rng.choice([0o755, 0o700])])
            dirs.append(name)
        elif k < 0.6:
            t.append(["file", H("root/" + name), H("x"), 0o644])
        elif k < 0.7:
            t.append(["fifo", H("root/" + name), 0o644])
        else:
            body = rng.choice(["../keep", "../../keep/precious", "/keep", "../../../outside", "../../../../outside/sub", "..", ".", "/",
                               "/../outside/secret", "nonexistent", "../n0"])
            t.append(["symlink", H("root/" + name), H(body)])
    t.append(["symlink", H("root/lv"), H("v")])
    t.append(["symlink", H("root/lout"), H("../outside/sub")])
    t.append(["hardlink", H("root/v/hl"), H("root/keep/precious")])
    return t


SPELLINGS = ["v", "/v", "./v", "v/", "keep/../v", "lv", "lv/", "lv/.", "v/.", "v/..", "..", ".", "", "/", "v/n0", "v/n1", "v/n2", "lout",
             "lout/", "lout/deep", "nonexistent", "v/nonexistent/..", "keep/precious", "v/hl", "//v//", "v/n0/../n0", "../outside", "lout/.."]


def run(ck):
    rng = random.Random(ck.seed)
    thorough = ck.tier == "thorough"
    ps = M.sysctl_ps()
    jobs = []
    jid = 0
    for _ in range(40 if thorough else 7):
        tree = deep_tree(rng)
        for sp in (SPELLINGS if thorough else rng.sample(SPELLINGS, 12) + ["..", "v/.", "lout", "v"]):
            jid += 1
            op = {"k": "remove_all", "path": H(sp)}
            jobs.append({"id": jid, "tree": tree, "op": op, "snap": "all", "meta": {"path": sp}})
            par, _n = split(sp.encode())
            jid += 1
            jobs.append({"id": jid, "tree": tree, "op": {"k": "raw_openat2", "path": par.hex(), "flags": O["PATH"], "resolve": RES}})
            op["_oracle"] = jid
    # random trees as well
    for _ in range(30 if thorough else 5):
        tree, meta = gen.gen_tree(rng)
        for _ in range(5):
            sp = gen.gen_path(rng, meta, malformed=rng.random() < 0.1)
            jid += 1
            op = {"k": "remove_all", "path": H(sp)}
            jobs.append({"id": jid, "tree": tree, "op": op, "snap": "all", "meta": {"path": sp}})
            par, _n = split(sp.encode())
            jid += 1
            jobs.append({"id": jid, "tree": tree, "op": {"k": "raw_openat2", "path": par.hex(), "flags": O["PATH"], "resolve": RES}})
            op["_oracle"] = jid
    # racing callers
    cjobs = []
    for _ in range(60 if thorough else 14):
        tree = deep_tree(rng)
        n = rng.choice([2, 2, 3, 4])
        # (not "lv/../v": lv -> v, so the *parent* of that spelling is reached through the directory being removed; once one caller
        #  is done the others cannot resolve the parent, which is an error by design -- also for a lone caller -- and not the
        #  "entry already gone" case the property speaks of)
        sp = rng.choice(["v", "v", "/v", "./v", "v/n0", "keep/../v"])
        jid += 1
        cjobs.append({"id": jid, "tree": tree, "op": {"k": "concurrent", "ops": [{"k": "remove_all", "path": H(sp)} for i in range(n)]},
                      "meta": {"path": sp, "n": n}})
    byid = {j["id"]: j for j in jobs + cjobs}
    stats = {"ops": 0, "removed_ok": 0, "refused": 0, "dots": 0, "races": 0, "t1_ok": 0, "t1_bad": 0, "subtree_sizes": {}}
    nontrivial = set()
    samples = []
    cases = []
    dcases = []
    xcases = []
    for deny in ((), ("openat2",)):
        tag = ",".join(deny) or "none"
        send = []
        for j in jobs + cjobs:
            j2 = dict(j)
            j2["op"] = {k: v for k, v in j["op"].items() if k != "_oracle"}
            send.append(j2)
        _, results, errs = run_driver_parallel(send, deny=deny, tag="c13" + tag)
        for jid, res in results.items():
            job = byid[jid]
            op = job["op"]
            if op["k"] == "raw_openat2":
                continue
            r = res.get("res", {})
            if "setup_err" in r:
                continue
            added, removed, changed, after, before = diff(res.get("snap_before"), res.get("snap_after"))
            desc = {"job": J.describe(job) if op["k"] != "concurrent" else {"k": "concurrent remove_all", "paths": [unhex(o["path"]).decode("latin1") for o in op["ops"]]},
                    "resolver": "emulated" if deny else "openat2", "outcome": r,
                    "added": [a.decode("latin1") for a in added], "removed": [a.decode("latin1") for a in removed][:30],
                    "changed": [a.decode("latin1") for a in changed]}
            if op["k"] == "concurrent":
                stats["races"] += 1
                outs = r.get("outs", [])
                if any("panic" in o for o in outs):
                    ck.violation("C13: a racing remove_all panicked", desc)
                elif not all("unit" in o for o in outs):
                    ck.violation("C13: concurrent remove_all calls for one path did not all report success", desc)
                else:
                    # everything that vanished lies in the named subtree; the path is absent; nothing else changed
                    tops = set()
                    for o in op["ops"]:
                        tops.add(b"root/v")
                    sub = unhex(op["ops"][0]["path"]).strip(b"/")
                    target = b"root/v/n0" if sub.endswith(b"n0") else b"root/v"
                    gone_ok = all(x == target or x.startswith(target + b"/") for x in removed)
                    if added or changed or not gone_ok:
                        ck.violation("C13: concurrent remove_all calls changed something outside the named subtree", dict(desc, subtree=target.decode()))
                    elif target in after:
                        ck.violation("C13: the path still exists after concurrent remove_all calls reported success", dict(desc, subtree=target.decode()))
                    elif sorted(removed) != sorted(k for k in before if k == target or k.startswith(target + b"/")):
                        ck.violation("C13: concurrent remove_all calls did not remove the whole subtree", dict(desc, subtree=target.decode()))
                nontrivial.add(("race", tuple(unhex(o["path"]) for o in op["ops"]), tag))
                continue
            stats["ops"] += 1
            if "panic" in r:
                ck.violation("C13: remove_all panicked", desc)
                continue
            pbytes = unhex(op["path"])
            par, name = split(pbytes)
            ok = "unit" in r
            if name in (b".", b"..") or name is None:
                stats["dots"] += 1
                if ok or added or removed or changed:
                    ck.violation("C13: remove_all on a path naming '.', '..' or nothing was not refused without effect", desc)
                continue
            o = results.get(op.get("_oracle"))
            orc = canon_path(o, job["tree"]) if o else None
            if not ok:
                stats["refused"] += 1
                # a failing call may have removed part of the named subtree, never anything else
                if orc and orc[0] == "ok" and orc[1] is not None:
                    e = orc[1] + b"/" + name
                    if added or changed or not all(x == e or x.startswith(e + b"/") for x in removed):
                        ck.violation("C13: a failing remove_all changed something outside the named subtree", dict(desc, subtree=e.decode("latin1")))
                    elif len(orc) == 3 and orc[2] == 0o040000 and b"/" not in name and name != b"" and len(name) <= 255:
                        # the kernel resolves the parent to a directory and the final name is a plain one: whatever is (or is not)
                        # there can be removed by this caller (root), so the call has no reason to fail (a name longer than
                        # NAME_MAX is answered ENAMETOOLONG by the kernel and reported as such: no reason to succeed either)
                        ck.violation("C13: remove_all failed although its parent resolves in-root and the final name is a plain one",
                                     dict(desc, subtree=e.decode("latin1"), existed=e in before))
                elif added or removed or changed:
                    ck.violation("C13: remove_all failed to resolve the parent but changed the tree", desc)
                continue
            if not orc or orc[0] != "ok" or orc[1] is None:
                if added or removed or changed:
                    ck.violation("C13: remove_all succeeded and changed the tree although the kernel cannot resolve the parent in-root", desc)
                continue       # ENOENT parents are reported as success without effect? no: parent must resolve
            e = orc[1] + b"/" + name
            stats["removed_ok"] += 1
            expected = sorted(k for k in before if k == e or k.startswith(e + b"/"))
            stats["subtree_sizes"][min(len(expected), 10)] = stats["subtree_sizes"].get(min(len(expected), 10), 0) + 1
            if added or changed or removed != expected:
                ck.violation("C13: remove_all did not remove exactly the named entry and what is below it",
                             dict(desc, subtree=e.decode("latin1"), expected_removed=[x.decode("latin1") for x in expected][:30]))
            nontrivial.add((pbytes, len(expected), tag))
            if len(samples) < 4 and len(expected) > 3:
                samples.append(desc)
            # tie T2d: every answer of the running kernel (getdents listings as sets) and the resulting tree
            if res.get("trace") and rng.random() < (0.8 if thorough else 0.5):
                dterm = D.case_term(job["tree"], res)
                if dterm:
                    dcases.append((len(dcases), dterm, desc, res))
            # tie T3: the model program run on the model kernel from the same tree
            if rng.random() < (0.8 if thorough else 0.5):
                j3 = dict(job)
                j3["op"] = {k_: v_ for k_, v_ in op.items() if k_ != "_oracle"}
                D.collect_exec(xcases, job["tree"], j3, res, not deny, ps, desc)
            if rng.random() < (0.5 if thorough else 0.3) and res.get("trace"):
                cfg = warm_config(res["_warm"])
                j2 = dict(job)
                j2["op"] = {k: v for k, v in op.items() if k != "_oracle"}
                prog, enc = M.op_program(j2, res, cfg, ps)
                if prog:
                    # trace_beneath: the judgement of C13_stays_beneath evaluated on the recorded calls themselves (MonitorProofs.sub_sound)
                    cases.append((len(cases), f"let t := {trace_to_coq(res['trace'])} in enc_replay_diag {enc} (run_trace ({prog}) t 0) ++ "
                                              f"[(if trace_beneath t then 1 else 0)%Z]", j2, res, tag))
    # ---- links swapped in while remove_all runs are not followed either (deterministic preemption, as in C03)
    import sched as S
    from props.C03 import foreign_ok
    stree = S.scenario_tree()
    sbase = [{"id": 1, "tree": stree, "op": {"k": "remove_all", "path": H("d")}, "snap": "all"},
             {"id": 2, "tree": stree, "op": {"k": "remove_all", "path": H("a/b")}, "snap": "all"}]
    for deny in (("openat2",), ()):
        tag = ",".join(deny) or "none"
        _, bl, _ = run_driver_parallel(sbase, deny=deny, tag="c13sb" + tag, shards=2)
        sj = S.make_jobs(sbase, bl, rng, thorough, max_per_job=None if thorough else 400)
        for j in sj:
            j["trace"] = False
        sby = {j["id"]: j for j in sj}
        _, sres, _ = run_driver_parallel(sj, deny=deny, tag="c13s" + tag)
        for jid_, res in sres.items():
            if not res.get("attack_log") or "setup_err" in res.get("res", {}):
                continue
            stats["swapped_in"] = stats.get("swapped_in", 0) + 1
            probs = foreign_ok(res.get("snap_before"), res.get("snap_after"), True)
            if probs:
                ck.violation("C13: remove_all followed a link that was swapped in while it ran (targets outside were touched)",
                             {"job": J.describe({"op": sby[jid_]["op"]}), "attack": sby[jid_]["attack_desc"], "resolver": "emulated" if deny else "openat2",
                              "outcome": res.get("res"), "attack_log": res.get("attack_log"), "touched": probs[:10]})
    # ---- a competing remover finishes first, at every system-call boundary: the call still reports success and the path is gone
    cbase = [{"id": 1, "tree": stree, "op": {"k": "remove_all", "path": H("d")}, "snap": "all", "target": "root/d"},
             {"id": 2, "tree": stree, "op": {"k": "remove_all", "path": H("a/b")}, "snap": "all", "target": "root/a/b"},
             {"id": 3, "tree": stree, "op": {"k": "remove_all", "path": H("l/c")}, "snap": "all", "target": "root/a/b/c"}]
    for deny in (("openat2",), ()):
        tag = ",".join(deny) or "none"
        _, bl, _ = run_driver_parallel(cbase, deny=deny, tag="c13cb" + tag, shards=3)
        cj = []
        for bj in cbase:
            b0 = bl.get(bj["id"])
            if not b0 or "trace" not in b0:
                continue
            for k in S.boundaries(b0["trace"]):
                j = dict(bj)
                j["id"] = 1000 + len(cj)
                j["policy"] = {"attack": [{"at": k, "ops": [["rmtree", H(bj["target"])]]}]}
                j["trace"] = False
                j["at"] = k
                cj.append(j)
        cby = {j["id"]: j for j in cj}
        _, cres, _ = run_driver_parallel(cj, deny=deny, tag="c13c" + tag)
        for jid_, res in cres.items():
            job = cby[jid_]
            r = res.get("res", {})
            if not res.get("attack_log") or "setup_err" in r:
                continue
            stats["competing"] = stats.get("competing", 0) + 1
            still = any(unhex(e[0]) == job["target"].encode() for e in (res.get("snap_after") or []))
            if "unit" not in r or still:
                ck.violation("C13: remove_all did not report success (or left the path behind) when a competing remover of the same path finished first",
                             {"job": J.describe({"op": job["op"]}), "competing_remover_ran_before_call": job["at"], "resolver": "emulated" if deny else "openat2",
                              "outcome": r, "path_still_there": still})
            nontrivial.add(("competing", job["target"], job["at"], tag))
    if ck.proof_broken and cases:
        # a proof or tie is broken: the model cannot be trusted, but the monitor needs no model -- use it to look for a concrete trace
        mevals, _ = coq_eval([(c[0], "let t := %s in [(if trace_beneath t then 1 else 0)%%Z]" % trace_to_coq(c[3]["trace"])) for c in cases],
                             header="From PV Require Import Replay MonitorProofs.", tag="c13m")
        for cid, term, job, res, tag in cases:
            if mevals.get(cid) == [0]:
                ck.violation("C13: a recorded remove_all trace leaves the named subtree (monitor of C13_stays_beneath on the recorded calls)",
                             {"job": J.describe({"op": job["op"]}), "deny": tag, "outcome": res.get("res"),
                               "calls": [e for e in res["trace"] if e["c"] in ("unlinkat", "mkdirat", "openat", "openat2", "renameat", "renameat2", "linkat", "symlinkat", "mknodat")][-40:]})
                break
    if not ck.proof_broken:
        evals, cerrs = coq_eval([(c[0], c[1]) for c in cases], header="From PV Require Import Replay MonitorProofs.", tag="c13")
        if cerrs:
            ck.violation("T1: Coq evaluation of the case files failed", {"log": cerrs[0][-1500:]}, False)
        for cid, term, job, res, tag in cases:
            rep = evals.get(cid)
            if rep is None:
                continue
            rep, beneath = rep[:-1], rep[-1]
            stats["monitored"] = stats.get("monitored", 0) + 1
            if beneath != 1:
                ck.violation("C13: a recorded remove_all trace leaves the named subtree: an unlinkat/openat on a descriptor that does not descend "
                             "from (parent, name) by no-follow opens, a name with '/' or a dot name, or another tree-changing call",
                             {"job": J.describe(job), "deny": tag, "outcome": res.get("res"),
                              "calls": [e for e in res["trace"] if e["c"] in ("unlinkat", "openat", "openat2", "renameat", "renameat2", "mkdirat", "linkat", "symlinkat", "mknodat")][:40]})
            if rep[0] == 0 and M.outcome_matches(res, rep[2:]):
                stats["t1_ok"] += 1
            else:
                stats["t1_bad"] += 1
                ck.violation("T1: model and implementation disagree on remove_all",
                             {"job": J.describe(job), "deny": tag, "replay": rep, "real_outcome": res.get("res")}, False)
    if not ck.proof_broken:
        D.evaluate(ck, dcases, stats, "remove_all", coq_eval, "c13d")
        D.evaluate_exec(ck, xcases, stats, coq_eval, "c13x")
    cov = {
        "evaluations": stats["ops"] + stats["races"],
        "distinct_nontrivial": len(nontrivial),
        "rule": "deep/wide subtrees (3-14 objects: dirs, files, fifos, hard link to a file outside the subtree, links to siblings, parents, "
                "'/', outside the root) and random trees x path spellings (through links, '..', '.', trailing '/', absolute, into the outside "
                "link) x both backends; 2-4 racing callers on one path (real threads released by a barrier); non-trivial = successful removals "
                "and races; distinct by (path, subtree size, backend)",
        "samples": samples or [{"note": "none"}],
        "traces_checked_by_beneath_monitor": stats.get("monitored", 0),
        "successful_removals": stats["removed_ok"], "failed_calls": stats["refused"], "dot_paths_refused": stats["dots"],
        "racing_groups": stats["races"], "runs_with_a_link_swapped_in": stats.get("swapped_in", 0), "runs_with_a_competing_remover": stats.get("competing", 0), "subtree_size_histogram": stats["subtree_sizes"],
        "traces_validated_against_impl": stats["t1_ok"], "t1_mismatches": stats["t1_bad"], "disagreements_checked": stats["t1_bad"],
    }
    cov.update(D.coverage(stats))
    assumptions = ["races use the real scheduler (threads released by a barrier), not an exhaustive enumeration of interleavings",
                   "the parent oracle is the kernel's raw openat2(RESOLVE_IN_ROOT) on an identical tree"]
    return cov, assumptions
