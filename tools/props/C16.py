"""C16: C error ids are unique, consumed exactly once, and never look like an errno.

Proof: props/C16.v (error table as a state machine over all histories; errno
table from T0).  Correspondence: a serialised store/take history recorded from
the real C entry points is replayed on the model (same ids, same results)."""
import random

COQ_TARGETS = ("theories/ErrTable.vo",)

from gen import H
from vlib import run_driver_parallel, coq_eval

TREE = [["dir", H("root"), 0o755], ["symlink", H("root/loop"), H("loop")]]


def run(ck):
    rng = random.Random(ck.seed)
    thorough = ck.tier == "thorough"
    jobs = []
    for i, nthreads in enumerate([1, 2, 3, 4, 8, 16, 32, 64, 64, 128, 16, 8] if thorough else [1, 4, 16, 64]):
        jobs.append({"id": i + 1, "tree": TREE, "op": {"k": "capi_errors", "threads": nthreads,
                                                        "per_thread": 600 if thorough else 60, "seed": rng.randrange(1 << 30)}})
    # one run with very many errors outstanding at once (ids are drawn from ~2^31 values: a store that does not look at the
    # outstanding ones repeats about n^2/2^32 of them)
    jobs.append({"id": len(jobs) + 1, "tree": TREE, "op": {"k": "capi_errors", "threads": 2, "per_thread": 20, "seed": rng.randrange(1 << 30),
                                                        "flood": (1 << 21) if thorough else (1 << 18)}})
    # one run with very many store/take cycles (nothing outstanding): an id outside the range that turns up once in 10^5..10^6 stores
    jobs.append({"id": len(jobs) + 1, "tree": TREE, "op": {"k": "capi_errors", "threads": 2, "per_thread": 20, "seed": rng.randrange(1 << 30),
                                                        "churn": (1 << 25) if thorough else (1 << 22)}})
    stats = {"ids": 0, "history_ops": 0, "model_ok": 0, "flood_outstanding": 0, "churn_stores": 0}
    samples = []
    cases = []
    for deny in ((), ("openat2",)):
        tag = ",".join(deny) or "none"
        _, results, errs = run_driver_parallel(jobs, deny=deny, tag="c16" + tag, shards=len(jobs))
        for j in jobs:
            if j["id"] not in results:
                # no result at all: the driver process died in the middle of the job (a panic inside an extern "C" function aborts
                # the process).  The job is the input: running it again reproduces it.
                ck.violation("C16: the process died during a run of failing C API calls (no result came back)",
                             {"deny": tag, "job": j["op"], "driver_errors": [str(e_)[-400:] for e_ in (errs or [])][:2]},
                             "churn" in j["op"] or "flood" in j["op"])
        for jid, res in results.items():
            r = res.get("res", {})
            if "n_ids" not in r:
                # the job is the input: a process that dies in the middle of these failing calls (a panic inside an extern "C"
                # function aborts) is reproduced by running the job again
                ck.violation("C16: the error stress run did not complete (the process died during these failing C API calls)",
                             {"deny": tag, "job": jobs[jid - 1]["op"], "res": r, "out": res.get("out", "")[-600:] if isinstance(res.get("out"), str) else None},
                             "churn" in jobs[jid - 1]["op"] or "flood" in jobs[jid - 1]["op"])
                continue
            stats["churn_stores"] += r.get("churn", {}).get("n", 0)
            stats["ids"] += r["n_ids"]
            stats["flood_outstanding"] = max(stats["flood_outstanding"], r.get("flood", {}).get("n", 0))
            for v in r["violations"][:3]:
                ck.violation("C16: " + v["what"], {"deny": tag, "threads": jobs[jid - 1]["op"]["threads"], "detail": v})
            if r["max_id"] >= -4095:
                ck.violation("C16: an error id is not below -4095", {"deny": tag, "max_id": r["max_id"]})
            hist = r["history"]
            stats["history_ops"] += len(hist)
            # model replay: errors are numbered by the order of their store; draws = [the id the library returned]
            tokens = {}
            ops, expect = [], []
            for ev in hist:
                if ev[0] == "s":
                    n = len(tokens) + 1
                    tokens[ev[2]] = n
                    ops.append(f"OStore nat [({ev[1]})%Z] {n}%nat")
                    expect += [1, ev[1]]
                else:
                    ops.append(f"OTake nat ({ev[1]})%Z")
                    expect += [2, tokens.get(ev[2], 0) if ev[2] is not None else 0]
                    if ev[3] is not True:
                        ck.violation("C16: a second pathrs_errorinfo() for a consumed id did not return NULL", {"deny": tag, "event": ev})
            term = ("flat_map (fun o => match o with RStored _ id => [1%Z; id] | RStuck _ => [9%Z; 0%Z] "
                    "| RTaken _ (Some n) => [2%Z; Z.of_nat n] | RTaken _ None => [2%Z; 0%Z] end) "
                    "(snd (run nat [] [" + "; ".join(ops) + "]))")
            cases.append((len(cases), term, expect, tag, jobs[jid - 1]["op"]["threads"], hist[:6]))
            if len(samples) < 3:
                samples.append({"threads": jobs[jid - 1]["op"]["threads"], "deny": tag, "n_ids": r["n_ids"], "min_id": r["min_id"],
                                "max_id": r["max_id"], "history_head": hist[:6]})
    if not ck.proof_broken:
        evals, cerrs = coq_eval([(c[0], c[1]) for c in cases], header="From PV Require Import ErrTable.\nOpen Scope Z_scope.", tag="c16", shards=len(cases))
        if cerrs:
            ck.violation("correspondence: Coq evaluation of the recorded histories failed", {"log": cerrs[0][-1500:]}, False)
        for cid, term, expect, tag, nthreads, head in cases:
            got = evals.get(cid)
            if got is None:
                continue
            if got == expect:
                stats["model_ok"] += 1
            else:
                first = next((i for i in range(min(len(got), len(expect))) if got[i] != expect[i]), None)
                ck.violation("C16: the recorded store/take history disagrees with the table model (event %s)" % (None if first is None else first // 2),
                             {"deny": tag, "threads": nthreads, "history_head": head})
    cov = {
        "evaluations": stats["ids"] + stats["history_ops"],
        "distinct_nontrivial": stats["ids"],
        "max_errors_outstanding_at_once": stats["flood_outstanding"], "store_take_cycles_with_nothing_outstanding": stats["churn_stores"],
        "rule": "1..64 threads each fail through four C entry points (ENOENT, EINVAL, ENOSYS, ENOENT-in-open) with a unique token per "
                "failure; all ids are held live, then consumed by OTHER threads concurrently (token, errno, second call NULL); "
                "plus an interleaved store/take phase whose serialised history is replayed on the Coq table model; "
                "non-trivial/distinct = ids that were live simultaneously (pairwise distinctness checked)",
        "samples": samples or [{"note": "none"}],
        "ids_checked": stats["ids"],
        "history_ops_replayed_on_model": stats["history_ops"],
        "traces_validated_against_impl": stats["model_ok"],
        "disagreements_checked": len(cases) - stats["model_ok"],
    }
    assumptions = ["std::sync::Mutex makes store_error / pathrs_errorinfo atomic (the theorems quantify over interleavings of atomic operations)",
                   "'every failing C call goes through store_error' is checked on the real entry points only (no Coq model of the glue)"]
    return cov, assumptions
