"""C08: procfs lookups use bounded resources and report true errors on any /proc.

Proof: props/C08.v (the masked-handle retry never goes deeper than one extra
handle: fuel 2 suffices for every answer; a missing path's ENOENT is what is
reported when no unmasked handle can be had).  Runtime: real procfs instances in a
private mount namespace -- default, hidepid=1/2/ptraceable, subset=pid -- for a
privileged and an unprivileged caller, constructors available or denied, three
bases, existing / missing / masked-but-existing sub-paths."""
import random

import jobs as J
import model as M
from gen import H, O
from vlib import run_driver, coq_eval, warm_config, trace_to_coq, unhex

CONFIGS = [
    ("root, default /proc", {"extra": ["--newns"]}),
    ("root, hidepid=2", {"extra": ["--newns", "--proc-opts", "hidepid=2"]}),
    ("root, subset=pid", {"extra": ["--newns", "--proc-opts", "subset=pid"]}),
    ("root, subset=pid, no private mounts possible", {"extra": ["--newns", "--proc-opts", "subset=pid"], "deny": ("fsopen", "open_tree")}),
    # no new procfs instance can be made, but the masked host mount can be cloned (what 'root' of a user namespace that does not
    # own its pid namespace gets): every clone is a new mount of the same masked superblock
    ("root, subset=pid, fsopen unavailable (clones of the masked mount possible)", {"extra": ["--newns", "--proc-opts", "subset=pid"], "deny": ("fsopen",)}),
    ("root, subset=pid + hidepid=2, fsopen unavailable", {"extra": ["--newns", "--proc-opts", "subset=pid,hidepid=2"], "deny": ("fsopen",)}),
    ("root, hidepid=2, no private mounts possible", {"extra": ["--newns", "--proc-opts", "hidepid=2"], "deny": ("fsopen", "open_tree")}),
    ("uid 2000, default /proc", {"extra": ["--newns"], "uid": 2000}),
    ("uid 2000, hidepid=1", {"extra": ["--newns", "--proc-opts", "hidepid=1"], "uid": 2000}),
    ("uid 2000, hidepid=2", {"extra": ["--newns", "--proc-opts", "hidepid=2"], "uid": 2000}),
    ("uid 2000, hidepid=ptraceable", {"extra": ["--newns", "--proc-opts", "hidepid=ptraceable"], "uid": 2000}),
    ("uid 2000, subset=pid", {"extra": ["--newns", "--proc-opts", "subset=pid"], "uid": 2000}),
]

# (base, path, class)
PATHS = [("self", "status", "existing"), ("thread", "stat", "existing"), ("root", "self", "existing-link"), ("self", "fd", "existing"),
         ("self", "nonexistent", "missing"), ("root", "nonexistent/x", "missing"), ("thread", "fd/9999", "missing"), ("self", "status/x", "notdir"),
         ("root", "no-such-pid-4199999/stat", "missing"),
         # missing below the base, but the name exists directly below /proc: a retry on a fresh handle must stay below the same base
         ("self", "uptime", "missing"), ("thread", "sys/kernel/ostype", "missing"), ("self", "1/status", "missing"),
         ("thread", "self/status", "missing"), ("self", "thread-self", "missing"),
         ("root", "1/stat", "maybe-masked"), ("root", "stat", "maybe-masked"), ("root", "sys/kernel/ostype", "maybe-masked"), ("root", "uptime", "maybe-masked")]


def run(ck):
    rng = random.Random(ck.seed)
    thorough = ck.tier == "thorough"
    ps = M.sysctl_ps()
    stats = {"runs": 0, "missing_enoent": 0, "max_calls": 0, "max_ctor_attempts": 0, "max_new_handles": 0, "t1_ok": 0, "t1_bad": 0, "by_config": {}}
    nontrivial = set()
    samples = []
    cases = []
    for label, conf in CONFIGS:
        for openat2_denied in (False, True):
            deny = tuple(conf.get("deny", ())) + (("openat2",) if openat2_denied else ())
            jobs = []
            jid = 0
            for base, p, cls in PATHS:
                # readlink is only meaningful on links (on a regular entry the kernel answers ENOENT to readlinkat(fd, ""))
                for k in ("proc_open",) if cls == "existing" else ("proc_open", "proc_readlink"):
                    jid += 1
                    op = {"k": k, "base": base, "path": H(p)}
                    if k == "proc_open":
                        op["flags"] = O["PATH"] if cls == "existing-link" else O["RDONLY"]
                        op["follow"] = False
                    jobs.append({"id": jid, "op": op, "meta": {"cls": cls, "path": p}})
            rc, out, res = run_driver(jobs, deny=deny, uid=conf.get("uid"), tag="c08", extra_args=conf["extra"], timeout=120)
            rl = [r for r in res if r.get("id") != "warmup"]
            warm = next((r for r in res if r.get("id") == "warmup"), None)
            if rc != 0 and not rl:
                ck.violation("C08: the driver did not survive configuration '%s'" % label, {"rc": rc, "out": out[-400:]}, False)
                continue
            byid = {j["id"]: j for j in jobs}
            for r_ in rl:
                job = byid[r_["id"]]
                r = r_.get("res", {})
                if "setup_err" in r:
                    continue
                stats["runs"] += 1
                stats["by_config"][label] = stats["by_config"].get(label, 0) + 1
                tr = r_.get("trace", [])
                ctor = [e for e in tr if e["c"] in ("fsopen", "open_tree") or (e["c"] == "openat" and e.get("fd") == -100 and unhex(e["path"]) == b"/proc")]
                newh = [e for e in tr if (e["c"] in ("fsmount", "open_tree") or (e["c"] == "openat" and e.get("fd") == -100)) and e["ret"] >= 0]
                stats["max_calls"] = max(stats["max_calls"], len(tr))
                stats["max_ctor_attempts"] = max(stats["max_ctor_attempts"], len(ctor))
                stats["max_new_handles"] = max(stats["max_new_handles"], len(newh))
                desc = {"config": label, "openat2": not openat2_denied, "lookup": J.describe({"op": job["op"]}), "outcome": r, "syscalls": len(tr),
                        "constructor_attempts": len(ctor), "new_handles": len(newh), "wall_ms": r_.get("wall_ms")}
                if "panic" in r:
                    ck.violation("C08: procfs lookup panicked", desc)
                    continue
                cls = job["meta"]["cls"]
                if cls == "missing":
                    if r.get("err", {}).get("errno") != 2:
                        ck.violation("C08: a lookup of a path that does not exist did not report ENOENT", desc)
                    else:
                        stats["missing_enoent"] += 1
                if cls == "existing" and "ok" not in r and "bytes" not in r:
                    ck.violation("C08: a lookup of an entry every process can see failed", desc)
                if cls == "maybe-masked" and "err" in r and r["err"]["errno"] not in (1, 2, 13, 20):
                    ck.violation("C08: a lookup of a possibly masked entry failed with an unrelated error", desc)
                # true errors: a caller who can make a private procfs instance (root, fsopen available) gets an unmasked handle for
                # the retry, so an entry that exists is found whatever the host mount masks -- ENOENT there is a false answer
                if (cls == "maybe-masked" and job["op"]["k"] == "proc_open" and conf.get("uid") is None and "fsopen" not in deny
                        and "err" in r):
                    ck.violation("C08: an existing procfs entry, masked only on the host mount, was reported missing to a caller "
                                 "who can create a private procfs instance", desc)
                if len(newh) > 1 or len(ctor) > 3:
                    ck.violation("C08: a single lookup created more than one extra procfs handle / tried the constructors more than once", desc)
                if len(tr) > 1500 or r_.get("wall_ms", 0) > 5000:
                    ck.violation("C08: a single lookup used an unbounded amount of system calls / time", desc)
                fb = {e[0] for e in r_.get("fds_before", [])}
                fa = {e[0] for e in r_.get("fds_after", [])}
                ret_fd = r.get("ok", {}).get("fd") if "ok" in r else None
                if fb and fa and (fa - fb - ({ret_fd} if ret_fd is not None else set()) or fb - fa):
                    ck.violation("C08: descriptors leaked by a procfs lookup", dict(desc, before=sorted(fb), after=sorted(fa)))
                nontrivial.add((label, openat2_denied, job["op"]["k"], job["meta"]["path"], job["op"]["base"], str(r.get("err", {}).get("errno", "ok"))))
                if len(samples) < 6 and len(ctor) > 0:
                    samples.append(desc)
                if rng.random() < (0.6 if thorough else 0.3) and tr and warm:
                    cfg = warm_config(warm)
                    cfg["openat2"] = not openat2_denied
                    prog, enc = M.op_program(job, r_, cfg, ps)
                    if prog:
                        cases.append((len(cases), f"enc_replay_diag {enc} (run_trace ({prog}) {trace_to_coq(tr)} 0)", job, r_, label))
    if not ck.proof_broken:
        evals, cerrs = coq_eval([(c[0], c[1]) for c in cases], header="From PV Require Import Replay.", tag="c08")
        if cerrs:
            ck.violation("T1: Coq evaluation of the case files failed", {"log": cerrs[0][-1500:]}, False)
        for cid, term, job, res, label in cases:
            rep = evals.get(cid)
            if rep is None:
                continue
            if rep[0] == 0 and M.outcome_matches(res, rep[2:]):
                stats["t1_ok"] += 1
            else:
                stats["t1_bad"] += 1
                at = rep[1] if len(rep) > 1 else -1
                tr = [e for e in res["trace"] if e["c"] != "fcntl" or e.get("cmd") != 1]
                ck.violation("T1: model and implementation disagree on a procfs lookup (%s)" % label,
                             {"lookup": J.describe({"op": job["op"]}), "replay": rep, "real_outcome": res.get("res"), "around": tr[max(0, at - 2):at + 2]}, False)
    cov = {
        "evaluations": stats["runs"],
        "distinct_nontrivial": len(nontrivial),
        "rule": "12 procfs configurations (caller root / uid 2000 x host /proc options default, hidepid=1/2/ptraceable, subset=pid x private-mount "
                "constructors available / denied) x both procfs resolvers x bases x {existing, missing, masked-but-existing} sub-paths x {open, readlink}; "
                "every run in a fresh driver process in its own mount namespace; distinct by (configuration, resolver, op, path, base, outcome)",
        "samples": samples or [{"note": "none"}],
        "missing_paths_reported_enoent": stats["missing_enoent"], "max_syscalls_per_lookup": stats["max_calls"],
        "max_constructor_attempts_per_lookup": stats["max_ctor_attempts"], "max_new_handles_per_lookup": stats["max_new_handles"],
        "runs_by_configuration": stats["by_config"],
        "traces_validated_against_impl": stats["t1_ok"], "t1_mismatches": stats["t1_bad"], "disagreements_checked": stats["t1_bad"],
    }
    assumptions = ["the check runs as root and can create mount namespaces and fresh procfs instances; the unprivileged caller is uid 2000 (setuid before threads start)",
                   "which entries are masked is up to the kernel: 'masked-but-existing' paths may legitimately be found or reported ENOENT/EACCES/EPERM (hidepid=1 answers EPERM)"]
    return cov, assumptions
