"""C01: in-root lookups match kernel RESOLVE_IN_ROOT semantics for every tree and path.

Proof: props/C01.v (pure walk models over an abstract static file system).
Ties: T2 -- the reference walk [kwalk] is compared with the running kernel's raw
openat2 on generated trees; the emulated-walk model [ewalk] and [kwalk] are
compared with the library's real outcomes under both kernel feature sets.
Runtime oracle: library result vs raw openat2 result (object identity or errno)."""
import random

import gen
import jobs as J
import fsmodel as F
import dyn as D
from gen import H, O
from vlib import run_driver_parallel, coq_eval, unhex, cb, trace_to_coq

COQ_TARGETS = ("theories/FSModel.vo", "proofs/FSProofs.vo", "theories/Static.vo", "proofs/StaticProofs.vo", "theories/Dyn.vo")

RES_NO_MAGIC, RES_NO_SYM, RES_IN_ROOT = 2, 4, 16


def outcome(res, objs_rev):
    r = res.get("res", {})
    if "ok" in r:
        return ("ok", objs_rev.get((r["ok"]["dev"], r["ok"]["ino"]), ("?", r["ok"]["dev"], r["ok"]["ino"])))
    if "bytes" in r:
        return ("bytes", r["bytes"])
    if "err" in r:
        e = r["err"]
        return ("err", e["errno"] if e["kind"] == "OsError" else e["kind"])
    return ("other", str(r)[:60])


def run(ck):
    rng = random.Random(ck.seed)
    thorough = ck.tier == "thorough"
    import model as M
    ps = M.sysctl_ps()
    ntrees = 300 if thorough else 40
    per = 8 if thorough else 6
    jobs, meta = [], {}
    jid = 0
    plan = []
    for t in range(ntrees):
        tree, m = gen.gen_tree(rng)
        for _ in range(per):
            plan.append((tree, gen.gen_path(rng, m, malformed=rng.random() < 0.18), rng.random() < 0.4, rng.random() < 0.25))
    # the link budgets' boundaries, always: chains of exactly k links for k around 40 and around the library's own constant
    for tree, p, n in gen.link_budget_cases():
        plan.append((tree, p, False, False))
        if "/" not in p:
            plan.append((tree, p, True, False))
    # the shape of link bodies, always: empty components, trailing slashes on files / directories / links
    for tree, p in gen.link_body_shape_cases():
        plan.append((tree, p, False, False))
        plan.append((tree, p, True, False))
    for tree, p, nf, nosym in plan:
        if True:
            base = jid
            case = {"tree": tree, "path": p, "nf": nf, "nosym": nosym}
            jid += 1
            # a third of the lookups are traced: their real system-call answers validate the static kernel model (tie T2')
            jobs.append({"id": jid, "tree": tree, "op": {"k": "resolve", "path": H(p), "nofollow": nf}, "rflags": 4 if nosym else 0,
                         "trace": rng.random() < 0.34})
            case["lib"] = jid
            jid += 1
            jobs.append({"id": jid, "tree": tree, "op": {"k": "raw_openat2", "path": H(p), "flags": O["PATH"] | (O["NOFOLLOW"] if nf else 0),
                                                         "resolve": RES_IN_ROOT | RES_NO_MAGIC | (RES_NO_SYM if nosym else 0)}})
            case["raw"] = jid
            # readlink and one-shot open on the same path
            jid += 1
            jobs.append({"id": jid, "tree": tree, "op": {"k": "readlink", "path": H(p)}, "rflags": 4 if nosym else 0, "trace": False})
            case["readlink"] = jid
            fl = gen.gen_oflags(rng)
            jid += 1
            jobs.append({"id": jid, "tree": tree, "op": {"k": "open", "path": H(p), "flags": fl}, "rflags": 4 if nosym else 0, "trace": False})
            case["open"] = jid
            jid += 1
            jobs.append({"id": jid, "tree": tree, "op": {"k": "raw_openat2", "path": H(p), "flags": fl,
                                                         "resolve": RES_IN_ROOT | RES_NO_MAGIC | (RES_NO_SYM if nosym else 0)}})
            case["rawopen"] = jid
            case["oflags"] = fl
            if not any(op_[0] == "hardlink" for op_ in tree) and rng.random() < 0.4:
                # tie T2'': the procfs part of the static kernel -- what as_unsafe_path does on a handle for this path
                jid += 1
                jobs.append({"id": jid, "tree": tree, "op": {"k": "proc_fd_path", "path": H(p)}, "only_with_openat2": True})
                case["fdpath"] = jid
            meta[base] = case
    res = {}
    for deny in ((), ("openat2",)):
        tag = ",".join(deny) or "none"
        _, results, errs = run_driver_parallel([j for j in jobs if not (deny and j.get("only_with_openat2"))], deny=deny, tag="c01" + tag)
        res[tag] = results
    # Answers that the kernel gives only because the machine is busy are asked for again, alone: under concurrent renames
    # (other shards, other processes) the kernel's walk answers EAGAIN and -- starting over after a failed RCU walk with its link
    # counter not reset -- ELOOP for lookups it resolves when nothing else is going on.  Deterministic answers stay what they are.
    def transient(r):
        e = (r or {}).get("res", {}).get("err", {})
        return e.get("errno") in (40, 11) or e.get("kind") == "SafetyViolation"
    byid_jobs = {j["id"]: j for j in jobs}
    again = []
    for case in meta.values():
        ids = [case[k] for k in ("lib", "raw", "readlink", "open", "rawopen")]
        if any(transient(res[t].get(i)) for t in res for i in ids):
            again += [byid_jobs[i] for i in ids]
    if again:
        for deny in ((), ("openat2",)):
            tag = ",".join(deny) or "none"
            _, results, errs = run_driver_parallel(again, deny=deny, tag="c01r" + tag, shards=1)
            res[tag].update(results)
        # processes that have nothing to do with this check may be renaming things as well (the rename seqlock is global):
        # where the openat2 backend and the raw kernel call still differ by a busy-machine answer, ask up to three more times
        for _round in range(3):
            still = []
            for case in meta.values():
                a, b_ = res["none"].get(case["lib"]), res["none"].get(case["raw"])
                c_, d_ = res["none"].get(case["open"]), res["none"].get(case["rawopen"])
                if (transient(a) != transient(b_)) or (transient(c_) != transient(d_)):
                    still += [byid_jobs[case[k]] for k in ("lib", "raw", "readlink", "open", "rawopen")]
            if not still:
                break
            _, results, errs = run_driver_parallel(still, deny=(), tag="c01rr", shards=1)
            res["none"].update(results)
    stats = {"cases": 0, "kernel_vs_model": 0, "lib_vs_kernel": 0, "emu_vs_model": 0, "known_FH": 0, "outcomes": {}, "readlink": 0, "open": 0,
             "asked_again_alone": len(again)}
    nontrivial = set()
    samples = []
    cases = []
    kcases = []
    xcases = []
    for base, case in meta.items():
        rk = res["none"]
        re_ = res["openat2"]
        raw = rk.get(case["raw"])
        libk = rk.get(case["lib"])
        libe = re_.get(case["lib"])
        if not raw or not libk or not libe or "setup_err" in raw.get("res", {}):
            continue
        if raw.get("build_errs"):
            pass
        objs = libk.get("objs", {})
        rev = {}
        for hp, ident in objs.items():
            if ident:
                rev.setdefault((ident[0], ident[1]), hp)
        # each run has its own sandbox (own inode numbers): map identities back to creation paths per run
        def oc(r):
            # canonical name of an object = the first creation path (in tree order) with that (dev, ino)
            ob = r.get("objs", {})
            rv = {}
            for hp in [H("root")] + [op[1] for op in case["tree"]]:
                ident = ob.get(hp)
                if ident:
                    rv.setdefault((ident[0], ident[1]), hp)
            return outcome(r, rv)
        o_raw, o_k, o_e = oc(raw), oc(libk), oc(libe)
        stats["cases"] += 1
        stats["outcomes"][str(o_raw[0]) + (":" + str(o_raw[1]) if o_raw[0] == "err" else "")] = \
            stats["outcomes"].get(str(o_raw[0]) + (":" + str(o_raw[1]) if o_raw[0] == "err" else ""), 0) + 1
        desc = {"tree": J.describe({"op": {"k": "x"}, "tree": case["tree"]})["tree"], "path": case["path"], "nofollow": case["nf"],
                "no_symlinks": case["nosym"], "raw_openat2": o_raw}
        # tie T3: the model PROGRAM (walk, Rc bookkeeping, every check_current through the procfs model) executed on the static
        # kernel model from the same tree, for both backends, and for readlink: same outcome, same object
        if rng.random() < (0.7 if thorough else 0.35):
            D.collect_exec(xcases, case["tree"], byid_jobs[case["lib"]], libk, True, ps, dict(desc, backend="openat2"))
            D.collect_exec(xcases, case["tree"], byid_jobs[case["lib"]], libe, False, ps, dict(desc, backend="emulated"))
            rl_k, rl_e = rk.get(case["readlink"]), re_.get(case["readlink"])
            if rl_k:
                D.collect_exec(xcases, case["tree"], byid_jobs[case["readlink"]], rl_k, True, ps, dict(desc, backend="openat2", op="readlink"))
            if rl_e:
                D.collect_exec(xcases, case["tree"], byid_jobs[case["readlink"]], rl_e, False, ps, dict(desc, backend="emulated", op="readlink"))
        if o_k != o_raw:
            ck.violation("C01: the openat2 backend and the kernel's own RESOLVE_IN_ROOT resolution disagree", dict(desc, library=o_k))
        stats["lib_vs_kernel"] += 1
        emu_differs = o_e != o_raw
        # containment, independently of the comparison
        for who, o in (("openat2 backend", o_k), ("emulated backend", o_e)):
            if o[0] == "ok" and (not isinstance(o[1], str) or not (unhex(o[1]) == b"root" or unhex(o[1]).startswith(b"root/"))):
                ck.violation("C01: a successful lookup returned an object outside the root (%s)" % who, dict(desc, got=o))
        # readlink: the body of the link that nofollow resolution names
        for tag, rr in (("none", rk), ("openat2", re_)):
            rl = rr.get(case["readlink"])
            if not rl:
                continue
            stats["readlink"] += 1
            o_rl = oc(rl)
            raw_nf = raw if case["nf"] else None
            if o_rl[0] == "bytes":
                # must be the body of a symlink object of the tree reachable in-root: checked against the model below
                pass
        open_pending = []
        # one-shot open vs raw openat2 with the same flags
        rawopen = rk.get(case["rawopen"])
        for tag, rr in (("none", rk), ("openat2", re_)):
            op_ = rr.get(case["open"])
            if not op_ or not rawopen:
                continue
            stats["open"] += 1
            a, b_ = oc(op_), oc(rawopen)
            fl = case["oflags"]
            creation = bool(fl & (O["CREAT"] | O["EXCL"])) or (fl & O["TMPFILE"]) == O["TMPFILE"]
            if creation:
                continue
            if a != b_:
                if b_ == ("err", 40) and tag != "none":
                    open_pending.append((len(cases), a, b_, fl, desc))     # decided with the model's budget verdict below
                    continue
                ck.violation("C01: open_subpath and raw openat2 with the same flags disagree (%s)" % ("emulated" if tag != "none" else "openat2 backend"),
                             dict(desc, flags=fl, library=a, raw=b_))
            elif a[0] == "ok":
                ga, gb = op_["res"]["ok"]["getfl"], rawopen["res"]["ok"]["getfl"]
                if (ga & ~O["NOFOLLOW"]) != (gb & ~O["NOFOLLOW"]):
                    ck.violation("C01: open_subpath's F_GETFL differs from raw openat2's", dict(desc, flags=fl, library=ga, raw=gb))
        nontrivial.add((case["path"], case["nf"], case["nosym"], str(o_raw)))
        if len(samples) < 6 and o_raw[0] == "err" and o_raw[1] in (40, 20):
            samples.append(desc)
        # model evaluation
        mk, idmap = F.tree_to_mkops(case["tree"], raw.get("build_errs", []))
        pb = cb(case["path"].encode("latin1").hex())
        nf, ns = ("true" if case["nf"] else "false"), ("true" if case["nosym"] else "false")
        # the one-shot open follows a trailing link unless O_NOFOLLOW was asked for: its own walk mode
        nfo = "true" if case["oflags"] & O["NOFOLLOW"] else "false"
        term = (f"let s := build {mk} in enc_wres (kwalk s {pb} {nf} {ns}) ++ enc_wres (ewalk s {pb} {nf} {ns}) "
                f"++ [if wf_b s then 1%Z else 0%Z] ++ enc_wres (kwalk s {pb} {nfo} {ns}) ++ enc_wres (ewalk s {pb} {nfo} {ns})")
        cases.append((len(cases), term, o_raw, o_e, idmap, desc, emu_differs, open_pending))
        fp = rk.get(case.get("fdpath", -1))
        if fp and "bytes" in fp.get("res", {}) and fp.get("handle") and fp.get("root_fd") is not None:
            rev_id = {v: k_ for k_, v in idmap.items()}
            ob = fp.get("objs", {})
            hp = next((h for h in [H("root")] + [op_[1] for op_ in case["tree"]]
                       if ob.get(h) and (ob[h][0], ob[h][1]) == (fp["handle"]["dev"], fp["handle"]["ino"])), None)
            if hp in rev_id:
                ptr = fp.get("handle_trace", []) + fp.get("trace", [])
                t3 = (f"let s := build {mk} in let '(bad, n) := agree_trace s {cb(fp['rootpath'])} "
                      f"[({fp['root_fd']}%Z, ROOT); ({fp['handle']['fd']}%Z, {rev_id[hp]}%nat)] {trace_to_coq(ptr)} 0 0 in [Z.of_N bad; Z.of_N n]")
                kcases.append((len(kcases), t3, dict(desc, procfs_read_of=unhex(hp).decode("latin1"), answer=unhex(fp["res"]["bytes"]).decode("latin1")), ptr))
                stats["procfs_traces"] = stats.get("procfs_traces", 0) + 1
        tr = libe.get("trace")
        if tr:
            dup = next((e for e in tr if e["c"] == "fcntl" and e.get("cmd") == 1030), None)
            if dup is not None:
                t2 = f"let s := build {mk} in let '(bad, n) := agree_trace s [] [({dup['fd']}%Z, ROOT)] {trace_to_coq(tr)} 0 0 in [Z.of_N bad; Z.of_N n]"
                kcases.append((len(kcases), t2, desc, tr))
    if not ck.proof_broken:
        evals, cerrs = coq_eval([(c[0], c[1]) for c in cases], header="From PV Require Import FSModel FSProofs.", tag="c01")
        if cerrs:
            ck.violation("T2: Coq evaluation of the model cases failed", {"log": cerrs[0][-1500:]}, False)
        for cid, term, o_raw, o_e, idmap, desc, emu_differs, open_pending in cases:
            got = evals.get(cid)
            if got is None or len(got) != 9:
                if emu_differs:
                    ck.violation("C01: the emulated backend disagrees with kernel RESOLVE_IN_ROOT resolution", dict(desc, library_emulated=o_e))
                continue

            def dec(a, b_):
                return ("ok", idmap.get(b_, "?%d" % b_)) if a == 0 else ("err", b_)
            mk_, me_ = dec(got[0], got[1]), dec(got[2], got[3])
            stats['wf_trees'] = stats.get('wf_trees', 0) + got[4]
            # the recorded difference F-H: the kernel's walk runs out of its 40-link budget, the emulated one (127) does not
            fh_class = got[0] == 2 and got[2] != 2
            fh_open = got[5] == 2 and got[7] != 2          # the same class for the open's own walk mode
            kf = [f for f in ck.known if f["id"] == "F-H-linkbudget"]
            if emu_differs:
                if kf and fh_class and o_raw == ("err", 40):
                    stats["known_FH"] += 1
                    ck.known_finding(kf[0]["id"], kf[0]["what"])
                else:
                    ck.violation("C01: the emulated backend disagrees with kernel RESOLVE_IN_ROOT resolution", dict(desc, library_emulated=o_e))
            for (_, a, b_, fl, d2) in open_pending:
                if kf and fh_open:
                    stats["known_FH"] += 1
                    ck.known_finding(kf[0]["id"], kf[0]["what"])
                else:
                    ck.violation("C01: open_subpath and raw openat2 with the same flags disagree (emulated)", dict(d2, flags=fl, library=a, raw=b_))
            stats["kernel_vs_model"] += 1
            if mk_ != o_raw:
                ck.violation("T2: the reference walk (kwalk) disagrees with the running kernel's openat2 -- the model of the kernel is wrong",
                             dict(desc, model_kwalk=mk_), False)
            stats["emu_vs_model"] += 1
            if me_ != o_e:
                ck.violation("T2: the emulated-walk model (ewalk) disagrees with the library's emulated backend",
                             dict(desc, model_ewalk=me_, library_emulated=o_e), False)
        # T2': the static kernel model (theories/Static.v) against the answers the running kernel gave to the library's own calls
        kevals, kerrs = coq_eval([(c[0], c[1]) for c in kcases], header="From PV Require Import Static.\nFrom PV Require Import FSModel.", tag="c01k")
        if kerrs:
            ck.violation("T2': Coq evaluation of the static-kernel cases failed", {"log": kerrs[0][-1500:]}, False)
        for cid, term, desc, tr in kcases:
            got = kevals.get(cid)
            if got is None or len(got) != 2:
                continue
            stats["static_traces"] = stats.get("static_traces", 0) + 1
            stats["static_calls"] = stats.get("static_calls", 0) + got[1]
            if got[0] != 0:
                evs = [e for e in tr if e["c"] != "fcntl" or e.get("cmd") != 1]
                ck.violation("T2': the static kernel model disagrees with the answer the running kernel gave to a call of the emulated resolver",
                             dict(desc, call_index=got[0] - 1, around=evs[max(0, got[0] - 3):got[0] + 1]), False)
        D.evaluate_exec(ck, xcases, stats, coq_eval, "c01x")
    else:
        for cid, term, o_raw, o_e, idmap, desc, emu_differs, open_pending in cases:
            if emu_differs:
                ck.violation("C01: the emulated backend disagrees with kernel RESOLVE_IN_ROOT resolution", dict(desc, library_emulated=o_e))
    cov = {
        "evaluations": stats["cases"],
        "distinct_nontrivial": len(nontrivial),
        "rule": "random trees (1-12 objects: dirs, files, fifos, hard links, relative/absolute/dangling/looping/escaping links, bodies with //, "
                "trailing /, . and .., chains of up to 45 links) x mostly-valid walks plus a malformed stream ('', '/', '..'xk, 256-byte names, "
                "' (deleted)' names) x {follow, nofollow} x {none, NO_SYMLINKS}; each case: library resolve/readlink/open_subpath on both kernel "
                "feature sets, the kernel's raw openat2, and both Coq walk models; distinct by (path, mode, flags, kernel outcome)",
        "samples": samples or [{"note": "none"}],
        "kernel_vs_reference_model": stats["kernel_vs_model"], "library_vs_kernel": stats["lib_vs_kernel"] * 2,
        "emulated_vs_model": stats["emu_vs_model"], "open_subpath_compared": stats["open"], "readlink_compared": stats["readlink"],
        "jobs_with_eloop_or_eagain_asked_again_alone": stats["asked_again_alone"], "known_link_budget_cases": stats["known_FH"], "model_trees_satisfying_wf": stats.get("wf_trees", 0), "kernel_outcome_histogram": stats["outcomes"],
        "static_kernel_traces_validated": stats.get("static_traces", 0), "of_which_procfs_reads": stats.get("procfs_traces", 0), "static_kernel_calls_compared": stats.get("static_calls", 0),
        "traces_validated_against_impl": stats["kernel_vs_model"] + stats["emu_vs_model"] + stats.get("static_traces", 0),
        "disagreements_checked": 0,
        "model_executions_compared_with_the_library": stats.get("exec_runs", 0), "model_executions_agreeing": stats.get("exec_agree", 0),
        "model_executions_leaving_the_model": stats.get("exec_left_model", 0),
    }
    assumptions = ["the tree is static during each lookup (C02 covers attackers)", "no DAC/MAC permission checks are modelled (the harness runs as root)",
                   "fs.protected_symlinks is 0 during this check (C15 covers it)"]
    return cov, assumptions


def many_links(case):
    n = sum(1 for op in case["tree"] if op[0] == "symlink")
    return n >= 41


def ck_known_fh(ck, raw, lib, case):
    kf = [f for f in ck.known if f["id"] == "F-H-linkbudget"]
    if kf and raw == ("err", 40) and many_links(case):
        ck.known_finding(kf[0]["id"], kf[0]["what"])
        return True
    return False
