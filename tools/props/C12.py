"""C12: mkdir_all creates exactly the missing directories and converges under races.

Proof: props/C12.v (argument checks, discipline, balance, no panic -- all answers).
Runtime: whole-sandbox snapshots; on success the returned handle is the kernel's
raw in-root resolution of the path in the resulting tree, the new entries are
exactly one chain of directories below the existing prefix with the requested
mode (modulo umask / setgid inheritance), nothing else changed; on failure only
directories of one chain were added; racing callers for equal / overlapping paths
all succeed with handles to the same directories.  Traces replayed (T1)."""
import os
import random

import gen
import jobs as J
import model as M
from gen import H, O
from vlib import run_driver_parallel, coq_eval, warm_config, trace_to_coq, unhex, cb
import fsmodel as F
import dyn as D
from props.C14 import diff, snapmap

# the case files of this check import the monitors: keep them compiled against the current generated constants
COQ_TARGETS = ("theories/Replay.vo", "theories/Discipline.vo", "theories/FdBalance.vo", "proofs/MonitorProofs.vo", "theories/Dyn.vo")

RES = 16 | 2


def mk_tree(rng):
    t = [["dir", H("root"), 0o755], ["dir", H("outside"), 0o755], ["file", H("outside/secret"), H("s"), 0o644],
         ["dir", H("root/a"), 0o755], ["dir", H("root/a/b"), 0o755], ["file", H("root/a/file"), H("x"), 0o644],
         ["symlink", H("root/l"), H("a/b")], ["symlink", H("root/dangling"), H("nonexistent")], ["symlink", H("root/esc"), H("../outside")],
         ["symlink", H("root/abs"), H("/a")], ["symlink", H("root/a/b/up"), H("../..")], ["fifo", H("root/pipe"), 0o644],
         ["dir", H("root/sg"), 0o2775], ["symlink", H("root/loop"), H("loop")], ["symlink", H("root/a/dl"), H("../dangling")],
         # links inside link bodies: the emulated partial lookup's symlink stack two and three entries deep, failing at different
         # depths (no theorem covers the stack: these feed T1, T3 and the comparison with the kernel's resolution)
         ["symlink", H("root/n1"), H("n2/t1")], ["symlink", H("root/n2"), H("a/b")], ["symlink", H("root/m1"), H("a/./b/")],
         ["symlink", H("root/m2"), H("l/../a/b")], ["symlink", H("root/m3"), H("/abs/b")], ["symlink", H("root/m4"), H("m5/")],
         ["symlink", H("root/m5"), H("dangling")], ["symlink", H("root/m6"), H("n2/../../m2/./up/a")]]
    return t


PATHS = ["x", "x/y/z", "a/b/c", "a/b/c/d/e", "l/new", "l/n1/n2", "abs/b/deep/er", "a/b/up/a/b/q", "a/../a/./b//w", "/a/b/abs1/abs2",
         "a/file/x", "pipe/x", "dangling/x", "dangling", "a/dl/x", "esc/x", "esc", "loop/x", "a/b/../../n", "x/../y", "new/../other", "x/y/../z",
         "a/b", "a", "", ".", "/", "..", "../x", "sg/g1/g2", "a/b/c/", "a/b//c//", "x/./y", "a/b/up/q", "l/../viaL", "k (deleted)/m",
         "n1/x/y", "n1", "n2/t1/t2", "m1/new/q", "m2/k1/k2", "m3/z", "m3/../z2", "m4/x", "m4", "m6/w1/w2", "m6/b/w3", "m2/up/m1/w4"]


MODES = [0o755, 0o700, 0o1777, 0o750, 0o555, 0o500, 0o070, 0o1055, 0o000, 0o444, 0o711, 0o007]


def plain_chain_should_succeed(path, before):
    """Conservative: the path is made of plain names only (no '.', '..', no empty component but a single leading or trailing
    '/'); walking it from the root, every component that exists is a real directory (not a link) up to the first missing one,
    and nothing exists after that.  Then mkdir_all (as root) has nothing to refuse."""
    comps = path.strip(b"/").split(b"/") if path.strip(b"/") else []
    if not comps or any(c in (b"", b".", b"..") or len(c) > 255 for c in comps) or path.startswith(b"//") or path.endswith(b"//"):
        return False        # (a component longer than NAME_MAX is answered ENAMETOOLONG: no reason to succeed)
    cur = b"root"
    missing = False
    for c in comps:
        nxt = cur + b"/" + c
        if nxt in before:
            if missing or (before[nxt][1] & 0o170000) != 0o040000:
                return False
        else:
            missing = True
        cur = nxt
    return True


def run(ck):
    rng = random.Random(ck.seed)
    thorough = ck.tier == "thorough"
    ps = M.sysctl_ps()
    umask = os.umask(0)
    os.umask(umask)
    tree = mk_tree(rng)
    jobs = []
    jid = 0
    for p in PATHS:
        # modes with and without the owner's write/search bits (the check runs as root, which may create inside a 0555 directory)
        for mode in (MODES if thorough else [rng.choice(MODES[:3]), rng.choice(MODES[3:]), rng.randrange(0o2000)]):
            jid += 1
            jobs.append({"id": jid, "tree": tree, "op": {"k": "mkdir_all", "path": H(p), "mode": mode}, "snap": "all",
                         "post_raw": {"path": H(p or "."), "flags": O["PATH"], "resolve": RES}, "meta": {"path": p}})
    # a Root configured with ResolverFlags::NO_SYMLINKS: the in-root resolution of the path is then the one that refuses every link
    for p in PATHS:
        jid += 1
        jobs.append({"id": jid, "tree": tree, "rflags": 4, "op": {"k": "mkdir_all", "path": H(p), "mode": rng.choice(MODES[:3])}, "snap": "all",
                     "post_raw": {"path": H(p or "."), "flags": O["PATH"], "resolve": RES | 4}, "meta": {"path": p}})
    for _ in range(40 if thorough else 6):
        t2, meta = gen.gen_tree(rng)
        for _ in range(5):
            p = gen.gen_path(rng, meta, malformed=rng.random() < 0.1) + rng.choice(["", "/n", "/n/m", "/../q/r", "/./w//v/"])
            jid += 1
            jobs.append({"id": jid, "tree": t2, "op": {"k": "mkdir_all", "path": H(p), "mode": rng.choice(MODES)}, "snap": "all",
                         "post_raw": {"path": H(p or "."), "flags": O["PATH"], "resolve": RES}, "meta": {"path": p}})
    # racing callers: same and overlapping paths
    cjobs = []
    GROUPS = [["x/y/z", "x/y/z"], ["x/y/z", "x/y", "x"], ["a/b/c/d", "a/b/c/e", "a/b/c"], ["l/p/q", "a/b/p/q"], ["n1/n2/n3/n4", "n1/n2", "n1/n2/n3/n4"],
              ["abs/b/r/s", "a/b/r/t", "l/r"], ["sg/u/v", "sg/u/v", "sg/u/w", "sg/u"]]
    for _ in range(50 if thorough else 10):
        g = rng.choice(GROUPS)
        jid += 1
        # half of the groups: every caller asks for its own mode (whoever creates a component first decides its mode; the others
        # find it there and must carry on)
        modes = [0o755] * len(g) if rng.random() < 0.5 else [rng.choice([0o700, 0o755, 0o750, 0o711, 0o1777]) for _ in g]
        cjobs.append({"id": jid, "tree": tree, "op": {"k": "concurrent", "ops": [{"k": "mkdir_all", "path": H(p), "mode": m_} for p, m_ in zip(g, modes)]},
                      "post_raws": [{"path": H(p), "flags": O["PATH"], "resolve": RES} for p in g], "meta": {"paths": g}})
    # ... and a caller that is bound to fail AFTER it has created part of a prefix it shares with valid callers (a final component
    # longer than NAME_MAX): whatever it does on its way out, the valid callers still succeed, with handles to the directories now
    # at their paths.  The window is narrow and the scheduler is the real one, hence many rounds.
    LONG = "L" * 300
    DOOMED = [[("q1/q2/q3/" + LONG, True), ("q1/q2/q3/ok", False)], [("r1/r2/" + LONG, True), ("r1/r2/x/y", False), ("r1/r2", False)],
              [("a/b/s1/s2/" + LONG + "/t", True), ("l/s1/s2/u", False)]]
    for i in range(400 if thorough else 120):
        g = DOOMED[i % len(DOOMED)]
        jid += 1
        cjobs.append({"id": jid, "tree": tree, "op": {"k": "concurrent", "ops": [{"k": "mkdir_all", "path": H(p), "mode": 0o755} for p, _ in g]},
                      "post_raws": [{"path": H(p), "flags": O["PATH"], "resolve": RES} for p, _ in g],
                      "meta": {"paths": [p if not d_ else p[:12] + "...(300 bytes)" for p, d_ in g], "doomed": [d_ for _, d_ in g]}})
    byid = {j["id"]: j for j in jobs + cjobs}
    stats = {"ops": 0, "created_ok": 0, "failed": 0, "races": 0, "t1_ok": 0, "t1_bad": 0, "chain_len": {}, "mode_refused": 0}
    nontrivial = set()
    samples = []
    cases = []
    dcases = []
    xcases = []
    fh_cases = []
    # invalid modes are refused before anything happens
    bad_mode_jobs = []
    for m in (0o2755, 0o4755, 0o40755, 0o7777, 0o10000):
        jid += 1
        bad_mode_jobs.append({"id": jid, "tree": tree, "op": {"k": "mkdir_all", "path": H("bm/x"), "mode": m}, "snap": "all", "meta": {"path": "bm/x"}})
    for j in bad_mode_jobs:
        byid[j["id"]] = j
    for deny in ((), ("openat2",)):
        tag = ",".join(deny) or "none"
        _, results, errs = run_driver_parallel(jobs + cjobs + bad_mode_jobs, deny=deny, tag="c12" + tag)
        for jid_, res in results.items():
            job = byid[jid_]
            op = job["op"]
            r = res.get("res", {})
            if "setup_err" in r:
                continue
            added, removed, changed, after, before = diff(res.get("snap_before"), res.get("snap_after"))
            desc = {"job": J.describe({"op": op}) if op["k"] != "concurrent" else {"k": "concurrent mkdir_all", "paths": job["meta"]["paths"]},
                    "resolver_flags": "NO_SYMLINKS" if job.get("rflags") else "none", "resolver": "emulated" if deny else "openat2", "outcome": r, "added": [a.decode("latin1") for a in added],
                    "removed": [a.decode("latin1") for a in removed], "changed": [a.decode("latin1") for a in changed]}
            if op["k"] == "concurrent":
                stats["races"] += 1
                outs = r.get("outs", [])
                prs = res.get("post_raws", [])
                if any("panic" in o for o in outs):
                    ck.violation("C12: a racing mkdir_all panicked", desc)
                    continue
                doomed = job["meta"].get("doomed") or [False] * len(outs)
                if doomed != [False] * len(outs):
                    stats["races_with_a_doomed_caller"] = stats.get("races_with_a_doomed_caller", 0) + 1
                if not all("ok" in o for o, d_ in zip(outs, doomed) if not d_):
                    ck.violation("C12: concurrent mkdir_all calls for equal/overlapping paths did not all succeed" +
                                 (" (the caller that fails is the one whose own path cannot be created; the others have no reason to)" if any(doomed) else ""), desc)
                    continue
                for o, pr, p, d_ in zip(outs, prs, job["meta"]["paths"], doomed):
                    if d_:
                        continue
                    if "ok" not in pr or (pr["ok"]["dev"], pr["ok"]["ino"]) != (o["ok"]["dev"], o["ok"]["ino"]):
                        ck.violation("C12: a racing mkdir_all returned a handle that is not the directory now at its path", dict(desc, path=p, kernel=pr))
                        break
                if removed or changed or any((after[a][1] & 0o170000) != 0o040000 for a in added):
                    ck.violation("C12: racing mkdir_all calls changed something else than adding directories", desc)
                nontrivial.add(("race", tuple(job["meta"]["paths"]), tag))
                continue
            stats["ops"] += 1
            if "panic" in r:
                ck.violation("C12: mkdir_all panicked", desc)
                continue
            mode = op["mode"]
            if mode & ~0o1777:
                stats["mode_refused"] += 1
                if "err" not in r or r["err"]["kind"] != "InvalidArgument" or added or removed or changed:
                    ck.violation("C12: mode bits outside 0o1777 were not refused without effect", desc)
                if [e for e in res.get("trace", []) if e["c"] != "gettid"]:
                    ck.violation("C12: system calls were issued before an invalid mode was refused", desc)
                continue
            # whatever the outcome: only directories may be added, forming one chain; nothing removed or modified
            chain_ok = not removed and not changed and all((after[a][1] & 0o170000) == 0o040000 for a in added)
            for a in added:
                parent = a.rsplit(b"/", 1)[0]
                if parent not in before and parent not in added:
                    chain_ok = False
            kids = {}
            for a in added:
                kids.setdefault(a.rsplit(b"/", 1)[0], []).append(a)
            if any(len(v) > 1 for v in kids.values()):
                chain_ok = False
            if not chain_ok:
                ck.violation("C12: mkdir_all changed the tree otherwise than by adding one chain of directories", desc)
                continue
            if any(not (a == b"root" or a.startswith(b"root/")) for a in added):
                ck.violation("C12: mkdir_all created a directory outside the root", desc)
                continue
            if "ok" in r:
                stats["created_ok"] += 1
                stats["chain_len"][len(added)] = stats["chain_len"].get(len(added), 0) + 1
                pr = res.get("post_raw", {})
                if "ok" not in pr or (pr["ok"]["dev"], pr["ok"]["ino"]) != (r["ok"]["dev"], r["ok"]["ino"]):
                    if deny and pr.get("err", {}).get("errno") == 40:
                        # possibly the recorded link-budget difference F-H (C01): decided by the model on the resulting tree
                        after_tree = list(job["tree"]) + [["dir", a.hex(), 0o755] for a in sorted(added)]
                        mk, _ = F.tree_to_mkops(after_tree, res.get("build_errs", []))
                        pb = cb(op["path"])
                        fh_cases.append((len(fh_cases), f"let s := build {mk} in enc_wres (kwalk s {pb} false false) ++ enc_wres (ewalk s {pb} false false)",
                                         dict(desc, kernel=pr)))
                    else:
                        ck.violation("C12: the returned handle is not the in-root resolution of the path in the resulting tree", dict(desc, kernel=pr))
                elif (r["ok"]["mode"] & 0o170000) != 0o040000:
                    ck.violation("C12: mkdir_all returned a handle that is not a directory", desc)
                for a in added:
                    got = after[a][1] & 0o7777
                    want = mode & ~umask
                    parent = a.rsplit(b"/", 1)[0]
                    pmode = (after.get(parent) or before.get(parent))[1]
                    if pmode & 0o2000:
                        want |= 0o2000
                    if got != want:
                        ck.violation("C12: a created directory has mode %o, expected %o (requested %o, umask %o)" % (got, want, mode, umask), desc)
                        break
                nontrivial.add((op["path"], len(added), tag, job.get("rflags", 0)))
                if len(samples) < 4 and len(added) >= 2:
                    samples.append(desc)
            else:
                stats["failed"] += 1
                if plain_chain_should_succeed(unhex(op["path"]), before):
                    ck.violation("C12: mkdir_all failed although every existing component of its path is a directory of the root's tree and "
                                 "the rest are plain names that do not exist", desc)
            # tie T2d (with openat2 available: the re-open of the deepest existing directory goes through the procfs handle, whose
            # model has fixed pid/tid names without it): every answer of the running kernel and the resulting tree
            if not deny and res.get("trace") and rng.random() < (0.8 if thorough else 0.5):
                dterm = D.case_term(job["tree"], res, procfd=warm_config(res["_warm"])["procfd"])
                if dterm:
                    dcases.append((len(dcases), dterm, desc, res))
            # tie T3 (both backends): the model program run on the model kernel from the same tree
            if rng.random() < (0.8 if thorough else 0.5):
                D.collect_exec(xcases, job["tree"], {"op": op, "rflags": job.get("rflags", 0)}, res, not deny, ps, desc)
            if rng.random() < (0.5 if thorough else 0.3) and res.get("trace"):
                cfg = warm_config(res["_warm"])
                prog, enc = M.op_program({"op": op, "rflags": job.get("rflags", 0)}, res, cfg, ps)
                if prog:
                    # trace_chain: the judgement of C12_creation_is_one_chain evaluated on the recorded calls themselves (MonitorProofs.chain_sound)
                    cases.append((len(cases), f"let t := {trace_to_coq(res['trace'])} in enc_replay_diag {enc} (run_trace ({prog}) t 0) ++ "
                                              f"[(if trace_chain t then 1 else 0)%Z]", job, res, tag))
    if fh_cases:
        evals, cerrs = coq_eval([(c[0], c[1]) for c in fh_cases], header="From PV Require Import FSModel.", tag="c12fh")
        kf = [f for f in ck.known if f["id"] == "F-H-linkbudget"]
        for cid, term, desc in fh_cases:
            got = evals.get(cid)
            if kf and got is not None and len(got) == 4 and got[0] == 2 and got[2] == 0:
                # kernel walk: budget exhausted; emulated walk: resolves
                ck.known_finding(kf[0]["id"], kf[0]["what"])
            else:
                ck.violation("C12: the returned handle is not the in-root resolution of the path in the resulting tree", dict(desc, model=got))
    if ck.proof_broken and cases:
        # a proof or tie is broken: the model cannot be trusted, but the monitor needs no model -- use it to look for a concrete trace
        mevals, _ = coq_eval([(c[0], "let t := %s in [(if trace_chain t then 1 else 0)%%Z]" % trace_to_coq(c[3]["trace"])) for c in cases],
                             header="From PV Require Import Replay MonitorProofs.", tag="c12m")
        for cid, term, job, res, tag in cases:
            if mevals.get(cid) == [0]:
                ck.violation("C12: the mkdirat/openat calls of a recorded mkdir_all trace do not form one chain (monitor of C12_creation_is_one_chain on the recorded calls)",
                             {"job": J.describe({"op": job["op"]}), "deny": tag, "outcome": res.get("res"),
                               "calls": [e for e in res["trace"] if e["c"] in ("unlinkat", "mkdirat", "openat", "openat2", "renameat", "renameat2", "linkat", "symlinkat", "mknodat")][-40:]})
                break
    if not ck.proof_broken:
        evals, cerrs = coq_eval([(c[0], c[1]) for c in cases], header="From PV Require Import Replay MonitorProofs.", tag="c12")
        if cerrs:
            ck.violation("T1: Coq evaluation of the case files failed", {"log": cerrs[0][-1500:]}, False)
        for cid, term, job, res, tag in cases:
            rep = evals.get(cid)
            if rep is None:
                continue
            rep, chain_ok = rep[:-1], rep[-1]
            stats["monitored"] = stats.get("monitored", 0) + 1
            if chain_ok != 1:
                ck.violation("C12: the mkdirat/openat calls of a recorded mkdir_all trace do not form one chain (a mkdirat not on the directory "
                             "the chain has reached, an open that is not openat(that directory, the name just created, O_NOFOLLOW|O_DIRECTORY), "
                             "or another tree-changing call)",
                             {"job": J.describe({"op": job["op"]}), "deny": tag, "outcome": res.get("res"),
                              "calls": [e for e in res["trace"] if e["c"] in ("mkdirat", "openat", "openat2", "unlinkat", "renameat", "renameat2", "linkat", "symlinkat", "mknodat")][-30:]})
            if rep[0] == 0 and M.outcome_matches(res, rep[2:]):
                stats["t1_ok"] += 1
            else:
                stats["t1_bad"] += 1
                at = rep[1] if len(rep) > 1 else -1
                tr = [e for e in res["trace"] if e["c"] != "fcntl" or e.get("cmd") != 1]
                ck.violation("T1: model and implementation disagree on mkdir_all",
                             {"job": J.describe({"op": job["op"]}), "deny": tag, "replay": rep, "real_outcome": res.get("res"),
                              "around": tr[max(0, at - 2):at + 2]}, False)
    if not ck.proof_broken:
        D.evaluate(ck, dcases, stats, "mkdir_all", coq_eval, "c12d")
        D.evaluate_exec(ck, xcases, stats, coq_eval, "c12x")
    cov = {
        "evaluations": stats["ops"] + stats["races"],
        "distinct_nontrivial": len(nontrivial),
        "rule": "36 path shapes on a fixed tree (existing prefixes through relative/absolute links, '..' in the existing part, dangling links, "
                "files/fifos in the way, escaping links, setgid parent) x modes, random trees x walks with missing tails, invalid modes; "
                "racing groups of 2-4 callers on equal/overlapping paths (real threads, barrier); both backends; non-trivial = successful "
                "calls and races; distinct by (path, created chain length, backend)",
        "samples": samples or [{"note": "none"}],
        "traces_checked_by_chain_monitor": stats.get("monitored", 0),
        "successful_calls": stats["created_ok"], "failed_calls": stats["failed"], "invalid_modes_refused": stats["mode_refused"],
        "racing_groups": stats["races"], "racing_groups_with_a_caller_bound_to_fail": stats.get("races_with_a_doomed_caller", 0), "created_chain_length_histogram": stats["chain_len"],
        "traces_validated_against_impl": stats["t1_ok"], "t1_mismatches": stats["t1_bad"], "disagreements_checked": stats["t1_bad"],
    }
    cov.update(D.coverage(stats))
    assumptions = ["mkdir_all('') is judged like mkdir_all('.') (there is nothing to create; both backends return the root)",
                   "races use the real scheduler (threads released by a barrier), not an exhaustive enumeration of interleavings",
                   "the handle oracle is the kernel's raw openat2(RESOLVE_IN_ROOT) of the same path in the resulting tree"]
    return cov, assumptions
