"""C11: calls leave the descriptor table unchanged except for the returned fd.

Proof: props/C11.v (descriptor-balance judgement over the model programs, all
answers).  Tie T1: exact replay of the recorded traces (open/close/dup events
are part of the sequence); the balance function of the theorem is evaluated on
every recorded trace.  Runtime oracle: listing of /proc/self/fd before and
after every call (number, (dev, ino), FD_CLOEXEC)."""
import random

import jobs as J
import model as M
from vlib import run_driver_parallel, coq_eval, warm_config, trace_to_coq


def fd_oracle(ck, job, res, tag, stats):
    r = res.get("res", {})
    if "setup_err" in r:
        return
    before = {e[0]: e for e in res.get("fds_before", [])}
    after = {e[0]: e for e in res.get("fds_after", [])}
    ret_fd = None
    if "ok" in r:
        ret_fd = r["ok"].get("fd")
    elif "panic" in r:
        # the panic itself is C10's business; unwinding still drops every owned descriptor,
        # so the table comparison applies unchanged
        stats["panics"] += 1
    new = sorted(set(after) - set(before))
    gone = sorted(set(before) - set(after))
    changed = [fd for fd in before if fd in after and before[fd][1:3] != after[fd][1:3]]
    what = None
    if gone:
        what = "descriptor(s) %s open before the call are closed after it" % gone
    elif changed:
        what = "descriptor(s) %s refer to a different object after the call" % changed
    elif ret_fd is None and new:
        what = "call returned no descriptor but left %s open (leak)" % new
    elif ret_fd is not None and new != [ret_fd]:
        what = "call returned fd %s but the new descriptors are %s" % (ret_fd, new)
    elif ret_fd is not None and not (r["ok"].get("getfd", 0) & 1):
        what = "returned descriptor %s is not close-on-exec" % ret_fd
    if what:
        ck.violation("C11: " + what, {"job": J.describe(job), "deny": tag, "fds_before": res.get("fds_before"),
                                      "fds_after": res.get("fds_after"), "outcome": r})
    stats["oracle"] += 1


def run(ck):
    rng = random.Random(ck.seed)
    thorough = ck.tier == "thorough"
    scale = 6 if thorough else 1
    ps = M.sysctl_ps()
    base = []
    base += J.lookup_jobs(rng, 8 * scale, 6, idbase=0)
    base += J.mutator_jobs(rng, 8 * scale, 6, idbase=100000, snap="none")
    base += J.reopen_jobs(rng, 8 * scale, idbase=200000)
    base += J.proc_jobs(rng, 30 * scale, idbase=300000)
    faulted = J.with_fault(rng, base, frac=0.9)
    # descriptor exhaustion from index i onwards
    sticky = []
    for j in base:
        if rng.random() < 0.4:
            j2 = dict(j)
            j2["id"] = j["id"] + 2000000
            j2["policy"] = {"fault": {"at": rng.randint(0, 40), "errno": 24, "sticky": True,
                                      "only": ["openat", "openat2", "fcntl", "fsopen", "fsmount", "open_tree"]}}
            sticky.append(j2)
    capi = []
    for j in (base + faulted)[: 120 * scale]:
        if j["op"]["k"] in ("resolve", "open", "readlink", "create", "create_file", "mkdir_all", "remove_all",
                            "remove_file", "remove_dir", "rename", "reopen", "proc_open", "proc_readlink"):
            j2 = dict(j)
            j2["id"] = j["id"] + 5000000
            j2["api"] = "c"
            capi.append(j2)
            if len(capi) % 3 == 0 and not j["op"]["k"].startswith("proc_") and j["op"]["k"] != "reopen":
                # the same call with AT_FDCWD in place of the root descriptor: must be refused without touching anything
                j3 = dict(j2)
                j3["id"] = j["id"] + 6000000
                j3["op"] = dict(j["op"], root_fd_raw=-100)
                j3.pop("policy", None)
                capi.append(j3)
    # descriptor 0 free (stdin closed): the library's own descriptors may be number 0
    fd0 = []
    for j in base:
        if rng.random() < 0.35:
            j2 = dict(j)
            j2["id"] = j["id"] + 3000000
            j2["free_fd0"] = True
            fd0.append(j2)
    # ... and the same through the C API: the conditions are crossed, not only varied one at a time (the C boundary has its own
    # code for handing the descriptor over -- ret.rs -- which sees a low number only when stdio is closed)
    for j in capi:
        if "root_fd_raw" not in j["op"] and "policy" not in j and len(fd0) % 2 == 0 or rng.random() < 0.25:
            j2 = dict(j)
            j2["id"] = j["id"] + 4000000
            j2["free_fd0"] = True
            fd0.append(j2)
    alljobs = base + faulted + sticky + capi + fd0
    byjob = {j["id"]: j for j in alljobs}
    stats = {"oracle": 0, "panics": 0, "jobs": 0, "t1_ok": 0, "t1_bad": 0, "kinds": {}, "faulted": 0}
    cases = []
    for deny in ((), ("openat2",)):
        tag = ",".join(deny) or "none"
        warm, results, errs = run_driver_parallel(alljobs, deny=deny, tag="c11" + tag.replace(",", ""))
        for jid, res in results.items():
            job = byjob[jid]
            cfg = warm_config(res["_warm"])
            stats["jobs"] += 1
            stats["kinds"][job["op"]["k"]] = stats["kinds"].get(job["op"]["k"], 0) + 1
            if "policy" in job:
                stats["faulted"] += 1
            fd_oracle(ck, job, res, tag, stats)
            if job.get("api", "rust") != "rust" or "setup_err" in res.get("res", {}) or "panic" in res.get("res", {}):
                continue
            if rng.random() > (1.0 if thorough else 0.5):
                continue
            prog, enc = M.op_program(job, res, cfg, ps)
            if prog is None:
                continue
            t = trace_to_coq(res["trace"])
            # trace_fresh: the premise of C11_sound_on_traces (the kernel never returned a number the operation was holding)
            term = (f"let t := {t} in enc_replay_diag {enc} (run_trace ({prog}) t 0) ++ ((-7)%Z :: trace_balance t) ++ "
                    f"[(if trace_fresh t [] then 1 else 0)%Z]")
            cases.append((len(cases), term, job, res, tag))
    # ---- error paths: a descriptor forgotten on one particular early return.  For a fixed set of operations: one fault at
    # every call of the unfaulted trace x errnos a kernel can plausibly answer there; the descriptor-table oracle on every run.
    from props.C10 import OPS as SWEEP_OPS, TREE as SWEEP_TREE
    ERRNOS = (24, 23, 12, 13, 5, 4, 38, 22, 1) if thorough else (24, 13, 38)
    for deny in ((), ("openat2",)):
        tag = ",".join(deny) or "none"
        basej = []
        for i, op in enumerate(SWEEP_OPS):
            j = {"id": 7000000 + i, "op": op, "snap": "none"}
            if not op["k"].startswith("proc_"):
                j["tree"] = SWEEP_TREE
            basej.append(j)
        _, bres, _ = run_driver_parallel(basej, deny=deny, tag="c11sb" + tag.replace(",", ""), shards=4)
        sweep = []
        for j in basej:
            b_ = bres.get(j["id"])
            if not b_ or "trace" not in b_:
                continue
            for at, ev in enumerate(b_["trace"]):
                if ev["c"] in ("gettid", "geteuid", "close") or (ev["c"] == "fcntl" and ev.get("cmd") == 1):
                    continue
                for en in ERRNOS:
                    j2 = dict(j)
                    j2["id"] = 8000000 + len(sweep)
                    j2["policy"] = {"fault": {"at": at, "errno": en}}
                    j2["trace"] = False
                    sweep.append(j2)
        if not thorough and len(sweep) > 1800:
            sweep = rng.sample(sweep, 1800)
        sby = {j2["id"]: j2 for j2 in sweep}
        _, sres, _ = run_driver_parallel(sweep, deny=deny, tag="c11sw" + tag.replace(",", ""))
        for jid, res in sres.items():
            stats["error_path_runs"] = stats.get("error_path_runs", 0) + 1
            fd_oracle(ck, sby[jid], res, tag, stats)
    if ck.proof_broken:
        evals, cerrs = {}, []
    else:
        evals, cerrs = coq_eval([(c[0], c[1]) for c in cases], header="From PV Require Import Replay Discipline FdBalance.", tag="c11")
    if cerrs:
        ck.violation("T1: Coq evaluation of the case files failed", {"log": cerrs[0][-1500:]}, False)
    nontrivial = set()
    samples = []
    for cid, term, job, res, tag in cases:
        enc = evals.get(cid)
        if enc is None:
            continue
        cut = enc.index(-7)
        rep, bal, fresh_ok = enc[:cut], enc[cut + 1:-1], enc[-1]
        if fresh_ok != 1:
            ck.violation("C11: the recorded trace shows the kernel returning a descriptor number the operation was holding "
                         "(the freshness premise of the balance theorems does not hold of this run)",
                         {"job": J.describe(job), "deny": tag, "outcome": res.get("res")}, False)
        r = res["res"]
        want = [r["ok"]["fd"]] if "ok" in r else []
        # trace_balance: descriptors opened and not closed inside the trace, and closes of foreign descriptors
        leaked, foreign = bal[1:1 + bal[0]], bal[2 + bal[0]:]
        if sorted(leaked) != sorted(want) or foreign:
            ck.violation("C11: descriptor events of the recorded trace do not balance (opened-not-closed %s, expected %s; "
                         "closes of descriptors not opened by the call: %s)" % (leaked, want, foreign),
                         {"job": J.describe(job), "deny": tag, "outcome": r})
        ok = rep and rep[0] == 0 and M.outcome_matches(res, rep[2:])
        if ok:
            stats["t1_ok"] += 1
            if rep[1] > 1:
                nontrivial.add((job["op"]["k"], tag, rep[1], tuple(rep[2:5]), "f" if "policy" in job else ("0" if job.get("free_fd0") else "")))
            if len(samples) < 5 and "policy" in job and rep[1] > 10:
                samples.append({"job": J.describe(job), "deny": tag, "calls_replayed": rep[1], "opened_not_closed": leaked})
        else:
            stats["t1_bad"] += 1
            at = rep[1] if rep and len(rep) > 1 else -1
            tr = [e for e in res["trace"] if e["c"] != "fcntl" or e.get("cmd") != 1]
            ck.violation("T1: model and implementation disagree on the system-call sequence (op %s)" % job["op"]["k"],
                         {"job": J.describe(job), "deny": tag, "replay": rep, "real_outcome": r,
                          "around": tr[max(0, at - 2):at + 2]}, False)
    cov = {
        "error_path_runs_with_fd_table_oracle": stats.get("error_path_runs", 0),
        "evaluations": stats["jobs"],
        "distinct_nontrivial": len(nontrivial),
        "rule": "random trees x ops (lookups, mutators, reopen, procfs on three handle kinds) through the Rust and C API, "
                "each also with one injected fault at a random index, with EMFILE from a random index onwards and with descriptor 0 free (stdin closed), both "
                "kernel feature sets; non-trivial = T1-replayed trace with more than one call; distinct by (op, feature set, length, outcome, faulted)",
        "samples": samples or [{"note": "none"}],
        "traces_validated_against_impl": stats["t1_ok"],
        "fd_table_comparisons": stats["oracle"],
        "runs_with_injected_fault": stats["faulted"],
        "panics_skipped": stats["panics"],
        "t1_mismatches": stats["t1_bad"],
        "op_histogram": stats["kinds"],
        "disagreements_checked": stats["t1_bad"],
    }
    assumptions = ["fd-returning calls are the ones enumerated in FdBalance.opens (openat, openat2, F_DUPFD_CLOEXEC, fsopen, fsmount, open_tree)",
                   "lazily initialised globals (procfs handle, sysctl cache) are warmed before the measured region",
                   "attacker interleavings for C11 are exercised by C02/C03's schedule runs, which apply the same fd-table oracle"]
    return cov, assumptions
