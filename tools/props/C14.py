"""C14: single-entry operations act on exactly (in-root parent, final name).

Proof: props/C14.v.  Runtime: whole-sandbox snapshot before/after every call; the
difference must be exactly the one entry (in-root resolution of the parent by the
kernel's raw openat2, final component as is), a final symlink is never followed,
a trailing slash changes nothing, create_file's descriptor is the file now under
that name.  Traces are replayed through the model (T1)."""
import os
import random

import gen
import jobs as J
import model as M
from gen import H, O
from vlib import run_driver_parallel, coq_eval, warm_config, trace_to_coq, unhex, cb
import fsmodel as F
import dyn as D

# the case files of this check import the monitors: keep them compiled against the current generated constants
COQ_TARGETS = ("theories/Replay.vo", "theories/Discipline.vo", "theories/FdBalance.vo", "proofs/MonitorProofs.vo", "theories/Dyn.vo")

RES = 16 | 2


def split(p):
    """utils::path_split mirrored (bytes)."""
    i = p.rfind(b"/")
    if i < 0:
        return b".", (p if p else None)
    parent = p[:i] or b"/"
    name = p[i + 1:]
    return parent, (name if name else None)


def snapmap(snap):
    return {unhex(e[0]): e for e in (snap or [])}


def diff(before, after):
    b_, a = snapmap(before), snapmap(after)
    added = sorted(set(a) - set(b_))
    removed = sorted(set(b_) - set(a))
    changed = sorted(k for k in set(a) & set(b_) if (a[k][1], a[k][3], a[k][4], a[k][6], a[k][7]) != (b_[k][1], b_[k][3], b_[k][4], b_[k][6], b_[k][7]))
    # a directory's own nlink/size change when entries come and go: ignore pure nlink/size changes of directories
    changed = [k for k in changed if not ((a[k][1] & 0o170000) == 0o040000 and (a[k][1], a[k][3], a[k][4]) == (b_[k][1], b_[k][3], b_[k][4]))]
    return added, removed, changed, a, b_


def gen_jobs(rng, ntrees, per):
    jobs = []
    jid = 0
    for _ in range(ntrees):
        tree, meta = gen.gen_tree(rng)
        objs = [d for d in meta["dirs"] if d] + meta["files"] + meta["links"] + meta["fifos"]
        for _ in range(per):
            # parent spelling: a walk (through links, '..', '.') ; final name: fresh, existing, a symlink, '.', '..', trailing '/'
            parent = gen.gen_path(rng, meta, malformed=rng.random() < 0.08) if rng.random() < 0.8 else ""
            leaf_kind = rng.random()
            if leaf_kind < 0.4:
                leaf = rng.choice(["new", "n1", "x y", "k (deleted)"])
            elif leaf_kind < 0.75 and objs:
                leaf = rng.choice(objs).rsplit("/", 1)[-1]
            elif leaf_kind < 0.85:
                leaf = rng.choice([".", "..", ""])
            else:
                leaf = rng.choice(["new/", "n1//"])
            p = (parent.rstrip("/") + "/" + leaf) if parent else leaf
            k = rng.choice(["create", "create", "create_file", "remove_file", "remove_dir", "rename"])
            if k == "create":
                ty = rng.choice(J.CREATE_TYPES)
                # Permissions::from_mode keeps whatever S_IFMT bits the caller's mode word carries (e.g. one read from another inode):
                # the kind of the new inode must come from the InodeType alone
                op = {"k": "create", "path": H(p), "type": ty, "mode": rng.choice([0o644, 0o755, 0o600, 0o040750, 0o100640, 0o010644, 0o140600, 0o020660])}
                if ty == "symlink":
                    op["target"] = H(rng.choice(["a", "/etc/passwd", "../../outside/secret", "nonexistent"]))
                if ty == "hardlink":
                    op["target"] = H(gen.gen_path(rng, meta))
                if ty in ("chr", "blk"):
                    op["dev"] = 0x103
            elif k == "create_file":
                op = {"k": "create_file", "path": H(p), "flags": rng.choice([O["WRONLY"], O["RDWR"] | O["EXCL"], O["WRONLY"] | O["TRUNC"], O["RDONLY"]]),
                      "mode": 0o640}
            elif k == "rename":
                p2 = gen.gen_path(rng, meta) if rng.random() < 0.5 else (rng.choice(meta["dirs"]) + "/moved").lstrip("/")
                if rng.random() < 0.15:
                    p2 = p2.rstrip("/") + rng.choice(["/", "//"])      # a destination without a final name
                op = {"k": "rename", "src": H(p), "dst": H(p2), "flags": rng.choice([0, 0, 1, 2])}
            else:
                op = {"k": k, "path": H(p)}
            # mostly-valid stream: 65% of the jobs are built to succeed (real parent directory, fitting final name)
            if rng.random() < 0.65:
                realdirs = meta["dirs"]
                d = rng.choice(realdirs)
                deco = rng.choice(["", "", "./", "/", "//"]) + d
                if d and rng.random() < 0.3:
                    deco = d + "/../" + d.rsplit("/", 1)[-1]
                dl = [l for l in meta["links"]]
                files_in = [f for f in meta["files"] + meta["fifos"] + meta["links"] if f.rsplit("/", 1)[0] == d or ("/" not in f and d == "")]
                dirs_in = [x for x in meta["dirs"] if x and (x.rsplit("/", 1)[0] == d or ("/" not in x and d == ""))]
                base = (deco.rstrip("/") + "/") if deco.strip("/.") or deco.startswith("/") else ""
                if op["k"] in ("create", "create_file"):
                    leaf2 = rng.choice(["new", "n1", "x-y", "z (deleted)"])
                    op["path"] = H(base + leaf2)
                    p = base + leaf2
                elif op["k"] == "remove_file" and files_in:
                    leaf2 = rng.choice(files_in).rsplit("/", 1)[-1]
                    op["path"] = H(base + leaf2)
                    p = base + leaf2
                elif op["k"] == "remove_dir" and dirs_in:
                    leaf2 = rng.choice(dirs_in).rsplit("/", 1)[-1]
                    op["path"] = H(base + leaf2)
                    p = base + leaf2
                elif op["k"] == "rename" and (files_in or dirs_in):
                    leaf2 = rng.choice(files_in + dirs_in).rsplit("/", 1)[-1]
                    op["src"] = H(base + leaf2)
                    d2 = rng.choice(realdirs)
                    op["dst"] = H(((d2 + "/") if d2 else "") + rng.choice(["moved", "m2"]))
                    p = base + leaf2
            jid = add_with_oracles(jobs, jid, tree, op, p)
    # two-parent operations, always: source and destination (link and target) in DIFFERENT directories, reached directly, through a
    # link and through '..'; every rename flag; destination absent / present.  Which descriptor goes with which name matters here.
    t2 = [["dir", H("root"), 0o755], ["dir", H("outside"), 0o755], ["dir", H("root/src"), 0o755], ["dir", H("root/dst"), 0o755],
          ["dir", H("root/dst/sub"), 0o755], ["file", H("root/src/x"), H("SRC-X"), 0o644], ["file", H("root/dst/x"), H("DST-X"), 0o644],
          ["file", H("root/src/keep"), H("SRC-KEEP"), 0o644], ["file", H("root/dst/other"), H("DST-OTHER"), 0o644],
          ["file", H("root/dst/sub/x"), H("SUB-X"), 0o644], ["dir", H("root/src/d"), 0o755], ["dir", H("root/dst/dd"), 0o755],
          ["symlink", H("root/via"), H("dst/sub")], ["symlink", H("root/vs"), H("src")]]
    fixed = []
    for fl in (0, 1, 2):
        for src, dst in (("src/x", "dst/y"), ("src/keep", "dst/kept"), ("src/x", "dst/other"), ("/src/../src/x", "via/y"), ("vs/x", "dst/sub/../x"),
                         ("src/d", "dst/dd"), ("src/d", "dst/newd"), ("dst/sub/x", "src/x")):
            fixed.append({"k": "rename", "src": H(src), "dst": H(dst), "flags": fl})
    # the second path is split like the first: a destination (or link target) without a final name names nothing -- whatever the
    # source is (file, directory), whatever exists under the name before the slash (nothing, a file, an empty directory, a link)
    for fl in (0, 1, 2):
        for src, dst in (("src/x", "dst/newname/"), ("src/d", "dst/newdir///"), ("src/d", "dst/dd/"), ("src/x", "dst/other/"), ("src/x", "via/"),
                         ("src/keep", "dst/sub/"), ("src/x", ""), ("src/d", "/")):
            fixed.append({"k": "rename", "src": H(src), "dst": H(dst), "flags": fl})
    for path, target in (("dst/hl", "src/x"), ("via/hl2", "vs/keep"), ("src/hl3", "dst/sub/x"), ("dst/hl4", "src/../src/x")):
        fixed.append({"k": "create", "path": H(path), "type": "hardlink", "target": H(target)})
    # create_file with flag words under which the kernel does not create at all (O_PATH makes it drop O_CREAT): whatever comes back
    # must still be "the file now under that name in the in-root parent" -- in particular for final names '.' and '..'
    for path in ("..", "src/..", ".", "src/../..", "via/..", "vs/../..", "src/x", "src/newf", "dst/sub"):
        for fl in (O["PATH"], O["PATH"] | O["DIRECTORY"], O["PATH"] | O["EXCL"], O["PATH"] | O["RDWR"]):
            fixed.append({"k": "create_file", "path": H(path), "flags": fl, "mode": 0o640})
    for op in fixed:
        jid = add_with_oracles(jobs, jid, t2, op, unhex(op.get("src", op.get("path"))).decode())
    return jobs


def add_with_oracles(jobs, jid, tree, op, p):
    jid += 1
    jobs.append({"id": jid, "tree": tree, "op": op, "snap": "all", "meta": {"path": p}})
    # the kernel's resolution of each parent
    for key in ("path", "src", "dst", "target"):
        if key in op and (key != "target" or op.get("type") == "hardlink"):
            par, _name = split(unhex(op[key]))
            jid += 1
            jobs.append({"id": jid, "tree": tree, "op": {"k": "raw_openat2", "path": par.hex(), "flags": O["PATH"], "resolve": RES},
                         "meta": {}})
            op.setdefault("_oracles", {})[key] = jid
    return jid


def canon_path(res, tree):
    """creation path (bytes, sandbox-relative) of the object a raw_openat2 run returned, or ('err', errno)"""
    r = res.get("res", {})
    if "ok" not in r:
        return ("err", r.get("err", {}).get("errno"))
    ob = res.get("objs", {})
    for hp in [H("root")] + [op[1] for op in tree]:
        ident = ob.get(hp)
        if ident and (ident[0], ident[1]) == (r["ok"]["dev"], r["ok"]["ino"]):
            return ("ok", unhex(hp), r["ok"]["mode"] & 0o170000)
    return ("ok", None, r["ok"]["mode"] & 0o170000)


def should_succeed(op, expect, before):
    """Conservative: True only when the *at call named by the operation clearly succeeds on the tree as it was (the check runs
    as root, so permissions do not matter): plain final names, parents the kernel resolves, source present / destination absent."""
    def plainname(key):
        _p, nm = split(unhex(op[key]))
        return nm is not None and nm not in (b".", b"..") and b"/" not in nm and nm != b"" and len(nm) <= 255   # NAME_MAX

    def isdir(p_):
        return (before[p_][1] & 0o170000) == 0o040000

    def under(a, b_):
        return a == b_ or a.startswith(b_ + b"/")
    k = op["k"]
    if k == "rename":
        if not (plainname("src") and plainname("dst")):
            return False
        s_, d_ = expect("src"), expect("dst")
        if s_ is None or d_ is None or s_ not in before or under(d_, s_) or under(s_, d_):
            return False
        fl = op.get("flags", 0)
        if fl in (0, 1):
            return d_ not in before
        if fl == 2:
            return d_ in before
        return False
    if not plainname("path"):
        return False
    e = expect("path")
    if e is None:
        return False
    if k == "create":
        if e in before:
            return False
        if op["type"] == "hardlink":
            if not plainname("target"):
                return False
            t_ = expect("target")
            return t_ is not None and t_ in before and not isdir(t_) and (before[t_][1] & 0o170000) != 0o120000
        return op["type"] in ("file", "dir", "fifo", "symlink", "chr", "blk")
    if k == "create_file":
        if op.get("flags", 0) & (O["PATH"] | O["DIRECTORY"]):
            return False        # no creation with these (O_PATH drops O_CREAT; O_CREAT|O_DIRECTORY is refused by the kernel)
        if e not in before:
            return True
        return (before[e][1] & 0o170000) == 0o100000 and not op.get("flags", 0) & O["EXCL"]
    if k == "remove_file":
        return e in before and not isdir(e)
    if k == "remove_dir":
        return e in before and isdir(e) and not any(p_.startswith(e + b"/") for p_ in before)
    return False


def run(ck):
    rng = random.Random(ck.seed)
    thorough = ck.tier == "thorough"
    ps = M.sysctl_ps()
    jobs = gen_jobs(rng, 120 if thorough else 22, 8)
    for j in jobs:
        j["op"] = dict(j["op"])
    byid = {j["id"]: j for j in jobs}
    fh_cases = []
    stats = {"ops": 0, "effects": 0, "refused_no_change": 0, "trailing_slash": 0, "final_symlink": 0, "t1_ok": 0, "t1_bad": 0, "kinds": {}}
    nontrivial = set()
    samples = []
    cases = []
    dcases = []
    xcases = []
    for deny in ((), ("openat2",)):
        tag = ",".join(deny) or "none"
        send = []
        for j in jobs:
            j2 = dict(j)
            j2["op"] = {k: v for k, v in j["op"].items() if k != "_oracles"}
            send.append(j2)
        _, results, errs = run_driver_parallel(send, deny=deny, tag="c14" + tag)
        for jid, res in results.items():
            job = byid[jid]
            op = job["op"]
            if op["k"] == "raw_openat2":
                continue
            r = res.get("res", {})
            if "setup_err" in r:
                continue
            stats["ops"] += 1
            stats["kinds"][op["k"]] = stats["kinds"].get(op["k"], 0) + 1
            added, removed, changed, after, before = diff(res.get("snap_before"), res.get("snap_after"))
            desc = {"job": J.describe(job), "resolver": "emulated" if deny else "openat2", "outcome": r,
                    "added": [a.decode("latin1") for a in added], "removed": [a.decode("latin1") for a in removed],
                    "changed": [a.decode("latin1") for a in changed]}
            if "panic" in r:
                ck.violation("C14: operation panicked", desc)
                continue
            ok = "unit" in r or "ok" in r
            # tie T2d: every answer of the running kernel to this operation's calls against the dynamic kernel model, and the
            # resulting tree (successful and failed operations alike)
            if res.get("trace") and rng.random() < (0.8 if thorough else 0.5):
                dterm = D.case_term(job["tree"], res)
                if dterm:
                    dcases.append((len(dcases), dterm, desc, res))
            # tie T3: the model PROGRAM run on the model KERNEL from the same tree: same outcome, same final tree
            if rng.random() < (0.8 if thorough else 0.5):
                j3 = dict(job)
                j3["op"] = {k_: v_ for k_, v_ in op.items() if k_ != "_oracles"}
                D.collect_exec(xcases, job["tree"], j3, res, not deny, ps, desc)
            mainkey = "src" if op["k"] == "rename" else "path"
            pbytes = unhex(op[mainkey])
            par, name = split(pbytes)
            if name is None:
                stats["trailing_slash"] += 1
                if ok or added or removed or changed:
                    ck.violation("C14: a path without a final name (trailing slash / empty) was not refused without effect", desc)
                continue
            if op["k"] == "rename" and split(unhex(op["dst"]))[1] is None:
                # the second path of a two-path operation is split the same way: "new/" names nothing
                stats["trailing_slash"] += 1
                if ok or added or removed or changed:
                    ck.violation("C14: a rename whose DESTINATION has no final name (trailing slash / empty) was not refused without effect", desc)
                continue
            # where did the kernel resolve the parents?
            orc = {}
            for key, oid in op.get("_oracles", {}).items():
                orc[key] = canon_path(results.get(oid, {}), job["tree"]) if oid in results else None

            def expect(key):
                o = orc.get(key)
                _par, nm = split(unhex(op[key]))
                if not o or o[0] != "ok" or o[1] is None or nm is None:
                    return None
                return o[1] + b"/" + nm
            if not ok:
                stats["refused_no_change"] += 1
                if added or removed or changed:
                    ck.violation("C14: the operation failed but the tree changed", desc)
                elif all(len(orc.get(k_) or ()) == 3 and orc[k_][2] == 0o040000 for k_ in op.get("_oracles", {})) and should_succeed(op, expect, before):
                    ck.violation("C14: the operation failed although the corresponding *at call on (kernel-resolved parent, final name) "
                                 "succeeds on this tree", dict(desc, parents={k_: str(v_) for k_, v_ in orc.items()}))
                continue
            stats["effects"] += 1
            e_main = expect(mainkey)
            if e_main is None:
                o_ = orc.get(mainkey)
                if deny and o_ and o_[0] == "err" and o_[1] == 40:
                    # possibly the recorded link-budget difference F-H (C01) in the walk to the parent: decided by the model
                    mk, _ = F.tree_to_mkops(job["tree"], res.get("build_errs", []))
                    fh_cases.append((len(fh_cases), f"let s := build {mk} in enc_wres (kwalk s {cb(par.hex())} false false) ++ enc_wres (ewalk s {cb(par.hex())} false false)",
                                     dict(desc, parent_oracle=str(o_))))
                else:
                    ck.violation("C14: the operation succeeded although the kernel cannot resolve the parent in-root", dict(desc, parent_oracle=str(o_)))
                continue
            if op["k"] == "create":
                want_added = [e_main]
                if added != want_added or removed or [c for c in changed if not (op["type"] == "hardlink")]:
                    ck.violation("C14: create did not add exactly the entry (in-root parent, final name)", dict(desc, expected=e_main.decode("latin1")))
                else:
                    ent = after[e_main]
                    tymode = {"file": 0o100000, "dir": 0o040000, "symlink": 0o120000, "fifo": 0o010000, "chr": 0o020000, "blk": 0o060000}.get(op["type"])
                    if tymode and (ent[1] & 0o170000) != tymode:
                        ck.violation("C14: created entry has the wrong inode type", desc)
                    if op["type"] == "symlink" and ent[7] != op["target"]:
                        ck.violation("C14: created symlink has a different body", desc)
                    if op["type"] == "hardlink":
                        e_t = expect("target")
                        if e_t is None or e_t not in after or (after[e_t][3], after[e_t][4]) != (ent[3], ent[4]):
                            ck.violation("C14: hard link does not refer to the in-root resolution of the target", dict(desc, target=str(e_t)))
            elif op["k"] == "create_file":
                if removed or [a for a in added if a != e_main] or [c for c in changed if c != e_main]:
                    ck.violation("C14: create_file changed something else than (in-root parent, final name)", dict(desc, expected=e_main.decode("latin1")))
                elif e_main not in after:
                    ck.violation("C14: create_file succeeded but no such entry exists", dict(desc, expected=e_main.decode("latin1")))
                else:
                    ent = after[e_main]
                    if (r["ok"]["dev"], r["ok"]["ino"]) != (ent[3], ent[4]):
                        ck.violation("C14: create_file returned a descriptor of a different file than the one now under that name", desc)
                    if (ent[1] & 0o170000) == 0o120000:
                        ck.violation("C14: create_file went through a final symlink", desc)
            elif op["k"] in ("remove_file", "remove_dir"):
                gone = [x for x in removed if x == e_main or x.startswith(e_main + b"/")]
                if added or changed or removed != [e_main]:
                    ck.violation("C14: remove did not remove exactly the entry (in-root parent, final name)", dict(desc, expected=e_main.decode("latin1")))
                elif e_main in before and (before[e_main][1] & 0o170000) == 0o120000:
                    stats["final_symlink"] += 1
            elif op["k"] == "rename":
                e_dst = expect("dst")
                if e_dst is None:
                    ck.violation("C14: rename succeeded although the destination parent does not resolve", desc)
                else:
                    touched = set(added) | set(removed) | set(changed)
                    allowed = lambda x: x in (e_main, e_dst) or x.startswith(e_main + b"/") or x.startswith(e_dst + b"/")   # noqa
                    if not all(allowed(x) for x in touched):
                        ck.violation("C14: rename touched entries other than source and destination", dict(desc, src=e_main.decode("latin1"), dst=e_dst.decode("latin1")))
                    elif e_main != e_dst and op.get("flags", 0) != 2 and e_main in after and e_main in before and \
                            (after[e_main][3], after[e_main][4]) == (before[e_main][3], before[e_main][4]) and (before[e_main][1] & 0o170000) != 0o040000 \
                            and not (e_dst in before and (before[e_dst][3], before[e_dst][4]) == (before[e_main][3], before[e_main][4])):
                        ck.violation("C14: rename reported success but the source entry is still there", desc)
            nontrivial.add((op["k"], op.get("type"), pbytes, tag))
            if len(samples) < 5 and b".." in pbytes:
                samples.append(desc)
            if rng.random() < (0.6 if thorough else 0.4) and res.get("trace"):
                cfg = warm_config(res["_warm"])
                j2 = dict(job)
                j2["op"] = {k: v for k, v in op.items() if k != "_oracles"}
                prog, enc = M.op_program(j2, res, cfg, ps)
                if prog:
                    # trace_effects: the number of tree-changing calls in the recorded trace (bound: C03_at_most_one_effect, C03_effect_count_sound)
                    cases.append((len(cases), f"let t := {trace_to_coq(res['trace'])} in enc_replay_diag {enc} (run_trace ({prog}) t 0) ++ [trace_effects t]", j2, res, tag))
    # ---- the one system call that does the work fails: the operation must fail with that very error and change nothing
    # ("exactly the effect of the corresponding *at call": when that call does nothing, so does the operation)
    ftree = [["dir", H("root"), 0o755], ["dir", H("outside"), 0o755], ["dir", H("root/a"), 0o755], ["dir", H("root/a/b"), 0o755],
             ["file", H("root/a/f"), H("data"), 0o644], ["file", H("root/a/g"), H("other"), 0o644], ["symlink", H("root/l"), H("a")], ["dir", H("root/a/e"), 0o755]]
    FOPS = [{"k": "create", "path": H("l/newf"), "type": "file", "mode": 0o644}, {"k": "create", "path": H("a/f"), "type": "file", "mode": 0o644},
            {"k": "create", "path": H("a/../a/newd"), "type": "dir", "mode": 0o755}, {"k": "create", "path": H("a/news"), "type": "symlink", "target": H("f")},
            {"k": "create", "path": H("a/newh"), "type": "hardlink", "target": H("a/f")}, {"k": "create", "path": H("a/newp"), "type": "fifo", "mode": 0o644},
            {"k": "create_file", "path": H("a/newcf"), "flags": O["WRONLY"], "mode": 0o600}, {"k": "remove_file", "path": H("l/f")},
            {"k": "remove_dir", "path": H("a/e")}, {"k": "rename", "src": H("a/f"), "dst": H("a/b/moved"), "flags": 0},
            {"k": "rename", "src": H("a/f"), "dst": H("a/g"), "flags": 1}, {"k": "rename", "src": H("a/f"), "dst": H("a/g"), "flags": 2}]
    FERRNOS = [1, 38, 95, 17, 13, 28, 5, 30, 18, 39, 16, 2, 20, 31, 122]   # EPERM ENOSYS EOPNOTSUPP EEXIST EACCES ENOSPC EIO EROFS EXDEV ENOTEMPTY EBUSY ENOENT ENOTDIR EMLINK EDQUOT
    EFFECT = {"mkdirat", "mknodat", "symlinkat", "linkat", "renameat", "renameat2", "unlinkat"}
    fbase = [{"id": i + 1, "tree": ftree, "op": op, "snap": "all"} for i, op in enumerate(FOPS)]
    stats["effect_faults"] = 0
    for deny in ((), ("openat2",)):
        tag = ",".join(deny) or "none"
        _, bl, _ = run_driver_parallel(fbase, deny=deny, tag="c14fb" + tag, shards=4)
        fjobs = []
        for bj in fbase:
            b0 = bl.get(bj["id"])
            if not b0 or "trace" not in b0:
                continue
            fall = [e for e in b0["trace"] if e["c"] not in ("gettid", "geteuid", "close") and not (e["c"] == "fcntl" and e.get("cmd") == 1)]
            idx = [i for i, e in enumerate(fall) if e["c"] in EFFECT or (e["c"] in ("openat", "openat2") and e.get("flags", 0) & O["CREAT"])]
            if len(idx) != 1:
                ck.violation("C14: a single-entry operation issued %d system calls that change the tree (expected exactly one)" % len(idx),
                             {"job": J.describe(bj), "resolver": "emulated" if deny else "openat2", "calls": [fall[i]["c"] for i in idx]})
                continue
            for en in (FERRNOS if thorough else [1, 38, 95, 17, 13, 28]):
                j = dict(bj)
                j["id"] = 1000 + len(fjobs)
                j["policy"] = {"fault": {"at": idx[0], "errno": en}}
                j["meta"] = {"errno": en, "call": fall[idx[0]]["c"]}
                fjobs.append(j)
        fby = {j["id"]: j for j in fjobs}
        _, fres, _ = run_driver_parallel(fjobs, deny=deny, tag="c14f" + tag)
        for jid_, res in fres.items():
            job = fby[jid_]
            r = res.get("res", {})
            inj = [e for e in res.get("trace", []) if e.get("inj")]
            if "setup_err" in r or not inj:
                continue
            if inj[0]["c"] != job["meta"]["call"]:
                # the run took a different course than the baseline (a transient EAGAIN retried, ...): the fault
                # did not land on the tree-changing call, so this run says nothing about it
                stats["effect_faults_misplaced"] = stats.get("effect_faults_misplaced", 0) + 1
                continue
            stats["effect_faults"] += 1
            added, removed, changed, after, before = diff(res.get("snap_before"), res.get("snap_after"))
            fall = [e for e in res["trace"] if e["c"] not in ("gettid", "geteuid", "close") and not (e["c"] == "fcntl" and e.get("cmd") == 1)]
            effects = [e["c"] for e in fall if e["c"] in EFFECT or (e["c"] in ("openat", "openat2") and e.get("flags", 0) & O["CREAT"])]
            desc = {"job": J.describe(job), "resolver": "emulated" if deny else "openat2", "failing_call": job["meta"]["call"], "errno": job["meta"]["errno"],
                    "outcome": r, "tree_changing_calls_issued": effects, "added": [a.decode("latin1") for a in added],
                    "removed": [a.decode("latin1") for a in removed], "changed": [a.decode("latin1") for a in changed]}
            if "panic" in r:
                ck.violation("C14: operation panicked when its system call failed", desc)
            elif "err" not in r or r["err"].get("errno") != job["meta"]["errno"]:
                ck.violation("C14: the system call of a single-entry operation failed, but the operation did not fail with that error", desc)
            elif added or removed or changed:
                ck.violation("C14: the system call of a single-entry operation failed, yet the tree changed", desc)
            elif len(effects) != 1:
                ck.violation("C14: after its system call failed, a single-entry operation issued another tree-changing call", desc)
            nontrivial.add(("effect-fault", job["op"]["k"], job["op"].get("type"), job["meta"]["errno"], tag))
    if fh_cases:
        evals, cerrs = coq_eval([(c[0], c[1]) for c in fh_cases], header="From PV Require Import FSModel.", tag="c14fh")
        kf = [f for f in ck.known if f["id"] == "F-H-linkbudget"]
        for cid, term, desc in fh_cases:
            got = evals.get(cid)
            if kf and got is not None and len(got) == 4 and got[0] == 2 and got[2] == 0:
                # kernel walk: budget exhausted; emulated walk: resolves
                ck.known_finding(kf[0]["id"], kf[0]["what"])
            else:
                ck.violation("C14: the operation succeeded although the kernel cannot resolve the parent in-root", dict(desc, model=got))
    if not ck.proof_broken:
        evals, cerrs = coq_eval([(c[0], c[1]) for c in cases], header="From PV Require Import Replay MonitorProofs.", tag="c14")
        if cerrs:
            ck.violation("T1: Coq evaluation of the case files failed", {"log": cerrs[0][-1500:]}, False)
        for cid, term, job, res, tag in cases:
            rep = evals.get(cid)
            if rep is None:
                continue
            rep, neff = rep[:-1], rep[-1]
            stats["max_effect_calls"] = max(stats.get("max_effect_calls", 0), neff)
            if neff > 1:
                ck.violation("C14: a single-entry operation issued %d tree-changing calls (at most one: C03_at_most_one_effect)" % neff,
                             {"job": J.describe(job), "deny": tag, "outcome": res.get("res"),
                              "calls": [e for e in res["trace"] if e["c"] in ("unlinkat", "mkdirat", "mknodat", "renameat", "renameat2", "linkat", "symlinkat")
                                        or (e["c"] in ("openat", "openat2") and e.get("flags", 0) & 0o100)][:10]})
            if rep[0] == 0 and M.outcome_matches(res, rep[2:]):
                stats["t1_ok"] += 1
            else:
                stats["t1_bad"] += 1
                ck.violation("T1: model and implementation disagree on a single-entry operation",
                             {"job": J.describe(job), "deny": tag, "replay": rep, "real_outcome": res.get("res")}, False)
    # ---- T2d: the dynamic kernel model against the recorded executions
    if not ck.proof_broken and dcases:
        devals, derrs = coq_eval([(c[0], c[1]) for c in dcases], header=D.HEADER, tag="c14d")
        if derrs:
            ck.violation("T2d: Coq evaluation of the dynamic-kernel cases failed", {"log": derrs[0][-1500:]}, False)
        for cid, term, desc, res in dcases:
            got = devals.get(cid)
            if got is None or len(got) < 4:
                continue
            bad, ncmp, left, mtree = D.decode(got)
            stats["dyn_traces"] = stats.get("dyn_traces", 0) + 1
            stats["dyn_calls"] = stats.get("dyn_calls", 0) + ncmp
            if bad:
                evs = [e for e in res["trace"] if e["c"] != "fcntl" or e.get("cmd") != 1]
                ck.violation("T2d: the dynamic kernel model disagrees with the answer the running kernel gave to a call of a single-entry operation",
                             dict(desc, call_index=bad - 1, around=evs[max(0, bad - 3):bad + 1]), False)
            elif left:
                stats["dyn_left_model"] = stats.get("dyn_left_model", 0) + 1
            else:
                rtree = D.real_dump(res.get("snap_after"))
                stats["dyn_trees"] = stats.get("dyn_trees", 0) + 1
                if mtree != rtree:
                    ck.violation("T2d: after replaying the operation's calls the model's tree differs from the real tree",
                                 dict(desc, only_in_model=sorted(str(x) for x in mtree - rtree)[:8], only_in_real=sorted(str(x) for x in rtree - mtree)[:8]), False)
    if not ck.proof_broken:
        D.evaluate_exec(ck, xcases, stats, coq_eval, "c14x")
    cov_extra = {"max_tree_changing_calls_in_a_replayed_trace": stats.get("max_effect_calls", 0), "effect_call_fault_runs": stats.get("effect_faults", 0), "effect_call_faults_misplaced": stats.get("effect_faults_misplaced", 0),
                 "dynamic_kernel_traces_validated": stats.get("dyn_traces", 0), "dynamic_kernel_calls_compared": stats.get("dyn_calls", 0),
                 "dynamic_kernel_final_trees_compared": stats.get("dyn_trees", 0), "dynamic_kernel_traces_leaving_the_model": stats.get("dyn_left_model", 0),
                 "model_executions_compared_with_the_library": stats.get("exec_runs", 0), "model_executions_agreeing": stats.get("exec_agree", 0),
                 "model_executions_leaving_the_model": stats.get("exec_left_model", 0)}
    cov = {
        "evaluations": stats["ops"],
        "distinct_nontrivial": len(nontrivial),
        "rule": "random trees x {create (7 inode types), create_file (4 flag sets), remove_file, remove_dir, rename (plain/NOREPLACE/EXCHANGE)} x "
                "parent spellings (walks through links, '..', '.', '//', absolute) x final names (fresh, existing, symlinks, '.', '..', trailing '/') "
                "x both backends; every successful call's snapshot difference is compared with (raw-openat2 resolution of the parent, final name); "
                "non-trivial = successful calls; distinct by (op, type, path, backend)",
        "samples": samples or [{"note": "none"}],
        "successful_effects_checked": stats["effects"], "failed_calls_without_change": stats["refused_no_change"],
        "trailing_slash_refusals": stats["trailing_slash"], "final_symlink_removed_not_followed": stats["final_symlink"],
        "op_histogram": stats["kinds"], "traces_validated_against_impl": stats["t1_ok"], "t1_mismatches": stats["t1_bad"],
        "disagreements_checked": stats["t1_bad"],
    }
    cov.update(cov_extra)
    cov["rule"] = cov["rule"] + "; plus 12 single-entry operations x the errnos {EPERM ENOSYS EOPNOTSUPP EEXIST EACCES ENOSPC ...} injected at the one tree-changing system call"
    assumptions = ["the parent oracle is the kernel's raw openat2(RESOLVE_IN_ROOT) on an identical tree in its own sandbox; directories are identified by creation path",
                   "mode bits are compared by inode type only (umask applies)"]
    return cov, assumptions
