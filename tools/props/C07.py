"""C07: procfs lookups stay inside procfs and follow only the requested final link.

Proof: props/C07.v.  Ties: T1 replay of procfs traces; differential between the
kernel (openat2) and the emulated procfs resolver on the live /proc; runtime
oracle: outcome-class table."""
import os
import random

import jobs as J
import model as M
from gen import H, O
from vlib import run_driver_parallel, coq_eval, warm_config, trace_to_coq, unhex

PROC_MAGIC = 0x9fa0
MAGIC_COMPONENT = ["fd/0/x", "root/etc", "cwd/.", "exe/x", "fd/1/.", "root/", "cwd/", "ns/mnt/x", "task/self"]


def live_paths(rng, n):
    base_self = sorted(os.listdir("/proc/self"))
    out = set(["stat", "status", "fd", "fdinfo", "ns", "task", "attr", "net", "cwd", "root", "exe", "environ", "maps"])
    out.update(rng.sample(base_self, min(len(base_self), 25)))
    for d in ("fd", "ns", "attr", "fdinfo"):
        try:
            ents = sorted(os.listdir("/proc/self/" + d))
            for e in rng.sample(ents, min(4, len(ents))):
                out.add(d + "/" + e)
        except OSError:
            pass
    try:
        tids = os.listdir("/proc/self/task")
        out.add("task/" + tids[0])
        out.add("task/" + tids[0] + "/status")
        out.add("task/" + tids[0] + "/fd/0")
    except OSError:
        pass
    paths = sorted(out)
    rng.shuffle(paths)
    paths = paths[:n]
    deco = []
    for p in paths:
        r = rng.random()
        if r < 0.12:
            deco.append(p + "/")
        elif r < 0.2:
            deco.append("./" + p)
        elif r < 0.27:
            deco.append(p.replace("/", "//", 1) if "/" in p else p + "/.")
        elif r < 0.35:
            deco.append(p + "/..")
        elif r < 0.4:
            deco.append("../" + p)
        else:
            deco.append(p)
    return deco + MAGIC_COMPONENT + ["", ".", "..", "nonexistent", "nonexistent/x", "self", "thread-self"]


FLAGSETS = [O["PATH"], O["RDONLY"], O["PATH"] | O["NOFOLLOW"], O["RDONLY"] | O["DIRECTORY"], O["PATH"] | O["DIRECTORY"],
            O["RDONLY"] | O["NOFOLLOW"], O["RDONLY"] | O["CREAT"], O["RDWR"] | O["TMPFILE"], O["RDONLY"] | O["EXCL"],
            O["RDONLY"] | O["NONBLOCK"]]


RAW_TMPFILE = O["TMPFILE"] & ~O["DIRECTORY"]        # __O_TMPFILE: O_TMPFILE is this bit plus O_DIRECTORY


def nonabs_magic_component(p, fds=()):
    """Does a non-final component of the sub-path name an fd/N or ns/* magic-link whose link text is not absolute?
    The link text of fd/N is that of the *driver's* descriptor N (reported with the result), not of this process'."""
    texts = {e[0]: unhex(e[4]) for e in fds if len(e) > 4}
    comps = p.split(b"/")       # a trailing "", "." still makes the link a non-final component
    for i in range(1, len(comps)):
        prefix = [c for c in comps[:i] if c not in (b"", b".")]
        if prefix and prefix[0] == b"self":
            prefix = prefix[1:]
        if len(prefix) >= 2 and prefix[-2] == b"ns":
            return True             # ns/* link texts are "mnt:[...]" etc.
        if len(prefix) >= 2 and prefix[-2] == b"fd" and prefix[-1].isdigit():
            body = texts.get(int(prefix[-1]))
            if body is not None and not body.startswith(b"/"):
                return True
    return False


def unstable_path(p):
    comps = [c for c in p.split(b"/") if c not in (b"", b".")]
    for i, c in enumerate(comps):
        if c.isdigit() and not (i > 0 and comps[i - 1] in (b"fd", b"fdinfo") and int(c) <= 2):
            return True
    return False


def outcome_class(r):
    if "ok" in r:
        return ("ok", r["ok"]["mode"] & 0o170000)
    if "bytes" in r:
        return ("bytes",)
    if "err" in r:
        return ("err", r["err"]["kind"], r["err"]["errno"])
    return ("other", str(r)[:40])


def run(ck):
    rng = random.Random(ck.seed)
    thorough = ck.tier == "thorough"
    ps = M.sysctl_ps()
    paths = live_paths(rng, 120 if thorough else 45)
    jobs = []
    jid = 0
    for p in paths:
        for base in (("root", "self", "thread") if thorough else (rng.choice(["self", "thread"]), "root")):
            if base == "root" and p not in ("self", "thread-self", "", ".", "..", "stat", "nonexistent", "net", "fd", "self/", "sys/kernel/ostype"):
                pp = "self/" + p if p else p
            else:
                pp = p
            for fl in (FLAGSETS if thorough else rng.sample(FLAGSETS, 3)):
                for follow in (False, True):
                    jid += 1
                    # reading blocking files is avoided: only O_PATH / directories / NONBLOCK for unknown entries
                    jobs.append({"id": jid, "op": {"k": "proc_open", "base": base, "path": H(pp), "flags": fl | O["NONBLOCK"] if not fl & O["PATH"] else fl,
                                                   "follow": follow},
                                 "handle_deny": [], "meta": {"path": pp}})
            jid += 1
            jobs.append({"id": jid, "op": {"k": "proc_readlink", "base": base, "path": H(pp)}, "handle_deny": [], "meta": {"path": pp}})
    # creation flags on every kind of sub-path, in particular with the trailing slash that adds O_DIRECTORY (O_TMPFILE contains it)
    for pp in ("fd/", "cwd/", "root/", "task//", "fd", "exe", "status", "fd/0/", "nonexistent/"):
        for fl in (O["RDWR"] | O["TMPFILE"], O["WRONLY"] | O["TMPFILE"], O["RDONLY"] | O["CREAT"], O["RDONLY"] | O["EXCL"], O["PATH"] | O["CREAT"] | O["EXCL"],
                   RAW_TMPFILE | O["RDWR"], RAW_TMPFILE | O["WRONLY"]):
            for follow in (False, True):
                jid += 1
                jobs.append({"id": jid, "op": {"k": "proc_open", "base": "self", "path": H(pp), "flags": fl, "follow": follow},
                             "handle_deny": [], "meta": {"path": pp}})
    byid = {j["id"]: j for j in jobs}
    res_by_cfg = {}
    stats = {"runs": 0, "t1_ok": 0, "t1_bad": 0, "classes": {}, "equiv_compared": 0}
    cases = []
    for deny in ((), ("openat2",)):
        tag = ",".join(deny) or "none"
        _, results, errs = run_driver_parallel(jobs, deny=deny, tag="c07" + tag)
        res_by_cfg[tag] = results
        for jid, res in results.items():
            job = byid[jid]
            op = job["op"]
            r = res.get("res", {})
            if "setup_err" in r:
                continue
            stats["runs"] += 1
            p = unhex(op["path"])
            comps = p.split(b"/")
            cls = outcome_class(r)
            stats["classes"][str(cls[:2])] = stats["classes"].get(str(cls[:2]), 0) + 1
            desc = {"job": J.describe(job), "resolver": "emulated" if deny else "openat2", "outcome": r}
            if "panic" in r:
                ck.violation("C07: procfs lookup panicked", desc)
                continue
            fl = op.get("flags", O["PATH"])
            # the flags open_follow uses: a trailing slash asks for a directory, which completes a bare __O_TMPFILE
            fl_used = fl | O["DIRECTORY"] if op["k"] == "proc_open" and op.get("follow") and p.endswith(b"/") else fl
            creation = bool(fl & (O["CREAT"] | O["EXCL"])) or (fl_used & O["TMPFILE"]) == O["TMPFILE"]
            if op["k"] == "proc_open" and fl & RAW_TMPFILE and "ok" in r:
                # the kernel lets an open with __O_TMPFILE succeed only as O_TMPFILE, i.e. by creating an unnamed file
                ck.violation("C07: a procfs open with the __O_TMPFILE bit succeeded (an unnamed temporary file was created)", desc)
                continue
            if op["k"] == "proc_open" and creation:
                if cls[:2] != ("err", "InvalidArgument"):
                    ck.violation("C07: creation flags were not refused by a procfs open", desc)
                continue
            if b".." in comps and cls[0] != "err":
                # the kernel resolver admits a ".." that stays beneath the base; it must never leave procfs.
                # (the emulated resolver refuses every "..": theorem C07_dotdot_never_succeeds)
                if deny:
                    ck.violation("C07: the emulated procfs resolver let a lookup containing '..' succeed", desc)
                elif "ok" in r and r["ok"].get("f_type") != PROC_MAGIC:
                    ck.violation("C07: a procfs lookup containing '..' left procfs", desc)
            if op["k"] == "proc_open" and "ok" in r:
                o = r["ok"]
                mode = o["mode"] & 0o170000
                follow = op.get("follow") and not fl & O["NOFOLLOW"]
                if not follow:
                    # never follows a trailing symlink: the result is inside procfs ...
                    if o.get("f_type") != PROC_MAGIC:
                        ck.violation("C07: a non-following procfs open returned an object outside procfs", desc)
                    # ... and is the link itself only when asked for O_PATH|O_NOFOLLOW-style access
                    if mode == 0o120000 and not fl & O["PATH"]:
                        ck.violation("C07: a symlink was opened without O_PATH", desc)
            if op["k"] == "proc_open" and not (op.get("follow") and not fl & O["NOFOLLOW"]) and p.rstrip(b"/") in (b"exe", b"cwd", b"root", b"fd/0", b"self/exe", b"self/cwd", b"self/root", b"self/fd/0"):
                # trailing magic-link, no follow requested: must be the link (O_PATH) or ELOOP, never the target
                trailing_slash = p.endswith(b"/")
                if "ok" in r and (r["ok"]["mode"] & 0o170000) != 0o120000 and not trailing_slash:
                    ck.violation("C07: a trailing magic-link was followed by open() although no follow was requested", desc)
            if rng.random() < (0.3 if thorough else 0.12) and "panic" not in r:
                cfg = warm_config(res["_warm"])
                prog, enc = M.op_program(job, res, cfg, ps)
                if prog:
                    cases.append((len(cases), f"enc_replay_diag {enc} (run_trace ({prog}) {trace_to_coq(res['trace'])} 0)", job, res, tag))
    # resolver equivalence on non-empty sub-paths without '..'
    nontrivial = set()
    samples = []
    for jid, job in byid.items():
        a = res_by_cfg.get("none", {}).get(jid)
        b_ = res_by_cfg.get("openat2", {}).get(jid)
        if not a or not b_:
            continue
        p = unhex(job["op"]["path"])
        if p == b"" or b".." in p.split(b"/"):
            continue
        if unstable_path(p):
            continue        # per-process entries (other descriptors, thread ids): the two runs are different processes
        fl_ = job["op"].get("flags", 0)
        if fl_ & RAW_TMPFILE and not fl_ & O["DIRECTORY"]:
            # a bare __O_TMPFILE is no combination of O_* flags (O_TMPFILE is the bit plus O_DIRECTORY): openat2(2) rejects the flag
            # word itself, openat(2) gets to the path first.  These words are here for the creation clause only (checked above).
            continue
        ra, rb = a.get("res", {}), b_.get("res", {})
        if "setup_err" in ra or "setup_err" in rb:
            continue
        ca, cb = outcome_class(ra), outcome_class(rb)
        stats["equiv_compared"] += 1
        same = ca == cb
        if not same and ca[0] == "err" and cb[0] == "err":
            # same class of refusal for magic-link components: the kernel says ELOOP, as does the emulation
            same = ca[1:] == cb[1:]
        if not same and ca[:1] == ("err",) and cb[:1] == ("err",) and ca[2] == 40 and cb[2] == 2 and nonabs_magic_component(p, b_.get("fds_before", []) or a.get("fds_before", [])):
            kf = [f for f in ck.known if f["id"] == "F-M-nonabs-magiclink"]
            if kf:
                ck.known_finding(kf[0]["id"], kf[0]["what"])
                continue
        if not same:
            ck.violation("C07: kernel and emulated procfs resolvers disagree", {"job": J.describe(job), "openat2": ra, "emulated": rb})
        nontrivial.add((job["op"]["k"], job["op"].get("flags"), job["op"].get("follow"), job["op"]["base"], p, str(ca)))
        if len(samples) < 5 and ca[0] == "err" and ca[2] in (18, 40):
            samples.append({"job": J.describe(job), "both_resolvers": ra})
    if not ck.proof_broken:
        evals, cerrs = coq_eval([(c[0], c[1]) for c in cases], header="From PV Require Import Replay.", tag="c07")
        if cerrs:
            ck.violation("T1: Coq evaluation of the case files failed", {"log": cerrs[0][-1500:]}, False)
        for cid, term, job, res, tag in cases:
            rep = evals.get(cid)
            if rep is None:
                continue
            if rep[0] == 0 and M.outcome_matches(res, rep[2:]):
                stats["t1_ok"] += 1
            else:
                stats["t1_bad"] += 1
                at = rep[1] if len(rep) > 1 else -1
                tr = [e for e in res["trace"] if e["c"] != "fcntl" or e.get("cmd") != 1]
                ck.violation("T1: model and implementation disagree on a procfs lookup",
                             {"job": J.describe(job), "deny": tag, "replay": rep, "real_outcome": res.get("res"),
                              "around": tr[max(0, at - 2):at + 2]}, False)
    cov = {
        "evaluations": stats["runs"],
        "distinct_nontrivial": len(nontrivial),
        "rule": "sub-paths drawn from the live listing of /proc/self (+fd, ns, attr, fdinfo, task/<tid>) with '.', '..', '//', trailing-'/' "
                "decorations, magic-links used as components, '' and missing names x bases {root, self, thread-self} x flag sets "
                "(incl. creation flags) x {open, open_follow, readlink} x both procfs resolvers; non-trivial = compared between the two "
                "resolvers; distinct by (op, flags, follow, base, path, outcome class)",
        "samples": samples or [{"note": "none"}],
        "resolver_pairs_compared": stats["equiv_compared"],
        "outcome_classes": stats["classes"],
        "traces_validated_against_impl": stats["t1_ok"], "t1_mismatches": stats["t1_bad"],
        "disagreements_checked": stats["t1_bad"],
    }
    assumptions = ["the kernel resolver (openat2 RESOLVE_BENEATH|NO_XDEV|NO_MAGICLINKS) is the reference for the emulated one",
                   "entries whose content is process-dependent are compared by outcome class and file type only"]
    return cov, assumptions
