"""C17: the C boundary validates arguments and respects caller buffers.

Proof: props/C17.v.  Correspondence: the model's copy_path_into_buffer is
evaluated in Coq on the same (body, size) pairs the real entry points ran on and
the buffers are compared byte for byte; refused calls must not issue any system
call (empty trace).  Runtime oracle: canaries around the buffer, fd table."""
import random

COQ_TARGETS = ("theories/CApi.vo",)

import jobs as J
from gen import H, O
from vlib import run_driver_parallel, coq_eval, unhex, cb

INT_MIN = -2 ** 31


def run(ck):
    rng = random.Random(ck.seed)
    thorough = ck.tier == "thorough"
    lens = [1, 2, 3, 7, 16, 63, 64, 65, 255, 256, 300, 1000, 4095] if thorough else [1, 3, 16, 64, 255, 300, 4095]
    tree = [["dir", H("root"), 0o755], ["file", H("root/f"), H("x"), 0o644], ["dir", H("root/d"), 0o755]]
    bodies = {}
    for L in lens:
        body = ("t" + "".join(rng.choice("abcdefgh/.") for _ in range(L - 1)))[:L]
        if body.endswith("/") and L > 1:
            body = body[:-1] + "z"
        name = "l%d" % L
        bodies[name] = body
        tree.append(["symlink", H("root/" + name), H(body)])
    jobs = []
    jid = 0
    # buffers: every size 0..len+3 for short bodies, a spread for long ones, NULL
    for name, body in bodies.items():
        L = len(body)
        sizes = list(range(0, L + 4)) if L <= 70 else sorted(set([0, 1, 2, L - 2, L - 1, L, L + 1, L + 2, L + 3, L // 2, 4096, 5000] + [rng.randrange(L + 4) for _ in range(6)]))
        for sz in sizes:
            jid += 1
            jobs.append({"id": jid, "tree": tree, "api": "c", "op": {"k": "readlink", "path": H(name), "bufsize": sz}, "meta": {"body": body}})
        jid += 1
        jobs.append({"id": jid, "tree": tree, "api": "c", "op": {"k": "readlink", "path": H(name), "bufsize": 64, "buf_null": True}, "meta": {"body": body}})
    for p, sz in (("self", 0), ("self", 2), ("self", 64), ("thread-self", 5), ("cwd", 3), ("cwd", 4096), ("exe", 1)):
        for null in (False, True):
            jid += 1
            jobs.append({"id": jid, "api": "c", "op": {"k": "proc_readlink", "base": "root" if "self" in p else "self", "path": H(p),
                                                       "bufsize": sz, "buf_null": null}, "meta": {}})
    # invalid arguments: every entry point x class
    root_ops = [{"k": "resolve", "path": H("f")}, {"k": "resolve", "path": H("f"), "nofollow": True},
                {"k": "open", "path": H("f"), "flags": 0}, {"k": "readlink", "path": H("l1"), "bufsize": 16},
                {"k": "rename", "src": H("f"), "dst": H("g"), "flags": 0}, {"k": "remove_dir", "path": H("d")},
                {"k": "remove_file", "path": H("f")}, {"k": "remove_all", "path": H("d")},
                {"k": "create_file", "path": H("n"), "flags": O["WRONLY"], "mode": 0o644}, {"k": "mkdir", "path": H("n"), "mode": 0o755},
                {"k": "mkdir_all", "path": H("n/m"), "mode": 0o755}, {"k": "mknod", "path": H("n"), "mode": 0o100644, "dev": 0},
                {"k": "symlink", "path": H("n"), "target": H("f")}, {"k": "hardlink", "path": H("n"), "target": H("f")}]
    invalid = []
    for op in root_ops:
        for badfd in (-1, -100, -4096, INT_MIN):
            jid += 1
            o2 = dict(op)
            o2["root_fd_raw"] = badfd
            invalid.append({"id": jid, "tree": tree, "api": "c", "op": o2, "snap": "all", "meta": {"cls": "negative fd"}})
        for key in ("path", "src", "dst", "target"):
            if key in op:
                jid += 1
                o2 = dict(op)
                o2["null_" + key] = True
                invalid.append({"id": jid, "tree": tree, "api": "c", "op": o2, "snap": "all", "meta": {"cls": "NULL " + key}})
    for fd in (-1, -100, INT_MIN):
        jid += 1
        invalid.append({"id": jid, "tree": tree, "api": "c", "op": {"k": "reopen", "path": H("f"), "flags": 0, "fd_raw": fd}, "meta": {"cls": "negative fd"}})
    # (the last three: a valid constant in the low 32 bits, something else above -- a 64-bit argument read as 32 bits would accept them)
    for base in (0, 1, 0x5001FFFE, 0xFFFFFFFFFFFFFFFF, 0x091D5E1F + 1, (1 << 32) | 0x091D5E1F, (1 << 63) | 0x5001FFFF, (0xDEADBEEF << 32) | 0x3EAD5E1F):
        for k in ("proc_open", "proc_readlink"):
            jid += 1
            invalid.append({"id": jid, "api": "c", "op": {"k": k, "base_raw": base, "path": H("status"), "flags": 0, "bufsize": 8}, "meta": {"cls": "unknown base"}})
    for k in ("proc_open", "proc_readlink"):
        jid += 1
        invalid.append({"id": jid, "api": "c", "op": {"k": k, "base": "self", "path": H("x"), "null_path": True, "flags": 0, "bufsize": 8}, "meta": {"cls": "NULL path"}})
    for mode in (0o644, 0o010644 | 0o170000, 0o160644, 0o110644, 0o777777):
        jid += 1
        invalid.append({"id": jid, "tree": tree, "api": "c", "op": {"k": "mknod", "path": H("n"), "mode": mode, "dev": 0}, "snap": "all", "meta": {"cls": "invalid mknod mode"}})
    for mode in (0o2755, 0o4755, 0o10755, 0o40755, 0o7777):
        jid += 1
        invalid.append({"id": jid, "tree": tree, "api": "c", "op": {"k": "mkdir_all", "path": H("n/m"), "mode": mode}, "snap": "all", "meta": {"cls": "invalid mkdir_all mode"}})
    alljobs = jobs + invalid
    byid = {j["id"]: j for j in alljobs}
    inv_ids = {j["id"] for j in invalid}
    stats = {"buffers": 0, "invalid": 0, "model_ok": 0, "classes": {}}
    cases = []
    samples = []
    nontrivial = set()
    for deny in ((), ("openat2",)):
        tag = ",".join(deny) or "none"
        _, results, errs = run_driver_parallel(alljobs, deny=deny, tag="c17" + tag)
        for jid, res in results.items():
            job = byid[jid]
            op = job["op"]
            r = res.get("res", {})
            desc = {"job": J.describe(job), "op": {k: v for k, v in op.items() if k not in ("path",)}, "deny": tag, "outcome": r}
            if "setup_err" in r:
                continue
            if "panic" in r:
                ck.violation("C17: a C entry point panicked", desc)
                continue
            fb = [e[:3] for e in res.get("fds_before", [])]
            fa = [e[:3] for e in res.get("fds_after", [])]
            ret_fd = r.get("ok", {}).get("fd") if "ok" in r else None
            if [e for e in fa if e[0] != ret_fd] != fb:
                ck.violation("C17: descriptors lent to / held by the caller changed across a C call", dict(desc, before=fb, after=fa))
            if jid in inv_ids:
                stats["invalid"] += 1
                cls = job["meta"]["cls"]
                stats["classes"][cls] = stats["classes"].get(cls, 0) + 1
                ce = r.get("cerr")
                if not ce:
                    ck.violation("C17: invalid argument (%s) was not rejected with an error id" % cls, desc)
                    continue
                want_errno = 38 if (cls == "invalid mknod mode" and (op["mode"] & 0o170000) == 0o140000) else 22
                if ce.get("id", 0) >= -4095 or ce.get("errno") != want_errno:
                    ck.violation("C17: invalid argument (%s) gave id %s / errno %s, expected an error id with errno %d"
                                 % (cls, ce.get("id"), ce.get("errno"), want_errno), desc)
                # refused before anything happens: no system call, nothing changed
                ncalls = len([e for e in res.get("trace", []) if e["c"] not in ("gettid",)])
                if ncalls and cls not in ("invalid mkdir_all mode",):
                    ck.violation("C17: %d system call(s) were issued before an invalid argument (%s) was refused" % (ncalls, cls),
                                 dict(desc, calls=[e["c"] for e in res["trace"]][:8]))
                if res.get("snap_before") is not None and res["snap_before"] != res["snap_after"]:
                    ck.violation("C17: the tree changed although the call was refused (%s)" % cls, desc)
                nontrivial.add((op["k"], cls, tag))
                continue
            if op["k"] in ("readlink", "proc_readlink"):
                if "cerr" in r:
                    if op["k"] == "readlink":
                        ck.violation("C17: readlink through the C API failed unexpectedly", desc)
                    continue
                stats["buffers"] += 1
                if not r.get("guards_ok"):
                    ck.violation("C17: readlink wrote outside the caller's buffer (canary bytes damaged)", desc)
                    continue
                buf = unhex(r["buf"])
                size = r["size"]
                if op["k"] == "readlink":
                    body = job["meta"]["body"].encode()
                    n = r["ret"]
                    if n != len(body):
                        ck.violation("C17: readlink returned %d, the link body has %d bytes" % (n, len(body)), desc)
                    cases.append((len(cases), f"let '(ret, m) := copy_path_into_buffer {cb(body.hex())} {0 if r['null'] else 1000}%Z {size}%nat (fun _ => 187%N) in "
                                              f"ret :: map (fun a => Z.of_N (m a)) (map (fun i => (1000 + Z.of_nat i)%Z) (seq 0 {min(size, 80)}))",
                                  [n] + list(buf[:min(size, 80)]), desc))
                    nontrivial.add((len(body), size, r["null"], tag))
                else:
                    n = r["ret"]
                    k = min(n, size)
                    if not r["null"] and any(c != 0xBB for c in buf[k:]):
                        ck.violation("C17: proc_readlink modified buffer bytes beyond min(length, size)", desc)
                    if r["null"] and any(c != 0xBB for c in buf):
                        ck.violation("C17: proc_readlink wrote although the buffer pointer was NULL", desc)
                if len(samples) < 4 and op.get("bufsize") in (0, 2, 3):
                    samples.append(desc)
    if not ck.proof_broken:
        evals, cerrs = coq_eval([(c[0], c[1]) for c in cases], header="From PV Require Import CApi.\nOpen Scope Z_scope.", tag="c17")
        if cerrs:
            ck.violation("correspondence: Coq evaluation of the buffer cases failed", {"log": cerrs[0][-1500:]}, False)
        for cid, term, expect, desc in cases:
            got = evals.get(cid)
            if got is None:
                continue
            if got == expect:
                stats["model_ok"] += 1
            else:
                ck.violation("C17: buffer contents / return value differ from the model's copy_path_into_buffer",
                             dict(desc, model=got[:20], real=expect[:20]))
    cov = {
        "evaluations": stats["buffers"] + stats["invalid"],
        "distinct_nontrivial": len(nontrivial),
        "rule": "link bodies of %s bytes x buffer sizes 0..len+3 (all for len<=70, a spread otherwise) and NULL, with 64 canary bytes on both "
                "sides, through pathrs_inroot_readlink / pathrs_proc_readlink; every pathrs_* entry point x {negative fd (4 values), NULL for each "
                "path argument, unknown procfs base, invalid mknod / mkdir_all mode}; both kernel feature sets; distinct by (len, size, NULL) "
                "resp. (entry point, invalid class)" % lens,
        "samples": samples or [{"note": "none"}],
        "buffer_cases": stats["buffers"], "invalid_argument_cases": stats["invalid"], "invalid_classes": stats["classes"],
        "traces_validated_against_impl": stats["model_ok"],
        "disagreements_checked": len(cases) - stats["model_ok"],
    }
    assumptions = ["the buffer theorem is about a byte-addressed memory model; the C caller's promise that buf is writable for size bytes is assumed",
                   "pathrs_inroot_creat / _mkdir mask file-type bits like open(2)/mkdir(2) do; that is modelled, not flagged"]
    return cov, assumptions
