"""C18: the C header and the language bindings describe the exported ABI exactly.

tools/abi_extract.py regenerates coq/gen/Abi.v on every run (header, Rust
extern "C" items, nm of the freshly built staticlib, a C translation unit
compiled and linked against header+library, Go and Python call sites);
props/C18.v decides the finite claims by computation, with the checkers'
meaning fixed by soundness theorems."""
import os
import re

from vlib import COQ, VERIF

COQ_TARGETS = ("theories/AbiCheck.vo",)
NEED_DRIVER = False
LEVEL = "translation_validation"


def run(ck):
    abi = open(os.path.join(COQ, "gen", "Abi.v")).read()

    def count(name):
        m = re.search(r"Definition %s[^:]*:[^=]*:= \[(.*?)\]\." % name, abi, re.S)
        return 0 if not m else len([x for x in re.split(r";\s*\n?\s*(?=\(|\")", m.group(1)) if x.strip()])

    n = {k: count(k) for k in ("hdr_fns", "rs_fns", "lib_syms", "go_calls", "py_calls")}
    if ck.proof_broken:
        # search for the concrete disagreement: name the first declaration / symbol / call that does not match
        detail = {"counts": n}
        try:
            hdr = set(re.findall(r'\("(pathrs_\w+)", \w+, \[[^\]]*\]\)', re.search(r"hdr_fns.*?\]\.", abi, re.S).group(0)))
            rs = set(re.findall(r'\("(pathrs_\w+)", \w+, \[[^\]]*\]\)', re.search(r"rs_fns.*?\]\.", abi, re.S).group(0)))
            hdr_full = set(re.findall(r'\("pathrs_\w+", \w+, \[[^\]]*\]\)', re.search(r"hdr_fns.*?\]\.", abi, re.S).group(0)))
            rs_full = set(re.findall(r'\("pathrs_\w+", \w+, \[[^\]]*\]\)', re.search(r"rs_fns.*?\]\.", abi, re.S).group(0)))
            syms = set(re.findall(r'"(pathrs_\w+)"', re.search(r"lib_syms.*?\]\.", abi, re.S).group(0)))
            detail["header_only"] = sorted(hdr - rs)
            detail["rust_only"] = sorted(rs - hdr)
            detail["signature_differs"] = sorted(hdr_full ^ rs_full)
            detail["symbols_not_declared"] = sorted(syms - hdr)
            detail["declared_not_exported"] = sorted(hdr - syms)
            for key in ("hdr_enums", "rs_enums", "c_enums", "c_error_layout", "rs_error_layout", "py_typedefs", "hdr_typedefs"):
                m = re.search(r"Definition %s[^=]*:= (.*?)\.\n" % key, abi)
                detail[key] = m.group(1) if m else None
        except Exception as e:      # noqa
            detail["search_error"] = str(e)
        found = any(detail.get(k) for k in ("header_only", "rust_only", "signature_differs", "symbols_not_declared", "declared_not_exported")) \
            or detail.get("hdr_enums") != detail.get("rs_enums") or detail.get("hdr_enums") != detail.get("c_enums") \
            or detail.get("c_error_layout") != detail.get("rs_error_layout") \
            or ('"dev_t", U32' in (detail.get("py_typedefs") or ""))
        if found:
            ck.violation("C18: header / Rust items / exported symbols / bindings disagree", detail, True)
    cov = {
        "evaluations": sum(n.values()),
        "distinct_nontrivial": n["hdr_fns"] + n["go_calls"] + n["py_calls"],
        "exhaustive": True,
        "rule": "every function declared in include/pathrs.h, every #[no_mangle] extern \"C\" item, every pathrs_* text symbol of the "
                "freshly built libpathrs.a, every C.pathrs_* call in go-pathrs and every libpathrs_so.pathrs_* call in the Python binding; "
                "enum values and pathrs_error_t layout as seen by gcc against the header and linked to the library",
        "samples": [{"counts": n}],
        "programs": 6,
        "disagreements_checked": 0,
    }
    assumptions = ["trusted: tools/abi_extract.py (regex-level parsers for the C header, the Rust FFI items, Go and Python call sites; "
                   "width classes for x86-64 Linux); gcc and nm",
                   "Go and cffi are not installed: the bindings are parsed, not compiled"]
    return cov, assumptions
