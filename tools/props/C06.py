"""C06: procfs calls return only genuine procfs objects under any over-mounts.

Proof: props/C06.v (every object a procfs lookup returns -- and every directory
it walks through -- passed the mount-id comparison; the root is checked to be the
root of a procfs; fail-closed comparisons).  Runtime (private mount namespace):
real tmpfs / bind over-mounts on subsets of /proc entries (files, directories,
magic-links), four handle kinds, three bases, both procfs
resolvers, plus one mount racing at every system-call boundary of a lookup."""
import itertools
import os
import random

import jobs as J
from gen import H, O
from vlib import run_driver, run_driver_parallel, CACHE, unhex

PROC_MAGIC = 0x9fa0
A = lambda s: s.encode().hex()    # noqa: E731
MARKER = os.path.join(CACHE, "work", "foreign_marker")
LINK1 = os.path.join(CACHE, "work", "link_to_pid1")         # a symlink with body "1": over /proc/self it leads to /proc/1

# over-mountable entries: name -> (mount op, umount op, sub-paths whose lookup crosses the mount)
MOUNTS = {
    "status<-foreign file": (["mount_bind", A(MARKER), A("/proc/self/status")], ["umount", A("/proc/self/status")], ["status"]),
    "fd<-tmpfs": (["mount_tmpfs", A("/proc/self/fd")], ["umount", A("/proc/self/fd")], ["fd", "fd/0"]),
    "exe<-foreign file (magic-link itself)": (["mount_bind_nofollow", A(MARKER), A("/proc/self/exe")], ["umount_nofollow", A("/proc/self/exe")], ["exe"]),
    "environ<-other procfs file": (["mount_bind", A("/proc/1/environ"), A("/proc/self/environ")], ["umount", A("/proc/self/environ")], ["environ"]),
    "attr<-other procfs dir": (["mount_bind", A("/proc/1/attr"), A("/proc/self/attr")], ["umount", A("/proc/self/attr")], ["attr", "attr/current"]),
    "cwd<-foreign file (magic-link itself)": (["mount_bind_nofollow", A(MARKER), A("/proc/self/cwd")], ["umount_nofollow", A("/proc/self/cwd")], ["cwd"]),
    # a symlink mounted over the /proc/self (/proc/thread-self) symlink: crossed by lookups from the procfs root THROUGH it
    "self<-symlink to another pid": (["mount_bind_nofollow", A(LINK1), A("/proc/self")], ["umount_nofollow", A("/proc/self")],
                                     ["root:self/status", "root:self/cwd", "root:self"]),
    "thread-self<-symlink to another pid": (["mount_bind_nofollow", A(LINK1), A("/proc/thread-self")], ["umount_nofollow", A("/proc/thread-self")],
                                            ["root:thread-self/stat", "root:thread-self"]),
}
QUICK_SET = ["status<-foreign file", "fd<-tmpfs", "exe<-foreign file (magic-link itself)", "self<-symlink to another pid"]

LOOKUPS = [("proc_open", "status", O["RDONLY"], False), ("proc_open", "fd", O["RDONLY"] | O["DIRECTORY"], False), ("proc_open", "fd/0", O["PATH"], False),
           ("proc_readlink", "exe", 0, False), ("proc_open", "exe", O["PATH"], True), ("proc_open", "environ", O["RDONLY"], False),
           ("proc_open", "attr/current", O["RDONLY"], False), ("proc_readlink", "cwd", 0, False), ("proc_open", "stat", O["RDONLY"], False),
           ("proc_open", "status", O["PATH"], True),
           # from the procfs root, through the /proc/self and /proc/thread-self symlinks
           ("proc_open", "root:self/status", O["RDONLY"], False), ("proc_readlink", "root:self/cwd", 0, False),
           ("proc_open", "root:thread-self/stat", O["RDONLY"], False), ("proc_open", "root:self", O["PATH"] | O["DIRECTORY"], False)]

# handle kinds: (label, job fields, mounts must be placed before construction?, private?)
HANDLES = [("fsopen (private instance)", {}, False, True),
           ("open_tree clone taken before the mounts", {"handle_deny": ["fsopen"]}, False, True),
           ("open_tree recursive clone taken after the mounts", {"handle_deny": ["fsopen"]}, True, False),
           ("plain open of the host /proc", {"handle_deny": ["fsopen", "open_tree"]}, False, False),
           ("user-supplied fd", {"handle": "unsafe_open"}, False, False)]


def stable(content, path):
    """the part of a file's content that does not change between two reads"""
    c = unhex(content or "")
    path = path.split(":")[-1].rsplit("/", 1)[-1]       # the entry's own name decides what is process-independent
    if path == "status" or path.endswith("/status"):
        # runs are spread over several driver processes: keep what is the same in all of them (name line, field names)
        return b"\n".join(l if l.startswith(b"Name:") else l.split(b":")[0] for l in c.split(b"\n"))
    if path == "stat":
        return b" ".join(c.split(b" ")[1:2])
    return c[:200]


def run(ck):
    rng = random.Random(ck.seed)
    thorough = ck.tier == "thorough"
    os.makedirs(os.path.dirname(MARKER), exist_ok=True)
    open(MARKER, "w").write("FOREIGN-MARKER\n")
    if not os.path.islink(LINK1):
        os.symlink("1", LINK1)
    names = list(MOUNTS) if thorough else QUICK_SET
    subsets = [s for r in range(len(names) + 1) for s in itertools.combinations(names, r)]
    if thorough and len(subsets) > 64:
        subsets = [()] + rng.sample(subsets[1:], 63)
    jobs = []
    jid = 0
    for hl, hf, early, private in HANDLES:
        for sub in subsets:
            pre = [MOUNTS[n][0] for n in sub]
            post = [MOUNTS[n][1] for n in reversed(sub)]
            crossing = {p for n in sub for p in MOUNTS[n][2]}
            for (k, p, fl, follow) in (LOOKUPS if thorough or not sub else rng.sample(LOOKUPS, 6)):
                for base in (("root",) if p.startswith("root:") else ("self", "thread") if thorough or not sub else (rng.choice(["self", "self", "thread"]),)):
                    jid += 1
                    op = {"k": k, "base": base, "path": H(p[5:] if p.startswith("root:") else p)}
                    if k == "proc_open":
                        op["flags"] = fl
                        op["follow"] = follow
                    j = {"id": jid, "op": op, "read": True, "postumount": post, "trace": False,
                         "meta": {"handle": hl, "mounts": list(sub), "path": p, "private": private,
                                  "crossing": p in crossing and (base == "self" or p.startswith("root:"))}}
                    j["premount_early" if early else "premount"] = pre
                    j.update(hf)
                    jobs.append(j)
    byid = {j["id"]: j for j in jobs}
    stats = {"runs": 0, "exdev": 0, "genuine": 0, "unaffected_private": 0, "racing": 0, "by_handle": {}}
    nontrivial = set()
    samples = []
    for deny in ((), ("openat2",)):
        tag = ",".join(deny) or "none"
        # one process per shard: the baseline (no mounts) of the same process gives the genuine content
        _, results, errs = run_driver_parallel(jobs, deny=deny, tag="c06" + tag, extra_args=("--newns",), shards=8)
        base_content = {}
        for jid_, res in results.items():
            job = byid[jid_]
            if not job["meta"]["mounts"] and "ok" in res.get("res", {}):
                base_content.setdefault((job["meta"]["handle"], job["meta"]["path"], job["op"]["k"], job["op"].get("follow"), job["op"]["base"]), res)
        for jid_, res in results.items():
            job = byid[jid_]
            m = job["meta"]
            r = res.get("res", {})
            if "setup_err" in r:
                continue
            if any(x[1] != 0 for x in res.get("mount_log", []) + res.get("early_mount_log", []) if x[0][0].startswith("mount")):
                continue        # the over-mount itself could not be placed
            stats["runs"] += 1
            stats["by_handle"][m["handle"]] = stats["by_handle"].get(m["handle"], 0) + 1
            desc = {"lookup": J.describe({"op": job["op"]}), "handle": m["handle"], "over_mounts": m["mounts"], "resolver": "emulated" if deny else "openat2",
                    "outcome": r, "content": unhex(res.get("content", ""))[:60].decode("latin1")}
            if "panic" in r:
                ck.violation("C06: procfs lookup panicked", desc)
                continue
            ok = "ok" in r or "bytes" in r
            follow = job["op"].get("follow") and not job["op"].get("flags", 0) & O["NOFOLLOW"]
            if ok:
                c = unhex(res.get("content", ""))
                if b"FOREIGN-MARKER" in c:
                    ck.violation("C06: a procfs call returned the over-mounting foreign file", desc)
                    continue
                if "ok" in r and not follow and r["ok"].get("f_type") != PROC_MAGIC:
                    ck.violation("C06: a non-following procfs open returned an object that is not on procfs", desc)
                    continue
                if m["path"] == "environ" and "environ<-other procfs file" in m["mounts"]:
                    b0 = base_content.get((m["handle"], "environ", "proc_open", False, job["op"]["base"]))
                    if b0 and stable(res.get("content"), "environ") != stable(b0.get("content"), "environ"):
                        ck.violation("C06: a procfs call returned another procfs file that was bind-mounted over the requested one", desc)
                        continue
                if m["path"] == "fd" and "fd<-tmpfs" in m["mounts"] and res.get("dir_entries", 3) <= 2:
                    ck.violation("C06: a procfs call returned the tmpfs mounted over the requested directory", desc)
                    continue
                stats["genuine"] += 1
            else:
                if r.get("err", {}).get("errno") == 18:
                    stats["exdev"] += 1
            if m["private"] and m["mounts"]:
                # a private instance is unaffected: same outcome class and same stable content as without mounts
                b0 = next((v for kx, v in base_content.items() if kx[0] == m["handle"] and kx[1] == m["path"] and kx[2] == job["op"]["k"]
                           and kx[3] == job["op"].get("follow") and kx[4] == job["op"]["base"]), None)
                if b0 is not None:
                    same = (("ok" in r) == ("ok" in b0["res"])) and (("bytes" in r) == ("bytes" in b0["res"])) and \
                        stable(res.get("content"), m["path"]) == stable(b0.get("content"), m["path"]) and r.get("bytes") == b0["res"].get("bytes")
                    if not same:
                        ck.violation("C06: a handle on a private procfs instance was affected by mounts over the host /proc", dict(desc, without_mounts=b0["res"]))
                    else:
                        stats["unaffected_private"] += 1
            if (not m["private"]) and m["crossing"] and ok and not follow:
                # the over-mount is visible to this handle and lies on the lookup path: the call must fail
                ck.violation("C06: a lookup crossing a visible over-mount succeeded instead of failing with EXDEV", desc)
            nontrivial.add((m["handle"], tuple(m["mounts"]), m["path"], job["op"]["k"], job["op"].get("follow"), tag, "ok" if ok else r.get("err", {}).get("errno")))
            if len(samples) < 5 and not ok and m["crossing"]:
                samples.append(desc)
        # ---- one racing mount at every boundary of a non-following open
        racebase = []
        for i, (hl, hf, early, private) in enumerate(HANDLES):
            if early:
                continue
            for (k, p, fl, follow) in [l for l in LOOKUPS if l[0] == "proc_open" and not l[3]][:4]:
                j = {"id": 500000 + len(racebase), "op": {"k": k, "base": "self", "path": H(p), "flags": fl, "follow": False}, "read": True,
                     "meta": {"handle": hl, "path": p, "private": private}}
                j.update(hf)
                racebase.append(j)
        rc, out, bl = run_driver(racebase, deny=deny, tag="c06rb" + tag, extra_args=("--newns",))
        blby = {r["id"]: r for r in bl if r.get("id") != "warmup"}
        rjobs = []
        for j in racebase:
            b = blby.get(j["id"])
            if not b or "trace" not in b:
                continue
            L = len(b["trace"])
            # quick: a sample of the boundaries, and always the ones right before a link is read (between the check of a
            # component and the use of its body)
            ks = list(range(L)) if thorough else sorted(set(rng.sample(range(L), min(L, 12))) |
                                                      {i for i, e in enumerate(b["trace"]) if e["c"] in ("readlinkat", "readlink")})
            for name in (names if thorough else QUICK_SET[:2] + ["self<-symlink to another pid"]):
                # a lookup from the "self" base walks through the /proc/self symlink first: a mount on that link races it too
                crossed = MOUNTS[name][2] + (["status", "stat"] if name.startswith("self<-") else [])
                if j["meta"]["path"] not in crossed:
                    continue
                for kk in ks:
                    j2 = dict(j)
                    j2["id"] = 600000 + len(rjobs)
                    j2["policy"] = {"attack": [{"at": kk, "ops": [MOUNTS[name][0]]}]}
                    j2["postumount"] = [MOUNTS[name][1]]
                    j2["trace"] = False
                    j2["meta"] = dict(j["meta"], race=name, at=kk)
                    rjobs.append(j2)
        rby = {j["id"]: j for j in rjobs}
        _, rres, _ = run_driver_parallel(rjobs, deny=deny, tag="c06r" + tag, extra_args=("--newns",), shards=8)
        for jid_, res in rres.items():
            job = rby[jid_]
            r = res.get("res", {})
            if "setup_err" in r or not res.get("attack_log"):
                continue
            stats["racing"] += 1
            desc = {"lookup": J.describe({"op": job["op"]}), "handle": job["meta"]["handle"], "racing_mount": job["meta"]["race"], "at_call": job["meta"]["at"],
                    "resolver": "emulated" if deny else "openat2", "outcome": r, "content": unhex(res.get("content", ""))[:60].decode("latin1")}
            if "ok" in r:
                if b"FOREIGN-MARKER" in unhex(res.get("content", "")) or r["ok"].get("f_type") != PROC_MAGIC or \
                        (job["meta"]["path"] == "fd" and res.get("dir_entries", 3) <= 2):
                    ck.violation("C06: with a mount racing the lookup, a non-following procfs open returned the over-mounting object", desc)
                elif job["meta"]["path"] == "status" and b"\nPid:\t1\n" in unhex(res.get("content", "")):
                    ck.violation("C06: with a symlink mounted over /proc/self racing the lookup, a procfs open returned another process' object "
                                 "(the body of the over-mounting link was followed)", desc)
            nontrivial.add(("race", job["meta"]["handle"], job["meta"]["race"], job["meta"]["at"], tag))
    cov = {
        "evaluations": stats["runs"] + stats["racing"],
        "distinct_nontrivial": len(nontrivial),
        "exhaustive": False,
        "rule": "all %d subsets of %d over-mounts {%s} x 5 handle kinds x lookups (open, open_follow, readlink on files, directories, magic-links) x bases "
                "x both procfs resolvers in a private mount namespace; plus one over-mount placed at %s system-call boundary of non-following opens; "
                "distinct by (handle, subset, path, op, resolver, outcome)" % (len(subsets), len(names), "; ".join(names), "every" if thorough else "12 sampled"),
        "samples": samples or [{"note": "none"}],
        "static_runs": stats["runs"], "racing_mount_runs": stats["racing"], "exdev_results": stats["exdev"], "genuine_results": stats["genuine"],
        "private_handles_unaffected": stats["unaffected_private"], "by_handle": stats["by_handle"],
    }
    assumptions = ["kernel reports mount ids through statx (Linux 5.8+)", "the check runs as root in a private mount namespace (unshare(CLONE_NEWNS), MS_PRIVATE)",
                   "'genuine' is judged by file-system type, mount-crossing, a marker in the foreign file and the stable part of the content; "
                   "byte-for-byte equality with a pristine instance is not decidable for process-dependent files"]
    return cov, assumptions
