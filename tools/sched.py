"""Attacker schedules: the supervisor applies attacker mutations at chosen
system-call boundaries of a library call (deterministic preemption)."""
from gen import H
from vlib import run_driver_parallel, unhex

RELEVANT_NEXT = {"openat", "openat2", "readlinkat", "newfstatat", "unlinkat", "mkdirat", "mknodat", "symlinkat", "linkat",
                 "renameat", "renameat2", "getdents64", "fcntl"}


def scenario_tree():
    """root/ with nested dirs, files, links; outside/ with a secret; attacker props prepared in advance."""
    return [["dir", H("root"), 0o755], ["dir", H("outside"), 0o755], ["file", H("outside/secret"), H("HOSTSECRET"), 0o644],
            ["dir", H("outside/sub"), 0o755], ["file", H("outside/sub/f"), H("OUT"), 0o644], ["dir", H("outside/sub/c"), 0o755],
            ["dir", H("root/a"), 0o755], ["dir", H("root/a/b"), 0o755], ["dir", H("root/a/b/c"), 0o755],
            ["file", H("root/a/b/f"), H("inside"), 0o644], ["file", H("root/a/b/c/g"), H("g"), 0o644],
            ["symlink", H("root/l"), H("a/b")], ["symlink", H("root/up"), H("a/b/c/../..")], ["symlink", H("root/abs"), H("/a/b")],
            ["dir", H("root/d"), 0o755], ["dir", H("root/d/e"), 0o755], ["file", H("root/d/e/h"), H("h"), 0o644],
            ["file", H("root/d/x"), H("x"), 0o644], ["symlink", H("root/d/s"), H("e")],
            # attacker props (inside the root, pointing out)
            ["symlink", H("root/evil_dir"), H("../outside/sub")], ["symlink", H("root/evil_file"), H("../outside/secret")],
            ["symlink", H("root/evil_up"), H("../..")], ["dir", H("root/spare"), 0o755], ["file", H("root/spare/f"), H("spare"), 0o644],
            # twins: the same names inside the root (in a/) and in the place a walk lands when a/b has been moved out and '..' is
            # taken from there (outside/) -- a lookup that loses track returns the host's twin
            ["symlink", H("root/a/hlink"), H("b/f")], ["file", H("root/a/hfile"), H("inside-twin"), 0o644],
            ["symlink", H("outside/hlink"), H("secret")], ["file", H("outside/hfile"), H("HOSTTWIN"), 0o644],
            # a sibling of the root whose NAME is the root's followed by " (deleted)": the kernel renders a live directory of that
            # name exactly like the root's path with the marker it appends for unlinked objects
            ["dir", H("root (deleted)"), 0o755], ["file", H("root (deleted)/hfile"), H("SIBLINGTWIN"), 0o644],
            ["symlink", H("root (deleted)/hlink"), H("hfile")],
            # a place outside the root whose absolute path is longer than PATH_MAX (20 levels of 250-byte names): the kernel cannot
            # render the path of anything moved there (ENAMETOOLONG from the procfs magic-link), so a check that reads it must fail closed
            ["deepdir", H("outside/deep"), 20, 250]]


# attacker actions: (name, ops, reverse ops)
ACTIONS = [
    ("move a/b out of the root", [["rename", H("root/a/b"), H("outside/stolen_b")]], [["rename", H("outside/stolen_b"), H("root/a/b")]]),
    ("move a out of the root", [["rename", H("root/a"), H("outside/stolen_a")]], [["rename", H("outside/stolen_a"), H("root/a")]]),
    ("exchange a/b with a link to outside", [["exchange", H("root/a/b"), H("root/evil_dir")]], [["exchange", H("root/a/b"), H("root/evil_dir")]]),
    ("exchange a/b/f with a link to the secret", [["exchange", H("root/a/b/f"), H("root/evil_file")]], [["exchange", H("root/a/b/f"), H("root/evil_file")]]),
    ("exchange a with a link to ../..", [["exchange", H("root/a"), H("root/evil_up")]], [["exchange", H("root/a"), H("root/evil_up")]]),
    ("exchange a/b/c with spare", [["exchange", H("root/a/b/c"), H("root/spare")]], [["exchange", H("root/a/b/c"), H("root/spare")]]),
    ("move d/e out of the root", [["rename", H("root/d/e"), H("outside/stolen_e")]], [["rename", H("outside/stolen_e"), H("root/d/e")]]),
    ("exchange d/e with a link to outside", [["exchange", H("root/d/e"), H("root/evil_dir")]], [["exchange", H("root/d/e"), H("root/evil_dir")]]),
    ("exchange d with a link to outside", [["exchange", H("root/d"), H("root/evil_dir")]], [["exchange", H("root/d"), H("root/evil_dir")]]),
    ("move a/b up to the top of the root", [["rename", H("root/a/b"), H("root/b_top")]], [["rename", H("root/b_top"), H("root/a/b")]]),
    ("unlink a/b/f", [["unlink", H("root/a/b/f")]], []),
    ("move a into the sibling directory 'root (deleted)'", [["rename", H("root/a"), H("root (deleted)/stolen_a2")]],
     [["rename", H("root (deleted)/stolen_a2"), H("root/a")]]),
    ("move d into the sibling directory 'root (deleted)'", [["rename", H("root/d"), H("root (deleted)/stolen_d2")]],
     [["rename", H("root (deleted)/stolen_d2"), H("root/d")]]),
    ("move a/b to a place outside the root that is deeper than PATH_MAX", [["rename_into_deep", H("root/a/b"), H("outside/deep"), 20, 250, H("stolen_b")]],
     [["rename_from_deep", H("outside/deep"), 20, 250, H("stolen_b"), H("root/a/b")]]),
    ("move d/e to a place outside the root that is deeper than PATH_MAX", [["rename_into_deep", H("root/d/e"), H("outside/deep"), 20, 250, H("stolen_e")]],
     [["rename_from_deep", H("outside/deep"), 20, 250, H("stolen_e"), H("root/d/e")]]),
]


def flag_variants(base_jobs, link_names=(b"l", b"up", b"abs", b"s", b"evil_dir", b"evil_file", b"evil_up")):
    """Every base job once more on a Root with ResolverFlags::NO_SYMLINKS (rflags 4) when its path names no link:
    code paths that depend on the resolver flags get the same schedules."""
    out = list(base_jobs)
    nid = max(j["id"] for j in base_jobs) + 1
    for j in base_jobs:
        op = j["op"]
        paths = [unhex(op[k]) for k in ("path", "src", "dst") if k in op]
        if op.get("type") == "hardlink" and "target" in op:
            paths.append(unhex(op["target"]))
        if any(c in link_names for p_ in paths for c in p_.split(b"/")):
            continue
        j2 = dict(j)
        j2["id"] = nid
        j2["rflags"] = 4
        nid += 1
        out.append(j2)
    return out


def boundaries(trace):
    """indices k such that the attacker acts right before call k"""
    return [i for i, e in enumerate(trace) if e["c"] in RELEVANT_NEXT and not (e["c"] == "fcntl" and e.get("cmd") != 1030)]


def created_dir_attacks(bj, b):
    """mkdir_all: right after the k-th successful mkdirat (and before the library opens what it made) the attacker exchanges the
    new directory with a link that leads out of the root.  The names come from the baseline run of the same job."""
    if bj["op"]["k"] != "mkdir_all" or "trace" not in b or b.get("snap_before") is None:
        return []
    before = {unhex(e[0]) for e in b["snap_before"]}
    added = sorted((unhex(e[0]) for e in (b.get("snap_after") or []) if unhex(e[0]) not in before and unhex(e[0]).startswith(b"root/")),
                   key=lambda p_: p_.count(b"/"))
    made = [i for i, e in enumerate(b["trace"]) if e["c"] == "mkdirat" and e["ret"] == 0]
    if len(made) != len(added):
        return []
    ks = boundaries(b["trace"])
    out = []
    for i, p_ in zip(made, added):
        nxt = next((k for k in ks if k > i), None)
        if nxt is None:
            continue
        for link in ("evil_dir", "evil_up"):
            out.append((nxt, "exchange the directory just created (%s) with the link %s" % (p_.decode("latin1"), link),
                        [["exchange", p_.hex(), H("root/" + link)]]))
    return out


def make_jobs(base_jobs, baselines, rng, thorough, max_per_job=None, pairs=False):
    """For every base job: one run per (boundary, action); thorough adds flip-flop pairs (do at k1, undo at k2)."""
    out = []
    jid = 10_000_000
    for bj in base_jobs:
        b = baselines.get(bj["id"])
        if not b or "trace" not in b:
            continue
        ks = boundaries(b["trace"])
        combos = [(k, ai) for k in ks for ai in range(len(ACTIONS))]
        if max_per_job and len(combos) > max_per_job:
            # the windows right before a '..' step are always taken: that is where a moved directory takes the walk upwards
            def dotdot(k):
                e = b["trace"][k]
                return e["c"] in ("openat", "openat2") and unhex(e.get("path", "")) == b".."
            prio = [c for c in combos if dotdot(c[0])]
            rest = [c for c in combos if not dotdot(c[0])]
            rng.shuffle(rest)
            combos = prio + rest[:max(0, max_per_job - len(prio))]
        for k, ai in combos:
            jid += 1
            j = dict(bj)
            j["id"] = jid
            j["base"] = bj["id"]
            j["policy"] = {"attack": [{"at": k, "ops": ACTIONS[ai][1]}]}
            j["attack_desc"] = {"at": k, "action": ACTIONS[ai][0], "before_call": b["trace"][k]["c"]}
            out.append(j)
        for k, name, ops in created_dir_attacks(bj, b):
            jid += 1
            j = dict(bj)
            j["id"] = jid
            j["base"] = bj["id"]
            j["policy"] = {"attack": [{"at": k, "ops": ops}]}
            j["attack_desc"] = {"at": k, "action": name, "before_call": b["trace"][k]["c"]}
            out.append(j)
        if pairs:
            for _ in range(min(len(ks) * 2, 200)):
                if len(ks) < 2:
                    break
                k1, k2 = sorted(rng.sample(ks, 2))
                ai = rng.randrange(len(ACTIONS))
                if not ACTIONS[ai][2]:
                    continue
                jid += 1
                j = dict(bj)
                j["id"] = jid
                j["base"] = bj["id"]
                j["policy"] = {"attack": [{"at": k1, "ops": ACTIONS[ai][1]}, {"at": k2, "ops": ACTIONS[ai][2]}]}
                j["attack_desc"] = {"at": [k1, k2], "action": ACTIONS[ai][0] + " and back", "before_call": [b["trace"][k1]["c"], b["trace"][k2]["c"]]}
                out.append(j)
    return out


def inside_idents(res, tree):
    """(dev, ino) of everything that was inside the root when the call started, plus what the attacker moved in."""
    ob = res.get("objs", {})
    ins = set()
    for hp in [H("root")] + [op[1] for op in tree]:
        p = unhex(hp)
        if p == b"root" or p.startswith(b"root/"):
            v = ob.get(hp)
            if v:
                ins.add((v[0], v[1]))
    return ins


def outside_snapshot(snap):
    return sorted((e[0], e[1], e[3], e[4], e[6], e[7]) for e in (snap or []) if not (unhex(e[0]) == b"root" or unhex(e[0]).startswith(b"root/")))
