#!/bin/sh
# tools/seeded_store.sh <Cxx> <name> : copy a confirmed seeded change from /tmp/seed7/<Cxx>-out into /verif/seeded/<Cxx>-<name>/
# (patch, demonstration without build output, notes, outputs); meta.json is written by hand afterwards.
set -e
src=/tmp/seed7/$1-out ; dst=/verif/seeded/$1-$2
mkdir -p "$dst"
cp "$src/patch.diff" "$dst/patch.diff"
[ -f "$src/NOTES.md" ] && cp "$src/NOTES.md" "$dst/NOTES.md"
for f in "$src"/demo-with*.out "$src"/demo-without*.out "$src"/my-with.out "$src"/my-without.out; do [ -f "$f" ] && cp "$f" "$dst/"; done
if [ -d "$src/demo" ]; then rm -rf "$dst/demo"; mkdir -p "$dst/demo"; (cd "$src/demo" && find . -name target -prune -o -type f -size -200k -print | cpio -pdm "$dst/demo" 2>/dev/null); fi
du -sh "$dst"
