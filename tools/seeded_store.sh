#!/bin/sh
# tools/seeded_store.sh <Cxx> <name> : copy a confirmed seeded change from /tmp/seed9/<Cxx>-out into /verif/seeded/<Cxx>-<name>/
# (patch, demonstration without build output, notes, outputs); meta.json is written by hand afterwards.
set -e
src=/tmp/seed9/$1-out ; dst=/verif/seeded/$1-$2
mkdir -p "$dst"
cp "$src/patch.diff" "$dst/patch.diff"
if [ -f "$src/NOTES.md" ]; then cp "$src/NOTES.md" "$dst/NOTES.md"; fi
for f in "$src"/demo-with*.out "$src"/demo-without*.out "$src"/my-with.out "$src"/my-without.out; do if [ -f "$f" ]; then cp "$f" "$dst/"; fi; done
if [ -d "$src/demo" ]; then
  rm -rf "$dst/demo"; cp -r "$src/demo" "$dst/demo"
  find "$dst/demo" -type d \( -name target -o -name .git \) -prune -exec rm -rf {} +
  find "$dst/demo" -type f -size +300k -delete
fi
du -sh "$dst"; ls "$dst" "$dst/demo" 2>/dev/null
