"""Bridging harness trees and the Coq file-system model (coq/theories/FSModel.v)."""
from vlib import unhex, cb


def comps(rel):
    return [c for c in rel.split(b"/") if c]


def coq_comps(cs):
    return "[" + "; ".join(cb(c.hex()) for c in cs) + "]"


def tree_to_mkops(tree, build_errs=()):
    """Harness creation list -> (Coq term of type list mkop, id map model-id -> sandbox-relative hex path).
    Only objects below 'root/' are part of the model; object ids are assigned in creation order (root = 0)."""
    failed = set()
    for be in build_errs:
        failed.add((be[0][0], be[0][1]))
    ops = []
    idmap = {0: tree_root_hex()}
    nxt = 1
    byrel = {b"": 0}
    for op in tree:
        kind, hp = op[0], op[1]
        p = unhex(hp)
        if not p.startswith(b"root/"):
            continue
        if (kind, hp) in failed:
            continue
        rel = p[len(b"root/"):]
        cs = comps(rel)
        if kind == "dir":
            ops.append(f"MkDir {coq_comps(cs)}")
        elif kind == "file":
            ops.append(f"MkFile {coq_comps(cs)}")
        elif kind == "symlink":
            ops.append(f"MkLnk {coq_comps(cs)} {cb(op[2])}")
        elif kind == "fifo":
            ops.append(f"MkFifo {coq_comps(cs)}")
        elif kind == "sock":
            ops.append(f"MkSock {coq_comps(cs)}")
        elif kind == "chr":
            ops.append(f"MkChr {coq_comps(cs)}")
        elif kind == "hardlink":
            t = unhex(op[2])
            tcs = comps(t[len(b"root/"):])
            ops.append(f"MkHard {coq_comps(cs)} {coq_comps(tcs)}")
            byrel[rel] = byrel.get(t[len(b"root/"):], -1)
            continue
        else:
            continue
        if rel in byrel:
            continue            # the model ignores a creation over an existing name, as mkdir/open(O_EXCL) would fail
        byrel[rel] = nxt
        idmap[nxt] = hp
        nxt += 1
    return "[" + ";\n    ".join(ops) + "]", idmap


def tree_root_hex():
    return b"root".hex()


def ident_of(objs, hexpath):
    v = objs.get(hexpath)
    return None if v is None else (v[0], v[1])
