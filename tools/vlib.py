"""Common machinery for the checks: building, running the driver, evaluating
the Coq model on cases, evidence and verdict files."""
import concurrent.futures
import hashlib
import json
import os
import random
import re
import shutil
import subprocess
import sys
import time

VERIF = os.path.dirname(os.path.dirname(os.path.abspath(__file__)))
REPO = os.environ.get("VERIF_REPO", "/repo")
CACHE = os.path.join(VERIF, ".cache")
COQ = os.path.join(VERIF, "coq")
RUN = os.path.join(CACHE, "run")
TARGET = os.path.join(CACHE, "target")
DRIVER = os.path.join(TARGET, "debug", "pathrs-driver")
NCPU = os.cpu_count() or 4

ENV = dict(os.environ)
ENV.update({"CARGO_NET_OFFLINE": "true", "CARGO_TARGET_DIR": TARGET, "RUSTFLAGS": os.environ.get("RUSTFLAGS", "")})


def log(*a):
    print(*a, file=sys.stderr, flush=True)


def sh(cmd, timeout=1200, cwd=None, env=None, quiet=True):
    p = subprocess.run(cmd, shell=isinstance(cmd, str), cwd=cwd, env=env or ENV,
                       stdout=subprocess.PIPE, stderr=subprocess.STDOUT, timeout=timeout)
    out = p.stdout.decode("utf-8", "replace")
    return p.returncode, out


def hexb(b):
    if isinstance(b, str):
        b = b.encode("latin1")
    return b.hex()


def unhex(s):
    return bytes.fromhex(s)


# --------------------------------------------------------------------------
# building

def build_driver():
    """cargo build of the driver against /repo's working tree. Returns (ok, log)."""
    os.makedirs(CACHE, exist_ok=True)
    rc, out = sh(["cargo", "build", "--offline", "--quiet"], cwd=os.path.join(VERIF, "harness", "driver"), timeout=1500)
    if rc != 0:
        # show only errors
        errs = "\n".join(l for l in out.splitlines() if "error" in l or l.startswith("  -->"))
        return False, errs or out[-3000:]
    return True, ""


def t0_extract():
    rc, out = sh([sys.executable, os.path.join(VERIF, "tools", "extract_facts.py")], timeout=60)
    return rc == 0, out.strip()


def coq_make(targets, timeout=1500):
    """make the given .vo targets (paths relative to coq/). Returns (ok, output)."""
    if not os.path.exists(os.path.join(COQ, "Makefile")):
        sh("coq_makefile -f _CoqProject -o Makefile", cwd=COQ, timeout=60)
    rc, out = sh(["make", "-j%d" % NCPU] + list(targets), cwd=COQ, timeout=timeout)
    return rc == 0, out


FORBIDDEN = re.compile(r"\b(Admitted|admit|Axiom|Axioms|Parameter|Parameters|Conjecture|Conjectures|Hypothesis|Variable|Variables|Hypotheses)\b|Unset\s+Guard|bypass_check|Unset\s+Positivity|Unset\s+Universe|type-in-type|impredicative-set|Admit\s+Obligations")


def forbidden_scan():
    """grep the development for forbidden vernacular.  `Variable`/`Hypothesis`
    are allowed inside Sections only (checked structurally)."""
    bad = []
    for sub in ("theories", "proofs", "props", "gen"):
        d = os.path.join(COQ, sub)
        if not os.path.isdir(d):
            continue
        for fn in sorted(os.listdir(d)):
            if not fn.endswith(".v") or fn.startswith("cases_"):
                continue
            depth = 0
            text = open(os.path.join(d, fn)).read()
            text = strip_comments(text)
            for ln, line in enumerate(text.splitlines(), 1):
                if re.match(r"\s*Section\b", line):
                    depth += 1
                for m in FORBIDDEN.finditer(line):
                    w = m.group(0)
                    if w.split()[0] in ("Variable", "Variables", "Hypothesis", "Hypotheses") and depth > 0:
                        continue
                    bad.append(f"{sub}/{fn}:{ln}: {w}")
                if re.match(r"\s*End\b", line) and depth > 0:
                    depth -= 1
    for fn in ("_CoqProject",):
        text = open(os.path.join(COQ, fn)).read()
        for m in FORBIDDEN.finditer(text):
            bad.append(f"{fn}: {m.group(0)}")
    return bad


def strip_comments(text):
    out = []
    depth = 0
    i = 0
    while i < len(text):
        if text.startswith("(*", i):
            depth += 1
            i += 2
        elif text.startswith("*)", i) and depth > 0:
            depth -= 1
            i += 2
        else:
            if depth == 0:
                out.append(text[i])
            elif text[i] == "\n":
                out.append("\n")
            i += 1
    return "".join(out)


ALLOWED_AXIOMS = set()   # target: none

TRUSTED_BASE = [
    "Coq 8.16.1 kernel (coqc); vm_compute for case evaluation; no native_compute",
    "axioms: none (every property theorem prints 'Closed under the global context')",
    "hand-written Gallina model of /repo's syscall sequencing (coq/theories/*.v): modelled, not verified; tied to the code by T1 trace replay on every run",
    "tools/extract_facts.py (regex translator, T0) regenerating coq/gen/Consts.v from /repo",
    "seccomp user-notification supervisor in harness/driver (executes the worker's calls on its behalf)",
    "Python glue: tools/vlib.py, tools/model.py, tools/gen.py, tools/props/*.py",
]


def check_props(prop_id):
    """Recompile props/<id>.v, collect Print Assumptions output and pinned theorems.
    Returns dict(ok, theorems=[names], assumptions={name: text}, log)."""
    vfile = os.path.join(COQ, "props", f"{prop_id}.v")
    vo = vfile + "o"
    for ext in ("o", "ok", "os", ".glob"):
        try:
            os.remove(vfile[:-1] + ("v" + ext if ext != ".glob" else ""))
        except OSError:
            pass
    try:
        os.remove(vo)
    except OSError:
        pass
    ok, out = coq_make([f"props/{prop_id}.vo"])
    res = {"ok": ok, "log": out[-4000:], "theorems": [], "assumptions": {}, "bad_axioms": []}
    src = strip_comments(open(vfile).read())
    res["theorems"] = re.findall(r"^\s*Theorem\s+(\w+)", src, re.M)
    res["print_assumptions"] = re.findall(r"Print Assumptions\s+(\w+)", src)
    # every theorem must be followed by Print Assumptions
    missing = [t for t in res["theorems"] if t not in res["print_assumptions"]]
    if missing:
        res["ok"] = False
        res["log"] += "\nmissing Print Assumptions for: " + ", ".join(missing)
    # parse assumptions blocks from the output
    closed = len(re.findall(r"Closed under the global context", out))
    axioms = re.findall(r"^Axioms:\n((?:.+\n)+?)(?=\S|\Z)", out, re.M)
    res["closed"] = closed
    if ok:
        names = []
        for blk in re.findall(r"Axioms:\s*\n((?:[ \t]*\S.*\n?)+)", out):
            for l in blk.splitlines():
                m = re.match(r"^(\S+)\s*:", l)
                if m:
                    names.append(m.group(1))
        res["axioms"] = sorted(set(names))
        res["bad_axioms"] = [a for a in res["axioms"] if a not in ALLOWED_AXIOMS]
        if closed + len(re.findall(r"Axioms:", out)) < len(res["theorems"]):
            res["ok"] = False
            res["log"] += "\nfewer Print Assumptions answers than theorems"
        if res["bad_axioms"]:
            res["ok"] = False
    return res


# --------------------------------------------------------------------------
# driver

def run_driver(jobs, deny=(), uid=None, tag="job", timeout=300, extra_args=()):
    os.makedirs(RUN, exist_ok=True)
    jf = os.path.join(RUN, f"{tag}.{os.getpid()}.jobs.jsonl")
    of = os.path.join(RUN, f"{tag}.{os.getpid()}.out.jsonl")
    with open(jf, "w") as f:
        for j in jobs:
            f.write(json.dumps(j) + "\n")
    cmd = [DRIVER]
    if deny:
        cmd += ["--deny", ",".join(deny)]
    if uid is not None:
        cmd += ["--uid", str(uid)]
    cmd += list(extra_args)
    cmd += [jf, of]
    try:
        rc, out = sh(cmd, timeout=timeout)
    except subprocess.TimeoutExpired:
        rc, out = 124, "driver timed out after %d s" % timeout
    results = []
    if os.path.exists(of):
        with open(of) as f:
            for line in f:
                line = line.strip()
                if line:
                    try:
                        results.append(json.loads(line))
                    except json.JSONDecodeError:
                        pass
    for p in (jf, of):
        try:
            os.remove(p)
        except OSError:
            pass
    return rc, out, results


def run_driver_parallel(jobs, deny=(), uid=None, tag="job", shards=None, timeout=300, extra_args=()):
    """Split jobs over several driver processes. Returns (warmups, results-by-id)."""
    shards = shards or min(NCPU, max(1, len(jobs) // 8))
    chunks = [jobs[i::shards] for i in range(shards)]
    warm = []
    byid = {}
    errs = []
    with concurrent.futures.ThreadPoolExecutor(max_workers=shards) as ex:
        futs = [ex.submit(run_driver, c, deny, uid, f"{tag}{i}", timeout, extra_args) for i, c in enumerate(chunks) if c]
        for f in futs:
            rc, out, results = f.result()
            if rc != 0:
                errs.append(out[-2000:])
            w = None
            for r in results:
                if r.get("id") == "warmup":
                    w = r
                    warm.append(r)
                else:
                    r["_warm"] = w
                    byid[r["id"]] = r
    # a shard that ended abnormally loses the results of the job it was running and of every job after it.  Run those again, one
    # process each: a job whose process is killed by a signal AGAIN (SIGABRT from a panic inside an extern "C" function or a
    # double panic, SIGSEGV, SIGILL, ...) is reported by Check.finish as a violation with the job as the failing input; a job
    # that goes through now just gets its result.  Timeouts and ordinary exit codes are not judged here.
    if errs:
        missing = [j for j in jobs if j["id"] not in byid]
        for n_, j in enumerate(missing[:48]):
            rc, out, results = run_driver([j], deny, uid, f"{tag}re{n_}", timeout, extra_args)
            w = None
            got = False
            for r in results:
                if r.get("id") == "warmup":
                    w = r
                elif r.get("id") == j["id"]:
                    r["_warm"] = w
                    byid[j["id"]] = r
                    got = True
            if not got and rc < 0:
                DIED.append({"job": {k_: v_ for k_, v_ in j.items() if k_ != "tree"}, "tree": j.get("tree"), "signal": -rc,
                             "denied": list(deny), "uid": uid, "output": out[-600:]})
    return warm, byid, errs


DIED = []


# --------------------------------------------------------------------------
# Coq terms

def cb(b):
    """bytes -> Coq list of N"""
    if isinstance(b, str):
        b = unhex(b)
    return "[" + ";".join(str(x) for x in b) + "]"


def cz(n):
    return f"({n})%Z" if n < 0 else f"{n}%Z"


def resp_fd(ev):
    r = ev["ret"]
    return f"RFd {cz(r)}" if r >= 0 else f"RErr {-r}"


def resp_unit(ev):
    r = ev["ret"]
    return "RUnit" if r >= 0 else f"RErr {-r}"


def ev_to_coq(ev):
    """One recorded event -> '(call, resp)' Coq term, or None for noise."""
    c = ev["c"]
    fd = cz(ev.get("fd", -1))
    if c == "openat":
        return f"(Openat {fd} {cb(ev['path'])} {ev['flags']} {ev['mode']}, {resp_fd(ev)})"
    if c == "openat2":
        return f"(Openat2 {fd} {cb(ev['path'])} {ev['flags']} {ev['mode']} {ev['resolve']}, {resp_fd(ev)})"
    if c == "readlinkat":
        r = f"RBytes {cb(ev['out'])}" if ev["ret"] >= 0 else f"RErr {-ev['ret']}"
        return f"(Readlinkat {fd} {cb(ev['path'])}, {r})"
    if c == "newfstatat":
        if ev["ret"] >= 0:
            st = ev["st"]
            r = f"RStat {st['mode']} {st['uid']} {st['ino']} {st['dev']}"
        else:
            r = f"RErr {-ev['ret']}"
        return f"(Fstatat {fd} {cb(ev['path'])} {ev['atflags']}, {r})"
    if c == "statx":
        if ev["ret"] >= 0:
            r = f"RStatx {ev['stx']['mask']} {ev['stx']['mnt_id']}"
        else:
            r = f"RErr {-ev['ret']}"
        return f"(Statx {fd} {cb(ev['path'])} {ev['atflags']} {ev['mask']}, {r})"
    if c == "fstatfs":
        r = f"RFsType {ev['f_type']}" if ev["ret"] >= 0 else f"RErr {-ev['ret']}"
        return f"(Fstatfs {fd}, {r})"
    if c in ("faccessat", "faccessat2"):
        return f"(Faccessat {fd} {cb(ev['path'])} {ev['mode']} {ev['atflags']}, {resp_unit(ev)})"
    if c == "mkdirat":
        return f"(Mkdirat {fd} {cb(ev['path'])} {ev['mode']}, {resp_unit(ev)})"
    if c == "mknodat":
        return f"(Mknodat {fd} {cb(ev['path'])} {ev['mode']} {ev['dev']}, {resp_unit(ev)})"
    if c == "unlinkat":
        return f"(Unlinkat {fd} {cb(ev['path'])} {ev['atflags']}, {resp_unit(ev)})"
    if c == "linkat":
        return f"(Linkat {fd} {cb(ev['path'])} {cz(ev['fd2'])} {cb(ev['path2'])} {ev['atflags']}, {resp_unit(ev)})"
    if c == "symlinkat":
        return f"(Symlinkat {cb(ev['target'])} {fd} {cb(ev['path'])}, {resp_unit(ev)})"
    if c == "renameat":
        return f"(Renameat {fd} {cb(ev['path'])} {cz(ev['fd2'])} {cb(ev['path2'])}, {resp_unit(ev)})"
    if c == "renameat2":
        return f"(Renameat2 {fd} {cb(ev['path'])} {cz(ev['fd2'])} {cb(ev['path2'])} {ev['flags']}, {resp_unit(ev)})"
    if c == "fcntl":
        cmd = ev["cmd"]
        if cmd == 1:       # F_GETFD: debug-std assertion before close
            return None
        if cmd == 1030:    # F_DUPFD_CLOEXEC
            return f"(DupCloexec {fd}, {resp_fd(ev)})"
        if cmd == 3:       # F_GETFL
            r = f"RNum {cz(ev['ret'])}" if ev["ret"] >= 0 else f"RErr {-ev['ret']}"
            return f"(FcntlGetfl {fd}, {r})"
        return f"(Rand, RNum {cz(cmd)})"   # unknown fcntl: will mismatch
    if c == "getdents64":
        if ev["ret"] >= 0:
            names = ";".join(cb(n[0]) for n in ev.get("dents", []))
            r = f"RDents [{names}]"
        else:
            r = f"RErr {-ev['ret']}"
        return f"(Getdents {fd}, {r})"
    if c == "close":
        return f"(Close {fd}, {resp_unit(ev)})"
    if c == "read":
        r = f"RBytes {cb(ev.get('out', ''))}" if ev["ret"] >= 0 else f"RErr {-ev['ret']}"
        return f"(Read {fd}, {r})"
    if c == "fsopen":
        return f"(Fsopen {cb(ev['path'])} {ev['flags']}, {resp_fd(ev)})"
    if c == "fsconfig":
        if ev["cmd"] == 1:
            return f"(FsconfigSetString {fd} {cb(ev['key'])} {cb(ev['value'])}, {resp_unit(ev)})"
        if ev["cmd"] == 6:
            return f"(FsconfigCreate {fd}, {resp_unit(ev)})"
        return f"(Rand, RNum {cz(ev['cmd'])})"
    if c == "fsmount":
        return f"(Fsmount {fd} {ev['flags']} {ev['attrs']}, {resp_fd(ev)})"
    if c == "open_tree":
        return f"(OpenTree {fd} {cb(ev['path'])} {ev['flags']}, {resp_fd(ev)})"
    if c == "readlink":
        r = f"RBytes {cb(ev.get('out', ''))}" if ev["ret"] >= 0 else f"RErr {-ev['ret']}"
        return f"(Readlink {cb(ev['path'])}, {r})"
    if c == "geteuid":
        return f"(Geteuid, RNum {cz(ev['ret'])})"
    if c == "gettid":
        return f"(Gettid, RNum {cz(ev['ret'])})"
    # anything else is a call the model never makes: encode as an impossible one
    return f"(Rand, RNum {cz(-1)})"


def trace_to_coq(trace):
    items = [t for t in (ev_to_coq(e) for e in trace) if t is not None]
    return "[" + ";\n   ".join(items) + "]"


def warm_config(warm):
    """Read the global procfs handle configuration off the warm-up trace."""
    cfg = {"openat2": True, "procfd": None, "mnt": None, "subset": False, "kind": None}
    tr = warm["trace"]
    for i, ev in enumerate(tr):
        if ev["c"] == "openat2" and ev.get("fd") == -100 and unhex(ev["path"]) == b".":
            cfg["openat2"] = ev["ret"] >= 0
            if ev["ret"] >= 0:
                pass
        if cfg["procfd"] is None:
            if ev["c"] == "fsmount" and ev["ret"] >= 0:
                cfg["procfd"], cfg["kind"] = ev["ret"], "fsopen"
            elif ev["c"] == "open_tree" and ev["ret"] >= 0:
                cfg["procfd"], cfg["kind"] = ev["ret"], "open_tree"
            elif ev["c"] == "openat" and ev.get("fd") == -100 and unhex(ev["path"]) == b"/proc" and ev["ret"] >= 0:
                cfg["procfd"], cfg["kind"] = ev["ret"], "unsafe_open"
            if cfg["procfd"] is not None:
                # the statx of try_from_fd gives the mount id, faccessat the subset flag
                for ev2 in tr[i + 1:]:
                    if ev2["c"] == "statx" and ev2.get("fd") == cfg["procfd"] and cfg["mnt"] is None:
                        if ev2["ret"] >= 0 and (ev2["stx"]["mask"] & 0x5000):
                            cfg["mnt"] = ev2["stx"]["mnt_id"]
                        else:
                            cfg["mnt"] = "none"
                    if ev2["c"] in ("faccessat", "faccessat2") and ev2.get("fd") == cfg["procfd"]:
                        if ev2["ret"] < 0:
                            cfg["subset"] = True
                        if unhex(ev2["path"]) == b"1" or ev2["ret"] < 0:
                            break
    return cfg


def coq_phandle(cfg):
    mnt = "None" if cfg["mnt"] in (None, "none") else f"(Some {cfg['mnt']})"
    return ("{| ph_fd := %s; ph_mnt := %s; ph_subset := %s; ph_openat2 := %s |}"
            % (cz(cfg["procfd"]), mnt, "true" if cfg["subset"] else "false",
               "true" if cfg["openat2"] else "false"))


# --------------------------------------------------------------------------
# evaluating Coq case files

def _run_coq_shard(args):
    idx, header, cases, tag = args
    d = os.path.join(CACHE, "cases")
    os.makedirs(d, exist_ok=True)
    base = f"cases_{tag}_{os.getpid()}_{idx}"
    vf = os.path.join(d, base + ".v")
    with open(vf, "w") as f:
        f.write(header + "\n")
        f.write("Set Printing Width 10000000.\nSet Printing Depth 10000000.\nOpen Scope N_scope.\n")
        for cid, term in cases:
            f.write(f"Eval vm_compute in ({cid}%Z, ({term})).\n")
    cmd = ["coqc", "-noglob", "-Q", os.path.join(COQ, "theories"), "PV", "-Q", os.path.join(COQ, "gen"), "PV",
           "-Q", os.path.join(COQ, "proofs"), "PV", "-Q", d, "Cases", vf]
    try:
        p = subprocess.run(cmd, stdout=subprocess.PIPE, stderr=subprocess.STDOUT, timeout=1200)
        out = p.stdout.decode("utf-8", "replace")
        rc = p.returncode
    except subprocess.TimeoutExpired:
        out, rc = "timeout", 124
    res = {}
    clean = out.replace("%Z", "").replace("(", " ").replace(")", " ")
    for m in re.finditer(r"=\s*(-?\d+)\s*,\s*\[([^\]]*)\]", clean):
        cid = int(m.group(1))
        body = m.group(2).strip()
        res[cid] = [int(x) for x in body.split(";")] if body else []
    for ext in (".v", ".vo", ".vok", ".vos", ".glob"):
        try:
            os.remove(os.path.join(d, base + ext))
        except OSError:
            pass
    return rc, out if rc != 0 else "", res


def coq_eval(cases, header="From PV Require Import Replay.", tag="c", shards=None):
    """cases: list of (int id, coq term of type list Z). Returns (dict id -> list[int], errors)."""
    if not cases:
        return {}, []
    shards = shards or min(NCPU, max(1, len(cases) // 4))
    chunks = [cases[i::shards] for i in range(shards)]
    out = {}
    errs = []
    with concurrent.futures.ThreadPoolExecutor(max_workers=shards) as ex:
        for rc, err, res in ex.map(_run_coq_shard, [(i, header, c, tag) for i, c in enumerate(chunks) if c]):
            out.update(res)
            if rc != 0:
                errs.append(err[-3000:])
    return out, errs


# --------------------------------------------------------------------------
# verdicts and evidence

def load_known():
    p = os.path.join(VERIF, "known_findings.json")
    if os.path.exists(p):
        return json.load(open(p))
    return {"findings": [], "fixed": []}


def write_replay(prop, n, payload):
    d = os.path.join(VERIF, "evidence", "replay")
    os.makedirs(d, exist_ok=True)
    p = os.path.join(d, f"{prop}-{n}.json")
    with open(p, "w") as f:
        json.dump(payload, f, indent=1, default=str)
    return p


def write_evidence(prop, tier, seed, coverage, wall_s, violations, assumptions, level="proof"):
    d = os.path.join(VERIF, "evidence")
    os.makedirs(d, exist_ok=True)
    ev = {
        "property_id": prop,
        "tier": tier,
        "seed": int(seed),
        "level": level,
        "coverage": coverage,
        "assumptions": assumptions,
        "wall_s": round(wall_s, 2),
        "violations": int(violations),
    }
    with open(os.path.join(d, f"{prop}.json"), "w") as f:
        json.dump(ev, f, indent=1, default=str)


import fcntl


class BuildLock:
    def __enter__(self):
        os.makedirs(CACHE, exist_ok=True)
        self.f = open(os.path.join(CACHE, "lock"), "w")
        fcntl.flock(self.f, fcntl.LOCK_EX)
        return self

    def __exit__(self, *a):
        fcntl.flock(self.f, fcntl.LOCK_UN)
        self.f.close()


DEFAULT_COQ_TARGETS = ("theories/Replay.vo", "theories/Discipline.vo", "theories/FdBalance.vo")

# T0 facts that matter to a few properties only (label fragment -> properties); every other
# fact is part of the syscall-level model and matters to all properties that use the model
T0_SCOPE = [("system-call inventory", {"C05"}), ("error id range", {"C16"}), ("ErrorKind::errno", {"C16", "C17"}), ("errno arm", {"C16", "C17"}),
            ("OsError arm", {"C16", "C17"}), ("mknod", {"C14", "C17"}), ("PATHRS_PROC", {"C17", "C18"}),
            ("mkdir_all mode masks", {"C12", "C17"})]
MODEL_FREE = {"C16", "C18"}


def t0_relevant(msg, prop):
    for frag, props in T0_SCOPE:
        if frag in msg:
            return prop in props
    return prop not in MODEL_FREE


def prepare(ck, need_driver=True, coq_targets=None):
    """T0 + Coq build + props/<id>.v + driver build.  Failures are recorded on
    the check (proof_broken / build_broken), not raised."""
    with BuildLock():
        t = time.time()
        ok, msg = t0_extract()
        ck.notes.append(msg)
        if not ok and t0_relevant(msg, ck.prop):
            ck.proof_broken.append("T0 extraction: " + msg)
        elif not ok:
            ck.notes.append("T0 fact not relevant to %s; previous Consts.v kept" % ck.prop)
        if ck.prop == "C18":
            rc, out = sh([sys.executable, os.path.join(VERIF, "tools", "abi_extract.py")], timeout=1500)
            if rc != 0:
                ck.proof_broken.append("ABI extraction: " + out.strip()[-600:])
        bad = forbidden_scan()
        if bad:
            ck.proof_broken.append("forbidden vernacular: " + ", ".join(bad[:5]))
        # only what this property needs is (re)built: a broken proof of another property must not alarm this one
        okc, out = coq_make(list(coq_targets or DEFAULT_COQ_TARGETS))
        if not okc:
            ck.proof_broken.append("coq build: " + tail_err(out))
        res = check_props(ck.prop) if os.path.exists(os.path.join(COQ, "props", ck.prop + ".v")) else None
        if res is None:
            ck.proof_broken.append("no props file")
        else:
            ck.theorems = res["theorems"]
            ck.discharged = len(res["theorems"]) if res["ok"] else 0
            if not res["ok"]:
                ck.proof_broken.append("props/%s.v: %s" % (ck.prop, tail_err(res["log"])))
            ck.axioms = res.get("axioms", [])
            # thorough tier: the compiled theorems and everything they depend on are re-checked by the independent checker
            if ck.tier == "thorough" and res["ok"]:
                rcq, outq = sh(["coqchk", "-o", "-silent", "-Q", "theories", "PV", "-Q", "proofs", "PV", "-Q", "gen", "PV", "-Q", "props", "PV",
                                "PV." + ck.prop], cwd=COQ, timeout=1800)
                ck.coqchk = "axioms: <none>" if "* Axioms: <none>" in outq else "FAILED"
                if rcq != 0 or "* Axioms: <none>" not in outq or "type-in-type: <none>" not in outq \
                        or "unsafe (co)fixpoints: <none>" not in outq or "positivity is assumed: <none>" not in outq:
                    ck.proof_broken.append("coqchk: " + outq.strip()[-600:])
        ck.coq_s = time.time() - t
        if need_driver:
            t = time.time()
            okd, lg = build_driver()
            ck.build_s = time.time() - t
            if not okd:
                ck.build_broken = lg


def tail_err(out):
    lines = out.splitlines()
    for i, l in enumerate(lines):
        if l.startswith("File ") or "Error" in l:
            return " | ".join(lines[i:i + 6])[:800]
    return out[-400:]


class Check:
    """Book-keeping shared by all property checks."""

    def __init__(self, prop, tier, seed):
        self.proof_broken = []
        self.build_broken = None
        self.theorems = []
        self.discharged = 0
        self.axioms = []
        self.coq_s = 0.0
        self.build_s = 0.0
        self.prop = prop
        self.tier = tier
        self.seed = seed
        self.t0 = time.time()
        self.violations = []       # (what, payload, found_input)
        self.known_hits = []
        self.notes = []
        self.rng = random.Random(seed)
        self.known = [f for f in load_known().get("findings", []) if f["property"] == prop or prop in f.get("also_seen_in", [])]
        # stale replay files of this property are removed: the run rewrites what it reports
        rd = os.path.join(VERIF, "evidence", "replay")
        if os.path.isdir(rd):
            for fn in os.listdir(rd):
                if fn.startswith(prop + "-"):
                    try:
                        os.remove(os.path.join(rd, fn))
                    except OSError:
                        pass

    def violation(self, what, payload, found_input=True):
        self.violations.append((what, payload, found_input))

    def known_finding(self, fid, what):
        if fid not in [k[0] for k in self.known_hits]:
            self.known_hits.append((fid, what))

    def finish(self, coverage, assumptions, level="proof"):
        wall = time.time() - self.t0
        for fid, what in self.known_hits:
            print(f"KNOWN-FINDING: property={self.prop} {fid}: {what}")
        for d_ in DIED[:3]:
            self.violations.append(("%s: the process was killed by signal %d while the library ran this job (twice: in its batch and alone) -- "
                                    "it aborts instead of returning an error" % (self.prop, d_["signal"]), d_, True))
        found_inputs = [v for v in self.violations if v[2]]
        if self.build_broken and not found_inputs:
            self.violations.append(("harness does not build against /repo", {"log": self.build_broken}, False))
        if self.proof_broken and not found_inputs:
            # the proof obligations / T0 tie no longer check and the search found no failing input
            self.violations.append(("proof obligation or T0 tie broken: " + "; ".join(self.proof_broken)[:1500],
                                    {"theorems": self.theorems, "broken": self.proof_broken}, False))
        coverage = dict(coverage)
        disch = self.discharged if not self.proof_broken else 0
        if disch > 0:
            coverage.setdefault("obligations", max(1, len(self.theorems)))
            coverage.setdefault("discharged", disch)
        else:
            # nothing discharged: the proof-level keys would be misleading; say so
            coverage.setdefault("obligations_total", len(self.theorems))
            coverage.setdefault("discharged_count", 0)
            coverage.setdefault("evaluations", 1)
            coverage.setdefault("distinct_nontrivial", 0)
        coverage.setdefault("theorems", self.theorems)
        coverage.setdefault("axioms_reported", self.axioms)
        coverage.setdefault("checker_cmd", "cd /verif/coq && make -j16 && coqc props/%s.v (Print Assumptions parsed; forbidden-vernacular scan)%s"
                            % (self.prop, "; coqchk -o -silent PV.%s: %s" % (self.prop, getattr(self, "coqchk", "not run")) if self.tier == "thorough" else ""))
        coverage.setdefault("trusted_base", TRUSTED_BASE)
        coverage.setdefault("proof_broken", self.proof_broken)
        coverage.setdefault("timing", {"coq_s": round(self.coq_s, 1), "cargo_s": round(self.build_s, 1)})
        n = 0
        # one replay file per distinct kind of violation (first occurrence), at most 8
        seen_kinds = set()
        distinct = []
        for v in self.violations:
            kind = v[0][:70]
            if kind not in seen_kinds:
                seen_kinds.add(kind)
                distinct.append(v)
        for what, payload, found in distinct[:8]:
            n += 1
            path = write_replay(self.prop, n, {"property": self.prop, "what": what, "seed": self.seed,
                                               "tier": self.tier, "found_failing_input": found, "detail": payload})
            tail = "" if found else " no-failing-input-found"
            print(f"VIOLATION property={self.prop} replay={path}{tail}")
            # a one-line digest on stderr so that logs show what was found without the replay file
            try:
                sys.stderr.write("  -> %s :: %s\n" % (what[:300], json.dumps(payload, default=str)[:1200]))
            except Exception:
                pass
        coverage = dict(coverage)
        coverage.setdefault("known_findings_hit", [k[0] for k in self.known_hits])
        write_evidence(self.prop, self.tier, self.seed, coverage, wall, len(self.violations), assumptions, level)
        return 1 if self.violations else 0
