#!/usr/bin/env python3
"""C18 translators: regenerate coq/gen/Abi.v from /repo on every run.

Six fact lists over a small type algebra of x86-64 width classes
(I32 U32 I64 U64 Ptr Void):
  hdr_fns   declarations parsed from include/pathrs.h
  rs_fns    #[no_mangle] extern "C" items of src/capi/*.rs
  syms      pathrs_* text symbols of the freshly built libpathrs.a (nm)
  go_calls  C.pathrs_* call sites of go-pathrs/*.go (name, argument classes where a cast shows them)
  py_calls  libpathrs_so.pathrs_* call sites of the Python binding (name, arity) + its extra cdef typedefs
  layout    sizeof/offsetof/enum values printed by a C translation unit compiled against the header,
            and the same numbers derived from the repr(C) Rust definitions.
Exit status 2 + 'ABI-BROKEN: ...' when something cannot be parsed."""
import os
import re
import subprocess
import sys
import tempfile

REPO = os.environ.get("VERIF_REPO", "/repo")
VERIF = os.path.dirname(os.path.dirname(os.path.abspath(__file__)))
OUT = os.path.join(VERIF, "coq", "gen", "Abi.v")
TARGET = os.path.join(VERIF, ".cache", "target-capi")


class Broken(Exception):
    pass


def rd(rel):
    return open(os.path.join(REPO, rel), encoding="utf-8").read()


# LP64 (x86_64 / aarch64 Linux): the widths and signedness of the C types a header of this library could plausibly use; a type
# that is not listed still breaks the extraction (and is reported as such), a listed one gives a concrete mismatch
C_TYPES = {"int": "I32", "unsigned int": "U32", "unsigned": "U32", "uint32_t": "U32", "int32_t": "I32", "uint64_t": "U64", "int64_t": "I64",
           "size_t": "U64", "dev_t": "U64", "pathrs_proc_base_t": "U64", "void": "Void", "unsigned long": "U64", "long": "I64",
           "ssize_t": "I64", "off_t": "I64", "long long": "I64", "unsigned long long": "U64", "intptr_t": "I64", "uintptr_t": "U64",
           "ptrdiff_t": "I64", "mode_t": "U32", "uid_t": "U32", "gid_t": "U32", "pid_t": "I32", "signed int": "I32", "long int": "I64",
           "unsigned long int": "U64", "short": "I16", "unsigned short": "U16", "int16_t": "I16", "uint16_t": "U16",
           "char": "I8", "signed char": "I8", "unsigned char": "U8", "int8_t": "I8", "uint8_t": "U8", "bool": "U8", "_Bool": "U8"}


def c_type(t):
    t = re.sub(r"\s+", " ", t.strip())
    if "*" in t:
        return "Ptr"
    t = t.replace("const ", "").strip()
    if t in C_TYPES:
        return C_TYPES[t]
    raise Broken(f"header: unknown C type {t!r}")


RS_TYPES = {"c_int": "I32", "RawFd": "I32", "CReturn": "I32", "c_uint": "U32", "u32": "U32", "i32": "I32", "u64": "U64", "i64": "I64",
            "size_t": "U64", "usize": "U64", "dev_t": "U64", "CBorrowedFd<'_>": "I32", "CProcfsBase": "U64", "()": "Void",
            "isize": "I64", "ssize_t": "I64", "c_long": "I64", "c_ulong": "U64", "c_longlong": "I64", "c_ulonglong": "U64", "off_t": "I64",
            "mode_t": "U32", "uid_t": "U32", "gid_t": "U32", "pid_t": "I32", "i16": "I16", "u16": "U16", "c_short": "I16", "c_ushort": "U16",
            "i8": "I8", "u8": "U8", "c_char": "I8", "c_schar": "I8", "c_uchar": "U8", "bool": "U8"}


def rs_type(t):
    t = t.strip()
    if t.startswith("*") or t.startswith("Option<&") or t.startswith("&"):
        return "Ptr"
    if t in RS_TYPES:
        return RS_TYPES[t]
    raise Broken(f"rust: unknown FFI type {t!r}")


def parse_header():
    h = rd("include/pathrs.h")
    h = re.sub(r"/\*.*?\*/", "", h, flags=re.S)
    fns = []
    for m in re.finditer(r"^([A-Za-z_][\w \*]*?)\b(pathrs_\w+)\s*\(([^;{]*)\)\s*;", h, re.M | re.S):
        ret, name, args = m.group(1), m.group(2), m.group(3)
        al = []
        if args.strip() and args.strip() != "void":
            for a in args.split(","):
                a = a.strip()
                mm = re.match(r"(.*?)(\w+)$", a)     # type + parameter name
                al.append(c_type(mm.group(1)))
        fns.append((name, c_type(ret), al))
    enums = {n: int(v) for n, v in re.findall(r"(PATHRS_PROC_\w+)\s*=\s*(\d+)", h)}
    m = re.search(r"typedef\s+(\w+)\s+pathrs_proc_base_t\s*;", h)
    if not m:
        raise Broken("header: pathrs_proc_base_t typedef")
    base_t = c_type(m.group(1))
    m = re.search(r"typedef struct(?:\s+__CBINDGEN_ALIGNED\((\d+)\))?\s*\{(.*?)\}\s*pathrs_error_t\s*;", h, re.S)
    if not m:
        raise Broken("header: pathrs_error_t")
    fields = []
    for f in m.group(2).split(";"):
        f = f.strip()
        if f:
            mm = re.match(r"(.*?)(\w+)$", f)
            fields.append((mm.group(2), c_type(mm.group(1))))
    return fns, enums, base_t, fields, int(m.group(1) or 1)


def parse_rust():
    fns = []
    for rel in ("src/capi/core.rs", "src/capi/procfs.rs", "src/capi/error.rs"):
        s = rd(rel)
        for m in re.finditer(r"#\[no_mangle\]\s*pub (?:unsafe )?extern \"C\" fn (\w+)\s*\((.*?)\)\s*(?:->\s*([^{]+?))?\s*\{", s, re.S):
            name, args, ret = m.group(1), m.group(2), m.group(3)
            al = []
            for a in re.split(r",\s*(?![^<>]*>)", args.strip()):
                a = a.strip()
                if not a:
                    continue
                al.append(rs_type(a.split(":", 1)[1]))
            fns.append((name, rs_type(ret) if ret else "Void", al))
    s = rd("src/capi/procfs.rs")
    m = re.search(r"#\[repr\((\w+)\)\]\s*(?:#\[[^\]]*\]\s*)*pub enum CProcfsBase \{(.*?)\n\}", s, re.S)
    if not m:
        raise Broken("rust: CProcfsBase")
    enums = {n: int(v.replace("_", ""), 16) for n, v in re.findall(r"(PATHRS_PROC_\w+)\s*=\s*(0x[0-9A-Fa-f_]+)", m.group(2))}
    base_t = rs_type(m.group(1))
    s = rd("src/capi/error.rs")
    m = re.search(r"#\[repr\(align\((\d+)\), C\)\]\s*pub struct CError \{(.*?)\n\}", s, re.S)
    if not m:
        raise Broken("rust: CError")
    body = re.sub(r"//[^\n]*", "", m.group(2))
    fields = [(n, rs_type(t)) for n, t in re.findall(r"pub (\w+):\s*([^,\n]+),", body)]
    return fns, enums, base_t, fields, int(m.group(1))


def build_syms():
    env = dict(os.environ, CARGO_NET_OFFLINE="true", CARGO_TARGET_DIR=TARGET)
    p = subprocess.run(["cargo", "rustc", "--offline", "--quiet", "--features", "capi", "--crate-type=staticlib"],
                       cwd=REPO, env=env, stdout=subprocess.PIPE, stderr=subprocess.STDOUT, timeout=1500)
    if p.returncode != 0:
        raise Broken("cargo rustc --features capi --crate-type=staticlib failed: " + p.stdout.decode()[-400:])
    lib = os.path.join(TARGET, "debug", "libpathrs.a")
    out = subprocess.run(["nm", "--defined-only", lib], stdout=subprocess.PIPE, stderr=subprocess.DEVNULL).stdout.decode()
    syms = sorted(set(l.split()[-1] for l in out.splitlines() if " T pathrs_" in l))
    return syms, lib


def c_layout(lib):
    src = r'''
#include <stdio.h>
#include <stddef.h>
#include <sys/types.h>
#include <pathrs.h>
int main(void) {
  printf("sizeof_error %zu\n", sizeof(pathrs_error_t));
  printf("alignof_error %zu\n", _Alignof(pathrs_error_t));
  printf("off_saved_errno %zu\n", offsetof(pathrs_error_t, saved_errno));
  printf("off_description %zu\n", offsetof(pathrs_error_t, description));
  printf("sizeof_base %zu\n", sizeof(pathrs_proc_base_t));
  printf("sizeof_dev_t %zu\n", sizeof(dev_t));
  printf("sizeof_size_t %zu\n", sizeof(size_t));
  printf("sizeof_int %zu\n", sizeof(int));
  printf("PATHRS_PROC_ROOT %llu\n", (unsigned long long)PATHRS_PROC_ROOT);
  printf("PATHRS_PROC_SELF %llu\n", (unsigned long long)PATHRS_PROC_SELF);
  printf("PATHRS_PROC_THREAD_SELF %llu\n", (unsigned long long)PATHRS_PROC_THREAD_SELF);
  /* link against the real library: the symbols must resolve and behave */
  pathrs_error_t *e = pathrs_errorinfo(pathrs_inroot_resolve(-1, "x"));
  printf("link_ok %d\n", e != NULL && e->saved_errno == 22);
  pathrs_errorinfo_free(e);
  return 0;
}
'''
    with tempfile.TemporaryDirectory(dir=os.path.join(VERIF, ".cache")) as d:
        c = os.path.join(d, "t.c")
        open(c, "w").write(src)
        exe = os.path.join(d, "t")
        p = subprocess.run(["gcc", "-std=c11", "-I", os.path.join(REPO, "include"), c, lib, "-lpthread", "-ldl", "-lm", "-o", exe],
                           stdout=subprocess.PIPE, stderr=subprocess.STDOUT)
        if p.returncode != 0:
            raise Broken("C translation unit does not compile/link against the header+library: " + p.stdout.decode()[-600:])
        out = subprocess.run([exe], stdout=subprocess.PIPE).stdout.decode()
    return {k: int(v) for k, v in (l.split() for l in out.splitlines())}


WIDTH = {"I32": 4, "U32": 4, "I64": 8, "U64": 8, "Ptr": 8}


def rust_layout(fields, align):
    off, offs = 0, {}
    for n, t in fields:
        w = WIDTH[t]
        off = (off + w - 1) // w * w
        offs[n] = off
        off += w
    size = (off + align - 1) // align * align
    return size, offs


GO_CAST = {"C.int": "I32", "C.uint": "U32", "C.ulong": "U64", "C.dev_t": "U64", "C.size_t": "U64", "C.pathrs_proc_base_t": "U64",
           "C.cast_ptr": "Ptr", "C.CString": "Ptr"}


def parse_go():
    calls = []
    for fn in sorted(os.listdir(os.path.join(REPO, "go-pathrs"))):
        if not fn.endswith(".go"):
            continue
        s = rd("go-pathrs/" + fn)
        for m in re.finditer(r"C\.(pathrs_\w+)\(", s):
            name = m.group(1)
            if name.endswith("_t"):
                continue
            # balanced argument list
            i, depth, start = m.end(), 1, m.end()
            while depth and i < len(s):
                depth += {"(": 1, ")": -1}.get(s[i], 0)
                i += 1
            args = s[start:i - 1]
            parts, d, cur = [], 0, ""
            for ch in args:
                if ch == "," and d == 0:
                    parts.append(cur)
                    cur = ""
                else:
                    d += {"(": 1, ")": -1}.get(ch, 0)
                    cur += ch
            if cur.strip():
                parts.append(cur)
            classes = []
            for a in parts:
                a = a.strip()
                mm = re.match(r"(C\.\w+)\(", a)
                if mm and mm.group(1) in GO_CAST:
                    classes.append(GO_CAST[mm.group(1)])
                elif a in ("cBase",):
                    classes.append("U64")
                elif a.startswith("c") or a in ("errID",):
                    classes.append("Any")       # cPath, cErr, ...: typed elsewhere; arity still counts
                else:
                    classes.append("Any")
            calls.append((name, classes))
    return calls


def parse_python():
    s = rd("contrib/bindings/python/pathrs/_pathrs.py")
    calls = []
    for m in re.finditer(r"libpathrs_so\.(pathrs_\w+)\(", s):
        i, depth, start = m.end(), 1, m.end()
        while depth and i < len(s):
            depth += {"(": 1, ")": -1}.get(s[i], 0)
            i += 1
        args = s[start:i - 1]
        n, d = (1 if args.strip() else 0), 0
        for ch in args:
            if ch == "," and d == 0:
                n += 1
            d += {"(": 1, "[": 1, ")": -1, "]": -1}.get(ch, 0)
        if args.strip().endswith(","):
            n -= 1
        calls.append((m.group(1), n))
    b = rd("contrib/bindings/python/pathrs/pathrs_build.py")
    typedefs = [(n, c_type(t)) for t, n in re.findall(r'cdef\("typedef\s+(\w+)\s+(\w+);"\)', b)]
    return calls, typedefs


def coq_str(s):
    return '"' + s + '"'


def coq_fn(f):
    return "(%s, %s, [%s])" % (coq_str(f[0]), f[1], "; ".join(f[2]))


def main():
    try:
        hfns, henums, hbase, hfields, halign = parse_header()
        rfns, renums, rbase, rfields, ralign = parse_rust()
        syms, lib = build_syms()
        cl = c_layout(lib)
        rsize, roffs = rust_layout(rfields, ralign)
        go = parse_go()
        py, pytd = parse_python()
    except Broken as e:
        print("ABI-BROKEN:", e)
        sys.exit(2)
    L = ["(* GENERATED by tools/abi_extract.py from /repo -- do not edit. *)",
         "From Coq Require Import String List ZArith. Import ListNotations. Open Scope string_scope.",
         "Inductive cty := I32 | U32 | I64 | U64 | Ptr | Void | Any | I16 | U16 | I8 | U8.",
         "Definition decl := (string * cty * list cty)%type.",
         "Definition hdr_fns : list decl := [%s]." % ";\n  ".join(coq_fn(f) for f in hfns),
         "Definition rs_fns : list decl := [%s]." % ";\n  ".join(coq_fn(f) for f in rfns),
         "Definition lib_syms : list string := [%s]." % "; ".join(coq_str(s) for s in syms),
         "Definition go_calls : list (string * list cty) := [%s]." % ";\n  ".join("(%s, [%s])" % (coq_str(n), "; ".join(c)) for n, c in go),
         "Definition py_calls : list (string * nat) := [%s]." % "; ".join("(%s, %d%%nat)" % (coq_str(n), k) for n, k in py),
         "Definition py_typedefs : list (string * cty) := [%s]." % "; ".join("(%s, %s)" % (coq_str(n), t) for n, t in pytd),
         "Definition hdr_typedefs : list (string * cty) := [(\"dev_t\", U64); (\"size_t\", U64); (\"pathrs_proc_base_t\", %s)]." % hbase,
         "Definition hdr_enums : list (string * Z) := [%s]." % "; ".join("(%s, %d%%Z)" % (coq_str(n), v) for n, v in sorted(henums.items())),
         "Definition rs_enums : list (string * Z) := [%s]." % "; ".join("(%s, %d%%Z)" % (coq_str(n), v) for n, v in sorted(renums.items())),
         "Definition c_enums : list (string * Z) := [%s]." % "; ".join("(%s, %d%%Z)" % (coq_str(n), cl[n]) for n in sorted(henums)),
         "Definition rs_base_t : cty := %s. Definition hdr_base_t : cty := %s." % (rbase, hbase),
         "(* (sizeof, alignof, offsetof saved_errno, offsetof description) *)",
         "Definition c_error_layout : list Z := [%d; %d; %d; %d]%%Z." % (cl["sizeof_error"], cl["alignof_error"], cl["off_saved_errno"], cl["off_description"]),
         "Definition rs_error_layout : list Z := [%d; %d; %d; %d]%%Z." % (rsize, ralign, roffs.get("saved_errno", -1), roffs.get("description", -1)),
         "Definition hdr_error_fields : list (string * cty) := [%s]." % "; ".join("(%s, %s)" % (coq_str(n), t) for n, t in hfields),
         "Definition rs_error_fields : list (string * cty) := [%s]." % "; ".join("(%s, %s)" % (coq_str(n), t) for n, t in rfields),
         "(* sizeof of the C types the width classes stand for, measured by the compiler: int, dev_t, size_t, base_t *)",
         "Definition c_sizes : list Z := [%d; %d; %d; %d]%%Z." % (cl["sizeof_int"], cl["sizeof_dev_t"], cl["sizeof_size_t"], cl["sizeof_base"]),
         "Definition c_link_ok : Z := %d%%Z." % cl["link_ok"],
         ""]
    text = "\n".join(L)
    old = open(OUT).read() if os.path.exists(OUT) else None
    if old != text:
        open(OUT, "w").write(text)
        print("ABI: Abi.v regenerated (changed)")
    else:
        print("ABI: Abi.v unchanged")


if __name__ == "__main__":
    main()
