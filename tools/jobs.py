"""Job builders shared by the property checks."""
import gen
from gen import H, O
from vlib import unhex

CREATE_TYPES = ["file", "dir", "symlink", "hardlink", "fifo", "chr", "blk"]


def lookup_jobs(rng, ntrees, paths_per_tree, idbase=0, kinds=("resolve", "open", "readlink"), rflags_choices=(0, 4)):
    jobs = []
    i = idbase
    for t in range(ntrees):
        tree, meta = gen.gen_tree(rng)
        for _ in range(paths_per_tree):
            p = gen.gen_path(rng, meta, malformed=rng.random() < 0.15)
            k = rng.choice(kinds)
            rf = rng.choice(rflags_choices)
            i += 1
            if k == "resolve":
                op = {"k": "resolve", "path": H(p), "nofollow": rng.random() < 0.4}
            elif k == "open":
                op = {"k": "open", "path": H(p), "flags": gen.gen_oflags(rng)}
            else:
                op = {"k": "readlink", "path": H(p)}
            jobs.append({"id": i, "tree": tree, "op": op, "rflags": rf, "meta": {"path": p}})
    return jobs


def mutator_jobs(rng, ntrees, ops_per_tree, idbase=0, snap="all"):
    jobs = []
    i = idbase
    for t in range(ntrees):
        tree, meta = gen.gen_tree(rng)
        for _ in range(ops_per_tree):
            i += 1
            p = gen.gen_path(rng, meta, malformed=rng.random() < 0.15)
            # a fresh final name in an existing place, most of the time
            if rng.random() < 0.6:
                parent = rng.choice(meta["dirs"] + meta["links"])
                p2 = (parent + "/" if parent else "") + rng.choice(["new", "n1", "n2", "..", ".", "new/"])
            else:
                p2 = p
            k = rng.choice(["create", "create", "create_file", "mkdir_all", "remove_file", "remove_dir",
                            "remove_all", "rename"])
            if k == "create":
                ty = rng.choice(CREATE_TYPES)
                op = {"k": "create", "path": H(p2), "type": ty, "mode": rng.choice([0o644, 0o755, 0o600, 0o4755])}
                if ty == "symlink":
                    op["target"] = H(rng.choice(["a", "/etc/passwd", "../../outside", "x/../y", "."]))
                if ty == "hardlink":
                    op["target"] = H(gen.gen_path(rng, meta))
                if ty in ("chr", "blk"):
                    op["dev"] = 0x103
            elif k == "create_file":
                fl = rng.choice([O["WRONLY"], O["RDWR"], O["WRONLY"] | O["EXCL"], O["RDWR"] | O["TRUNC"],
                                 O["WRONLY"] | O["APPEND"], O["RDONLY"]])
                op = {"k": "create_file", "path": H(p2 if rng.random() < 0.7 else p), "flags": fl, "mode": 0o640}
            elif k == "mkdir_all":
                tail = rng.choice(["", "/x", "/x/y/z", "/../q", "/./w//v/", "/x/../y"])
                op = {"k": "mkdir_all", "path": H((p if rng.random() < 0.5 else p2) + tail), "mode": rng.choice([0o755, 0o700, 0o1777, 0o40755])}
            elif k in ("remove_file", "remove_dir", "remove_all"):
                if k == "remove_all" and rng.random() < 0.6:
                    # mostly non-empty directories: the interesting (slow) path of remove_all
                    nonempty = [d for d in meta["dirs"] if d and any(x.startswith(d + "/") for x in meta["dirs"] + meta["files"] + meta["links"])]
                    if nonempty:
                        p = rng.choice(nonempty)
                op = {"k": k, "path": H(p)}
            else:
                op = {"k": "rename", "src": H(p), "dst": H(p2), "flags": rng.choice([0, 0, 1, 2])}
            jobs.append({"id": i, "tree": tree, "op": op, "snap": snap, "meta": {"path": p, "path2": p2}})
    return jobs


def reopen_jobs(rng, n, idbase=0):
    jobs = []
    i = idbase
    for _ in range(n):
        tree, meta = gen.gen_tree(rng)
        i += 1
        p = gen.gen_path(rng, meta)
        jobs.append({"id": i, "tree": tree,
                     "op": {"k": "reopen", "path": H(p), "nofollow": rng.random() < 0.3, "flags": gen.gen_oflags(rng)},
                     "meta": {"path": p}})
    return jobs


PROC_PATHS = ["stat", "self", "thread-self", "status", "fd", "fd/0", "ns/mnt", "cwd", "root", "exe", "task",
              "sys/kernel/ostype", "net", "mounts", "environ", "nonexistent", "fd/..", "..", "", ".", "self/",
              "attr/current", "1/stat", "uptime", "fd/0/x", "root/etc", "cwd/..", "./status", "fd//0"]


PROC_LINKS = ["self", "thread-self", "cwd", "root", "exe", "fd/0", "ns/mnt", "self/", "cwd/.."]


def proc_jobs(rng, n, idbase=0, handle_deny_choices=((), ("fsopen",), ("fsopen", "open_tree"))):
    """A grid (link-ish paths x flag sets x follow) first, then random fill."""
    flagsets = [O["PATH"], O["RDONLY"], O["PATH"] | O["NOFOLLOW"], O["RDONLY"] | O["NOFOLLOW"], O["RDONLY"] | O["DIRECTORY"],
                O["PATH"] | O["DIRECTORY"], O["RDONLY"] | O["CREAT"], O["RDWR"] | O["TMPFILE"],
                O["RDONLY"] | O["EXCL"], O["WRONLY"] | O["CREAT"] | O["EXCL"]]
    grid = []
    for p in PROC_LINKS:
        for fl in flagsets[:4]:
            grid.append(("proc_open", p, fl, True))
    for p in PROC_LINKS[:5]:
        grid.append(("proc_readlink", p, 0, False))
        grid.append(("proc_open", p, O["PATH"], False))
    rng.shuffle(grid)
    jobs = []
    i = idbase
    for idx in range(n):
        i += 1
        base = rng.choice(["root", "self", "thread"])
        if idx < len(grid) and idx < (2 * n) // 3:
            k, p, fl, follow = grid[idx]
            if p in ("self", "thread-self", "self/"):
                base = "root"
            elif base == "root":
                base = "self"
        else:
            p = rng.choice(PROC_PATHS)
            k = rng.choice(["proc_open", "proc_open", "proc_readlink"])
            fl = rng.choice(flagsets)
            follow = rng.random() < 0.4
        op = {"k": k, "base": base, "path": H(p)}
        if k == "proc_open":
            op["flags"] = fl
            op["follow"] = follow
        jobs.append({"id": i, "op": op, "handle_deny": list(rng.choice(handle_deny_choices)), "meta": {"path": p}})
    return jobs


def with_fault(rng, jobs, frac=0.3, errnos=(24, 23, 12, 13, 5, 4, 38, 11)):
    """Copy a fraction of the jobs with one injected fault at a random index."""
    out = []
    for j in jobs:
        if rng.random() < frac:
            j2 = dict(j)
            j2["id"] = j["id"] + 1000000
            j2["policy"] = {"fault": {"at": rng.randint(0, 60), "errno": rng.choice(errnos)}}
            out.append(j2)
    return out


def describe(job):
    op = job["op"]
    d = {"k": op["k"]}
    for key in ("path", "src", "dst", "target"):
        if key in op:
            d[key] = unhex(op[key]).decode("latin1")
    for key in ("flags", "nofollow", "type", "mode", "base", "follow"):
        if key in op:
            d[key] = op[key]
    if "policy" in job:
        d["policy"] = job["policy"]
    if "tree" in job:
        d["tree"] = [[o[0]] + [unhex(x).decode("latin1") if isinstance(x, str) else x for x in o[1:]] for o in job["tree"]]
    return d
