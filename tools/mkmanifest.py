#!/usr/bin/env python3
"""Regenerate MANIFEST.json from the table below (kept here so that the manifest is always valid)."""
import json
import os

V = os.path.dirname(os.path.dirname(os.path.abspath(__file__)))
NEXTEST = ("cd /repo && cargo nextest run --workspace --no-fail-fast --tool-config-file pb:/w/lib/nextest.toml "
           "--profile pb --test-threads 8 --offline")
COMMON_NOTE = ("Trusted: Coq 8.16 kernel (no axioms: every theorem prints 'Closed under the global context'); the hand-written "
               "Gallina model of libpathrs' syscall sequencing (tied to the code by exact replay of recorded traces of the "
               "freshly built library on sampled executions -- not proved equal to the Rust); tools/extract_facts.py (T0 regex "
               "translator for constants); the seccomp supervisor and Python glue. ")

CLAIMED = {
    "C05": {
        "text": "Machine-checked theorem over all kernel answers (hence all trees, faults, attackers, feature sets): every call "
                "of every modelled libpathrs operation satisfies the per-call discipline (single component, real dirfd, "
                "O_NOFOLLOW/AT_SYMLINK_NOFOLLOW, O_CLOEXEC, O_NOCTTY -- for openat2 as well: O_NOCTTY unless O_PATH/O_DIRECTORY, F-R --, confined openat2). The same predicate and a model-free "
                "monitor judge every real call of the freshly built library; recorded traces are replayed exactly through the model.",
        "note": COMMON_NOTE + "Exempt calls are the closed list inside disc_b (procfs constructors, FrozenFd error-text calls, "
                "thread-self probes) plus Root::open and the two feature probes, which run outside the judged regions.",
        "technique": "Coq proof (all_calls over a free-monad model, all responses) + trace-replay correspondence + runtime monitor",
    },
    "C11": {
        "text": "Machine-checked descriptor-balance theorem (for all kernel answers that never hand out a descriptor number the operation "
                "is holding: never closes a descriptor it did not open, returns owning exactly the returned fd) for all procfs operations, "
                "reopen, the procfs constructors, BOTH resolver backends -- the openat2 one with its retry loops, the emulated one with the "
                "Rc reference counting of its walk state and symlink stack (counting invariant: refcount = number of holders, closed exactly "
                "when the last holder lets go) -- and hence every Root operation on every backend with no contract assumed; soundness of the "
                "judgement on every fresh trace the model accepts; read on the static kernel: the table afterwards is the old one plus the "
                "returned descriptor. Runtime: /proc/self/fd listing before/after every call incl. injected faults and fd exhaustion, Rust and "
                "C API; recorded traces replayed, balance-checked and freshness-checked in Coq.",
        "note": COMMON_NOTE + "The freshness premise (a kernel does not return a number that is in use) is evaluated on every recorded trace "
                "(trace_fresh). Rc handles are modelled as counts keyed by descriptor number.",
        "technique": "Coq proof (balance judgement over free-monad model, all fresh responses; counting invariant for Rc) + trace replay + fd-table oracle under fault injection",
    },
    "C10": {
        "text": "Machine-checked theorems over all kernel answers (= all fault plans): only two recorded Panic sites are "
                "reachable from any operation (the unreachable!(), fstat expect() and path_split expect() cannot fire); the "
                "openat2 EAGAIN loops issue at most 16 calls, EAGAIN never surfaces as an OS error and never becomes a "
                "partial result. Runtime: single faults at sampled/all indices x errno catalogue, EMFILE-from-index, "
                "EAGAINx{1,15,16,17}, cold-start faults; oracles: no panic, bounded time, fd table, outside-root snapshot, "
                "success => same effect as the unfaulted run; faulted traces replayed through the model.",
        "note": COMMON_NOTE + "Known finding F-I-globalprocfs (Lazy global handle panics when all constructors fail) is "
                "recorded, not repaired; Panic site 5 (Rc::try_unwrap) is believed unreachable but not yet proved so.",
        "technique": "Coq proof (panic-site / call-count / result judgements, all responses) + exhaustive single-fault injection via seccomp supervisor + trace replay",
    },
    "C07": {
        "text": "Machine-checked theorems over all kernel answers: creation flags are refused without a system call (resolver), "
                "open never succeeds with them and open_follow refuses up front; the emulated resolver never lets a path with '..' "
                "succeed (also behind expanded symlinks); open/readlink issue only O_NOFOLLOW opens; open_follow's single "
                "possibly-following open comes right after the mount-id check of exactly (parent, final name). Runtime: live /proc "
                "enumeration x bases x flags x {open, open_follow, readlink} on both procfs resolvers, compared with each other and "
                "with an outcome-class table; traces replayed through the model.",
        "note": COMMON_NOTE + "Partial: equality of the emulated resolver with the kernel's RESOLVE_BENEATH walk is validated by the "
                "differential on the live /proc, not proved (no procfs tree model). Known finding F-M-nonabs-magiclink recorded.",
        "technique": "Coq proof (all responses; history-indexed Hoare judgement for the follow site) + resolver differential on live /proc + trace replay",
    },
    "C06": {
        "text": "Machine-checked theorems over all kernel answers: ProcfsHandle::open is an instance of a lookup parametrised by its "
                "verification routines, and for ANY verification routine that fails the lookup returns no object (so every returned "
                "object passed the mount-id + fs-type comparison against the handle's own mount); every step of the emulated walk "
                "is verified likewise; the kernel resolver is confined by RESOLVE_NO_XDEV|BENEATH|NO_MAGICLINKS on every call; "
                "comparisons with an unknown mount id fail closed. Runtime in a private mount namespace: subsets of real tmpfs / "
                "bind over-mounts (foreign file, other procfs file/dir, on magic-links themselves) x 5 handle kinds x bases x both "
                "resolvers, plus one mount racing at system-call boundaries of non-following opens; oracle: fs type, marker, "
                "content, EXDEV when the mount is visible and crossed, private instances unaffected.",
        "note": COMMON_NOTE + "That equal mount ids mean 'same mount, not an over-mount' is the kernel's statx contract (exercised by the "
                "runs, not proved). Over-mounts on /proc/self and /proc/thread-self themselves (the symlinks) are not generated.",
        "technique": "Coq proof (parametric in the verification routine, all responses) + real over-mount runs in a mount namespace",
    },
    "C08": {
        "text": "Machine-checked theorems over all kernel answers: a handle that is not masked never retries; two levels of the "
                "masked-handle retry are all any lookup uses (popen with any fuel >= 2 equals popen with fuel 2), so at most one extra "
                "procfs handle exists; descriptor balance of open/readlink including the extra handle. Runtime: 12 real procfs "
                "configurations in a private mount namespace (root / uid 2000 x default, hidepid=1/2/ptraceable, subset=pid x "
                "constructors available / denied) x both resolvers x bases x {existing, missing, masked} paths: ENOENT for missing "
                "paths, constructor attempts <= 3, new handles <= 1, syscall count and wall time bounded, descriptor table unchanged; "
                "recorded traces replayed through the model.",
        "note": COMMON_NOTE + "Found and repaired F-D (the retry recursed on a masked handle; fix: commit in /repo, fact RETRY_ONLY_UNMASKED "
                "read from the source by T0). Which entries a given /proc masks is the kernel's decision (exercised, not modelled).",
        "technique": "Coq proof (program equivalence for all fuels/answers + fd balance) + runs on real hidepid/subset procfs instances + trace replay",
    },
    "C09": {
        "text": "Machine-checked: C09_reopen_same_object -- Handle::reopen as a program, executed on the static kernel model (tree + procfs) for a "
                "descriptor open on any non-symlink object and any accepted flags that fit it, returns a NEW descriptor open on the SAME "
                "object and leaves the descriptor table otherwise exactly as it was (with openat2 and without). "
                "Over all kernel answers: reopen with creation flags never succeeds; the magic-link name is "
                "fd/<decimal> for every descriptor >= 0 (0 included); the only possibly-following open is the verified one; the "
                "descriptor table is balanced. Runtime: 9 handle kinds x rename/replace/unlink histories x flag sets x descriptor "
                "numbers {0,1,2,3,64,1023} x both feature sets, Rust and C API, threads with a private descriptor table; oracle: "
                "(dev,ino) identity, F_GETFL/FD_CLOEXEC, and the kernel's own raw reopen of /proc/self/fd/N; 'a NEW open file description': handles "
                "made from ordinary descriptors reopened with the flags they have and with others, offsets and status flags must not be shared.",
        "note": COMMON_NOTE + "That /proc/<tid>/fd/N denotes the open file description itself is the kernel's contract: in the static "
                "kernel model it is the definition of the follow-open (tied to recorded real answers of reopen's calls, T2'), under "
                "rename/replace/unlink histories it is exercised by the runtime oracle. Over-mounted host /proc is exercised by C06's runs.",
        "technique": "Coq proof (all responses) + differential against the kernel's raw reopen + trace replay",
    },
    "C16": {
        "text": "Machine-checked theorems about the error-id table as a state machine over ALL histories of atomic store/take "
                "operations (any number of threads, any interleaving, arbitrary generator output): ids lie in [INT_MIN, -4096] "
                "(range read from the source by T0), a fresh id differs from every live id, a take returns exactly what was stored "
                "and a second take returns nothing, refinement to a partial map with fresh keys; errno table. Runtime: 1..64 "
                "threads fail through four C entry points and consume each other's ids; a serialised history is replayed on the model; "
                "2^18 errors outstanding at once; 2^22 store/take cycles per resolver with the id range checked (thorough: 2^21 and 2^25).",
        "note": "Trusted: Coq kernel (no axioms); std::sync::Mutex atomicity of the two table operations; T0 extractor (range, "
                "errno table); that every failing C call goes through store_error is checked at run time only.",
        "technique": "Coq proof (invariant + refinement over all operation histories) + concurrent C-API stress + history replay on the model",
    },
    "C17": {
        "text": "Machine-checked theorems: copy_path_into_buffer over a byte-addressed memory returns the full length and changes "
                "memory exactly on [buf, buf+min(len,size)) for every body, address, size (NULL / 0 untouched); lengths fit a C int "
                "(T0 buffer bound); a negative fd, NULL path or unknown base is refused with InvalidArgument before the body runs; "
                "the mknod S_IFMT decode is exact; borrowed descriptors are never closed (from C11). Runtime: every entry point x "
                "invalid class (no syscall may precede the refusal), link bodies 1..4095 x all buffer sizes 0..len+3 and NULL with "
                "canaries; real buffers compared byte-for-byte with the model evaluated in Coq.",
        "note": "Trusted: Coq kernel (no axioms); the small hand-written glue model (coq/theories/CApi.v), tied by the run-time "
                "comparison and the 'empty trace on refusal' oracle; T0 extractor (constants, mknod table).",
        "technique": "Coq proof (memory-model contract, decision rules) + differential of the real C entry points against the model",
    },
    "C18": {
        "category": "translation_validation",
        "text": "On every run six fact lists are re-extracted from the tree (header, Rust extern \"C\" items, nm of the freshly built "
                "library, a C translation unit compiled+linked against header and library, Go and Python call sites) and the finite "
                "claims (same symbols/arity/width classes both ways, enum values, pathrs_error_t layout, every binding call declared "
                "with the assumed signature) are decided completely by computation inside Coq, by checkers proved sound.",
        "note": "Trusted: tools/abi_extract.py (regex-level parsers; x86-64 width classes), gcc, nm, Coq kernel (no axioms). Go and "
                "cffi are not installed, so the bindings are parsed rather than compiled.",
        "technique": "translation validation: regenerated fact lists + sound boolean checkers evaluated in Coq",
    },
    "C01": {
        "text": "Machine-checked theorems over EVERY well-formed static file system (no hard links), path, trailing mode and NO_SYMLINKS "
                "setting: (1) C01_resolve_eq_walk: the model PROGRAM of opath::resolve -- the one tie T1 replays against the library "
                "call by call, including every check_current with its procfs round-trips (as_unsafe_path through the ProcfsHandle) and "
                "the Rc/descriptor bookkeeping -- executed on a static kernel model returns a descriptor for exactly the object the "
                "pure emulated walk ends on, or its errno; never panics; (2) the emulated walk equals the kernel reference walk whenever "
                "the kernel stays within its 40-link budget; results are reachable from the root; '' is ENOENT; loops end in ELOOP. "
                "Ties on every run: reference walk vs the kernel's raw openat2 (T2), walk model vs the library's emulated backend (T2), "
                "static kernel model vs the real answers recorded for the library's own calls, procfs reads of fd/N included (T2'); "
                "deterministic link-budget boundary chains; library (resolve, readlink, open_subpath incl. F_GETFL) vs raw openat2 under "
                "both feature sets.",
        "note": "Trusted: Coq kernel (no axioms); the hand-written models coq/theories/FSModel.v (kwalk = description of Linux), "
                "Static.v (per-call answers of Linux on a static tree and of a minimal procfs) and OpathM.v/ProcfsM.v (the library), "
                "all tied by differential runs / trace replay, not proved equal to the C/Rust code. The theorem's premises beyond "
                "well-formedness are properties of the tree only (names, link bodies, one path per object, paths fit the buffer). "
                "Proved both with openat2 available (procfs handle resolves with it) and without (emulated procfs resolver walking "
                "thread-self/fd/N component by component); the procfs part of the static kernel is tied to real traces only in the "
                "first configuration (fixed pid/tid names in the model). No DAC/MAC permissions modelled. "
                "Known finding F-H (41..127 links).",
        "technique": "Coq proof (refinement of the syscall-level program, procfs checks included, to a pure walk + simulation between two "
                     "component-queue machines over an abstract FS) + differentials against the kernel's raw openat2 and recorded syscall answers",
    },
    "C02": {
        "text": "Machine-checked theorems over all kernel answers (= every attacker acting at any syscall boundary): the emulated walk "
                "hands out a completed lookup only through final_check, final_check completes only if check_current passed, a '..' "
                "step is discarded unless check_current passed right after it; the openat2 backend issues at most 16 attempts and "
                "EAGAIN never becomes a result; without an attacker the result lies in the root's tree; what check_current's comparison "
                "establishes for all byte strings / all answers, and the forest argument (unique sibling names): a rendering of `current` equal "
                "to the root's rendering followed by the expected components makes `current` the descendant of the root along them. Runtime: deterministic "
                "preemption by the supervisor -- 12 lookups x every relevant boundary of the baseline trace x 10 attacker actions "
                "(thorough: exhaustive + do/undo pairs); oracle: returned inode / link body belongs to the set of inodes that were inside the root.",
        "note": COMMON_NOTE + "Partial: that the running kernel's /proc/thread-self/fd/N text is a faithful, instant rendering of the dentry "
                "forest (the premises `renders`, A1-A3 of DESIGN.md) is the kernel's contract; it is exercised by the schedule "
                "runs, not proved. Kernel atomicity of one openat2 call is assumed.",
        "technique": "Coq proof (parametric walk: results only flow through the checks; all responses) + schedule-exhaustive single-preemption runs + trace replay",
    },
    "C03": {
        "text": "Machine-checked theorems over all kernel answers: every effectful call of every mutating Root operation names ONE component "
                "relative to a descriptor and never follows it (C05 predicate); remove_all refuses '.'/'..'; a path without a final name "
                "reduces to 'resolve parent, close, InvalidArgument'; lookups of either backend (procfs round-trips and the creation of a fresh "
                "procfs handle included) issue no tree-changing call, and create / create_file / remove_file / remove_dir / rename issue at most "
                "one. Runtime: whole-sandbox snapshots (root, its parent, siblings): 15 "
                "operation shapes x 21 escaping spellings, and 15 mutating calls x every relevant boundary x 10 attacker actions; oracle: no "
                "entry of a never-inside directory is added/removed/replaced/modified.",
        "note": COMMON_NOTE + "Partial: that the parent descriptor is inside the root under attack is C02's (partly assumed) statement; the "
                "effects themselves are judged by the snapshot oracle on sampled/exhaustive schedules.",
        "technique": "Coq proof (all responses) + schedule-exhaustive single-preemption runs with whole-sandbox snapshot oracle",
    },
    "C04": {
        "text": "Machine-checked: C04_backends_agree -- the two backends as programs (Resolver::resolve with the same root, path, trailing "
                "mode and resolver flags), executed on the static kernel model over any well-formed tree, return descriptors open on the "
                "same object or fail with the same errno, within 40 link traversals; every "
                "parent-based operation is the backend's lookup of the parent followed by a backend-independent continuation (program "
                "equivalence without funext); refused open flags and NUL paths are refused identically before any lookup. Direct differential "
                "(no model): every Root operation on random trees run with and without openat2 -- outcome, errno, object, F_GETFL&~O_NOFOLLOW, "
                "FD_CLOEXEC and the complete resulting tree compared.",
        "note": COMMON_NOTE + "Partial: equivalence of partial lookups (symlink stack vs ancestor probing, used by mkdir_all) and of the final "
                "trees is decided by the differential only. Known finding F-N (O_DIRECTORY bit of F_GETFL when the result is the root itself).",
        "technique": "Coq proof (refinement of both backends' programs to the reference walk + program-equivalence factorisation) + two-backend differential on real executions",
    },
    "C13": {
        "text": "Machine-checked theorems over all kernel answers: remove_all refuses '.', '..' and names with '/' before touching anything; "
                "every open forbids following, every unlink names one component relative to a descriptor of the walk; descriptors balanced; whatever "
                "the directory listings say, every unlinkat is on (dirfd, name) itself or on a descriptor obtained by descending from it without "
                "following links, with a '/'-free name other than '.'/'..', and no other tree-changing call is issued. "
                "FUNCTIONAL STATEMENT on the dynamic kernel model (tree + descriptor table + directory streams): dir.rs remove_all, executed, "
                "computes the pure function rm_all of the tree and leaves the descriptor table and the directory streams exactly as they were "
                "(C13_remove_all_computes_spec); RootRef::remove_all = parent lookup (either backend) ; rm_all (C13_root_remove_all_exact); for "
                "ANY tree rm_all adds and modifies nothing (C13_spec_only_removes), every entry that disappears is the named one or lies beneath "
                "the directory under that name, reached through real directories only -- never through a link -- (C13_spec_removes_only_beneath), "
                "a reported success means the named entry is gone (C13_spec_success_means_gone), and -- names being unique within a directory -- "
                "everything beneath it is gone too: the entries afterwards are EXACTLY the entries before minus the named one and what lies "
                "beneath it (C13_spec_removes_everything_beneath, C13_spec_exact). TERMINATION: when the sub-directories below the named "
                "entry nest at most k deep, fuel k + (number of entries) + 6 is enough for rm_all to return (C13_spec_terminates: each pass "
                "over a directory that goes through leaves it empty, so two rounds always suffice), and the whole statement for the kernel "
                "backend from the tree and the path alone: RootRef::remove_all runs to completion, removes only, and on success the entries "
                "are exactly those before minus the named one and what lies beneath it (C13_remove_all_post_kernel_backend; the same with the "
                "emulated backend's parent lookup: C13_remove_all_post_emulated_backend). A caller that finds the entry absent -- e.g. after "
                "another caller's success -- reports success and changes nothing (C13_later_caller_succeeds_without_change). RACE CLAUSE on the "
                "model: remove_all with the environment removing entries between any two of its system calls (what every other remove_all "
                "caller does; the listing of a pass goes stale) reports success with the name gone for EVERY interleaving, on trees with "
                "unique short plain names (C13_converges_under_racing_removers); without interference that semantics is rm_all "
                "(C13_interference_free_is_spec). The tree premises (and, for trees built without moving a directory, the depth bound) are "
                "invariants of every tree the modelled operations can produce: C13_every_reachable_tree_satisfies_the_premises, "
                "C13_remove_all_terminates_on_reachable_trees (fuel #objects + #entries + 6). "
                "Runtime: whole-sandbox snapshots on deep/wide subtrees with links to siblings/parents/outside x path spellings (difference must "
                "be exactly the named entry and what is below it), 2-4 racing callers per path, and links swapped in at every boundary of a running remove_all.",
        "note": COMMON_NOTE + "Partial: the race theorem is about environments that only remove and says nothing about termination; the real "
                "scheduler and mixed environments are decided by the racing and schedule runs; the fuel is the model's stand-in for 'the loops "
                "end because the directory empties' -- with a static tree; under a concurrent refiller the library has no bound and none is claimed; getdents returns the whole listing at once in the model (the kernel's batching is covered by the "
                "all-answers theorem C13_stays_beneath); convergence of concurrent callers is decided by the race / schedule runs. The dynamic "
                "kernel model is tied by T2d (every answer of recorded remove_all executions incl. listings and F_GETFL, and the final tree).",
        "technique": "Coq proof (refusals, discipline, balance: all responses; refinement of remove_all on a dynamic kernel model to a pure function of the tree with its frame properties) + snapshot differential + racing callers + attacker schedules + trace replay incl. T2d",
    },
    "C14": {
        "text": "Machine-checked: parent_and_name is (in-root resolution of everything before the last '/', last component) for every byte "
                "string, the name is non-empty and '/'-free and passed on unresolved; a path without a final name reduces the whole operation "
                "to 'resolve parent, close, InvalidArgument' for every continuation; all calls single-component/no-follow; exact mknod S_IFMT "
                "decode; the parent resolution equals the kernel's (C01); executed on the static kernel over any well-formed tree, every "
                "single-entry operation of the emulated backend -- create (dir, file, fifo, device: with the exact mode word, type bits from the "
                "InodeType alone; symlink; hard link), create_file, remove_file/remove_dir, rename -- arrives at its *at call on (descriptor "
                "open on the object the in-root walk of the parent ends on, last component), for both parents where there are two. "
                "FULL FUNCTIONAL STATEMENT on a dynamic kernel model (tree + descriptor table, the tree-changing calls have their effect): for BOTH "
                "backends, executing create (dir / file / fifo / device / symlink / hard link), create_file, remove_file, remove_dir, rename ends in "
                "exactly the state the corresponding *at call produces on (object the in-root walk of the parent ends on, final name) -- that tree, "
                "or the old tree and that errno; the parent descriptor closed again, every other descriptor as it was; create_file's descriptor is "
                "open on the very object now under that name (C14_*_exact_effect, through the bridge C14_bridge_static_to_dynamic: every program "
                "that issues no tree-changing or directory-scan call runs on the dynamic kernel as on the static one). The tree premises of these "
                "theorems are invariants: every tree any sequence of the modelled operations can produce from an empty root satisfies them "
                "(C14_every_reachable_tree_satisfies_the_premises: induction over operation lists, all renameat2 result shapes). Runtime: snapshot difference "
                "of every successful call = exactly (raw-openat2 resolution of the parent, final name); final symlinks not followed; create_file's "
                "fd is the file under that name; tie T2d: every recorded call of these operations answered by the dynamic model as by the running "
                "kernel, and the model's final tree = the real tree.",
        "note": COMMON_NOTE + "The effect semantics of the *at calls (Dyn.create_sem / unlink_sem / link_sem / rename_sem / creat_sem) is a model "
                "of Linux, tied by T2d on sampled executions (about 200 traces, 6-10k calls, 190 final trees per quick run), not proved; no modes, "
                "owners or timestamps in the tree model (inode type, names, link bodies, parents only).",
        "technique": "Coq proof (path-split theorems for all byte strings, program equivalence, refinement of the syscall programs on a dynamic kernel model to the *at call's effect) + snapshot differential against raw openat2 + trace replay incl. the dynamic model (T2d)",
    },
    "C12": {
        "text": "Machine-checked theorems over all kernel answers: mode bits outside 0o1777 are refused before any call; every mkdirat/openat "
                "names one '/'-free component relative to a descriptor, opens forbid following except the verified procfs re-open; descriptors "
                "balanced on both backends (the emulated partial lookup with its symlink stack of Rc handles included); no unknown panic; the "
                "directories are created as ONE chain -- mkdir_all is checks, partial lookup, re-open, then a loop in which every mkdirat is on the "
                "directory the chain has reached and the only open is openat(that directory, that very name, O_NOFOLLOW|O_DIRECTORY), whose result "
                "is where the chain continues; nothing else changes the tree. FUNCTIONAL STATEMENT on the dynamic kernel model: the creation loop, "
                "executed, computes the pure function mk_spec of the tree (C12_loop_computes_spec); for ANY tree mk_spec only adds directories under "
                "names that did not exist -- nothing removed or modified, also when it fails -- and on success every component exists and the result "
                "is the descent along them (C12_spec_post, C12_extends_changes_nothing_else); the partial lookup of the kernel backend is the first "
                "ancestor the kernel's walk resolves (C12_partial_lookup_kernel_backend); end to end for the kernel backend: mkdir_all = partial "
                "lookup, re-open (C09), mk_spec (C12_mkdir_all_kernel_backend), and the returned handle is a directory that IS the kernel's in-root "
                "resolution of the path in the resulting tree (walk composition, walks survive the creation of directories: "
                "C12_handle_is_resolution_in_resulting_tree, C12_mkdir_all_post_kernel_backend); COMPLETENESS: when every remaining component "
                "that exists is a directory and every name fits NAME_MAX, mk_spec succeeds and so does mkdir_all on the kernel backend "
                "(C12_spec_complete, C12_mkdir_all_succeeds_kernel_backend). RACE CLAUSE on the model: the creation loop with the environment "
                "creating directories between any two of its calls -- what every other mkdir_all caller does and what the loop's own steps "
                "do -- cannot fail where it had no reason to fail at the start, for EVERY interleaving at system-call granularity, and its "
                "handle is the descent along the components in the final tree; two racing callers of one chain hold the same directory "
                "(C12_loop_converges_under_racing_creators, C12_racing_callers_hold_the_same_directory, C12_own_steps_are_environment_steps). Runtime: whole-sandbox snapshots -- on success the handle equals the kernel's raw in-root resolution "
                "of the path in the resulting tree, the new entries form exactly one chain of directories with mode&~umask (|setgid), nothing "
                "else changed; on failure only one chain of directories was added; racing callers on equal/overlapping paths all succeed "
                "with handles to the directories now at their paths.",
        "note": COMMON_NOTE + "Partial: the end-to-end functional theorem is proved for the kernel backend; for the emulated backend everything "
                "after the partial lookup is proved given the lookup's result (C12_mkdir_all_either_backend_given_lookup), and that result "
                "(symlink stack) is tied by the two-backend differential (C04), T1 and T3, not proved. Modes are not in "
                "the tree model (the mode handed to mkdirat is part of the all-answers theorems; umask/setgid are judged at run time). Convergence "
                "under races: proved on the model for environments that only create directories; hostile environments (renames, removals) and the real scheduler are "
                "the racing and schedule runs. The dynamic kernel model is tied by T2d (every answer of recorded "
                "mkdir_all executions and the final tree).",
        "technique": "Coq proof (argument checks, discipline, balance: all responses; refinement of the creation loop and of the kernel backend's mkdir_all on a dynamic kernel model to a pure function of the tree) + snapshot differential against raw openat2 + racing callers + trace replay incl. T2d",
    },
    "C15": {
        "text": "Machine-checked for ALL uids, modes and sysctl values: the emulated rule equals the kernel rule at trailing positions and -- "
                "with the source restricting it to trailing links (T0) -- at every position; nothing is refused when the sysctl is 0; exact "
                "characterisation of the refused cases; the syscall-level program decides by that rule on the kernel's stat answers. Exhaustive "
                "correspondence on every run: 1296 combinations (dir mode x dir owner x link owner x caller uid x 6 positions incl. trailing slashes x sysctl) on the "
                "emulated backend as that uid, the kernel's raw openat2 as that uid, and the Coq rules.",
        "note": "Trusted: Coq kernel (no axioms); k_may_follow as a transcription of fs/namei.c (validated exhaustively against this kernel "
                "on the 1296 combinations, not proved about Linux); T0 extractor; per-thread raw setresuid to change the caller. Partial: the "
                "lifting of the rule through the FS-level walk models is not a theorem (positions are compared on real walks).",
        "technique": "Coq proof (decision rule over unbounded uids/modes) + exhaustive three-way differential (library / kernel / model)",
    },
}

PENDING_REASON = "check not registered yet in this round (design in DESIGN.md §%s; being built)"


def main():
    props = [json.loads(l) for l in open(os.path.join(V, "properties.jsonl"))]
    claimed_ids = [p["id"] for p in props if p["id"] in CLAIMED]
    m = {
        "version": 1,
        "setup_cmd": "cd /verif && ./setup.sh",
        "hooks": {"guard": "libpathrs_verif",
                  "enable": "RUSTFLAGS='--cfg libpathrs_verif' (no hook is compiled in at present: every observation is made "
                            "from outside through the seccomp supervisor)",
                  "baseline_off_cmd": NEXTEST, "source_commits": [], "add_only": True},
        "engines": [
            {"name": "coq-model", "path": "/verif/coq", "serves_properties": claimed_ids,
             "kind_free_text": "hand-written Gallina model of libpathrs' syscall sequencing + machine-checked theorems (Coq 8.16)"},
            {"name": "pathrs-driver", "path": "/verif/harness/driver", "serves_properties": claimed_ids,
             "kind_free_text": "Rust driver linking /repo, in-process seccomp user-notification supervisor (trace / inject / preempt / deny)"}],
        "checks": [],
        "notes": "See DESIGN.md. One entry point: ./check <id> --tier quick|thorough. known_findings.json lists recorded and fixed defects.",
        "not_applicable": [],
    }
    for p in props:
        pid = p["id"]
        if pid in CLAIMED:
            c = CLAIMED[pid]
            m["checks"].append({
                "property_id": pid,
                "quick_cmd": f"cd /verif && ./check {pid} --tier quick",
                "thorough_cmd": f"cd /verif && ./check {pid} --tier thorough",
                "evidence_file": f"/verif/evidence/{pid}.json",
                "replay_cmd_template": f"cd /verif && ./check {pid} --replay {{path}}",
                "engine": "coq-model",
                "level_claimed": {"category": c.get("category", "proof"), "text": c["text"], "design_ref": "§" + pid},
                "level_note": c["note"], "technique": c["technique"]})
        else:
            m["not_applicable"].append({"property_id": pid, "reason": PENDING_REASON % pid})
    json.dump(m, open(os.path.join(V, "MANIFEST.json"), "w"), indent=1)
    print("MANIFEST.json written:", len(m["checks"]), "checks")


if __name__ == "__main__":
    main()
