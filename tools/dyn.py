"""Tie T2d: the dynamic kernel model (coq/theories/Dyn.v) against recorded traces of the library's mutating operations.
One case = one job: the tree it was built from, the trace of every system call the library made with the answers the running
kernel gave, and the snapshot of the sandbox afterwards.  Coq evaluates [dagree_case]: every tracked call's real answer is
compared with [dsem] on the model's current tree, the tree evolving on both sides; the final model tree ([dump]) is compared
here with the real one."""
import fsmodel as F
from vlib import trace_to_coq, cb, unhex

HEADER = "From PV Require Import Dyn.\nFrom PV Require Import FSModel."
KIND = {0o040000: 0, 0o100000: 1, 0o120000: 2, 0o010000: 3, 0o140000: 4, 0o020000: 5, 0o060000: 6}


def case_term(tree, res, procfd=None):
    """Coq term (list Z) for one job result, or None when the job cannot be replayed (no trace / no root descriptor)."""
    tr = res.get("trace")
    if not tr or res.get("root_fd") is None or not res.get("rootpath"):
        return None
    mk, idmap = F.tree_to_mkops(tree, res.get("build_errs", []))
    tbl = f"({res['root_fd']}%Z, ROOT)"
    if procfd is not None:
        tbl += f"; ({procfd}%Z, PB s)"
    # openat2 answering EAGAIN says something about the machine (a rename somewhere moved the kernel's seqlock), not about the
    # tree: the library asks again, and so does this replay
    tr = [e for e in tr if not (e["c"] == "openat2" and e.get("ret") == -11)]
    return f"let s := build {mk} in dagree_case {cb(res['rootpath'])} s [{tbl}] {trace_to_coq(tr)}"


def decode(got):
    """-> (bad, compared, left, set of (path bytes, kind, body bytes))"""
    bad, n, left = got[0], got[1], got[2]
    i = 3
    cnt = got[i]
    i += 1
    out = set()
    for _ in range(cnt):
        nc = got[i]
        i += 1
        comps = []
        for _ in range(nc):
            ln = got[i]
            comps.append(bytes(got[i + 1:i + 1 + ln]))
            i += 1 + ln
        kind = got[i]
        i += 1
        ln = got[i]
        body = bytes(got[i + 1:i + 1 + ln])
        i += 1 + ln
        out.add((b"/".join(comps), kind, body if kind == 2 else b""))
    return bad, n, left, out


def real_dump(snap, rootrel=b"root"):
    """the real tree below the root, in the model's terms"""
    out = set()
    for e in snap or []:
        p = unhex(e[0])
        if not p.startswith(rootrel + b"/"):
            continue
        kind = KIND.get(e[1] & 0o170000, 9)
        out.add((p[len(rootrel) + 1:], kind, unhex(e[7]) if kind == 2 else b""))
    return out


def evaluate(ck, dcases, stats, what, coq_eval, tag):
    """dcases: list of (id, term, desc, res).  Reports disagreements as (model-side) tie violations and counts into stats."""
    if not dcases:
        return
    devals, derrs = coq_eval([(c[0], c[1]) for c in dcases], header=HEADER, tag=tag)
    if derrs:
        ck.violation("T2d: Coq evaluation of the dynamic-kernel cases failed", {"log": derrs[0][-1500:]}, False)
    for cid, term, desc, res in dcases:
        got = devals.get(cid)
        if got is None or len(got) < 4:
            continue
        bad, ncmp, left, mtree = decode(got)
        stats["dyn_traces"] = stats.get("dyn_traces", 0) + 1
        stats["dyn_calls"] = stats.get("dyn_calls", 0) + ncmp
        if bad:
            evs = [e for e in res["trace"] if (e["c"] != "fcntl" or e.get("cmd") != 1) and not (e["c"] == "openat2" and e.get("ret") == -11)]
            ck.violation("T2d: the dynamic kernel model disagrees with the answer the running kernel gave to a call of " + what,
                         dict(desc, call_index=bad - 1, around=evs[max(0, bad - 3):bad + 1]), False)
        elif left:
            stats["dyn_left_model"] = stats.get("dyn_left_model", 0) + 1
        else:
            rtree = real_dump(res.get("snap_after"))
            stats["dyn_trees"] = stats.get("dyn_trees", 0) + 1
            if mtree != rtree:
                ck.violation("T2d: after replaying the calls of " + what + " the model's tree differs from the real tree",
                             dict(desc, only_in_model=sorted(str(x) for x in mtree - rtree)[:8], only_in_real=sorted(str(x) for x in rtree - mtree)[:8]), False)


def coverage(stats):
    return {"dynamic_kernel_traces_validated": stats.get("dyn_traces", 0), "dynamic_kernel_calls_compared": stats.get("dyn_calls", 0),
            "dynamic_kernel_final_trees_compared": stats.get("dyn_trees", 0), "dynamic_kernel_traces_leaving_the_model": stats.get("dyn_left_model", 0),
            "model_executions_compared_with_the_library": stats.get("exec_runs", 0), "model_executions_agreeing": stats.get("exec_agree", 0),
            "model_executions_leaving_the_model": stats.get("exec_left_model", 0)}


# ---- tie T3: the model program on the model kernel vs the library on the real kernel ----------------------------------

def exec_term(tree, job, res, openat2, ps):
    """Coq term (list Z): the operation's model program executed by Dyn.drun on the tree the job was built from.
    The descriptor numbers and the procfs handle are the model's own (root = 5, procfs = 4, mount id PROC_MNT)."""
    import model as M
    if not res.get("rootpath"):
        return None, None
    if not openat2 and any(op_[0] == "hardlink" for op_ in tree):
        # the model identifies an object with ONE path (C01's premise); the emulated resolver's path check on a hard-linked file
        # sees the name it was reached by: such trees are outside the static kernel model
        return None, None
    cfg = {"openat2": bool(openat2), "procfd": 4, "mnt": 7, "subset": False, "kind": "fsopen"}
    prog, enc = M.op_program(job, {"root_fd": 5}, cfg, ps)
    if prog is None:
        return None, None
    mk, idmap = F.tree_to_mkops(tree, res.get("build_errs", []))
    obj = "obj_of_fd" if enc == "(enc_res enc_fd)" else "obj_none"
    term = (f"let s := build {mk} in enc_exec (@{obj} _) (drun {cb(res['rootpath'])} "
            f"{{| ds := s; dt := [(5%Z, ROOT); (4%Z, PB s)]; dseen := [] |}} ({prog}))") if obj == "obj_none" else \
           (f"let s := build {mk} in enc_exec obj_of_fd (drun {cb(res['rootpath'])} "
            f"{{| ds := s; dt := [(5%Z, ROOT); (4%Z, PB s)]; dseen := [] |}} ({prog}))")
    return term, idmap


KINDS = {"OsError": 1, "InvalidArgument": 2, "SafetyViolation": 3, "NotSupported": 4, "NotImplemented": 5, "InternalError": 6}


def decode_exec(got):
    code, x, y = got[0], got[1], got[2]
    tree = None
    if code in (0, 1) and len(got) > 3:
        _b, _n, _l, tree = decode([0, 0, 0] + got[3:])
    return code, x, y, tree


def compare_exec(got, res, idmap):
    """-> None when the model execution agrees with the real one, else a short description."""
    code, x, y, mtree = decode_exec(got)
    r = res.get("res", {})
    if code == 7:
        return "the model program panics (site %d)" % x
    if code == 8:
        return "the model program runs out of fuel"
    if code == 1 and (x, y) == (1, 38) and not ("err" in r and r["err"].get("errno") == 38):
        return "LEFT"           # the dynamic kernel model answered "outside this model" (ENOSYS) to a call of this execution
    if "err" in r:
        want = (KINDS.get(r["err"]["kind"], 99), r["err"].get("errno"))
        if code != 1 or (x, y if x == 1 else want[1]) != want:
            return "outcome: model %s, library %s" % ((code, x, y), want)
    elif "ok" in r or "unit" in r or "bytes" in r:
        if code != 0:
            return "outcome: model fails with %s, library succeeds" % ((x, y),)
        if "ok" in r and x >= 0 and x in idmap:
            ob = res.get("objs", {}).get(idmap[x])
            if ob and (ob[0], ob[1]) != (r["ok"]["dev"], r["ok"]["ino"]):
                return "returned object: model %s, library another" % unhex(idmap[x]).decode("latin1")
    else:
        return None
    rtree = real_dump(res.get("snap_after"))
    if mtree is not None and res.get("snap_after") is not None and mtree != rtree:
        return "final tree: only in model %s, only in reality %s" % (sorted(str(v) for v in mtree - rtree)[:5], sorted(str(v) for v in rtree - mtree)[:5])
    return None


def collect_exec(xcases, tree, job, res, openat2, ps, desc):
    term, idmap = exec_term(tree, job, res, openat2, ps)
    if term:
        xcases.append((len(xcases), term, desc, res, idmap))


def evaluate_exec(ck, xcases, stats, coq_eval, tag):
    if not xcases:
        return
    evals, errs = coq_eval([(c[0], c[1]) for c in xcases], header=HEADER, tag=tag)
    if errs:
        ck.violation("T3: Coq evaluation of the model executions failed", {"log": errs[0][-1500:]}, False)
    for cid, term, desc, res, idmap in xcases:
        got = evals.get(cid)
        if got is None or len(got) < 3:
            continue
        stats["exec_runs"] = stats.get("exec_runs", 0) + 1
        why = compare_exec(got, res, idmap)
        if why == "LEFT":
            stats["exec_left_model"] = stats.get("exec_left_model", 0) + 1
        elif why:
            ck.violation("T3: the model program executed on the dynamic kernel model and the library on the running kernel end differently -- " + why,
                         dict(desc, model=got[:3]), False)
        else:
            stats["exec_agree"] = stats.get("exec_agree", 0) + 1
