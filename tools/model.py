"""Mapping from harness jobs to Coq model terms (tie T1) and the model-free
per-call monitor of C05."""
import os
from vlib import cb, cz, coq_phandle, trace_to_coq, unhex, warm_config

FZ = 4
PFUEL = 3
RFUEL = 40


def sysctl_ps():
    try:
        return int(open("/proc/sys/fs/protected_symlinks").read().strip())
    except Exception:
        return 0


def common(cfg, ps):
    return "%d %s %d %s %d" % (FZ, "true" if cfg["openat2"] else "false", PFUEL, coq_phandle(cfg), ps)


def rs_term(cfg, rflags):
    return "{| rs_kernel := %s; rs_flags := %d |}" % ("true" if cfg["openat2"] else "false", rflags)


def bool_(x):
    return "true" if x else "false"


def ity(op):
    t = op["type"]
    mode = op.get("mode", 0o644)
    dev = op.get("dev", 0)
    if t == "file":
        return f"(IFile {mode})"
    if t == "dir":
        return f"(IDirectory {mode})"
    if t == "symlink":
        return f"(ISymlink {cb(op['target'])})"
    if t == "hardlink":
        return f"(IHardlink {cb(op['target'])})"
    if t == "fifo":
        return f"(IFifo {mode})"
    if t == "chr":
        return f"(ICharDev {mode} {dev})"
    if t == "blk":
        return f"(IBlockDev {mode} {dev})"
    raise ValueError(t)


PBASE = {"root": "ProcRoot", "self": "ProcSelf", "thread": "ProcThreadSelf"}


def op_program(job, res, cfg, ps):
    """Coq term: (program, encoder) for the job's operation through the Rust API."""
    op = job["op"]
    k = op["k"]
    cm = common(cfg, ps)
    rs = rs_term(cfg, job.get("rflags", 0))
    root = cz(res.get("root_fd", -1)) if res.get("root_fd") is not None else "(-1)%Z"
    if k == "resolve":
        return f"r_resolve {cm} {rs} {root} {cb(op['path'])} {bool_(op.get('nofollow', False))}", "(enc_res enc_fd)"
    if k == "open":
        return f"r_open {cm} {rs} {root} {cb(op['path'])} {op['flags']}", "(enc_res enc_fd)"
    if k == "readlink":
        return f"root_readlink {cm} {rs} {root} {cb(op['path'])}", "(enc_res enc_bytes)"
    if k == "create":
        return f"root_create {cm} {rs} {root} {cb(op['path'])} {ity(op)}", "(enc_res enc_unit)"
    if k == "create_file":
        return f"root_create_file {cm} {rs} {root} {cb(op['path'])} {op['flags']} {op.get('mode', 0o644)}", "(enc_res enc_fd)"
    if k == "mkdir_all":
        return f"root_mkdir_all {cm} {rs} {root} {cb(op['path'])} {op.get('mode', 0o755)}", "(enc_res enc_fd)"
    if k == "remove_file":
        return f"root_remove_inode {cm} {rs} {root} {cb(op['path'])} false", "(enc_res enc_unit)"
    if k == "remove_dir":
        return f"root_remove_inode {cm} {rs} {root} {cb(op['path'])} true", "(enc_res enc_unit)"
    if k == "remove_all":
        return f"root_remove_all {cm} {RFUEL} {rs} {root} {cb(op['path'])}", "(enc_res enc_unit)"
    if k == "rename":
        return f"root_rename {cm} {rs} {root} {cb(op['src'])} {cb(op['dst'])} {op.get('flags', 0)}", "(enc_res enc_unit)"
    if k == "reopen":
        hfd = res["handle"]["fd"]
        cm_nops = "%d %s %d %s" % (FZ, "true" if cfg["openat2"] else "false", PFUEL, coq_phandle(cfg))
        return f"h_reopen {cm_nops} {cz(hfd)} {op['flags']}", "(enc_res enc_fd)"
    if k in ("proc_open", "proc_readlink"):
        hcfg = warm_config({"trace": res["handle_trace"]})
        hcfg["openat2"] = cfg["openat2"]
        if hcfg["procfd"] is None:
            return None, None
        h = coq_phandle(hcfg)
        pre = "%d %s" % (FZ, "true" if cfg["openat2"] else "false")
        base = PBASE[op["base"]]
        if k == "proc_readlink":
            return f"preadlink {pre} {PFUEL} {h} {base} {cb(op['path'])}", "(enc_res enc_bytes)"
        if op.get("follow"):
            return f"popen_follow {pre} {PFUEL} {h} {base} {cb(op['path'])} {op['flags']}", "(enc_res enc_fd)"
        return f"popen {pre} {PFUEL} {h} {base} {cb(op['path'])} {op['flags']}", "(enc_res enc_fd)"
    return None, None


def replay_term(job, res, cfg, ps):
    prog, enc = op_program(job, res, cfg, ps)
    if prog is None:
        return None
    return f"enc_replay_diag {enc} (run_trace ({prog}) {trace_to_coq(res['trace'])} 0)"


def outcome_matches(res, enc):
    """Compare the encoded model outcome (after [code, idx]) with the real one."""
    r = res["res"]
    if not enc:
        return False
    if "err" in r:
        kinds = {"OsError": 1, "InvalidArgument": 2, "SafetyViolation": 3, "NotSupported": 4, "NotImplemented": 5,
                 "InternalError": 6}
        want = [1, kinds.get(r["err"]["kind"], 99), r["err"]["errno"]]
        return enc[:3] == want
    if enc[0] != 0:
        return False
    if "ok" in r:
        return enc[1:2] == [r["ok"]["fd"]]
    if "unit" in r:
        return True
    if "bytes" in r:
        b = list(unhex(r["bytes"]))
        return enc[1:] == [len(b)] + b
    return False


# ---------------------------------------------------------------------------
# model-free monitor (C05): judged on the decoded real call

LEGACY = {"open", "creat", "stat", "lstat", "access", "unlink", "rmdir", "mkdir", "mknod", "rename", "link",
          "symlink", "chmod", "chown", "lchown", "truncate", "chdir", "fchdir", "chroot", "fchmodat", "fchownat",
          "utimensat", "name_to_handle_at", "open_by_handle_at", "statfs", "getcwd", "execve", "execveat",
          "mount", "umount2", "move_mount", "dup", "dup2", "dup3"}

O_NOCTTY, O_DIRECTORY, O_NOFOLLOW, O_CLOEXEC, O_PATH = 0o400, 0o200000, 0o400000, 0o2000000, 0o10000000
AT_SYMLINK_NOFOLLOW, AT_SYMLINK_FOLLOW, AT_NO_AUTOMOUNT = 0x100, 0x400, 0x800
RES_XDEV, RES_MAGIC, RES_BENEATH, RES_INROOT = 1, 2, 8, 16


def _single(p):
    return len(p) > 0 and b"/" not in p


def monitor_call(ev, cold=False):
    """Returns None if the call is fine, else a short reason.  [cold]: the
    traced region contains Root::open and the first-use feature probes, which
    are the enumerated exemptions of C05 (they do not act on a directory of the
    root's tree)."""
    c = ev["c"]
    fd = ev.get("fd", -1)
    path = unhex(ev["path"]) if "path" in ev and isinstance(ev["path"], str) else b""
    if cold:
        if c == "openat" and fd == -100 and (ev["flags"] & (O_PATH | O_DIRECTORY | O_CLOEXEC)) == (O_PATH | O_DIRECTORY | O_CLOEXEC):
            return None                                     # Root::open(path)
        if c == "openat2" and fd == -100 and path == b".":
            return None                                     # openat2 feature probe
        if c == "renameat2" and fd == -100 and path == b"." and unhex(ev["path2"]) == b"." and ev["flags"] == 2:
            return None                                     # RENAME_EXCHANGE feature probe
    if c in LEGACY:
        return f"legacy or dup call {c}"
    if c == "readlink":
        return None if path.startswith(b"/proc/") else "readlink(2) on a non-/proc path"
    if c == "openat":
        fl = ev["flags"]
        if fd == -100:
            if path == b"/proc" and fl & O_CLOEXEC and fl & O_NOFOLLOW and fl & O_PATH and fl & O_DIRECTORY:
                return None
            return "openat(AT_FDCWD, ...) other than the procfs constructor"
        if fd < 0:
            return "openat on an invalid descriptor"
        if not _single(path):
            return "openat name is not a single component"
        if not fl & O_CLOEXEC:
            return "openat without O_CLOEXEC"
        if path not in (b".", b"..") and not (fl & (O_NOCTTY | O_PATH | O_DIRECTORY)):
            return "openat without O_NOCTTY"
        return None
    if c == "openat2":
        if fd < 0:
            return "openat2 relative to AT_FDCWD / invalid descriptor"
        if not ev["flags"] & O_CLOEXEC:
            return "openat2 without O_CLOEXEC"
        rs = ev["resolve"]
        if not rs & RES_MAGIC:
            return "openat2 without RESOLVE_NO_MAGICLINKS"
        if not (rs & RES_INROOT or (rs & RES_BENEATH and rs & RES_XDEV)):
            return "openat2 not confined (IN_ROOT or BENEATH|NO_XDEV)"
        if not (ev["flags"] & (O_NOCTTY | O_PATH | O_DIRECTORY)):
            return "openat2 without O_NOCTTY (a terminal opened this way becomes the controlling terminal)"
        return None
    if c == "readlinkat":
        return None if fd >= 0 and path == b"" else "readlinkat with a path"
    if c == "newfstatat":
        at = ev["atflags"]
        if fd == -100:
            return None if path.startswith(b"/proc/") and at & AT_SYMLINK_NOFOLLOW else "fstatat(AT_FDCWD) on a non-/proc path"
        if fd < 0:
            return "fstatat on an invalid descriptor"
        ok_name = path == b"" or _single(path) or (path.startswith(b"self/task/") and b"/" not in path[10:] and len(path) > 10)
        if not ok_name:
            return "fstatat name is not a single component"
        if not (at & AT_SYMLINK_NOFOLLOW):
            return "fstatat follows symlinks"
        return None
    if c == "statx":
        at = ev["atflags"]
        if fd < 0 or not (path == b"" or _single(path)):
            return "statx with a multi-component / absolute path"
        if not (at & AT_SYMLINK_NOFOLLOW):
            return "statx follows symlinks"
        return None
    if c in ("faccessat", "faccessat2"):
        if fd < 0 or not _single(path):
            return "faccessat with a multi-component / absolute path"
        if c == "faccessat":
            return "faccessat(2) has no flags argument: it cannot forbid following a symlink"
        if not ev["atflags"] & AT_SYMLINK_NOFOLLOW:
            return "faccessat2 follows symlinks"
        return None
    if c in ("mkdirat", "mknodat", "unlinkat"):
        return None if fd >= 0 and _single(path) else f"{c} name is not a single component relative to a descriptor"
    if c == "symlinkat":
        return None if fd >= 0 and _single(path) else "symlinkat name is not a single component"
    if c in ("linkat", "renameat", "renameat2"):
        p2 = unhex(ev["path2"])
        if fd < 0 or ev["fd2"] < 0 or not _single(path) or not _single(p2):
            return f"{c} names are not single components relative to descriptors"
        if c == "linkat" and ev["atflags"] & AT_SYMLINK_FOLLOW:
            return "linkat with AT_SYMLINK_FOLLOW"
        return None
    if c == "fcntl":
        cmd = ev["cmd"]
        if cmd in (1, 3, 1030):     # F_GETFD, F_GETFL, F_DUPFD_CLOEXEC
            return None
        return f"fcntl cmd {cmd}"
    if c == "fsopen":
        return None if path == b"proc" and ev["flags"] & 1 else "fsopen not close-on-exec / not proc"
    if c == "fsmount":
        return None if ev["flags"] & 1 else "fsmount without FSMOUNT_CLOEXEC"
    if c == "open_tree":
        fl = ev["flags"]
        if fd == -100 and path == b"/proc" and fl & O_CLOEXEC and fl & 1:
            return None
        return "open_tree not close-on-exec (OPEN_TREE_CLOEXEC) or not the /proc clone"
    return None


def follow_sites(trace):
    """indices of openat calls without O_NOFOLLOW whose name is not . or .."""
    out = []
    for i, ev in enumerate(trace):
        if ev["c"] == "openat" and not ev["flags"] & O_NOFOLLOW and unhex(ev["path"]) not in (b".", b".."):
            out.append(i)
    return out
