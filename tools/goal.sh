#!/bin/bash
# usage: goal.sh FILE LINE  -- feed first LINE lines of FILE to coqtop, show the last goals
f=$1; n=$2
cd /verif/coq
( head -n "$n" "$f"; echo 'Show.' ) | timeout 120 coqtop -Q theories PV -Q proofs PV -Q props PV -Q gen PV 2>&1 | tail -n ${3:-40}
