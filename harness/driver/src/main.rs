//! pathrs-driver: runs jobs (tree + operation + policy) on the freshly built
//! library under the seccomp supervisor and prints one JSON result per job.
//!
//! usage: pathrs-driver [--deny openat2,fsopen,open_tree] [--uid N] [--work DIR] JOBFILE OUTFILE

mod capi;
mod sup;
mod tree;

use serde_json::{json, Value};
use std::ffi::OsStr;
use std::io::{BufRead, Write};
use std::os::unix::ffi::OsStrExt;
use std::os::unix::fs::PermissionsExt;
use std::os::unix::io::{AsRawFd, FromRawFd, IntoRawFd, OwnedFd, RawFd};
use std::path::{Path, PathBuf};
use std::sync::Arc;

use pathrs::flags::{OpenFlags, RenameFlags, ResolverFlags};
use pathrs::procfs::{ProcfsBase, ProcfsHandle};
use pathrs::{error::ErrorKind, Handle, InodeType, Root};

use sup::{hex, unhex, Verdict};

/// Outcome of one library call, in a form that can cross threads.
pub enum Outcome {
    Fd(RawFd),
    Unit,
    Bytes(Vec<u8>),
    Num(i64),
    Json(Value),
    Err { kind: String, errno: i64, desc: String },
}

fn kind_str(k: ErrorKind) -> (String, i64) {
    match k {
        ErrorKind::OsError(Some(e)) => ("OsError".into(), e as i64),
        ErrorKind::OsError(None) => ("OsError".into(), 0),
        other => (format!("{:?}", other), 0),
    }
}

fn err_outcome(e: pathrs::error::Error) -> Outcome {
    let (kind, errno) = kind_str(e.kind());
    let mut desc = e.to_string();
    let mut src: &dyn std::error::Error = &e;
    while let Some(n) = src.source() {
        desc.push_str(": ");
        desc.push_str(&n.to_string());
        src = n;
    }
    Outcome::Err { kind, errno, desc }
}

fn bpath(v: &Value, key: &str) -> PathBuf {
    let b = unhex(v[key].as_str().unwrap_or(""));
    PathBuf::from(OsStr::from_bytes(&b))
}

fn base_of(s: &str) -> ProcfsBase {
    match s {
        "root" => ProcfsBase::ProcRoot,
        "self" => ProcfsBase::ProcSelf,
        _ => ProcfsBase::ProcThreadSelf,
    }
}

/// Run one operation through the Rust API.
fn run_rust(root: &Root, handle: Option<&Handle>, procfs: Option<&ProcfsHandle>, op: &Value) -> Outcome {
    let k = op["k"].as_str().unwrap();
    let fdres = |r: Result<OwnedFd, pathrs::error::Error>| match r {
        Ok(fd) => Outcome::Fd(fd.into_raw_fd()),
        Err(e) => err_outcome(e),
    };
    let unitres = |r: Result<(), pathrs::error::Error>| match r {
        Ok(()) => Outcome::Unit,
        Err(e) => err_outcome(e),
    };
    match k {
        "resolve" => {
            let p = bpath(op, "path");
            if op["nofollow"].as_bool().unwrap_or(false) {
                fdres(root.resolve_nofollow(p).map(OwnedFd::from))
            } else {
                fdres(root.resolve(p).map(OwnedFd::from))
            }
        }
        "open" => fdres(
            root.open_subpath(bpath(op, "path"), OpenFlags::from_bits_retain(op["flags"].as_i64().unwrap() as i32))
                .map(OwnedFd::from),
        ),
        "readlink" => match root.readlink(bpath(op, "path")) {
            Ok(p) => Outcome::Bytes(p.as_os_str().as_bytes().to_vec()),
            Err(e) => err_outcome(e),
        },
        "create" => {
            let mode = op["mode"].as_u64().unwrap_or(0o644) as u32;
            let perm = std::fs::Permissions::from_mode(mode);
            let dev = op["dev"].as_u64().unwrap_or(0);
            let ty = match op["type"].as_str().unwrap() {
                "file" => InodeType::File(perm),
                "dir" => InodeType::Directory(perm),
                "symlink" => InodeType::Symlink(bpath(op, "target")),
                "hardlink" => InodeType::Hardlink(bpath(op, "target")),
                "fifo" => InodeType::Fifo(perm),
                "chr" => InodeType::CharacterDevice(perm, dev),
                "blk" => InodeType::BlockDevice(perm, dev),
                t => panic!("unknown inode type {t}"),
            };
            unitres(root.create(bpath(op, "path"), &ty))
        }
        "create_file" => {
            let perm = std::fs::Permissions::from_mode(op["mode"].as_u64().unwrap_or(0o644) as u32);
            fdres(
                root.create_file(
                    bpath(op, "path"),
                    OpenFlags::from_bits_retain(op["flags"].as_i64().unwrap() as i32),
                    &perm,
                )
                .map(OwnedFd::from),
            )
        }
        "mkdir_all" => {
            let perm = std::fs::Permissions::from_mode(op["mode"].as_u64().unwrap_or(0o755) as u32);
            fdres(root.mkdir_all(bpath(op, "path"), &perm).map(OwnedFd::from))
        }
        "remove_file" => unitres(root.remove_file(bpath(op, "path"))),
        "remove_dir" => unitres(root.remove_dir(bpath(op, "path"))),
        "remove_all" => unitres(root.remove_all(bpath(op, "path"))),
        "rename" => unitres(root.rename(
            bpath(op, "src"),
            bpath(op, "dst"),
            RenameFlags::from_bits_retain(op["flags"].as_u64().unwrap_or(0) as u32),
        )),
        "reopen" => {
            let h = handle.expect("reopen needs a handle");
            fdres(
                h.reopen(OpenFlags::from_bits_retain(op["flags"].as_i64().unwrap() as i32))
                    .map(OwnedFd::from),
            )
        }
        "proc_open" => {
            let pf = procfs.expect("procfs handle");
            let flags = OpenFlags::from_bits_retain(op["flags"].as_i64().unwrap() as i32);
            let base = base_of(op["base"].as_str().unwrap());
            if op["follow"].as_bool().unwrap_or(false) {
                fdres(pf.open_follow(base, bpath(op, "path"), flags).map(OwnedFd::from))
            } else {
                fdres(pf.open(base, bpath(op, "path"), flags).map(OwnedFd::from))
            }
        }
        "proc_readlink" => {
            let pf = procfs.expect("procfs handle");
            match pf.readlink(base_of(op["base"].as_str().unwrap()), bpath(op, "path")) {
                Ok(p) => Outcome::Bytes(p.as_os_str().as_bytes().to_vec()),
                Err(e) => err_outcome(e),
            }
        }
        "proc_fd_path" => {
            // what as_unsafe_path does: read /proc/thread-self/fd/<N> of a resolved handle through the procfs handle
            use std::os::unix::io::AsFd;
            let pf = procfs.expect("procfs handle");
            let n = handle.expect("handle").as_fd().as_raw_fd();
            match pf.readlink(ProcfsBase::ProcThreadSelf, format!("fd/{n}")) {
                Ok(p) => Outcome::Bytes(p.as_os_str().as_bytes().to_vec()),
                Err(e) => err_outcome(e),
            }
        }
        "procfs_new" => match ProcfsHandle::new() {
            Ok(_h) => Outcome::Unit,
            Err(e) => err_outcome(e),
        },
        _ => panic!("unknown op {k}"),
    }
}

struct Args {
    newns: bool,
    proc_opts: Option<String>,
    warm_fault: Option<(usize, i32, bool)>,
    deny: Vec<i64>,
    uid: Option<u32>,
    work: PathBuf,
    job: PathBuf,
    out: PathBuf,
}

fn parse_args() -> Args {
    let mut a = Args {
        newns: false,
        proc_opts: None,
        warm_fault: None,
        deny: vec![],
        uid: None,
        work: PathBuf::from("/verif/.cache/work"),
        job: PathBuf::new(),
        out: PathBuf::new(),
    };
    let mut it = std::env::args().skip(1);
    let mut pos = vec![];
    while let Some(x) = it.next() {
        match x.as_str() {
            "--deny" => {
                for n in it.next().unwrap().split(',') {
                    match n {
                        "openat2" => a.deny.push(libc::SYS_openat2),
                        "fsopen" => a.deny.push(libc::SYS_fsopen),
                        "open_tree" => a.deny.push(libc::SYS_open_tree),
                        "statx" => a.deny.push(libc::SYS_statx),
                        "" => {}
                        _ => panic!("unknown deny {n}"),
                    }
                }
            }
            "--uid" => a.uid = Some(it.next().unwrap().parse().unwrap()),
            "--newns" => a.newns = true,
            "--proc-opts" => a.proc_opts = Some(it.next().unwrap()),
            "--warm-fault" => {
                let v = it.next().unwrap();
                let parts: Vec<&str> = v.split(':').collect();
                a.warm_fault = Some((parts[0].parse().unwrap(), parts[1].parse().unwrap(), parts.len() > 2));
            }
            "--work" => a.work = PathBuf::from(it.next().unwrap()),
            _ => pos.push(x),
        }
    }
    a.job = PathBuf::from(&pos[0]);
    a.out = PathBuf::from(&pos[1]);
    a
}

/// The monitor built from a job's policy.
struct PolicyMon {
    deny: Vec<i64>,
    fault: Option<(usize, i32, bool, Option<Vec<String>>, usize)>,
    fault_count: usize,
    attacks: Vec<(usize, Vec<Value>)>,
    /// counts only calls matched by `only` when given
    sb: PathBuf,
    attack_log: Vec<Value>,
    /// set when one operation has issued so many calls that it is taken to be looping on the injected fault:
    /// from then on nothing is injected any more, so that the operation (and the driver) can end
    runaway: Option<usize>,
}

/// no operation of the checks comes near this number of system calls
const RUNAWAY_CALLS: usize = 6000;

impl PolicyMon {
    fn new(deny: &[i64], policy: &Value, sb: &Path) -> Self {
        let fault = policy.get("fault").filter(|f| !f.is_null()).map(|f| {
            (
                f["at"].as_u64().unwrap() as usize,
                f["errno"].as_i64().unwrap() as i32,
                f["sticky"].as_bool().unwrap_or(false),
                f.get("only").and_then(|o| o.as_array()).map(|o| {
                    o.iter().map(|s| s.as_str().unwrap().to_string()).collect()
                }),
                f.get("count").and_then(|c| c.as_u64()).unwrap_or(1) as usize,
            )
        });
        let attacks = policy
            .get("attack")
            .and_then(|a| a.as_array())
            .map(|a| {
                a.iter()
                    .map(|e| (e["at"].as_u64().unwrap() as usize, e["ops"].as_array().unwrap().clone()))
                    .collect()
            })
            .unwrap_or_default();
        PolicyMon {
            deny: deny.to_vec(),
            fault,
            fault_count: 0,
            attacks,
            sb: sb.to_path_buf(),
            attack_log: vec![],
            runaway: None,
        }
    }

    fn on_call(&mut self, idx: usize, nr: i64, _args: &[u64; 6], _ev: &Value) -> Verdict {
        // attacker actions scheduled for this boundary
        for (at, ops) in &self.attacks {
            if *at == idx {
                for op in ops {
                    let r = tree::apply_fsop(&self.sb, op);
                    self.attack_log.push(json!([idx, op, r]));
                }
            }
        }
        if self.deny.contains(&nr) {
            return Verdict::Inject(libc::ENOSYS);
        }
        if idx >= RUNAWAY_CALLS {
            if self.runaway.is_none() {
                self.runaway = Some(idx);
            }
            return Verdict::Execute;
        }
        if let Some((at, errno, sticky, only, count)) = &self.fault {
            // calls that cannot fail (or whose failure only trips std's debug
            // assertions) are never chosen as the fault site
            let name = sup::sysname(nr);
            let never = matches!(name, "gettid" | "geteuid" | "close")
                || (name == "fcntl" && _ev["cmd"].as_u64() == Some(1));
            let counted = !never
                && match only {
                    None => true,
                    Some(names) => names.iter().any(|n| n == name),
                };
            if counted {
                let c = self.fault_count;
                self.fault_count += 1;
                if (c >= *at && c < *at + *count) || (*sticky && c > *at) {
                    return Verdict::Inject(*errno);
                }
            }
        }
        Verdict::Execute
    }
}

fn describe_fd(fd: RawFd) -> Value {
    unsafe {
        let mut st: libc::stat = std::mem::zeroed();
        if libc::fstat(fd, &mut st) != 0 {
            return json!({"fd": fd, "bad": true});
        }
        let getfl = libc::fcntl(fd, libc::F_GETFL);
        let getfd = libc::fcntl(fd, libc::F_GETFD);
        let mut v = json!({"fd": fd, "dev": st.st_dev, "ino": st.st_ino, "mode": st.st_mode,
                           "uid": st.st_uid, "nlink": st.st_nlink, "getfl": getfl, "getfd": getfd});
        if st.st_mode & libc::S_IFMT == libc::S_IFLNK {
            let mut buf = vec![0u8; 8192];
            let n = libc::readlinkat(fd, b"\0".as_ptr() as *const libc::c_char, buf.as_mut_ptr() as *mut libc::c_char, buf.len());
            if n >= 0 {
                v["link"] = json!(hex(&buf[..n as usize]));
            }
        }
        let mut sfs: libc::statfs = std::mem::zeroed();
        if libc::fstatfs(fd, &mut sfs) == 0 {
            v["f_type"] = json!(sfs.f_type as u64);
        }
        let mut stx: libc::statx = std::mem::zeroed();
        if libc::statx(fd, b"\0".as_ptr() as *const libc::c_char, libc::AT_EMPTY_PATH, 0x1000, &mut stx) == 0 {
            v["mnt_id"] = json!(stx.stx_mnt_id);
        }
        v
    }
}

fn outcome_json(o: &Outcome) -> Value {
    match o {
        Outcome::Fd(fd) => json!({"ok": describe_fd(*fd)}),
        Outcome::Unit => json!({"unit": true}),
        Outcome::Bytes(b) => json!({"bytes": hex(b)}),
        Outcome::Num(n) => json!({"num": n}),
        Outcome::Json(v) => v.clone(),
        Outcome::Err { kind, errno, desc } => json!({"err": {"kind": kind, "errno": errno, "desc": desc}}),
    }
}

fn run_job(args: &Args, job: &Value, seq: usize) -> Value {
    let mut out = run_job_inner(args, job, seq);
    // over-mounts never outlive their job, whichever way the job ended
    if out.get("_umounted").is_none() {
        if let Some(ms) = job.get("postumount").and_then(|m| m.as_array()) {
            let sb = args.work.join("unused");
            for m in ms {
                let _ = tree::apply_fsop(&sb, m);
            }
        }
    }
    if let Some(o) = out.as_object_mut() {
        o.remove("_umounted");
    }
    out
}

fn run_job_inner(args: &Args, job: &Value, seq: usize) -> Value {
    let t0 = std::time::Instant::now();
    let sb = args.work.join(format!("sb{}_{}", std::process::id(), seq));
    let _ = std::fs::remove_dir_all(&sb);
    std::fs::create_dir_all(&sb).unwrap();
    std::fs::set_permissions(&sb, std::fs::Permissions::from_mode(0o755)).unwrap();
    let mut out = json!({"id": job["id"]});
    // build the tree
    let mut objs = serde_json::Map::new();
    let mut build_errs = vec![];
    if let Some(ops) = job.get("tree").and_then(|t| t.as_array()) {
        for op in ops {
            let r = tree::apply_fsop(&sb, op);
            if r != 0 {
                build_errs.push(json!([op, r]));
            }
        }
        for op in ops {
            let rel = op[1].as_str().unwrap();
            objs.insert(rel.to_string(), tree::ident(&sb, rel));
        }
    }
    let rootrel = job.get("root").and_then(|r| r.as_str()).unwrap_or("726f6f74"); // "root"
    objs.insert(rootrel.to_string(), tree::ident(&sb, rootrel));
    out["objs"] = Value::Object(objs);
    if !build_errs.is_empty() {
        out["build_errs"] = json!(build_errs);
    }
    let rootpath = tree::join(&sb, rootrel);
    {
        use std::os::unix::ffi::OsStrExt;
        out["rootpath"] = json!(hex(rootpath.as_os_str().as_bytes()));
    }
    let op = job["op"].clone();
    if let Some(uid) = job.get("as_uid").and_then(|u| u.as_u64()) {
        // run the call (library or raw kernel oracle) on a thread whose effective/fs uid is `uid`
        // (raw setresuid is per-thread on Linux); untraced: the supervisor would execute calls as root
        let rflags = job.get("rflags").and_then(|r| r.as_u64()).unwrap_or(0);
        let op2 = op.clone();
        let rp = rootpath.clone();
        let h = std::thread::spawn(move || -> Value {
            let root = if op2["k"].as_str() == Some("raw_openat2") {
                None
            } else {
                match Root::open(&rp) {
                    Ok(r) => Some(r.with_resolver_flags(ResolverFlags::from_bits_retain(rflags))),
                    Err(e) => return json!({"setup_err": e.to_string()}),
                }
            };
            unsafe {
                if libc::syscall(libc::SYS_setresuid, -1i64, uid as i64, -1i64) != 0 {
                    return json!({"setup_err": "setresuid failed"});
                }
            }
            if op2["k"].as_str() == Some("raw_openat2") {
                return raw_openat2(&rp, &op2);
            }
            let r = std::panic::catch_unwind(std::panic::AssertUnwindSafe(|| run_rust(root.as_ref().unwrap(), None, None, &op2)));
            match r {
                Ok(oc) => {
                    let v = outcome_json(&oc);
                    if let Outcome::Fd(fd) = oc {
                        unsafe { libc::close(fd) };
                    }
                    v
                }
                Err(_) => json!({"panic": "thread"}),
            }
        });
        out["res"] = h.join().unwrap_or(json!({"panic": "join"}));
        let _ = std::process::Command::new("chmod").arg("-R").arg("u+rwx").arg(&sb).status();
        let _ = std::fs::remove_dir_all(&sb);
        return out;
    }
    if op["k"].as_str() == Some("concurrent") {
        // several library calls racing each other on real threads (untraced), released by a barrier
        let rflags = job.get("rflags").and_then(|r| r.as_u64()).unwrap_or(0);
        let root = match Root::open(&rootpath) {
            Ok(r) => Arc::new(r.with_resolver_flags(ResolverFlags::from_bits_retain(rflags))),
            Err(e) => {
                out["res"] = json!({"setup_err": e.to_string()});
                let _ = std::fs::remove_dir_all(&sb);
                return out;
            }
        };
        let ops: Vec<Value> = op["ops"].as_array().cloned().unwrap_or_default();
        out["snap_before"] = json!(tree::snapshot(&sb));
        let barrier = Arc::new(std::sync::Barrier::new(ops.len()));
        let mut hs = vec![];
        for o in ops {
            let root = root.clone();
            let barrier = barrier.clone();
            hs.push(std::thread::spawn(move || {
                barrier.wait();
                let r = std::panic::catch_unwind(std::panic::AssertUnwindSafe(|| run_rust(&root, None, None, &o)));
                match r {
                    Ok(oc) => {
                        let v = outcome_json(&oc);
                        if let Outcome::Fd(fd) = oc {
                            unsafe { libc::close(fd) };
                        }
                        v
                    }
                    Err(_) => json!({"panic": "thread"}),
                }
            }));
        }
        let outs: Vec<Value> = hs.into_iter().map(|h| h.join().unwrap_or(json!({"panic": "join"}))).collect();
        out["res"] = json!({"outs": outs});
        out["snap_after"] = json!(tree::snapshot(&sb));
        if let Some(prs) = job.get("post_raws").and_then(|p| p.as_array()) {
            out["post_raws"] = json!(prs.iter().map(|pr| raw_openat2(&rootpath, pr)).collect::<Vec<_>>());
        }
        drop(root);
        let _ = std::process::Command::new("chmod").arg("-R").arg("u+rwx").arg(&sb).status();
        let _ = std::fs::remove_dir_all(&sb);
        return out;
    }
    if op["k"].as_str() == Some("raw_openat2") {
        // the kernel's own answer: openat2(root, path, {flags, resolve}) issued directly (oracle of C01/C04)
        out["res"] = raw_openat2(&rootpath, &op);
        let _ = std::process::Command::new("chmod").arg("-R").arg("u+rwx").arg(&sb).status();
        let _ = std::fs::remove_dir_all(&sb);
        return out;
    }
    if op["k"].as_str() == Some("path_eq") {
        // std::path::Path equality of pairs of byte strings (what check_current's PathBuf comparison uses)
        use std::os::unix::ffi::OsStrExt;
        let mut v = vec![];
        for pr in op["pairs"].as_array().cloned().unwrap_or_default() {
            let a = unhex(pr[0].as_str().unwrap_or(""));
            let b = unhex(pr[1].as_str().unwrap_or(""));
            let pa = std::path::Path::new(std::ffi::OsStr::from_bytes(&a));
            let pb = std::path::Path::new(std::ffi::OsStr::from_bytes(&b));
            // PathBuf::push of relative components onto a: root_path.join(".").join(c1)...
            let mut joined = pa.to_path_buf();
            for c in pr[2].as_array().cloned().unwrap_or_default() {
                joined.push(std::ffi::OsStr::from_bytes(&unhex(c.as_str().unwrap_or(""))));
            }
            v.push(json!([pa == pb, hex(joined.as_os_str().as_bytes())]));
        }
        out["res"] = json!({"eqs": v});
        let _ = std::fs::remove_dir_all(&sb);
        return out;
    }
    if op["k"].as_str() == Some("capi_errors") {
        let root = Root::open(&rootpath).expect("root");
        use std::os::unix::io::AsFd;
        out["res"] = capi::error_stress(
            root.as_fd().as_raw_fd(),
            op["threads"].as_u64().unwrap_or(4) as usize,
            op["per_thread"].as_u64().unwrap_or(50) as usize,
            op["seed"].as_u64().unwrap_or(1),
            op["flood"].as_u64().unwrap_or(0) as usize,
            op["churn"].as_u64().unwrap_or(0) as usize,
        );
        drop(root);
        let _ = std::fs::remove_dir_all(&sb);
        return out;
    }
    if op["k"].as_str() == Some("reopen_ofd") {
        out["res"] = reopen_ofd(&rootpath, &op);
        let _ = std::fs::remove_dir_all(&sb);
        return out;
    }
    if op["k"].as_str() == Some("reopen_unshared") {
        out["res"] = reopen_unshared(&rootpath, &sb, &op);
        let _ = std::fs::remove_dir_all(&sb);
        return out;
    }
    let api = job.get("api").and_then(|a| a.as_str()).unwrap_or("rust").to_string();
    let rflags = job.get("rflags").and_then(|r| r.as_u64()).unwrap_or(0);
    let snap = job.get("snap").and_then(|s| s.as_str()).unwrap_or("none").to_string();
    let want_trace = job.get("trace").and_then(|t| t.as_bool()).unwrap_or(true);
    let k = op["k"].as_str().unwrap_or("").to_string();

    // objects opened outside the traced region
    let needs_root = !k.starts_with("proc") || k == "proc_fd_path";
    let root: Option<Arc<Root>> = if needs_root {
        match Root::open(&rootpath) {
            Ok(r) => Some(Arc::new(r.with_resolver_flags(ResolverFlags::from_bits_retain(rflags)))),
            Err(e) => {
                out["res"] = json!({"setup_err": e.to_string()});
                let _ = std::fs::remove_dir_all(&sb);
                return out;
            }
        }
    } else {
        None
    };
    // reopen: resolve the handle first (untraced), optionally move it to a given fd number,
    // then apply the history.
    let mut handle: Option<Arc<Handle>> = None;
    let mut restore_fd: Option<(i32, i32)> = None;
    if k == "reopen" || k == "proc_fd_path" {
        let r = root.as_ref().unwrap();
        let p = bpath(&op, "path");
        let h = if op["nofollow"].as_bool().unwrap_or(false) { r.resolve_nofollow(&p) } else { r.resolve(&p) };
        match h {
            Ok(h) => {
                let mut ofd: OwnedFd = h.into();
                if let Some(want) = op.get("fdnum").and_then(|n| n.as_i64()) {
                    let want = want as i32;
                    unsafe {
                        // free the target number if it is in use by moving the occupant away
                        let saved = libc::fcntl(want, libc::F_DUPFD_CLOEXEC, 700);
                        if libc::dup3(ofd.as_raw_fd(), want, libc::O_CLOEXEC) >= 0 {
                            drop(ofd);
                            ofd = OwnedFd::from_raw_fd(want);
                        }
                        out["saved_fd"] = json!(saved);
                        restore_fd = Some((saved, want));
                    }
                }
                out["handle"] = describe_fd(ofd.as_raw_fd());
                handle = Some(Arc::new(Handle::from_fd(ofd)));
            }
            Err(e) => {
                out["res"] = json!({"setup_err": e.to_string()});
                let _ = std::fs::remove_dir_all(&sb);
                return out;
            }
        }
        if let Some(hist) = op.get("history").and_then(|h| h.as_array()) {
            let mut log = vec![];
            for hop in hist {
                log.push(json!([hop, tree::apply_fsop(&sb, hop)]));
            }
            out["history_log"] = json!(log);
        }
    }
    // over-mounts that must already be in place when the procfs handle is constructed
    let mut early_mount_log = vec![];
    if let Some(ms) = job.get("premount_early").and_then(|m| m.as_array()) {
        for m in ms {
            early_mount_log.push(json!([m, tree::apply_fsop(&sb, m)]));
        }
    }
    if !early_mount_log.is_empty() {
        out["early_mount_log"] = json!(early_mount_log);
    }
    let procfs: Option<Arc<ProcfsHandle>> = if k.starts_with("proc_") {
        // the handle is built inside a traced region so that its descriptor,
        // mount id and subset flag can be read off the trace (model parameter)
        let hk = job.get("handle").and_then(|h| h.as_str()).unwrap_or("new").to_string();
        let hdeny: Vec<i64> = {
            let mut d = args.deny.clone();
            if let Some(extra) = job.get("handle_deny").and_then(|h| h.as_array()) {
                for n in extra {
                    match n.as_str().unwrap_or("") {
                        "fsopen" => d.push(libc::SYS_fsopen),
                        "open_tree" => d.push(libc::SYS_open_tree),
                        "statx" => d.push(libc::SYS_statx),
                        _ => {}
                    }
                }
            }
            d
        };
        let (res, htrace) = sup::traced(
            move || match hk.as_str() {
                "unsafe_open" => std::fs::File::open("/proc")
                    .map_err(|e| e.to_string())
                    .and_then(|f| ProcfsHandle::try_from_fd(f).map_err(|e| e.to_string())),
                _ => ProcfsHandle::new().map_err(|e| e.to_string()),
            },
            |_i, nr, _a, _ev| {
                if hdeny.contains(&nr) {
                    Verdict::Inject(libc::ENOSYS)
                } else {
                    Verdict::Execute
                }
            },
        );
        out["handle_trace"] = json!(htrace.events);
        match res {
            Ok(Ok(h)) => Some(Arc::new(h)),
            Ok(Err(e)) => {
                out["res"] = json!({"setup_err": e});
                let _ = std::fs::remove_dir_all(&sb);
                return out;
            }
            Err(_) => {
                out["res"] = json!({"setup_err": "panic building procfs handle"});
                let _ = std::fs::remove_dir_all(&sb);
                return out;
            }
        }
    } else {
        None
    };

    // over-mounts placed before the call (removed again afterwards)
    let mut mount_log = vec![];
    if let Some(ms) = job.get("premount").and_then(|m| m.as_array()) {
        for m in ms {
            mount_log.push(json!([m, tree::apply_fsop(&sb, m)]));
        }
    }
    let snapdir = match snap.as_str() {
        "root" => Some(rootpath.clone()),
        "all" => Some(sb.clone()),
        _ => None,
    };
    if let Some(d) = &snapdir {
        out["snap_before"] = json!(tree::snapshot(d));
    }
    // optionally make descriptor 0 the lowest free number for the library
    let mut saved0 = -1;
    if job.get("free_fd0").and_then(|b| b.as_bool()).unwrap_or(false) {
        unsafe {
            saved0 = libc::fcntl(0, libc::F_DUPFD_CLOEXEC, 850);
            if saved0 >= 0 {
                libc::close(0);
            }
        }
    }
    let fds_before = tree::fd_table(&[]);
    let mut mon = PolicyMon::new(&args.deny, job.get("policy").unwrap_or(&Value::Null), &sb);
    let root2 = root.clone();
    let handle2 = handle.clone();
    let procfs2 = procfs.clone();
    let op2 = op.clone();
    let root_fd = root.as_ref().map(|r| {
        use std::os::unix::io::AsFd;
        r.as_fd().as_raw_fd()
    });
    let handle_fd = handle.as_ref().map(|h| {
        use std::os::unix::io::AsFd;
        h.as_fd().as_raw_fd()
    });
    let api_is_c = api == "c";
    let (res, trace) = sup::traced(
        move || {
            if api_is_c {
                capi::run_c(root_fd, handle_fd, &op2)
            } else {
                run_rust(
                    root2.as_deref().unwrap_or_else(|| unreachable_root()),
                    handle2.as_deref(),
                    procfs2.as_deref(),
                    &op2,
                )
            }
        },
        |i, nr, a, ev| mon.on_call(i, nr, a, ev),
    );
    let fds_after = tree::fd_table(&[]);
    out["fds_before"] = json!(fds_before);
    out["fds_after"] = json!(fds_after);
    if let Some(fd) = root_fd {
        out["root_fd"] = json!(fd);
    }
    match res {
        Ok(o) => {
            out["res"] = outcome_json(&o);
            if let Outcome::Fd(fd) = o {
                if job.get("read").and_then(|b| b.as_bool()).unwrap_or(false) {
                    let mut buf = vec![0u8; 512];
                    let n = unsafe { libc::pread(fd, buf.as_mut_ptr() as *mut libc::c_void, buf.len(), 0) };
                    if n >= 0 {
                        out["content"] = json!(hex(&buf[..n as usize]));
                    } else {
                        out["content_errno"] = json!(std::io::Error::last_os_error().raw_os_error().unwrap_or(0));
                    }
                    let names = tree::dir_names(fd);
                    if let Some(ns) = names {
                        out["dir_entries"] = json!(ns);
                    }
                }
                unsafe { libc::close(fd) };
            }
        }
        Err(p) => {
            let msg = if let Some(s) = p.downcast_ref::<String>() {
                s.clone()
            } else if let Some(s) = p.downcast_ref::<&str>() {
                s.to_string()
            } else {
                "<panic>".to_string()
            };
            out["res"] = json!({"panic": msg});
        }
    }
    // stdin goes back to descriptor 0 (after a returned descriptor 0 was described and closed above)
    if saved0 >= 0 {
        unsafe {
            libc::dup3(saved0, 0, 0);
            libc::close(saved0);
        }
    }
    // reopen: the kernel's own answer for the same request (raw open of the magic-link)
    if k == "reopen" {
        let rawfl = op["flags"].as_i64().unwrap_or(0) as i32;
        let creation = rawfl & (libc::O_CREAT | libc::O_EXCL) != 0 || rawfl & libc::O_TMPFILE == libc::O_TMPFILE;
        if let (Some(hfd), false) = (handle_fd, creation) {
            let flags = (op["flags"].as_i64().unwrap_or(0) as i32 & !libc::O_NOFOLLOW) | libc::O_CLOEXEC | libc::O_NOCTTY;
            let p = std::ffi::CString::new(format!("/proc/self/fd/{hfd}")).unwrap();
            let fd = unsafe { libc::open(p.as_ptr(), flags) };
            if fd >= 0 {
                out["oracle"] = json!({"ok": describe_fd(fd)});
                unsafe { libc::close(fd) };
            } else {
                out["oracle"] = json!({"errno": std::io::Error::last_os_error().raw_os_error().unwrap_or(0)});
            }
        }
    }
    if let Some(r) = mon.runaway {
        // the operation kept issuing calls for as long as the fault lasted
        out["runaway"] = json!({"calls_when_the_fault_was_lifted": r, "calls_in_all": trace.events.len()});
        out["trace"] = json!(trace.events.iter().take(200).collect::<Vec<_>>());
    } else if want_trace {
        out["trace"] = json!(trace.events);
    } else {
        out["ncalls"] = json!(trace.events.len());
    }
    if !mon.attack_log.is_empty() {
        out["attack_log"] = json!(mon.attack_log);
    }
    if let Some(d) = &snapdir {
        out["snap_after"] = json!(tree::snapshot(d));
    }
    // the kernel's resolution of a path in the tree as the operation left it
    if let Some(pr) = job.get("post_raw") {
        out["post_raw"] = raw_openat2(&rootpath, pr);
    }
    if let Some(ms) = job.get("postumount").and_then(|m| m.as_array()) {
        for m in ms {
            mount_log.push(json!([m, tree::apply_fsop(&sb, m)]));
        }
    }
    if !mount_log.is_empty() {
        out["mount_log"] = json!(mount_log);
    }
    out["_umounted"] = json!(true);
    drop(root);
    drop(handle);
    drop(procfs);
    // put the original occupant of a borrowed descriptor number back
    if let Some((saved, want)) = restore_fd {
        if saved >= 0 {
            unsafe {
                libc::dup3(saved, want, 0);
                libc::close(saved);
            }
        }
    }
    // make everything removable again
    let _ = std::process::Command::new("chmod").arg("-R").arg("u+rwx").arg(&sb).status();
    let _ = std::fs::remove_dir_all(&sb);
    out["wall_ms"] = json!(t0.elapsed().as_millis() as u64);
    out
}

/// reopen from a thread with a private descriptor table (unshare(CLONE_FILES)):
/// the thread-group leader holds a decoy file at the same descriptor number.
/// Not traced (the supervisor shares the leader's table, not the worker's).
/// "a NEW open file description": a handle made from an ordinary descriptor (opened with `hflags`) is reopened with `flags`;
/// reading from the result must not move the handle's file offset, and changing the result's status flags must not change the
/// handle's.  (An O_PATH description has neither, which is why handles from resolve() cannot show the difference.)
fn reopen_ofd(rootpath: &Path, op: &Value) -> Value {
    let p = rootpath.join(OsStr::from_bytes(&unhex(op["path"].as_str().unwrap_or(""))));
    let hflags = op["hflags"].as_i64().unwrap_or(0) as i32;
    let flags = op["flags"].as_i64().unwrap_or(0) as i32;
    let cp = std::ffi::CString::new(p.as_os_str().as_bytes()).unwrap();
    let hfd = unsafe { libc::open(cp.as_ptr(), hflags | libc::O_CLOEXEC) };
    if hfd < 0 {
        return json!({"setup_err": format!("open: {}", std::io::Error::last_os_error())});
    }
    let h = Handle::from_fd(unsafe { OwnedFd::from_raw_fd(hfd) });
    let r = match h.reopen(OpenFlags::from_bits_retain(flags)) {
        Ok(f) => f,
        Err(e) => return json!({"err": {"kind": format!("{:?}", e.kind())}}),
    };
    let nfd = r.as_raw_fd();
    unsafe {
        let same_inode = {
            let mut a: libc::stat = std::mem::zeroed();
            let mut b: libc::stat = std::mem::zeroed();
            libc::fstat(hfd, &mut a) == 0 && libc::fstat(nfd, &mut b) == 0 && a.st_dev == b.st_dev && a.st_ino == b.st_ino
        };
        let before = libc::lseek(hfd, 0, libc::SEEK_CUR);
        let moved_new = libc::lseek(nfd, 3, libc::SEEK_SET);
        let after = libc::lseek(hfd, 0, libc::SEEK_CUR);
        let fl_before = libc::fcntl(hfd, libc::F_GETFL);
        let nfl = libc::fcntl(nfd, libc::F_GETFL);
        let set = libc::fcntl(nfd, libc::F_SETFL, nfl ^ libc::O_NONBLOCK);
        let fl_after = libc::fcntl(hfd, libc::F_GETFL);
        json!({"ok": true, "same_inode": same_inode, "handle_offset_before": before, "new_offset_set_to": moved_new,
               "handle_offset_after": after, "handle_getfl_before": fl_before, "handle_getfl_after": fl_after, "setfl_rc": set,
               "new_getfl": nfl})
    }
}

fn reopen_unshared(rootpath: &Path, sb: &Path, op: &Value) -> Value {
    let rootpath = rootpath.to_path_buf();
    let decoy_path = sb.join("decoy_for_leader");
    std::fs::write(&decoy_path, b"DECOY").unwrap();
    let p = bpath(op, "path");
    let flags = op["flags"].as_i64().unwrap_or(0) as i32;
    let (tx, rx) = std::sync::mpsc::channel::<i32>();
    let (tx2, rx2) = std::sync::mpsc::channel::<()>();
    let th = std::thread::spawn(move || -> Value {
        unsafe {
            if libc::unshare(libc::CLONE_FILES) != 0 {
                return json!({"setup_err": "unshare(CLONE_FILES) failed"});
            }
        }
        let root = match Root::open(&rootpath) {
            Ok(r) => r,
            Err(e) => return json!({"setup_err": e.to_string()}),
        };
        let h = match root.resolve(&p) {
            Ok(h) => h,
            Err(e) => return json!({"setup_err": e.to_string()}),
        };
        use std::os::unix::io::AsFd;
        let hfd = h.as_fd().as_raw_fd();
        let hd = describe_fd(hfd);
        tx.send(hfd).unwrap();
        rx2.recv().unwrap();
        let r = match h.reopen(OpenFlags::from_bits_retain(flags)) {
            Ok(f) => {
                let fd: OwnedFd = f.into();
                json!({"ok": describe_fd(fd.as_raw_fd())})
            }
            Err(e) => outcome_json(&err_outcome(e)),
        };
        json!({"handle": hd, "res": r})
    });
    // leader: put a decoy at the same number in ITS table
    let mut decoy_fd = -1;
    if let Ok(hfd) = rx.recv() {
        unsafe {
            let c = tree::cpath(&decoy_path);
            let d = libc::open(c.as_ptr(), libc::O_RDONLY | libc::O_CLOEXEC);
            if d >= 0 {
                let saved = libc::fcntl(hfd, libc::F_DUPFD_CLOEXEC, 800);
                libc::dup3(d, hfd, libc::O_CLOEXEC);
                libc::close(d);
                decoy_fd = hfd;
                let _ = tx2.send(());
                let v = th.join().unwrap_or(json!({"panic": "thread"}));
                // restore
                if saved >= 0 {
                    libc::dup3(saved, hfd, libc::O_CLOEXEC);
                    libc::close(saved);
                } else {
                    libc::close(hfd);
                }
                let mut v = v;
                v["decoy_fd"] = json!(decoy_fd);
                return v;
            }
        }
        let _ = tx2.send(());
    }
    th.join().unwrap_or(json!({"panic": "thread"}))
}

#[repr(C)]
struct RawOpenHow {
    flags: u64,
    mode: u64,
    resolve: u64,
}

fn raw_openat2(rootpath: &Path, op: &Value) -> Value {
    let c = tree::cpath(rootpath);
    let rootfd = unsafe { libc::open(c.as_ptr(), libc::O_PATH | libc::O_DIRECTORY | libc::O_CLOEXEC) };
    if rootfd < 0 {
        return json!({"setup_err": "open root"});
    }
    let pb = unhex(op["path"].as_str().unwrap_or(""));
    let r = if pb.contains(&0) {
        json!({"setup_err": "NUL in path"})
    } else {
        let p = std::ffi::CString::new(pb).unwrap();
        let how = RawOpenHow {
            flags: op["flags"].as_u64().unwrap_or(0) | libc::O_CLOEXEC as u64,
            mode: 0,
            resolve: op["resolve"].as_u64().unwrap_or(0),
        };
        // the oracle's own call: EAGAIN only says that some rename or mount happened anywhere on the
        // system while the kernel was walking (other shards of the check run concurrently) -- ask again
        let mut fd;
        let mut tries = 0;
        loop {
            fd = unsafe {
                libc::syscall(libc::SYS_openat2, rootfd, p.as_ptr(), &how as *const RawOpenHow, std::mem::size_of::<RawOpenHow>())
            };
            tries += 1;
            if fd >= 0 || std::io::Error::last_os_error().raw_os_error() != Some(libc::EAGAIN) || tries >= 256 {
                break;
            }
        }
        if fd >= 0 {
            let d = describe_fd(fd as i32);
            unsafe { libc::close(fd as i32) };
            json!({"ok": d})
        } else {
            json!({"err": {"kind": "OsError", "errno": std::io::Error::last_os_error().raw_os_error().unwrap_or(0), "desc": "raw openat2"}})
        }
    };
    unsafe { libc::close(rootfd) };
    r
}

fn unreachable_root() -> &'static Root {
    // proc_* operations do not use a root; give them a harmless one
    static R: std::sync::OnceLock<Root> = std::sync::OnceLock::new();
    R.get_or_init(|| Root::open("/").unwrap())
}

fn main() {
    let mut args = parse_args();
    std::fs::create_dir_all(&args.work).unwrap();
    let _ = std::fs::set_permissions(&args.work, std::fs::Permissions::from_mode(0o755));
    // the process' current directory is a scratch directory of its own: whatever a (broken) library does relative to
    // AT_FDCWD lands there and not in the checker's tree
    {
        // (one directory for all driver processes: its name shows up in /proc/self/cwd, which some jobs read)
        let cwd = args.work.join("cwd");
        let _ = std::fs::create_dir_all(&cwd);
        let _ = std::fs::set_permissions(&cwd, std::fs::Permissions::from_mode(0o777));
        // (the job and result paths are given as absolute paths by the checker; relative ones are resolved first)
        args.job = std::fs::canonicalize(&args.job).unwrap_or(args.job.clone());
        if let Some(parent) = args.out.parent() {
            if let Ok(p) = std::fs::canonicalize(if parent.as_os_str().is_empty() { Path::new(".") } else { parent }) {
                args.out = p.join(args.out.file_name().unwrap());
            }
        }
        let _ = std::env::set_current_dir(&cwd);
    }
    // job and result files are opened before privileges are dropped
    let f = std::fs::File::open(&args.job).expect("open job file");
    let mut outf = std::io::BufWriter::new(std::fs::File::create(&args.out).expect("create out file"));
    if args.newns {
        // private mount namespace: over-mounts made by the jobs stay in this process
        unsafe {
            if libc::unshare(libc::CLONE_NEWNS) != 0
                || libc::mount(std::ptr::null(), b"/\0".as_ptr() as *const libc::c_char, std::ptr::null(), libc::MS_REC | libc::MS_PRIVATE, std::ptr::null()) != 0
            {
                panic!("cannot create a private mount namespace");
            }
            if let Some(opts) = &args.proc_opts {
                // a fresh procfs instance with the given options replaces /proc in this namespace
                let o = std::ffi::CString::new(opts.as_str()).unwrap();
                if libc::mount(b"proc\0".as_ptr() as *const libc::c_char, b"/proc\0".as_ptr() as *const libc::c_char,
                               b"proc\0".as_ptr() as *const libc::c_char, 0, o.as_ptr() as *const libc::c_void) != 0 {
                    panic!("cannot mount procfs with options {opts}");
                }
            }
        }
    }
    if let Some(uid) = args.uid {
        // an unprivileged caller gets a work directory of its own
        let w = args.work.join(format!("u{uid}"));
        std::fs::create_dir_all(&w).unwrap();
        let _ = std::os::unix::fs::chown(&w, Some(uid), Some(uid));
        args.work = w;
        unsafe {
            libc::setgroups(0, std::ptr::null());
            if libc::setgid(uid) != 0 || libc::setuid(uid) != 0 {
                panic!("setuid failed");
            }
        }
    }
    // quiet panics: they are reported in the result
    std::panic::set_hook(Box::new(|_| {}));
    // Warm-up under the supervisor with this process' deny policy: the
    // library's lazily initialised globals (openat2 support, default backend,
    // global procfs handle, rename-flags probe, sysctl cache) are set here,
    // inside a traced region, so that they see the denied features.
    {
        let deny = args.deny.clone();
        let warm_fault = args.warm_fault;
        let mut warm_count = 0usize;
        let warmdir = args.work.join(format!("warm_{}", std::process::id()));
        let _ = std::fs::create_dir_all(&warmdir);
        let _ = std::os::unix::fs::symlink(".", warmdir.join("l"));
        let warmdir2 = warmdir.clone();
        let (res, trace) = sup::traced(
            move || {
                // traverse one symlink so that the emulated resolver caches fs.protected_symlinks
                let wroot = Root::open(&warmdir2).map_err(|e| e.to_string())?;
                let _ = wroot.resolve("l").map_err(|e| e.to_string())?;
                drop(wroot);
                let root = Root::open("/").map_err(|e| e.to_string())?;
                let h = root.resolve("etc/../.").map_err(|e| e.to_string())?;
                let f = h.reopen(OpenFlags::O_RDONLY | OpenFlags::O_DIRECTORY).map_err(|e| e.to_string())?;
                drop(f);
                let _ = root.rename("/nonexistent-warmup-a", "/nonexistent-warmup-b", RenameFlags::RENAME_NOREPLACE);
                Ok::<(), String>(())
            },
            |_i, nr, _a, ev| {
                if deny.contains(&nr) {
                    return Verdict::Inject(libc::ENOSYS);
                }
                // cold-start fault: the n-th fallible call of the first-use initialisation fails
                if let Some((at, errno, sticky)) = warm_fault {
                    let name = sup::sysname(nr);
                    let never = matches!(name, "gettid" | "geteuid" | "close")
                        || (name == "fcntl" && ev["cmd"].as_u64() == Some(1));
                    // sticky = descriptor exhaustion: only descriptor-creating calls fail
                    let eligible = !sticky
                        || matches!(name, "openat" | "openat2" | "fsopen" | "fsmount" | "open_tree")
                        || (name == "fcntl" && ev["cmd"].as_u64() == Some(1030));
                    if !never && eligible {
                        let c = warm_count;
                        warm_count += 1;
                        if c == at || (sticky && c > at) {
                            return Verdict::Inject(errno);
                        }
                    }
                }
                Verdict::Execute
            },
        );
        let r = match res {
            Ok(Ok(())) => json!({"unit": true}),
            Ok(Err(e)) => json!({"setup_err": e}),
            Err(p) => {
                let msg = if let Some(s) = p.downcast_ref::<String>() {
                    s.clone()
                } else if let Some(s) = p.downcast_ref::<&str>() {
                    s.to_string()
                } else {
                    "<panic>".to_string()
                };
                json!({"panic": msg})
            }
        };
        let _ = std::fs::remove_dir_all(&warmdir);
        // After a warm-up that was disturbed by a single injected fault, a second, undisturbed one: whatever the first one did
        // not get to initialise (it may have stopped at the failing call) is initialised here, still under the supervisor and
        // its deny policy -- the jobs' own set-up runs outside any traced region and would otherwise let the library's feature
        // probes see the real kernel.  What the first warm-up did initialise (possibly from a failed call) stays as it is.
        if let Some((_, _, false)) = args.warm_fault {
            let deny2 = args.deny.clone();
            let warmdir3 = args.work.join(format!("warm2_{}", std::process::id()));
            let _ = std::fs::create_dir_all(&warmdir3);
            let _ = std::os::unix::fs::symlink(".", warmdir3.join("l"));
            let warmdir4 = warmdir3.clone();
            let _ = sup::traced(
                move || {
                    if let Ok(wroot) = Root::open(&warmdir4) {
                        let _ = wroot.resolve("l");
                    }
                    if let Ok(root) = Root::open("/") {
                        if let Ok(h) = root.resolve("etc/../.") {
                            let _ = h.reopen(OpenFlags::O_RDONLY | OpenFlags::O_DIRECTORY);
                        }
                        let _ = root.rename("/nonexistent-warmup-a", "/nonexistent-warmup-b", RenameFlags::RENAME_NOREPLACE);
                    }
                },
                |_i, nr, _a, _ev| if deny2.contains(&nr) { Verdict::Inject(libc::ENOSYS) } else { Verdict::Execute },
            );
            let _ = std::fs::remove_dir_all(&warmdir3);
        }
        writeln!(outf, "{}", json!({"id": "warmup", "res": r, "trace": trace.events,
                                    "fds_after": tree::fd_table(&[])})).unwrap();
    }
    // the placeholder root used by proc_* jobs is opened outside the jobs' traced regions
    // (but after the warm-up, so that feature detection has seen the denied calls)
    let _ = unreachable_root();
    for (seq, line) in std::io::BufReader::new(f).lines().enumerate() {
        let line = line.unwrap();
        if line.trim().is_empty() {
            continue;
        }
        let job: Value = serde_json::from_str(&line).expect("job json");
        let res = run_job(&args, &job, seq);
        writeln!(outf, "{}", res).unwrap();
    }
    outf.flush().unwrap();
}
