//! Sandbox trees: building from a list of creation operations, snapshots, fd listings.

use crate::sup::{hex, unhex};
use serde_json::{json, Value};
use std::ffi::{CString, OsStr, OsString};
use std::os::unix::ffi::{OsStrExt, OsStringExt};
use std::path::{Path, PathBuf};

pub fn cpath(p: &Path) -> CString {
    CString::new(p.as_os_str().as_bytes()).unwrap()
}

pub fn join(sb: &Path, rel_hex: &str) -> PathBuf {
    let rel = unhex(rel_hex);
    sb.join(OsStr::from_bytes(&rel))
}

fn errno() -> i32 {
    std::io::Error::last_os_error().raw_os_error().unwrap_or(0)
}

/// Apply one file-system operation (used for tree building, attacker actions
/// and histories).  Paths are hex-encoded and relative to the sandbox dir.
/// Returns 0 or -errno.
pub fn apply_fsop(sb: &Path, op: &Value) -> i64 {
    let a = op.as_array().expect("fsop must be an array");
    let kind = a[0].as_str().unwrap();
    let p = |i: usize| cpath(&join(sb, a[i].as_str().unwrap()));
    let r: i64 = unsafe {
        match kind {
            "dir" => libc::mkdir(p(1).as_ptr(), a[2].as_u64().unwrap_or(0o755) as u32) as i64,
            "file" => {
                let fd = libc::open(
                    p(1).as_ptr(),
                    libc::O_CREAT | libc::O_WRONLY | libc::O_TRUNC | libc::O_NOFOLLOW | libc::O_CLOEXEC,
                    a.get(3).and_then(|m| m.as_u64()).unwrap_or(0o644) as libc::c_uint,
                );
                if fd < 0 {
                    -1
                } else {
                    let content = unhex(a[2].as_str().unwrap_or(""));
                    libc::write(fd, content.as_ptr() as *const libc::c_void, content.len());
                    libc::close(fd);
                    0
                }
            }
            "symlink" => {
                // ["symlink", path, target]  (target is raw bytes, not sandbox-relative)
                let target = CString::new(unhex(a[2].as_str().unwrap())).unwrap();
                libc::symlink(target.as_ptr(), p(1).as_ptr()) as i64
            }
            "fifo" => libc::mkfifo(p(1).as_ptr(), a.get(2).and_then(|m| m.as_u64()).unwrap_or(0o644) as u32) as i64,
            "sock" => libc::mknod(p(1).as_ptr(), libc::S_IFSOCK | 0o644, 0) as i64,
            "chr" => libc::mknod(p(1).as_ptr(), libc::S_IFCHR | 0o666, libc::makedev(1, 3)) as i64,
            "hardlink" => libc::link(p(2).as_ptr(), p(1).as_ptr()) as i64,
            "chown" => libc::lchown(p(1).as_ptr(), a[2].as_u64().unwrap() as u32, a[3].as_u64().unwrap() as u32) as i64,
            "chmod" => libc::chmod(p(1).as_ptr(), a[2].as_u64().unwrap() as u32) as i64,
            "rename" => libc::rename(p(1).as_ptr(), p(2).as_ptr()) as i64,
            "exchange" => libc::syscall(
                libc::SYS_renameat2,
                libc::AT_FDCWD,
                p(1).as_ptr(),
                libc::AT_FDCWD,
                p(2).as_ptr(),
                libc::RENAME_EXCHANGE,
            ) as i64,
            "unlink" => libc::unlink(p(1).as_ptr()) as i64,
            "rmdir" => libc::rmdir(p(1).as_ptr()) as i64,
            // mount operations (private mount namespace only); paths are absolute (hex)
            "mount_tmpfs" => {
                let t = CString::new(unhex(a[1].as_str().unwrap())).unwrap();
                libc::mount(b"tmpfs\0".as_ptr() as *const libc::c_char, t.as_ptr(), b"tmpfs\0".as_ptr() as *const libc::c_char, 0, std::ptr::null()) as i64
            }
            "mount_bind" => {
                let src = CString::new(unhex(a[1].as_str().unwrap())).unwrap();
                let t = CString::new(unhex(a[2].as_str().unwrap())).unwrap();
                libc::mount(src.as_ptr(), t.as_ptr(), std::ptr::null(), libc::MS_BIND, std::ptr::null()) as i64
            }
            "mount_bind_nofollow" => {
                // open_tree(src, CLONE) + move_mount onto the target WITHOUT following a trailing (magic-)link:
                // this is how a symlink itself gets over-mounted
                let src = CString::new(unhex(a[1].as_str().unwrap())).unwrap();
                let t = CString::new(unhex(a[2].as_str().unwrap())).unwrap();
                let tfd = libc::syscall(libc::SYS_open_tree, libc::AT_FDCWD, src.as_ptr(),
                                       1 /* OPEN_TREE_CLONE */ | libc::O_CLOEXEC | libc::AT_SYMLINK_NOFOLLOW /* a symlink source is cloned itself */);
                if tfd < 0 {
                    -1
                } else {
                    let r = libc::syscall(libc::SYS_move_mount, tfd, b"\0".as_ptr(), libc::AT_FDCWD, t.as_ptr(), 4 /* MOVE_MOUNT_F_EMPTY_PATH */);
                    let e = errno();
                    libc::close(tfd as i32);
                    if r < 0 {
                        *libc::__errno_location() = e;
                    }
                    r as i64
                }
            }
            "umount_nofollow" => {
                let t = CString::new(unhex(a[1].as_str().unwrap())).unwrap();
                libc::umount2(t.as_ptr(), libc::MNT_DETACH | libc::UMOUNT_NOFOLLOW) as i64
            }
            "umount" => {
                let t = CString::new(unhex(a[1].as_str().unwrap())).unwrap();
                libc::umount2(t.as_ptr(), libc::MNT_DETACH) as i64
            }
            // a directory chain deeper than PATH_MAX below sandbox-relative a[1]: [kind, base, levels, complen, ...]
            "deepdir" => {
                let fd = deep_fd(sb, a[1].as_str().unwrap(), a[2].as_u64().unwrap(), a[3].as_u64().unwrap(), true);
                if fd >= 0 { libc::close(fd); 0 } else { -1 }
            }
            // ["rename_into_deep", src, base, levels, complen, newname] / ["rename_from_deep", base, levels, complen, name, dst]
            "rename_into_deep" => {
                let fd = deep_fd(sb, a[2].as_str().unwrap(), a[3].as_u64().unwrap(), a[4].as_u64().unwrap(), false);
                if fd < 0 { -1 } else {
                    let nn = CString::new(unhex(a[5].as_str().unwrap())).unwrap();
                    let r = libc::renameat(libc::AT_FDCWD, p(1).as_ptr(), fd, nn.as_ptr()) as i64;
                    let e = errno();
                    libc::close(fd);
                    if r < 0 { *libc::__errno_location() = e; }
                    r
                }
            }
            "rename_from_deep" => {
                let fd = deep_fd(sb, a[1].as_str().unwrap(), a[2].as_u64().unwrap(), a[3].as_u64().unwrap(), false);
                if fd < 0 { -1 } else {
                    let nn = CString::new(unhex(a[4].as_str().unwrap())).unwrap();
                    let r = libc::renameat(fd, nn.as_ptr(), libc::AT_FDCWD, p(5).as_ptr()) as i64;
                    let e = errno();
                    libc::close(fd);
                    if r < 0 { *libc::__errno_location() = e; }
                    r
                }
            }
            "rmtree" => {
                let _ = std::fs::remove_dir_all(join(sb, a[1].as_str().unwrap()));
                0
            }
            _ => panic!("unknown fsop {kind}"),
        }
    };
    if r < 0 {
        -(errno() as i64)
    } else {
        0
    }
}

/// lstat identity of a sandbox-relative path: [dev, ino, mode] or null.
pub fn ident(sb: &Path, rel_hex: &str) -> Value {
    let c = cpath(&join(sb, rel_hex));
    unsafe {
        let mut st: libc::stat = std::mem::zeroed();
        if libc::lstat(c.as_ptr(), &mut st) == 0 {
            json!([st.st_dev, st.st_ino, st.st_mode])
        } else {
            Value::Null
        }
    }
}

/// Recursive snapshot below `dir`: sorted list of
/// [relpath-hex, mode, uid, dev, ino, nlink, size, link-body-hex|content-hex].
pub fn snapshot(dir: &Path) -> Vec<Value> {
    // descriptor-relative walk (openat / fstatat / readlinkat on one component at a time): sees entries whose
    // absolute path is longer than PATH_MAX as well
    let mut out = Vec::new();
    fn list(dfd: i32) -> Vec<OsString> {
        let mut names = Vec::new();
        unsafe {
            let d2 = libc::openat(dfd, b".\0".as_ptr() as *const libc::c_char, libc::O_RDONLY | libc::O_DIRECTORY | libc::O_CLOEXEC);
            if d2 < 0 {
                return names;
            }
            let d = libc::fdopendir(d2);
            if d.is_null() {
                libc::close(d2);
                return names;
            }
            loop {
                let e = libc::readdir(d);
                if e.is_null() {
                    break;
                }
                let n = std::ffi::CStr::from_ptr((*e).d_name.as_ptr()).to_bytes().to_vec();
                if n != b"." && n != b".." {
                    names.push(OsString::from_vec(n));
                }
            }
            libc::closedir(d);
        }
        names.sort();
        names
    }
    fn walk(dfd: i32, rel: &Path, out: &mut Vec<Value>) {
        for n in list(dfd) {
            let r = rel.join(&n);
            let c = CString::new(n.as_bytes()).unwrap();
            let mut st: libc::stat = unsafe { std::mem::zeroed() };
            if unsafe { libc::fstatat(dfd, c.as_ptr(), &mut st, libc::AT_SYMLINK_NOFOLLOW) } != 0 {
                continue;
            }
            let fmt = st.st_mode & libc::S_IFMT;
            let extra = if fmt == libc::S_IFLNK {
                let mut buf = vec![0u8; 8192];
                let k = unsafe { libc::readlinkat(dfd, c.as_ptr(), buf.as_mut_ptr() as *mut libc::c_char, buf.len()) };
                if k >= 0 { hex(&buf[..k as usize]) } else { String::new() }
            } else if fmt == libc::S_IFREG {
                let fd = unsafe { libc::openat(dfd, c.as_ptr(), libc::O_RDONLY | libc::O_NOFOLLOW | libc::O_CLOEXEC | libc::O_NONBLOCK) };
                if fd >= 0 {
                    let mut buf = vec![0u8; 64];
                    let k = unsafe { libc::read(fd, buf.as_mut_ptr() as *mut libc::c_void, 64) };
                    unsafe { libc::close(fd) };
                    if k >= 0 { hex(&buf[..k as usize]) } else { String::new() }
                } else {
                    String::new()
                }
            } else {
                String::new()
            };
            out.push(json!([
                hex(r.as_os_str().as_bytes()),
                st.st_mode,
                st.st_uid,
                st.st_dev,
                st.st_ino,
                st.st_nlink,
                st.st_size,
                extra
            ]));
            if fmt == libc::S_IFDIR {
                let sub = unsafe { libc::openat(dfd, c.as_ptr(), libc::O_RDONLY | libc::O_DIRECTORY | libc::O_NOFOLLOW | libc::O_CLOEXEC) };
                if sub >= 0 {
                    walk(sub, &r, out);
                    unsafe { libc::close(sub) };
                }
            }
        }
    }
    let c = cpath(dir);
    let top = unsafe { libc::open(c.as_ptr(), libc::O_RDONLY | libc::O_DIRECTORY | libc::O_CLOEXEC) };
    if top >= 0 {
        walk(top, Path::new(""), &mut out);
        unsafe { libc::close(top) };
    }
    out
}

/// Descriptor of the directory `levels` levels below sandbox-relative `base`, each level named 'D' x `complen`
/// (created on the way when `create`); the absolute path of the result may be longer than PATH_MAX.
pub fn deep_fd(sb: &Path, base_hex: &str, levels: u64, complen: u64, create: bool) -> i32 {
    let name = CString::new(vec![b'D'; complen as usize]).unwrap();
    unsafe {
        let b = cpath(&join(sb, base_hex));
        if create {
            libc::mkdir(b.as_ptr(), 0o755);
        }
        let mut fd = libc::open(b.as_ptr(), libc::O_RDONLY | libc::O_DIRECTORY | libc::O_CLOEXEC);
        for _ in 0..levels {
            if fd < 0 {
                return -1;
            }
            if create {
                libc::mkdirat(fd, name.as_ptr(), 0o755);
            }
            let next = libc::openat(fd, name.as_ptr(), libc::O_RDONLY | libc::O_DIRECTORY | libc::O_NOFOLLOW | libc::O_CLOEXEC);
            libc::close(fd);
            fd = next;
        }
        fd
    }
}

/// Listing of the process' descriptor table: [fd, dev, ino, cloexec, target-hex].
pub fn fd_table(exclude: &[i32]) -> Vec<Value> {
    let mut out = Vec::new();
    let dirfd = unsafe {
        libc::open(
            b"/proc/self/fd\0".as_ptr() as *const libc::c_char,
            libc::O_RDONLY | libc::O_DIRECTORY | libc::O_CLOEXEC,
        )
    };
    if dirfd < 0 {
        return out;
    }
    let mut fds: Vec<i32> = Vec::new();
    unsafe {
        let d = libc::fdopendir(dirfd);
        loop {
            let e = libc::readdir(d);
            if e.is_null() {
                break;
            }
            let name = std::ffi::CStr::from_ptr((*e).d_name.as_ptr()).to_string_lossy().to_string();
            if let Ok(n) = name.parse::<i32>() {
                if n != dirfd && !exclude.contains(&n) {
                    fds.push(n);
                }
            }
        }
        fds.sort();
        for fd in fds {
            let mut st: libc::stat = std::mem::zeroed();
            if libc::fstat(fd, &mut st) != 0 {
                continue;
            }
            let fl = libc::fcntl(fd, libc::F_GETFD);
            let link = std::fs::read_link(format!("/proc/self/fd/{fd}"))
                .map(|t| hex(&t.into_os_string().into_vec()))
                .unwrap_or_default();
            out.push(json!([fd, st.st_dev, st.st_ino, fl & libc::FD_CLOEXEC != 0, link]));
        }
        libc::closedir(d);
    }
    out
}

/// number of entries of a directory descriptor (None if it is not a readable directory)
pub fn dir_names(fd: i32) -> Option<usize> {
    unsafe {
        let d2 = libc::openat(fd, b".\0".as_ptr() as *const libc::c_char, libc::O_RDONLY | libc::O_DIRECTORY | libc::O_CLOEXEC);
        if d2 < 0 {
            return None;
        }
        let d = libc::fdopendir(d2);
        if d.is_null() {
            libc::close(d2);
            return None;
        }
        let mut n = 0usize;
        loop {
            let e = libc::readdir(d);
            if e.is_null() {
                break;
            }
            n += 1;
        }
        libc::closedir(d);
        Some(n)
    }
}
