//! In-process seccomp user-notification supervisor.
//!
//! A worker thread installs a filter that turns every file-related system call
//! into a notification; the supervisor (the calling thread) logs the call with
//! decoded arguments, optionally lets a monitor preempt (attacker actions) or
//! inject a failure, otherwise executes the call verbatim on the worker's
//! behalf (same fd table, same address space) and logs the answer including
//! out-buffers.

use serde_json::{json, Value};
use std::sync::mpsc;

const SECCOMP_IOCTL_NOTIF_RECV: libc::c_ulong = 0xc0502100;
const SECCOMP_IOCTL_NOTIF_SEND: libc::c_ulong = 0xc0182101;
const SECCOMP_RET_USER_NOTIF: u32 = 0x7fc00000;
const SECCOMP_RET_ALLOW: u32 = 0x7fff0000;
const AUDIT_ARCH_X86_64: u32 = 0xc000003e;

pub fn hex(b: &[u8]) -> String {
    let mut s = String::with_capacity(b.len() * 2);
    for x in b {
        s.push_str(&format!("{:02x}", x));
    }
    s
}

pub fn unhex(s: &str) -> Vec<u8> {
    (0..s.len() / 2)
        .map(|i| u8::from_str_radix(&s[2 * i..2 * i + 2], 16).unwrap())
        .collect()
}

/// (number, name) of every system call that is sent to the supervisor.
pub const TRACED: &[(i64, &str)] = &[
    (libc::SYS_openat, "openat"),
    (libc::SYS_openat2, "openat2"),
    (libc::SYS_readlinkat, "readlinkat"),
    (libc::SYS_newfstatat, "newfstatat"),
    (libc::SYS_fstat, "fstat"),
    (libc::SYS_statx, "statx"),
    (libc::SYS_fstatfs, "fstatfs"),
    (libc::SYS_faccessat, "faccessat"),
    (libc::SYS_faccessat2, "faccessat2"),
    (libc::SYS_mkdirat, "mkdirat"),
    (libc::SYS_mknodat, "mknodat"),
    (libc::SYS_unlinkat, "unlinkat"),
    (libc::SYS_linkat, "linkat"),
    (libc::SYS_symlinkat, "symlinkat"),
    (libc::SYS_renameat, "renameat"),
    (libc::SYS_renameat2, "renameat2"),
    (libc::SYS_getdents64, "getdents64"),
    (libc::SYS_close, "close"),
    (libc::SYS_dup, "dup"),
    (libc::SYS_dup2, "dup2"),
    (libc::SYS_dup3, "dup3"),
    (libc::SYS_fcntl, "fcntl"),
    (libc::SYS_read, "read"),
    (libc::SYS_fsopen, "fsopen"),
    (libc::SYS_fsconfig, "fsconfig"),
    (libc::SYS_fsmount, "fsmount"),
    (libc::SYS_open_tree, "open_tree"),
    (libc::SYS_move_mount, "move_mount"),
    (libc::SYS_mount, "mount"),
    (libc::SYS_umount2, "umount2"),
    (libc::SYS_geteuid, "geteuid"),
    (libc::SYS_gettid, "gettid"),
    // legacy / path-taking calls that must never be applied to the tree
    (libc::SYS_open, "open"),
    (libc::SYS_creat, "creat"),
    (libc::SYS_stat, "stat"),
    (libc::SYS_lstat, "lstat"),
    (libc::SYS_access, "access"),
    (libc::SYS_readlink, "readlink"),
    (libc::SYS_unlink, "unlink"),
    (libc::SYS_rmdir, "rmdir"),
    (libc::SYS_mkdir, "mkdir"),
    (libc::SYS_mknod, "mknod"),
    (libc::SYS_rename, "rename"),
    (libc::SYS_link, "link"),
    (libc::SYS_symlink, "symlink"),
    (libc::SYS_chmod, "chmod"),
    (libc::SYS_chown, "chown"),
    (libc::SYS_lchown, "lchown"),
    (libc::SYS_truncate, "truncate"),
    (libc::SYS_chdir, "chdir"),
    (libc::SYS_fchdir, "fchdir"),
    (libc::SYS_chroot, "chroot"),
    (libc::SYS_fchmodat, "fchmodat"),
    (libc::SYS_fchownat, "fchownat"),
    (libc::SYS_utimensat, "utimensat"),
    (libc::SYS_name_to_handle_at, "name_to_handle_at"),
    (libc::SYS_open_by_handle_at, "open_by_handle_at"),
    (libc::SYS_statfs, "statfs"),
    (libc::SYS_getcwd, "getcwd"),
    (libc::SYS_execve, "execve"),
    (libc::SYS_execveat, "execveat"),
];

pub fn sysname(nr: i64) -> &'static str {
    TRACED
        .iter()
        .find(|(n, _)| *n == nr)
        .map(|(_, s)| *s)
        .unwrap_or("?")
}

fn install_filter() -> i32 {
    // BPF: check arch, load nr, compare against the list.
    let mut prog: Vec<libc::sock_filter> = Vec::new();
    let stmt = |code: u32, k: u32| libc::sock_filter {
        code: code as u16,
        jt: 0,
        jf: 0,
        k,
    };
    let jump = |code: u32, k: u32, jt: u8, jf: u8| libc::sock_filter {
        code: code as u16,
        jt,
        jf,
        k,
    };
    let ld = libc::BPF_LD | libc::BPF_W | libc::BPF_ABS;
    let jeq = libc::BPF_JMP | libc::BPF_JEQ | libc::BPF_K;
    let ret = libc::BPF_RET | libc::BPF_K;
    prog.push(stmt(ld, 4)); // arch
    prog.push(jump(jeq, AUDIT_ARCH_X86_64, 1, 0));
    prog.push(stmt(ret, SECCOMP_RET_ALLOW));
    prog.push(stmt(ld, 0)); // nr
    let n = TRACED.len();
    for (i, (nr, _)) in TRACED.iter().enumerate() {
        // jump to NOTIF (at the end) when equal
        let to_notif = (n - i) as u8; // skip remaining compares + ALLOW
        prog.push(jump(jeq, *nr as u32, to_notif, 0));
    }
    prog.push(stmt(ret, SECCOMP_RET_ALLOW));
    prog.push(stmt(ret, SECCOMP_RET_USER_NOTIF));
    let fprog = libc::sock_fprog {
        len: prog.len() as u16,
        filter: prog.as_mut_ptr(),
    };
    unsafe {
        libc::prctl(libc::PR_SET_NO_NEW_PRIVS, 1, 0, 0, 0);
        let fd = libc::syscall(
            libc::SYS_seccomp,
            libc::SECCOMP_SET_MODE_FILTER,
            libc::SECCOMP_FILTER_FLAG_NEW_LISTENER,
            &fprog as *const libc::sock_fprog,
        );
        if fd < 0 {
            panic!(
                "seccomp(NEW_LISTENER) failed: {}",
                std::io::Error::last_os_error()
            );
        }
        fd as i32
    }
}

unsafe fn cstr_bytes(p: u64) -> Vec<u8> {
    if p == 0 {
        return b"<NULL>".to_vec();
    }
    std::ffi::CStr::from_ptr(p as *const libc::c_char)
        .to_bytes()
        .to_vec()
}

fn fdarg(a: u64) -> i64 {
    (a as i32) as i64
}

/// Decode the in-arguments of a call.
pub fn decode_in(nr: i64, a: &[u64; 6]) -> Value {
    let name = sysname(nr);
    unsafe {
        match name {
            "openat" => json!({"c": name, "fd": fdarg(a[0]), "path": hex(&cstr_bytes(a[1])),
                               "flags": a[2] as u32, "mode": a[3] as u32}),
            "openat2" => {
                let how = a[2] as *const u64;
                let size = a[3];
                json!({"c": name, "fd": fdarg(a[0]), "path": hex(&cstr_bytes(a[1])),
                       "flags": *how, "mode": *how.add(1), "resolve": *how.add(2), "size": size})
            }
            "readlinkat" => json!({"c": name, "fd": fdarg(a[0]), "path": hex(&cstr_bytes(a[1])), "bufsiz": a[3]}),
            "newfstatat" => json!({"c": name, "fd": fdarg(a[0]), "path": hex(&cstr_bytes(a[1])), "atflags": a[3] as u32}),
            "fstat" => json!({"c": name, "fd": fdarg(a[0])}),
            "statx" => json!({"c": name, "fd": fdarg(a[0]), "path": hex(&cstr_bytes(a[1])), "atflags": a[2] as u32, "mask": a[3] as u32}),
            "fstatfs" => json!({"c": name, "fd": fdarg(a[0])}),
            "faccessat" | "faccessat2" => json!({"c": name, "fd": fdarg(a[0]), "path": hex(&cstr_bytes(a[1])), "mode": a[2] as u32,
                                                 "atflags": if name == "faccessat2" { a[3] as u32 } else { 0 }}),
            "mkdirat" => json!({"c": name, "fd": fdarg(a[0]), "path": hex(&cstr_bytes(a[1])), "mode": a[2] as u32}),
            "mknodat" => json!({"c": name, "fd": fdarg(a[0]), "path": hex(&cstr_bytes(a[1])), "mode": a[2] as u32, "dev": a[3]}),
            "unlinkat" => json!({"c": name, "fd": fdarg(a[0]), "path": hex(&cstr_bytes(a[1])), "atflags": a[2] as u32}),
            "linkat" => json!({"c": name, "fd": fdarg(a[0]), "path": hex(&cstr_bytes(a[1])),
                               "fd2": fdarg(a[2]), "path2": hex(&cstr_bytes(a[3])), "atflags": a[4] as u32}),
            "symlinkat" => json!({"c": name, "target": hex(&cstr_bytes(a[0])), "fd": fdarg(a[1]), "path": hex(&cstr_bytes(a[2]))}),
            "renameat" => json!({"c": name, "fd": fdarg(a[0]), "path": hex(&cstr_bytes(a[1])),
                                 "fd2": fdarg(a[2]), "path2": hex(&cstr_bytes(a[3])), "flags": 0}),
            "renameat2" => json!({"c": name, "fd": fdarg(a[0]), "path": hex(&cstr_bytes(a[1])),
                                  "fd2": fdarg(a[2]), "path2": hex(&cstr_bytes(a[3])), "flags": a[4] as u32}),
            "getdents64" => json!({"c": name, "fd": fdarg(a[0])}),
            "close" => json!({"c": name, "fd": fdarg(a[0])}),
            "dup" => json!({"c": name, "fd": fdarg(a[0])}),
            "dup2" => json!({"c": name, "fd": fdarg(a[0]), "fd2": fdarg(a[1])}),
            "dup3" => json!({"c": name, "fd": fdarg(a[0]), "fd2": fdarg(a[1]), "flags": a[2] as u32}),
            "fcntl" => json!({"c": name, "fd": fdarg(a[0]), "cmd": a[1] as u32, "arg": a[2]}),
            "read" => json!({"c": name, "fd": fdarg(a[0]), "count": a[2]}),
            "fsopen" => json!({"c": name, "path": hex(&cstr_bytes(a[0])), "flags": a[1] as u32}),
            "fsconfig" => {
                let key = if a[2] != 0 { hex(&cstr_bytes(a[2])) } else { String::new() };
                // value is a string only for FSCONFIG_SET_STRING (cmd 1)
                let val = if a[1] == 1 && a[3] != 0 { hex(&cstr_bytes(a[3])) } else { String::new() };
                json!({"c": name, "fd": fdarg(a[0]), "cmd": a[1] as u32, "key": key, "value": val})
            }
            "fsmount" => json!({"c": name, "fd": fdarg(a[0]), "flags": a[1] as u32, "attrs": a[2] as u32}),
            "open_tree" => json!({"c": name, "fd": fdarg(a[0]), "path": hex(&cstr_bytes(a[1])), "flags": a[2] as u32}),
            "geteuid" | "gettid" => json!({"c": name}),
            // legacy calls: first argument is a path for most of them
            "open" | "creat" | "stat" | "lstat" | "access" | "readlink" | "unlink" | "rmdir" | "mkdir"
            | "mknod" | "chmod" | "chown" | "lchown" | "truncate" | "chdir" | "chroot" | "statfs" | "execve" =>
                json!({"c": name, "path": hex(&cstr_bytes(a[0])), "a1": a[1], "a2": a[2]}),
            "rename" | "link" | "symlink" =>
                json!({"c": name, "path": hex(&cstr_bytes(a[0])), "path2": hex(&cstr_bytes(a[1]))}),
            "fchmodat" | "fchownat" | "utimensat" | "name_to_handle_at" | "execveat" =>
                json!({"c": name, "fd": fdarg(a[0]), "path": if a[1] != 0 { hex(&cstr_bytes(a[1])) } else { String::new() }}),
            _ => json!({"c": name, "a0": a[0], "a1": a[1], "a2": a[2]}),
        }
    }
}

/// Decode the out-buffers of an executed call (only when it succeeded).
fn decode_out(nr: i64, a: &[u64; 6], ret: i64, ev: &mut Value) {
    if ret < 0 {
        return;
    }
    let name = sysname(nr);
    unsafe {
        match name {
            "readlinkat" => {
                let s = std::slice::from_raw_parts(a[2] as *const u8, ret as usize);
                ev["out"] = json!(hex(s));
            }
            "readlink" => {
                let s = std::slice::from_raw_parts(a[1] as *const u8, ret as usize);
                ev["out"] = json!(hex(s));
            }
            "newfstatat" | "fstat" | "stat" | "lstat" => {
                let p = if name == "newfstatat" { a[2] } else { a[1] };
                let st = &*(p as *const libc::stat);
                ev["st"] = json!({"mode": st.st_mode, "uid": st.st_uid, "gid": st.st_gid,
                                  "ino": st.st_ino, "dev": st.st_dev, "nlink": st.st_nlink});
            }
            "statx" => {
                let st = &*(a[4] as *const libc::statx);
                ev["stx"] = json!({"mask": st.stx_mask, "mnt_id": st.stx_mnt_id, "mode": st.stx_mode,
                                   "ino": st.stx_ino, "uid": st.stx_uid});
            }
            "fstatfs" => {
                let st = &*(a[1] as *const libc::statfs);
                ev["f_type"] = json!(st.f_type as u64);
            }
            "getdents64" => {
                let mut names: Vec<Value> = Vec::new();
                let buf = std::slice::from_raw_parts(a[1] as *const u8, ret as usize);
                let mut off = 0usize;
                while off + 19 <= buf.len() {
                    let reclen = u16::from_ne_bytes([buf[off + 16], buf[off + 17]]) as usize;
                    let dtype = buf[off + 18];
                    let name_bytes = &buf[off + 19..off + reclen];
                    let end = name_bytes.iter().position(|c| *c == 0).unwrap_or(name_bytes.len());
                    names.push(json!([hex(&name_bytes[..end]), dtype]));
                    if reclen == 0 {
                        break;
                    }
                    off += reclen;
                }
                ev["dents"] = json!(names);
            }
            "read" => {
                let n = std::cmp::min(ret as usize, 256);
                let s = std::slice::from_raw_parts(a[1] as *const u8, n);
                ev["out"] = json!(hex(s));
            }
            _ => {}
        }
    }
}

/// What the monitor wants done with a call.
pub enum Verdict {
    Execute,
    /// answer with -errno without executing
    Inject(i32),
}

pub struct Trace {
    pub events: Vec<Value>,
}

/// Run `f` on a fresh worker thread under the filter; `monitor(idx, nr, args,
/// decoded)` is called at every boundary (before call `idx` is executed) and
/// may perform attacker actions itself.
pub fn traced<R, F, M>(f: F, mut monitor: M) -> (std::thread::Result<R>, Trace)
where
    R: Send + 'static,
    F: FnOnce() -> R + Send + 'static,
    M: FnMut(usize, i64, &[u64; 6], &Value) -> Verdict,
{
    let (tx, rx) = mpsc::channel::<i32>();
    let (gtx, grx) = mpsc::channel::<()>();
    let worker = std::thread::Builder::new()
        .name("worker".into())
        .stack_size(16 << 20)
        .spawn(move || {
            let lfd = install_filter();
            tx.send(lfd).unwrap();
            // wait for the supervisor to be ready (futex: not traced)
            grx.recv().unwrap();
            f()
        })
        .unwrap();
    let lfd = {
        // move the listener out of the low descriptor range so that it does
        // not perturb the numbers the library sees
        let low = rx.recv().unwrap();
        let hi = unsafe { libc::fcntl(low, libc::F_DUPFD_CLOEXEC, 900) };
        if hi >= 0 {
            unsafe { libc::close(low) };
            hi
        } else {
            low
        }
    };
    gtx.send(()).unwrap();
    let mut events: Vec<Value> = Vec::new();
    let mut idx = 0usize;
    loop {
        let mut pfd = libc::pollfd {
            fd: lfd,
            events: libc::POLLIN,
            revents: 0,
        };
        let pr = unsafe { libc::poll(&mut pfd, 1, 50) };
        if pr < 0 {
            continue;
        }
        if pr == 0 {
            if worker.is_finished() {
                break;
            }
            continue;
        }
        if pfd.revents & libc::POLLIN == 0 {
            // POLLHUP: the worker is gone
            break;
        }
        let mut notif: libc::seccomp_notif = unsafe { std::mem::zeroed() };
        let r = unsafe { libc::ioctl(lfd, SECCOMP_IOCTL_NOTIF_RECV, &mut notif) };
        if r < 0 {
            let e = std::io::Error::last_os_error().raw_os_error().unwrap_or(0);
            if e == libc::ENOENT || e == libc::EINTR {
                continue;
            }
            break;
        }
        let nr = notif.data.nr as i64;
        let args = notif.data.args;
        let mut ev = decode_in(nr, &args);
        let verdict = monitor(idx, nr, &args, &ev);
        let ret: i64;
        match verdict {
            Verdict::Inject(errno) => {
                ret = -(errno as i64);
                ev["inj"] = json!(true);
            }
            Verdict::Execute => {
                let r = unsafe {
                    libc::syscall(nr, args[0], args[1], args[2], args[3], args[4], args[5])
                };
                if r == -1 {
                    let e = std::io::Error::last_os_error().raw_os_error().unwrap_or(libc::EIO);
                    ret = -(e as i64);
                } else {
                    ret = r as i64;
                }
                decode_out(nr, &args, ret, &mut ev);
            }
        }
        ev["ret"] = json!(ret);
        ev["i"] = json!(idx);
        events.push(ev);
        idx += 1;
        let mut resp: libc::seccomp_notif_resp = unsafe { std::mem::zeroed() };
        resp.id = notif.id;
        if ret < 0 {
            resp.error = ret as i32;
            resp.val = 0;
        } else {
            resp.val = ret;
            resp.error = 0;
        }
        unsafe { libc::ioctl(lfd, SECCOMP_IOCTL_NOTIF_SEND, &resp) };
    }
    let res = worker.join();
    unsafe { libc::close(lfd) };
    (res, Trace { events })
}
