//! Calls through the C entry points (compiled into the rlib by the `capi`
//! feature; `#[no_mangle]` makes them linkable from here).

use crate::sup::{hex, unhex};
use crate::Outcome;
use serde_json::{json, Value};
use std::ffi::CString;
use std::os::raw::{c_char, c_int, c_uint};

#[repr(C)]
pub struct CError {
    pub saved_errno: u64,
    pub description: *const c_char,
}

extern "C" {
    pub fn pathrs_open_root(path: *const c_char) -> c_int;
    pub fn pathrs_reopen(fd: c_int, flags: c_int) -> c_int;
    pub fn pathrs_inroot_resolve(root: c_int, path: *const c_char) -> c_int;
    pub fn pathrs_inroot_resolve_nofollow(root: c_int, path: *const c_char) -> c_int;
    pub fn pathrs_inroot_open(root: c_int, path: *const c_char, flags: c_int) -> c_int;
    pub fn pathrs_inroot_readlink(root: c_int, path: *const c_char, buf: *mut c_char, size: usize) -> c_int;
    pub fn pathrs_inroot_rename(root: c_int, src: *const c_char, dst: *const c_char, flags: u32) -> c_int;
    pub fn pathrs_inroot_rmdir(root: c_int, path: *const c_char) -> c_int;
    pub fn pathrs_inroot_unlink(root: c_int, path: *const c_char) -> c_int;
    pub fn pathrs_inroot_remove_all(root: c_int, path: *const c_char) -> c_int;
    pub fn pathrs_inroot_creat(root: c_int, path: *const c_char, flags: c_int, mode: c_uint) -> c_int;
    pub fn pathrs_inroot_mkdir(root: c_int, path: *const c_char, mode: c_uint) -> c_int;
    pub fn pathrs_inroot_mkdir_all(root: c_int, path: *const c_char, mode: c_uint) -> c_int;
    pub fn pathrs_inroot_mknod(root: c_int, path: *const c_char, mode: c_uint, dev: libc::dev_t) -> c_int;
    pub fn pathrs_inroot_symlink(root: c_int, path: *const c_char, target: *const c_char) -> c_int;
    pub fn pathrs_inroot_hardlink(root: c_int, path: *const c_char, target: *const c_char) -> c_int;
    pub fn pathrs_proc_open(base: u64, path: *const c_char, flags: c_int) -> c_int;
    pub fn pathrs_proc_readlink(base: u64, path: *const c_char, buf: *mut c_char, size: usize) -> c_int;
    pub fn pathrs_errorinfo(id: c_int) -> *mut CError;
    pub fn pathrs_errorinfo_free(err: *mut CError);
}

pub const PROC_ROOT: u64 = 0x5001_FFFF;
pub const PROC_SELF: u64 = 0x091D_5E1F;
pub const PROC_THREAD_SELF: u64 = 0x3EAD_5E1F;

/// Consume an error id: (errno, description, second-call-was-null).
pub fn take_error(id: c_int) -> Value {
    unsafe {
        let e = pathrs_errorinfo(id);
        if e.is_null() {
            return json!({"id": id, "null": true});
        }
        let desc = if (*e).description.is_null() {
            String::new()
        } else {
            std::ffi::CStr::from_ptr((*e).description).to_string_lossy().to_string()
        };
        let errno = (*e).saved_errno;
        pathrs_errorinfo_free(e);
        let again = pathrs_errorinfo(id);
        let second_null = again.is_null();
        if !again.is_null() {
            pathrs_errorinfo_free(again);
        }
        json!({"id": id, "errno": errno, "desc": desc, "second_null": second_null})
    }
}

fn cres(ret: c_int, is_fd: bool) -> Outcome {
    if ret < 0 {
        Outcome::Json(json!({"cerr": take_error(ret)}))
    } else if is_fd {
        Outcome::Fd(ret)
    } else {
        Outcome::Num(ret as i64)
    }
}

struct OptPath(Option<CString>);
impl OptPath {
    fn ptr(&self) -> *const c_char {
        match &self.0 {
            Some(c) => c.as_ptr(),
            None => std::ptr::null(),
        }
    }
}

fn cp(op: &Value, key: &str) -> OptPath {
    // {"null_<key>": true} passes NULL
    if op.get(format!("null_{key}")).and_then(|v| v.as_bool()).unwrap_or(false) {
        return OptPath(None);
    }
    let b = unhex(op[key].as_str().unwrap_or(""));
    // truncate at NUL like a C caller would
    let b: Vec<u8> = b.into_iter().take_while(|c| *c != 0).collect();
    OptPath(Some(CString::new(b).unwrap()))
}

fn base_c(op: &Value) -> u64 {
    if let Some(n) = op.get("base_raw").and_then(|b| b.as_u64()) {
        return n;
    }
    match op["base"].as_str().unwrap_or("thread") {
        "root" => PROC_ROOT,
        "self" => PROC_SELF,
        _ => PROC_THREAD_SELF,
    }
}

/// readlink-style call with a canary-guarded buffer.
fn with_buffer<F: FnOnce(*mut c_char, usize) -> c_int>(op: &Value, f: F) -> Outcome {
    let size = op.get("bufsize").and_then(|b| b.as_u64()).unwrap_or(4096) as usize;
    let is_null = op.get("buf_null").and_then(|b| b.as_bool()).unwrap_or(false);
    const G: usize = 64;
    let mut mem = vec![0xAAu8; G];
    mem.extend(std::iter::repeat(0xBB).take(size));
    mem.extend(std::iter::repeat(0xCC).take(G));
    let ptr = if is_null { std::ptr::null_mut() } else { unsafe { mem.as_mut_ptr().add(G) as *mut c_char } };
    let ret = f(ptr, size);
    if ret < 0 {
        return Outcome::Json(json!({"cerr": take_error(ret)}));
    }
    let lo_ok = mem[..G].iter().all(|c| *c == 0xAA);
    let hi_ok = mem[G + size..].iter().all(|c| *c == 0xCC);
    Outcome::Json(json!({"ret": ret, "buf": hex(&mem[G..G + size]), "guards_ok": lo_ok && hi_ok,
                         "size": size, "null": is_null}))
}

pub fn run_c(root_fd: Option<i32>, handle_fd: Option<i32>, op: &Value) -> Outcome {
    let k = op["k"].as_str().unwrap();
    let root = op
        .get("root_fd_raw")
        .and_then(|r| r.as_i64())
        .map(|r| r as i32)
        .unwrap_or(root_fd.unwrap_or(-1));
    let flags = op.get("flags").and_then(|f| f.as_i64()).unwrap_or(0) as c_int;
    let mode = op.get("mode").and_then(|f| f.as_u64()).unwrap_or(0o644) as c_uint;
    unsafe {
        match k {
            "open_root" => cres(pathrs_open_root(cp(op, "path").ptr()), true),
            "resolve" => {
                if op["nofollow"].as_bool().unwrap_or(false) {
                    cres(pathrs_inroot_resolve_nofollow(root, cp(op, "path").ptr()), true)
                } else {
                    cres(pathrs_inroot_resolve(root, cp(op, "path").ptr()), true)
                }
            }
            "open" => cres(pathrs_inroot_open(root, cp(op, "path").ptr(), flags), true),
            "readlink" => {
                let p = cp(op, "path");
                with_buffer(op, |b, s| pathrs_inroot_readlink(root, p.ptr(), b, s))
            }
            "rename" => cres(
                pathrs_inroot_rename(root, cp(op, "src").ptr(), cp(op, "dst").ptr(), flags as u32),
                false,
            ),
            "remove_dir" => cres(pathrs_inroot_rmdir(root, cp(op, "path").ptr()), false),
            "remove_file" => cres(pathrs_inroot_unlink(root, cp(op, "path").ptr()), false),
            "remove_all" => cres(pathrs_inroot_remove_all(root, cp(op, "path").ptr()), false),
            "create_file" => cres(pathrs_inroot_creat(root, cp(op, "path").ptr(), flags, mode), true),
            "mkdir" => cres(pathrs_inroot_mkdir(root, cp(op, "path").ptr(), mode), false),
            "mkdir_all" => cres(pathrs_inroot_mkdir_all(root, cp(op, "path").ptr(), mode), true),
            "mknod" => cres(
                pathrs_inroot_mknod(root, cp(op, "path").ptr(), mode, op.get("dev").and_then(|d| d.as_u64()).unwrap_or(0)),
                false,
            ),
            "create" => {
                // map the Rust-level create onto the C entry points
                let dev = op.get("dev").and_then(|d| d.as_u64()).unwrap_or(0);
                let p = cp(op, "path");
                match op["type"].as_str().unwrap() {
                    "file" => cres(pathrs_inroot_mknod(root, p.ptr(), libc::S_IFREG | mode, 0), false),
                    "dir" => cres(pathrs_inroot_mkdir(root, p.ptr(), mode), false),
                    "fifo" => cres(pathrs_inroot_mknod(root, p.ptr(), libc::S_IFIFO | mode, 0), false),
                    "chr" => cres(pathrs_inroot_mknod(root, p.ptr(), libc::S_IFCHR | mode, dev), false),
                    "blk" => cres(pathrs_inroot_mknod(root, p.ptr(), libc::S_IFBLK | mode, dev), false),
                    "symlink" => cres(pathrs_inroot_symlink(root, p.ptr(), cp(op, "target").ptr()), false),
                    "hardlink" => cres(pathrs_inroot_hardlink(root, p.ptr(), cp(op, "target").ptr()), false),
                    t => panic!("unknown type {t}"),
                }
            }
            "symlink" => cres(pathrs_inroot_symlink(root, cp(op, "path").ptr(), cp(op, "target").ptr()), false),
            "hardlink" => cres(pathrs_inroot_hardlink(root, cp(op, "path").ptr(), cp(op, "target").ptr()), false),
            "reopen" => {
                let fd = op.get("fd_raw").and_then(|r| r.as_i64()).map(|r| r as i32).unwrap_or(handle_fd.unwrap_or(-1));
                cres(pathrs_reopen(fd, flags), true)
            }
            "proc_open" => cres(pathrs_proc_open(base_c(op), cp(op, "path").ptr(), flags), true),
            "proc_readlink" => {
                let p = cp(op, "path");
                let base = base_c(op);
                with_buffer(op, |b, s| pathrs_proc_readlink(base, p.ptr(), b, s))
            }
            _ => panic!("unknown C op {k}"),
        }
    }
}

/// C16: many threads fail and consume errors concurrently.  Returns a report:
/// ids handed out while all were live, per-id consumption results, and a
/// serialised history (store/take under a harness lock) for model replay.
pub fn error_stress(root: c_int, nthreads: usize, per_thread: usize, seed: u64, flood: usize, churn: usize) -> Value {
    use std::sync::{Arc, Mutex};
    let mut violations: Vec<Value> = vec![];
    // kinds: (name, expected errno)
    let fail = move |t: usize, j: usize| -> (c_int, String, u64) {
        unsafe {
            match (t + j) % 4 {
                0 => {
                    let tok = format!("missing-{t}-{j}");
                    let p = CString::new(tok.clone()).unwrap();
                    (pathrs_inroot_resolve(root, p.as_ptr()), tok, libc::ENOENT as u64)
                }
                1 => {
                    // invalid argument: NULL path
                    (pathrs_inroot_resolve(root, std::ptr::null()), "path".to_string(), libc::EINVAL as u64)
                }
                2 => {
                    let tok = format!("sock-{t}-{j}");
                    let p = CString::new(tok.clone()).unwrap();
                    (pathrs_inroot_mknod(root, p.as_ptr(), libc::S_IFSOCK | 0o644, 0), "".to_string(), libc::ENOSYS as u64)
                }
                _ => {
                    let tok = format!("gone-{t}-{j}/x");
                    let p = CString::new(tok.clone()).unwrap();
                    (pathrs_inroot_open(root, p.as_ptr(), libc::O_RDONLY), format!("gone-{t}-{j}"), libc::ENOENT as u64)
                }
            }
        }
    };
    // phase A: everybody fails concurrently, nothing is consumed
    let mut handles = vec![];
    for t in 0..nthreads {
        handles.push(std::thread::spawn(move || {
            let mut v = vec![];
            for j in 0..per_thread {
                let (id, tok, errno) = fail(t, j);
                v.push((t, j, id, tok, errno));
            }
            v
        }));
    }
    let mut all: Vec<(usize, usize, c_int, String, u64)> = vec![];
    for h in handles {
        all.extend(h.join().unwrap());
    }
    let mut seen = std::collections::HashSet::new();
    for (t, j, id, _, _) in &all {
        if *id >= -4095 {
            violations.push(json!({"what": "id not below -4095", "thread": t, "j": j, "id": id}));
        }
        if !seen.insert(*id) {
            violations.push(json!({"what": "duplicate live id", "thread": t, "j": j, "id": id}));
        }
    }
    // phase B: ids are consumed by OTHER threads, concurrently
    let all = Arc::new(all);
    let mut handles = vec![];
    for t in 0..nthreads {
        let all = all.clone();
        handles.push(std::thread::spawn(move || {
            let mut bad = vec![];
            for (ot, j, id, tok, errno) in all.iter() {
                if (ot + 1) % nthreads != t {
                    continue;
                }
                let r = take_error(*id);
                let ok = r.get("null").is_none()
                    && r["errno"].as_u64() == Some(*errno)
                    && r["desc"].as_str().map(|d| d.contains(tok.as_str())).unwrap_or(false)
                    && r["second_null"].as_bool() == Some(true);
                if !ok {
                    bad.push(json!({"what": "errorinfo mismatch", "thread": ot, "j": j, "id": id, "token": tok,
                                     "expected_errno": errno, "got": r}));
                }
            }
            bad
        }));
    }
    for h in handles {
        violations.extend(h.join().unwrap());
    }
    // phase B2: several threads race for the SAME id (released together by a barrier): exactly one of them may get the error
    {
        let racers = nthreads.clamp(2, 8);
        let rounds = (per_thread * 4).max(200);
        let barrier = Arc::new(std::sync::Barrier::new(racers));
        let ids: Arc<Vec<(c_int, String)>> = Arc::new(
            (0..rounds)
                .map(|j| {
                    let tok = format!("contended-{j}");
                    let p = CString::new(tok.clone()).unwrap();
                    (unsafe { pathrs_inroot_resolve(root, p.as_ptr()) }, tok)
                })
                .collect(),
        );
        let mut handles = vec![];
        for _ in 0..racers {
            let barrier = barrier.clone();
            let ids = ids.clone();
            handles.push(std::thread::spawn(move || {
                let mut got = vec![];
                for (id, tok) in ids.iter() {
                    barrier.wait();
                    let e = unsafe { pathrs_errorinfo(*id) };
                    if !e.is_null() {
                        let desc = unsafe {
                            if (*e).description.is_null() { String::new() } else { std::ffi::CStr::from_ptr((*e).description).to_string_lossy().to_string() }
                        };
                        unsafe { pathrs_errorinfo_free(e) };
                        got.push((*id, desc.contains(tok.as_str())));
                    }
                }
                got
            }));
        }
        let mut count: std::collections::HashMap<c_int, (usize, bool)> = std::collections::HashMap::new();
        for h in handles {
            for (id, right) in h.join().unwrap() {
                let e = count.entry(id).or_insert((0, true));
                e.0 += 1;
                e.1 &= right;
            }
        }
        for (id, _) in ids.iter() {
            match count.get(id) {
                Some((1, true)) => {}
                Some((n, right)) => violations.push(json!({"what": "an error id raced for by several threads was handed out more than once (or with the wrong content)",
                                                           "id": id, "handed_out": n, "content_right": right, "racing_threads": racers})),
                None => violations.push(json!({"what": "an error id raced for by several threads was handed out to nobody", "id": id, "racing_threads": racers})),
            }
        }
    }
    // phase B3: very many errors outstanding at once.  Ids are drawn at random from ~2^31 values: with n outstanding errors a
    // store that does not look at the outstanding ones hands out about n^2/2^32 ids twice.
    let mut flood_stats = json!({"n": 0});
    if flood > 0 {
        let threads = 8usize;
        let per = flood / threads;
        let sock = CString::new("flood-sock").unwrap();
        let sock_ptr = sock.as_ptr() as usize;
        let mut handles = vec![];
        for t in 0..threads {
            handles.push(std::thread::spawn(move || {
                let mut v: Vec<(c_int, u64)> = Vec::with_capacity(per);
                for j in 0..per {
                    unsafe {
                        if (t + j) % 2 == 0 {
                            v.push((pathrs_inroot_resolve(root, std::ptr::null()), libc::EINVAL as u64));
                        } else {
                            v.push((pathrs_inroot_mknod(root, sock_ptr as *const libc::c_char, libc::S_IFSOCK | 0o644, 0), libc::ENOSYS as u64));
                        }
                    }
                }
                v
            }));
        }
        let mut pending: Vec<(c_int, u64)> = Vec::with_capacity(flood);
        for h in handles {
            pending.extend(h.join().unwrap());
        }
        let mut seen2 = std::collections::HashSet::with_capacity(pending.len());
        let (mut dups, mut nulls, mut wrong, mut not_gone) = (0u64, 0u64, 0u64, 0u64);
        let mut example: Option<Value> = None;
        for (id, _) in &pending {
            if *id >= -4095 || !seen2.insert(*id) {
                dups += 1;
                if example.is_none() {
                    example = Some(json!({"what": "an id was handed out while an error with the same id was still outstanding", "id": id}));
                }
            }
        }
        for (id, errno) in &pending {
            unsafe {
                let e = pathrs_errorinfo(*id);
                if e.is_null() {
                    nulls += 1;
                    continue;
                }
                if (*e).saved_errno != *errno {
                    wrong += 1;
                    if example.is_none() {
                        example = Some(json!({"what": "errorinfo of another failure", "id": id, "expected_errno": errno, "got_errno": (*e).saved_errno}));
                    }
                }
                pathrs_errorinfo_free(e);
                let again = pathrs_errorinfo(*id);
                if !again.is_null() {
                    // only a violation when the id was unique: a duplicated id legitimately has... no, never: an id is consumed once
                    not_gone += 1;
                    pathrs_errorinfo_free(again);
                }
            }
        }
        flood_stats = json!({"n": pending.len(), "duplicate_ids": dups, "first_call_null": nulls, "wrong_errno": wrong, "second_call_not_null": not_gone});
        if dups > 0 || nulls > 0 || wrong > 0 || not_gone > 0 {
            violations.push(json!({"what": "with many errors outstanding at once, ids are not unique / errorinfo is not that failure's",
                                   "outstanding": pending.len(), "duplicate_ids": dups, "first_call_null": nulls, "wrong_errno": wrong,
                                   "second_call_not_null": not_gone, "example": example}));
        }
    }
    // phase B4: very many store/take cycles, each error consumed at once.  An id outside the documented range that turns up
    // once in 10^5..10^6 stores (an arithmetic slip at the edge of the id space) is found here; nothing is outstanding.
    let mut churn_stats = json!({"n": 0});
    if churn > 0 {
        let threads = 8usize;
        let per = churn / threads;
        let mut hs = vec![];
        for _t in 0..threads {
            hs.push(std::thread::spawn(move || {
                let (mut bad, mut nulls, mut wrong) = (0u64, 0u64, 0u64);
                let mut ex: Option<c_int> = None;
                for _ in 0..per {
                    unsafe {
                        let id = pathrs_inroot_resolve(root, std::ptr::null());
                        if id >= -4095 {
                            bad += 1;
                            if ex.is_none() {
                                ex = Some(id);
                            }
                        }
                        let e = pathrs_errorinfo(id);
                        if e.is_null() {
                            nulls += 1;
                        } else {
                            if (*e).saved_errno != libc::EINVAL as u64 {
                                wrong += 1;
                            }
                            pathrs_errorinfo_free(e);
                        }
                    }
                }
                (bad, nulls, wrong, ex)
            }));
        }
        let (mut bad, mut nulls, mut wrong) = (0u64, 0u64, 0u64);
        let mut ex: Option<c_int> = None;
        for h in hs {
            let (b, n, w, e) = h.join().unwrap();
            bad += b;
            nulls += n;
            wrong += w;
            if ex.is_none() {
                ex = e;
            }
        }
        churn_stats = json!({"n": per * threads, "ids_not_below_minus_4095": bad, "first_call_null": nulls, "wrong_errno": wrong});
        if bad > 0 || nulls > 0 || wrong > 0 {
            violations.push(json!({"what": "over very many failing calls, an error id outside the documented range / an errorinfo that is not that failure's",
                                   "stores": per * threads, "ids_not_below_minus_4095": bad, "first_call_null": nulls, "wrong_errno": wrong,
                                   "example_id": ex}));
        }
    }
    // phase C: interleaved store/take with a serialised log
    let log: Arc<Mutex<Vec<Value>>> = Arc::new(Mutex::new(vec![]));
    let pool: Arc<Mutex<Vec<(c_int, String)>>> = Arc::new(Mutex::new(vec![]));
    let mut handles = vec![];
    for t in 0..nthreads.min(8) {
        let log = log.clone();
        let pool = pool.clone();
        handles.push(std::thread::spawn(move || {
            let mut x = seed.wrapping_add(t as u64 * 7919) | 1;
            for j in 0..per_thread {
                x ^= x << 13;
                x ^= x >> 7;
                x ^= x << 17;
                let mut lg = log.lock().unwrap();
                let mut pl = pool.lock().unwrap();
                if x % 3 != 0 || pl.is_empty() {
                    let tok = format!("hist-{t}-{j}");
                    let p = CString::new(tok.clone()).unwrap();
                    let id = unsafe { pathrs_inroot_resolve(root, p.as_ptr()) };
                    lg.push(json!(["s", id, tok]));
                    pl.push((id, tok));
                } else {
                    let k = (x as usize / 3) % pl.len();
                    let (id, tok) = pl.swap_remove(k);
                    let r = take_error(id);
                    let got = r["desc"].as_str().map(|d| d.contains(tok.as_str())).unwrap_or(false);
                    lg.push(json!(["t", id, if got { Value::String(tok) } else { Value::Null }, r["second_null"].clone()]));
                }
            }
        }));
    }
    for h in handles {
        h.join().unwrap();
    }
    // drain
    for (id, _) in pool.lock().unwrap().drain(..) {
        let _ = take_error(id);
    }
    let min_id = all.iter().map(|x| x.2).min().unwrap_or(0);
    let max_id = all.iter().map(|x| x.2).max().unwrap_or(0);
    let history = log.lock().unwrap().clone();
    json!({"n_ids": all.len(), "min_id": min_id, "max_id": max_id, "violations": violations, "history": history, "flood": flood_stats, "churn": churn_stats})
}
