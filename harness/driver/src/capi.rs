//! Calls through the C entry points (compiled into the rlib by the `capi`
//! feature; `#[no_mangle]` makes them linkable from here).

use crate::sup::{hex, unhex};
use crate::Outcome;
use serde_json::{json, Value};
use std::ffi::CString;
use std::os::raw::{c_char, c_int, c_uint};

#[repr(C)]
pub struct CError {
    pub saved_errno: u64,
    pub description: *const c_char,
}

extern "C" {
    pub fn pathrs_open_root(path: *const c_char) -> c_int;
    pub fn pathrs_reopen(fd: c_int, flags: c_int) -> c_int;
    pub fn pathrs_inroot_resolve(root: c_int, path: *const c_char) -> c_int;
    pub fn pathrs_inroot_resolve_nofollow(root: c_int, path: *const c_char) -> c_int;
    pub fn pathrs_inroot_open(root: c_int, path: *const c_char, flags: c_int) -> c_int;
    pub fn pathrs_inroot_readlink(root: c_int, path: *const c_char, buf: *mut c_char, size: usize) -> c_int;
    pub fn pathrs_inroot_rename(root: c_int, src: *const c_char, dst: *const c_char, flags: u32) -> c_int;
    pub fn pathrs_inroot_rmdir(root: c_int, path: *const c_char) -> c_int;
    pub fn pathrs_inroot_unlink(root: c_int, path: *const c_char) -> c_int;
    pub fn pathrs_inroot_remove_all(root: c_int, path: *const c_char) -> c_int;
    pub fn pathrs_inroot_creat(root: c_int, path: *const c_char, flags: c_int, mode: c_uint) -> c_int;
    pub fn pathrs_inroot_mkdir(root: c_int, path: *const c_char, mode: c_uint) -> c_int;
    pub fn pathrs_inroot_mkdir_all(root: c_int, path: *const c_char, mode: c_uint) -> c_int;
    pub fn pathrs_inroot_mknod(root: c_int, path: *const c_char, mode: c_uint, dev: libc::dev_t) -> c_int;
    pub fn pathrs_inroot_symlink(root: c_int, path: *const c_char, target: *const c_char) -> c_int;
    pub fn pathrs_inroot_hardlink(root: c_int, path: *const c_char, target: *const c_char) -> c_int;
    pub fn pathrs_proc_open(base: u64, path: *const c_char, flags: c_int) -> c_int;
    pub fn pathrs_proc_readlink(base: u64, path: *const c_char, buf: *mut c_char, size: usize) -> c_int;
    pub fn pathrs_errorinfo(id: c_int) -> *mut CError;
    pub fn pathrs_errorinfo_free(err: *mut CError);
}

pub const PROC_ROOT: u64 = 0x5001_FFFF;
pub const PROC_SELF: u64 = 0x091D_5E1F;
pub const PROC_THREAD_SELF: u64 = 0x3EAD_5E1F;

/// Consume an error id: (errno, description, second-call-was-null).
pub fn take_error(id: c_int) -> Value {
    unsafe {
        let e = pathrs_errorinfo(id);
        if e.is_null() {
            return json!({"id": id, "null": true});
        }
        let desc = if (*e).description.is_null() {
            String::new()
        } else {
            std::ffi::CStr::from_ptr((*e).description).to_string_lossy().to_string()
        };
        let errno = (*e).saved_errno;
        pathrs_errorinfo_free(e);
        let again = pathrs_errorinfo(id);
        let second_null = again.is_null();
        if !again.is_null() {
            pathrs_errorinfo_free(again);
        }
        json!({"id": id, "errno": errno, "desc": desc, "second_null": second_null})
    }
}

fn cres(ret: c_int, is_fd: bool) -> Outcome {
    if ret < 0 {
        Outcome::Json(json!({"cerr": take_error(ret)}))
    } else if is_fd {
        Outcome::Fd(ret)
    } else {
        Outcome::Num(ret as i64)
    }
}

struct OptPath(Option<CString>);
impl OptPath {
    fn ptr(&self) -> *const c_char {
        match &self.0 {
            Some(c) => c.as_ptr(),
            None => std::ptr::null(),
        }
    }
}

fn cp(op: &Value, key: &str) -> OptPath {
    // {"null_<key>": true} passes NULL
    if op.get(format!("null_{key}")).and_then(|v| v.as_bool()).unwrap_or(false) {
        return OptPath(None);
    }
    let b = unhex(op[key].as_str().unwrap_or(""));
    // truncate at NUL like a C caller would
    let b: Vec<u8> = b.into_iter().take_while(|c| *c != 0).collect();
    OptPath(Some(CString::new(b).unwrap()))
}

fn base_c(op: &Value) -> u64 {
    if let Some(n) = op.get("base_raw").and_then(|b| b.as_u64()) {
        return n;
    }
    match op["base"].as_str().unwrap_or("thread") {
        "root" => PROC_ROOT,
        "self" => PROC_SELF,
        _ => PROC_THREAD_SELF,
    }
}

/// readlink-style call with a canary-guarded buffer.
fn with_buffer<F: FnOnce(*mut c_char, usize) -> c_int>(op: &Value, f: F) -> Outcome {
    let size = op.get("bufsize").and_then(|b| b.as_u64()).unwrap_or(4096) as usize;
    let null = op.get("buf_null").and_then(|b| b.as_bool()).unwrap_or(false);
    const G: usize = 64;
    let mut mem = vec![0xAAu8; G];
    mem.extend(std::iter::repeat(0xBB).take(size));
    mem.extend(std::iter::repeat(0xCC).take(G));
    let ptr = if null { std::ptr::null_mut() } else { unsafe { mem.as_mut_ptr().add(G) as *mut c_char } };
    let ret = f(ptr, size);
    if ret < 0 {
        return Outcome::Json(json!({"cerr": take_error(ret)}));
    }
    let lo_ok = mem[..G].iter().all(|c| *c == 0xAA);
    let hi_ok = mem[G + size..].iter().all(|c| *c == 0xCC);
    Outcome::Json(json!({"ret": ret, "buf": hex(&mem[G..G + size]), "guards_ok": lo_ok && hi_ok,
                         "size": size, "null": null}))
}

pub fn run_c(root_fd: Option<i32>, handle_fd: Option<i32>, op: &Value) -> Outcome {
    let k = op["k"].as_str().unwrap();
    let root = op
        .get("root_fd_raw")
        .and_then(|r| r.as_i64())
        .map(|r| r as i32)
        .unwrap_or(root_fd.unwrap_or(-1));
    let flags = op.get("flags").and_then(|f| f.as_i64()).unwrap_or(0) as c_int;
    let mode = op.get("mode").and_then(|f| f.as_u64()).unwrap_or(0o644) as c_uint;
    unsafe {
        match k {
            "open_root" => cres(pathrs_open_root(cp(op, "path").ptr()), true),
            "resolve" => {
                if op["nofollow"].as_bool().unwrap_or(false) {
                    cres(pathrs_inroot_resolve_nofollow(root, cp(op, "path").ptr()), true)
                } else {
                    cres(pathrs_inroot_resolve(root, cp(op, "path").ptr()), true)
                }
            }
            "open" => cres(pathrs_inroot_open(root, cp(op, "path").ptr(), flags), true),
            "readlink" => {
                let p = cp(op, "path");
                with_buffer(op, |b, s| pathrs_inroot_readlink(root, p.ptr(), b, s))
            }
            "rename" => cres(
                pathrs_inroot_rename(root, cp(op, "src").ptr(), cp(op, "dst").ptr(), flags as u32),
                false,
            ),
            "remove_dir" => cres(pathrs_inroot_rmdir(root, cp(op, "path").ptr()), false),
            "remove_file" => cres(pathrs_inroot_unlink(root, cp(op, "path").ptr()), false),
            "remove_all" => cres(pathrs_inroot_remove_all(root, cp(op, "path").ptr()), false),
            "create_file" => cres(pathrs_inroot_creat(root, cp(op, "path").ptr(), flags, mode), true),
            "mkdir" => cres(pathrs_inroot_mkdir(root, cp(op, "path").ptr(), mode), false),
            "mkdir_all" => cres(pathrs_inroot_mkdir_all(root, cp(op, "path").ptr(), mode), true),
            "mknod" => cres(
                pathrs_inroot_mknod(root, cp(op, "path").ptr(), mode, op.get("dev").and_then(|d| d.as_u64()).unwrap_or(0)),
                false,
            ),
            "create" => {
                // map the Rust-level create onto the C entry points
                let dev = op.get("dev").and_then(|d| d.as_u64()).unwrap_or(0);
                let p = cp(op, "path");
                match op["type"].as_str().unwrap() {
                    "file" => cres(pathrs_inroot_mknod(root, p.ptr(), libc::S_IFREG | mode, 0), false),
                    "dir" => cres(pathrs_inroot_mkdir(root, p.ptr(), mode), false),
                    "fifo" => cres(pathrs_inroot_mknod(root, p.ptr(), libc::S_IFIFO | mode, 0), false),
                    "chr" => cres(pathrs_inroot_mknod(root, p.ptr(), libc::S_IFCHR | mode, dev), false),
                    "blk" => cres(pathrs_inroot_mknod(root, p.ptr(), libc::S_IFBLK | mode, dev), false),
                    "symlink" => cres(pathrs_inroot_symlink(root, p.ptr(), cp(op, "target").ptr()), false),
                    "hardlink" => cres(pathrs_inroot_hardlink(root, p.ptr(), cp(op, "target").ptr()), false),
                    t => panic!("unknown type {t}"),
                }
            }
            "symlink" => cres(pathrs_inroot_symlink(root, cp(op, "path").ptr(), cp(op, "target").ptr()), false),
            "hardlink" => cres(pathrs_inroot_hardlink(root, cp(op, "path").ptr(), cp(op, "target").ptr()), false),
            "reopen" => {
                let fd = op.get("fd_raw").and_then(|r| r.as_i64()).map(|r| r as i32).unwrap_or(handle_fd.unwrap_or(-1));
                cres(pathrs_reopen(fd, flags), true)
            }
            "proc_open" => cres(pathrs_proc_open(base_c(op), cp(op, "path").ptr(), flags), true),
            "proc_readlink" => {
                let p = cp(op, "path");
                let base = base_c(op);
                with_buffer(op, |b, s| pathrs_proc_readlink(base, p.ptr(), b, s))
            }
            _ => panic!("unknown C op {k}"),
        }
    }
}
