#!/bin/sh
# Build the framework from files on disk only (offline): Coq development and the Rust driver.
set -e
cd "$(dirname "$0")"
export CARGO_NET_OFFLINE=true
mkdir -p .cache/work .cache/run .cache/cases evidence/replay
chmod 755 .cache .cache/work 2>/dev/null || true
python3 tools/extract_facts.py || true
( cd coq && coq_makefile -f _CoqProject -o Makefile >/dev/null && timeout 3000 make -j16 >/dev/null 2>.make.err || { tail -20 .make.err; echo "coq build failed (checks will report it)"; } )
( cd harness/driver && CARGO_TARGET_DIR=../../.cache/target timeout 3000 cargo build --offline --quiet 2>&1 | tail -5 || true )
echo setup done
