theories/Bytes.vo theories/Bytes.glob theories/Bytes.v.beautified theories/Bytes.required_vo: theories/Bytes.v 
theories/Bytes.vio: theories/Bytes.v 
theories/Bytes.vos theories/Bytes.vok theories/Bytes.required_vos: theories/Bytes.v 
theories/Path.vo theories/Path.glob theories/Path.v.beautified theories/Path.required_vo: theories/Path.v theories/Bytes.vo
theories/Path.vio: theories/Path.v theories/Bytes.vio
theories/Path.vos theories/Path.vok theories/Path.required_vos: theories/Path.v theories/Bytes.vos
theories/LinuxAbi.vo theories/LinuxAbi.glob theories/LinuxAbi.v.beautified theories/LinuxAbi.required_vo: theories/LinuxAbi.v 
theories/LinuxAbi.vio: theories/LinuxAbi.v 
theories/LinuxAbi.vos theories/LinuxAbi.vok theories/LinuxAbi.required_vos: theories/LinuxAbi.v 
gen/Consts.vo gen/Consts.glob gen/Consts.v.beautified gen/Consts.required_vo: gen/Consts.v theories/LinuxAbi.vo
gen/Consts.vio: gen/Consts.v theories/LinuxAbi.vio
gen/Consts.vos gen/Consts.vok gen/Consts.required_vos: gen/Consts.v theories/LinuxAbi.vos
theories/Prog.vo theories/Prog.glob theories/Prog.v.beautified theories/Prog.required_vo: theories/Prog.v theories/Bytes.vo theories/Path.vo
theories/Prog.vio: theories/Prog.v theories/Bytes.vio theories/Path.vio
theories/Prog.vos theories/Prog.vok theories/Prog.required_vos: theories/Prog.v theories/Bytes.vos theories/Path.vos
theories/Sysw.vo theories/Sysw.glob theories/Sysw.v.beautified theories/Sysw.required_vo: theories/Sysw.v theories/Prog.vo theories/LinuxAbi.vo gen/Consts.vo
theories/Sysw.vio: theories/Sysw.v theories/Prog.vio theories/LinuxAbi.vio gen/Consts.vio
theories/Sysw.vos theories/Sysw.vok theories/Sysw.required_vos: theories/Sysw.v theories/Prog.vos theories/LinuxAbi.vos gen/Consts.vos
theories/ProcfsM.vo theories/ProcfsM.glob theories/ProcfsM.v.beautified theories/ProcfsM.required_vo: theories/ProcfsM.v theories/Sysw.vo
theories/ProcfsM.vio: theories/ProcfsM.v theories/Sysw.vio
theories/ProcfsM.vos theories/ProcfsM.vok theories/ProcfsM.required_vos: theories/ProcfsM.v theories/Sysw.vos
theories/OpathM.vo theories/OpathM.glob theories/OpathM.v.beautified theories/OpathM.required_vo: theories/OpathM.v theories/ProcfsM.vo
theories/OpathM.vio: theories/OpathM.v theories/ProcfsM.vio
theories/OpathM.vos theories/OpathM.vok theories/OpathM.required_vos: theories/OpathM.v theories/ProcfsM.vos
theories/RootM.vo theories/RootM.glob theories/RootM.v.beautified theories/RootM.required_vo: theories/RootM.v theories/OpathM.vo
theories/RootM.vio: theories/RootM.v theories/OpathM.vio
theories/RootM.vos theories/RootM.vok theories/RootM.required_vos: theories/RootM.v theories/OpathM.vos
theories/Replay.vo theories/Replay.glob theories/Replay.v.beautified theories/Replay.required_vo: theories/Replay.v theories/RootM.vo
theories/Replay.vio: theories/Replay.v theories/RootM.vio
theories/Replay.vos theories/Replay.vok theories/Replay.required_vos: theories/Replay.v theories/RootM.vos
proofs/PathProofs.vo proofs/PathProofs.glob proofs/PathProofs.v.beautified proofs/PathProofs.required_vo: proofs/PathProofs.v theories/Bytes.vo theories/Path.vo
proofs/PathProofs.vio: proofs/PathProofs.v theories/Bytes.vio theories/Path.vio
proofs/PathProofs.vos proofs/PathProofs.vok proofs/PathProofs.required_vos: proofs/PathProofs.v theories/Bytes.vos theories/Path.vos
