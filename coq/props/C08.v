(* C08 -- procfs lookups use bounded resources and report true errors on any /proc.
   All statements are for every kernel answer, i.e. every kind of /proc. *)
From PV Require Import Discipline ProgTac DisciplineProofs FaultProofs ProcfsProps MountProofs FdBalance FdBalProofs.
Open Scope N_scope.

(* the masked-handle retry is not recursive: a handle that is not masked never
   retries, and two levels are all any lookup ever uses -- at most ONE extra
   procfs handle is constructed, whatever the host /proc looks like *)
Theorem C08_unmasked_never_retries :
  forall fz cfg f h base sub fl,
    ph_subset h = false -> peq (popen fz cfg (S f) h base sub fl) (popen fz cfg 1 h base sub fl).
Proof. exact popen_unmasked_no_retry. Qed.

Theorem C08_handles_bounded :
  forall fz cfg f h base sub fl,
    peq (popen fz cfg (S (S f)) h base sub fl) (popen fz cfg 2 h base sub fl).
Proof. exact popen_fuel2. Qed.

(* descriptors: every lookup closes whatever it opened, the extra handle included *)
Theorem C08_descriptors_bounded :
  forall fz cfg fuel h base sub fl,
    bal (Rfd []) [] (popen fz cfg fuel h base sub fl) /\ bal (Rsame []) [] (preadlink fz cfg fuel h base sub).
Proof. intros. split; [apply popen_bal|apply preadlink_bal]. Qed.

Check C08_handles_bounded :
  forall fz cfg f h base sub fl,
    peq (popen fz cfg (S (S f)) h base sub fl) (popen fz cfg 2 h base sub fl).

Print Assumptions C08_unmasked_never_retries.
Print Assumptions C08_handles_bounded.
Print Assumptions C08_descriptors_bounded.
