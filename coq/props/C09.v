(* C09 -- reopen: creation flags refused, descriptor-number independence, the
   single follow site.  (That the fd/N magic-link denotes the very open file
   description is the kernel's contract; it is exercised by the runtime oracle
   under rename/replace/unlink histories, not proved here.) *)
From PV Require Import Discipline ProgTac DisciplineProofs FaultProofs Hoare ProcfsProps FdBalProofs FdBalance EffectProofs.
Open Scope N_scope.

Theorem C09_creat_refused :
  forall fz cfg fuel gh fd fl, creation_flags fl -> okp TC TS is_Err (reopen fz cfg fuel gh fd fl).
Proof. intros. apply reopen_refuses. assumption. Qed.

(* the magic-link is addressed by number for every descriptor >= 0: no case
   distinction on the value (0 included) *)
Theorem C09_fd_independent :
  forall fd, (0 <= fd)%Z -> proc_subpath fd = Some (b "fd/" ++ dec (Z.to_N fd)).
Proof. exact proc_subpath_nonneg. Qed.

(* reopen goes through open_follow: the only possibly-following open is the
   verified magic-link one; and the descriptor table is balanced (C11) *)
Theorem C09_single_follow_site :
  forall fz cfg fuel gh fd fl hist0,
    real_fd (ph_fd gh) = true -> real_fd fd = true ->
    match proc_subpath fd with
    | Some sub => spec follow_ok TrueQ hist0 (popen_follow fz cfg fuel gh ProcThreadSelf sub (without fl REOPEN_REMOVED))
    | None => False
    end.
Proof.
  intros fz cfg fuel gh fd fl hist0 Hg Hfd. rewrite proc_subpath_nonneg; [|apply Z.leb_le; exact Hfd].
  apply popen_follow_dominated. exact Hg.
Qed.

Theorem C09_balanced :
  forall fz cfg fuel gh fd fl, bal (Rfd []) [] (reopen fz cfg fuel gh fd fl).
Proof. intros. apply reopen_bal. Qed.

Check C09_creat_refused :
  forall fz cfg fuel gh fd fl, creation_flags fl -> okp TC TS is_Err (reopen fz cfg fuel gh fd fl).
Check C09_fd_independent :
  forall fd, (0 <= fd)%Z -> proc_subpath fd = Some (b "fd/" ++ dec (Z.to_N fd)).

Example C09_fd_zero : proc_subpath 0 = Some (b "fd/0") /\ proc_subpath 1023 = Some (b "fd/1023").
Proof. split; reflexivity. Qed.

(* The whole of Handle::reopen as a PROGRAM, on the static kernel model (tree + procfs,
   theories/Static.v, tied to recorded real answers by T2'): for a descriptor open on any
   object of the tree that is not a symlink, and any flags the library accepts that fit the
   object, reopen returns a NEW descriptor open on the SAME object, and the descriptor table
   afterwards is the old one plus exactly that descriptor -- every procfs descriptor used on
   the way (thread-self directory, fd directory, the magic-link) is closed again.
   (With openat2, and without it -- every procfs step then goes through the emulated procfs
   resolver.  Premises after the handle's are properties of the tree alone.) *)
From PV Require Static StaticProofs StaticProcfs StaticReopen.

Theorem C09_reopen_same_object :
  (* [o2]: is openat2 available?  The procfs handle resolves with it exactly when it is. *)
  forall s rp fz gh o2 pf t fd o exp flags,
    fz <> 0%nat -> ph_mnt gh = Some Static.PROC_MNT -> ph_openat2 gh = o2 ->
    Static.tget t (ph_fd gh) = Some (Static.PB s) ->
    Static.tget t fd = Some o -> (o < Static.PB s)%nat -> FSModel.link_body s o = None ->
    Static.find_path s o = Some exp -> N.leb READLINK_BUF (N.of_nat (length (Static.render rp exp))) = false ->
    (intersects (without flags REOPEN_REMOVED) OPEN_FOLLOW_REFUSED || has_nz (without flags REOPEN_REMOVED) OPEN_FOLLOW_REFUSED_CONTAINS) = false ->
    (has (N.lor (N.lor (without flags REOPEN_REMOVED) OPENAT_FORCED) O_LARGEFILE) O_DIRECTORY && negb (Static.obj_is_dir s o)) = false ->
    exists nfd, Static.run s rp t (reopen fz o2 (S pf) gh fd flags) = Static.Done ((nfd, o) :: t) (Ok nfd).
Proof.
  intros s rp fz gh o2 pf t fd o exp flags Hfz Hmnt Ho2. destruct o2.
  - exact (StaticReopen.run_reopen s rp fz Hfz gh Hmnt Ho2 pf t fd o exp flags).
  - exact (StaticReopen.run_reopen_emu s rp fz Hfz gh Hmnt Ho2 pf t fd o exp flags).
Qed.

(* executed: a handle on a/b/f at descriptor 7 is reopened O_RDONLY and O_WRONLY|O_APPEND;
   a handle on the directory a/b with O_DIRECTORY; O_CREAT is refused *)
Example C09_reopen_runs :
  let s := FSModel.build [FSModel.MkDir [b "a"]; FSModel.MkDir [b "a"; b "b"]; FSModel.MkFile [b "a"; b "b"; b "f"]] in
  let gh := {| ph_fd := 4; ph_mnt := Some Static.PROC_MNT; ph_subset := false; ph_openat2 := true |} in
  let t := [(7%Z, 3%nat); (6%Z, 2%nat); (4%Z, Static.PB s)] in
  let outcome fd flags := match Static.run s (b "/srv/root") t (reopen 1 true 2 gh fd flags) with
                          | Static.Done t' (Ok nfd) => (Static.tget t' nfd, length t')
                          | Static.Done t' (Err _) => (None, length t')
                          | _ => (None, 0%nat) end in
  outcome 7%Z O_RDONLY = (Some 3%nat, 4%nat) /\ outcome 7%Z (N.lor O_WRONLY O_APPEND) = (Some 3%nat, 4%nat) /\
  outcome 6%Z (N.lor O_RDONLY O_DIRECTORY) = (Some 2%nat, 4%nat) /\ outcome 7%Z (N.lor O_RDONLY O_DIRECTORY) = (None, 3%nat) /\
  outcome 7%Z (N.lor O_WRONLY O_CREAT) = (None, 3%nat) /\
  (* the same without openat2 *)
  (match Static.run s (b "/srv/root") t (reopen 1 false 2 {| ph_fd := 4; ph_mnt := Some Static.PROC_MNT; ph_subset := false; ph_openat2 := false |} 7 O_RDONLY) with
   | Static.Done t' (Ok nfd) => (Static.tget t' nfd, length t') | _ => (None, 0%nat) end) = (Some 3%nat, 4%nat).
Proof. vm_compute. repeat split. Qed.

(* reopen never creates or changes anything, whatever flags it is given (for all answers) *)
Theorem C09_reopen_changes_nothing :
  forall fz cfg fuel gh fd flags, calls_le eff 0 (reopen fz cfg fuel gh fd flags).
Proof. intros. apply reopen_ne. Qed.

Print Assumptions C09_creat_refused.
Print Assumptions C09_fd_independent.
Print Assumptions C09_single_follow_site.
Print Assumptions C09_balanced.
Print Assumptions C09_reopen_same_object.
Print Assumptions C09_reopen_changes_nothing.
