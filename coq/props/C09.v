(* C09 -- reopen: creation flags refused, descriptor-number independence, the
   single follow site.  (That the fd/N magic-link denotes the very open file
   description is the kernel's contract; it is exercised by the runtime oracle
   under rename/replace/unlink histories, not proved here.) *)
From PV Require Import Discipline ProgTac DisciplineProofs FaultProofs Hoare ProcfsProps FdBalProofs FdBalance.
Open Scope N_scope.

Theorem C09_creat_refused :
  forall fz cfg fuel gh fd fl, creation_flags fl -> okp TC TS is_Err (reopen fz cfg fuel gh fd fl).
Proof. intros. apply reopen_refuses. assumption. Qed.

(* the magic-link is addressed by number for every descriptor >= 0: no case
   distinction on the value (0 included) *)
Theorem C09_fd_independent :
  forall fd, (0 <= fd)%Z -> proc_subpath fd = Some (b "fd/" ++ dec (Z.to_N fd)).
Proof. exact proc_subpath_nonneg. Qed.

(* reopen goes through open_follow: the only possibly-following open is the
   verified magic-link one; and the descriptor table is balanced (C11) *)
Theorem C09_single_follow_site :
  forall fz cfg fuel gh fd fl hist0,
    real_fd (ph_fd gh) = true -> real_fd fd = true ->
    match proc_subpath fd with
    | Some sub => spec follow_ok TrueQ hist0 (popen_follow fz cfg fuel gh ProcThreadSelf sub (without fl REOPEN_REMOVED))
    | None => False
    end.
Proof.
  intros fz cfg fuel gh fd fl hist0 Hg Hfd. rewrite proc_subpath_nonneg; [|apply Z.leb_le; exact Hfd].
  apply popen_follow_dominated. exact Hg.
Qed.

Theorem C09_balanced :
  forall fz cfg fuel gh fd fl, bal (Rfd []) [] (reopen fz cfg fuel gh fd fl).
Proof. intros. apply reopen_bal. Qed.

Check C09_creat_refused :
  forall fz cfg fuel gh fd fl, creation_flags fl -> okp TC TS is_Err (reopen fz cfg fuel gh fd fl).
Check C09_fd_independent :
  forall fd, (0 <= fd)%Z -> proc_subpath fd = Some (b "fd/" ++ dec (Z.to_N fd)).

Example C09_fd_zero : proc_subpath 0 = Some (b "fd/0") /\ proc_subpath 1023 = Some (b "fd/1023").
Proof. split; reflexivity. Qed.

Print Assumptions C09_creat_refused.
Print Assumptions C09_fd_independent.
Print Assumptions C09_single_follow_site.
Print Assumptions C09_balanced.
