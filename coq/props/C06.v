(* C06 -- procfs calls return only genuine procfs objects under any over-mounts.
   For all kernel answers: every descriptor ProcfsHandle::open returns passed
   verify_same_procfs_mnt (mount id equal to the handle's own, file-system type
   procfs); the emulated resolver verifies the mount id of every component it steps
   onto; a handle is accepted only for the root inode of a procfs; comparisons with
   an unknown mount id fail closed.  That equal mount ids mean "the same mount, not
   an over-mount" is the kernel's statx contract; the over-mount runs of
   tools/props/C06.py exercise it in a private mount namespace. *)
From PV Require Import Discipline ProgTac DisciplineProofs FaultProofs ProcfsProps MountProofs.
Open Scope N_scope.

Theorem C06_open_is_generic_instance :
  forall fz cfg fuel h base sub fl,
    peq (popen fz cfg fuel h base sub fl)
        (popen_gen fz cfg (verify_same_procfs_mnt fz) (verify_same_procfs_mnt fz) fuel h base sub fl).
Proof. intros. apply popen_is_gen. Qed.

Theorem C06_result_verified :
  forall fz cfg vb vf fuel, vfy_fails vf -> forall h base sub fl,
    okp TC TS is_Err (popen_gen fz cfg vb vf fuel h base sub fl).
Proof. intros. apply popen_result_verified. assumption. Qed.

Theorem C06_every_step_verified :
  forall fz vs root_mnt cur part,
    (forall m fd, okp TC TS is_Err (vs m fd)) -> okp TC TS is_Err (pstep_gen fz vs root_mnt cur part).
Proof. intros. apply pstep_verified. assumption. Qed.

(* the kernel resolver for procfs is confined by RESOLVE_BENEATH|NO_XDEV|NO_MAGICLINKS on every call (C05) *)
Theorem C06_kernel_resolver_no_xdev :
  forall fz cfg root p fl rf, real_fd root = true -> all_calls Pdn (openat2_resolve fz cfg root p fl rf).
Proof. intros. eapply okp_all_calls. apply openat2_resolve_ok. assumption. Qed.

Theorem C06_mntid_fail_closed :
  forall a, opt_n_eqb (Some a) None = false /\ opt_n_eqb None (Some a) = false.
Proof. exact mntid_fail_closed. Qed.

Print Assumptions C06_open_is_generic_instance.
Print Assumptions C06_result_verified.
Print Assumptions C06_every_step_verified.
Print Assumptions C06_kernel_resolver_no_xdev.
Print Assumptions C06_mntid_fail_closed.
