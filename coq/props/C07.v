(* C07 -- procfs lookups stay inside procfs and follow only the requested final link.
   All statements are for all kernel answers. *)
From PV Require Import Discipline ProgTac DisciplineProofs FaultProofs Hoare ProcfsProps EffectProofs.
Open Scope N_scope.

(* creation flags (O_CREAT, O_EXCL, O_TMPFILE) are refused: the resolver answers
   InvalidArgument without issuing a system call, open never succeeds, and
   open_follow refuses before doing anything at all *)
Theorem C07_creat_refused :
  forall fz cfg use root p fl rf fuel h base sub,
    creation_flags fl ->
    presolve fz cfg use root p fl rf = Ret (Err InvalidArgument) /\
    popen_follow fz cfg fuel h base sub fl = Ret (Err InvalidArgument) /\
    okp TC TS is_Err (popen fz cfg fuel h base sub fl).
Proof.
  intros. repeat split; [apply presolve_refuses|apply popen_follow_refuses|apply popen_refuses]; assumption.
Qed.

(* a ".." component never leaves procfs through the emulated resolver: the
   lookup cannot succeed (the call it ends in is EXDEV), whatever the tree is and
   also when the ".." sits behind symlinks that are expanded on the way *)
Theorem C07_dotdot_never_succeeds :
  forall fz root path fl rf,
    In [DOT; DOT] (raw_components path) -> okp TC TS is_Err (opath_resolve fz root path fl rf).
Proof. intros. apply opath_resolve_dotdot. assumption. Qed.

(* ProcfsHandle::open and readlink never follow anything: every open they issue
   carries O_NOFOLLOW (or names "." / "..") *)
Theorem C07_open_never_follows :
  forall fz cfg fuel h base sub fl,
    real_fd (ph_fd h) = true ->
    all_calls Pnf (popen fz cfg fuel h base sub fl) /\ all_calls Pnf (preadlink fz cfg fuel h base sub).
Proof.
  intros. split; eapply ac_weaken; try (eapply okp_all_calls; first [apply popen_ok|apply preadlink_ok]; eassumption);
    intros c [_ Hc]; exact Hc.
Qed.

(* open_follow follows exactly the trailing component: the only open that may
   lack O_NOFOLLOW is issued right after the mount-id check (statx) of exactly
   that (parent directory, final name) pair; everything before it is O_NOFOLLOW *)
Theorem C07_open_follow_exactly_trailing :
  forall fz cfg fuel h base sub fl hist0,
    real_fd (ph_fd h) = true ->
    spec follow_ok TrueQ hist0 (popen_follow fz cfg fuel h base sub fl).
Proof. intros. apply popen_follow_dominated. assumption. Qed.

Check C07_creat_refused :
  forall fz cfg use root p fl rf fuel h base sub,
    creation_flags fl ->
    presolve fz cfg use root p fl rf = Ret (Err InvalidArgument) /\
    popen_follow fz cfg fuel h base sub fl = Ret (Err InvalidArgument) /\
    okp TC TS is_Err (popen fz cfg fuel h base sub fl).
Check C07_dotdot_never_succeeds :
  forall fz root path fl rf,
    In [DOT; DOT] (raw_components path) -> okp TC TS is_Err (opath_resolve fz root path fl rf).
Check C07_open_follow_exactly_trailing :
  forall fz cfg fuel h base sub fl hist0,
    real_fd (ph_fd h) = true ->
    spec follow_ok TrueQ hist0 (popen_follow fz cfg fuel h base sub fl).

Example C07_creation_flags_nonvacuous :
  creation_flags (N.lor O_RDWR O_TMPFILE) /\ creation_flags (N.lor O_WRONLY O_CREAT) /\ ~ creation_flags O_DIRECTORY.
Proof.
  repeat split; [right; right; reflexivity|left; reflexivity|].
  intros [H|[H|H]]; discriminate H.
Qed.

(* whatever flags the caller passes, a procfs operation never issues a call that creates or
   changes anything (mkdirat, mknodat, unlinkat, linkat, symlinkat, renameat(2), open with
   O_CREAT): creation flags never reach the kernel -- also not through the retry on a fresh
   handle, nor through open_follow's final open of the magic-link *)
Theorem C07_procfs_ops_change_nothing :
  forall fz cfg fuel h base sub flags,
    calls_le eff 0 (popen fz cfg fuel h base sub flags) /\
    calls_le eff 0 (popen_follow fz cfg fuel h base sub flags) /\
    calls_le eff 0 (preadlink fz cfg fuel h base sub).
Proof. intros. repeat split; [apply popen_ne|apply popen_follow_ne|apply preadlink_ne]. Qed.

Print Assumptions C07_creat_refused.
Print Assumptions C07_dotdot_never_succeeds.
Print Assumptions C07_open_never_follows.
Print Assumptions C07_open_follow_exactly_trailing.
Print Assumptions C07_procfs_ops_change_nothing.
