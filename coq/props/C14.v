(* C14 -- single-entry operations act on exactly (in-root parent, final name). *)
From PV Require Static StaticProofs.
From PV Require Import Discipline ProgTac PathProofs DisciplineProofs OpathDisc RootDisc OpsProofs FSModel FSProofs CApi CApiProofs.
Open Scope N_scope.

(* The (parent, name) pair every single-entry operation acts on: the parent is
   the in-root resolution (links followed) of everything before the last '/',
   the name is the last component -- non-empty, without '/', passed to the *at call
   as is (never resolved, so a final symlink is never followed). *)
Theorem C14_parent_and_name :
  forall fz cfg pfuel gh ps rs root path,
    match path_split path with
    | Some (Ok (dirp, Some name)) =>
        peq (parent_and_name fz cfg pfuel gh ps rs root path)
            (dir <-? r_resolve fz cfg pfuel gh ps rs root dirp false ;; Ret (Ok (dir, name)))
        /\ name <> [] /\ has_slash name = false
    | Some (Ok (dirp, None)) =>
        peq (parent_and_name fz cfg pfuel gh ps rs root path)
            (dir <-? r_resolve fz cfg pfuel gh ps rs root dirp false ;; close dir ;;; Ret (Err InvalidArgument))
        /\ (path = [] \/ exists q, path = q ++ [SLASH])
    | _ => False
    end.
Proof. exact parent_and_name_shape. Qed.

(* where the split happens, for every byte string *)
Theorem C14_split_shape :
  forall p d n, path_split p = Some (Ok (d, Some n)) ->
    (has_slash p = false /\ d = [DOT] /\ n = p) \/
    (exists d0, p = d0 ++ SLASH :: n /\ d = (if is_nil d0 then [SLASH] else d0)).
Proof. exact path_split_shape. Qed.

(* a trailing slash (or an empty path) is rejected as an invalid argument and the
   operation does nothing else than resolve and close the parent -- for every
   continuation, i.e. for create (all inode types), create_file, remove_file,
   remove_dir, remove_all and both sides of rename *)
Theorem C14_trailing_slash :
  forall fz cfg pfuel gh ps B (K : Z * bytes -> prog (result B ekind)) rs root path dirp,
    path_split path = Some (Ok (dirp, None)) ->
    peq (dn <-? parent_and_name fz cfg pfuel gh ps rs root path ;; K dn)
        (dir <-? r_resolve fz cfg pfuel gh ps rs root dirp false ;; close dir ;;; Ret (Err InvalidArgument)).
Proof. intros. apply no_name_refused. assumption. Qed.

(* every call of the single-entry operations names one component relative to a
   descriptor and forbids following it (C05), for all kernel answers *)
Theorem C14_final_not_followed :
  forall fz cfg pfuel gh ps rs root path path2 ty flags mode isdir rflags,
    rfd (ph_fd gh) -> rfd root ->
    all_calls Pdn (root_create fz cfg pfuel gh ps rs root path ty) /\
    all_calls Pdn (root_create_file fz cfg pfuel gh ps rs root path flags mode) /\
    all_calls Pdn (root_remove_inode fz cfg pfuel gh ps rs root path isdir) /\
    all_calls Pdn (root_rename fz cfg pfuel gh ps rs root path path2 rflags).
Proof.
  intros. repeat split; eapply okp_all_calls;
    [apply root_create_ok|apply root_create_file_ok|apply root_remove_inode_ok|apply root_rename_ok]; assumption.
Qed.

(* the parent really is the kernel's in-root resolution of the prefix (C01) *)
Theorem C14_parent_is_in_root_resolution :
  forall s df, wf s df -> forall p nosym, p <> [] -> kwalk s p false nosym <> WBudget ->
    ewalk s p false nosym = kwalk s p false nosym.
Proof. intros s df H p nosym Hp Hb. apply (emu_eq_kernel s df H); [right; exact Hp|exact Hb]. Qed.

Theorem C14_mknod_mode_decode :
  forall mode dev,
    match c_mknod_type mode dev with
    | Ok (IFile p) => N.land mode S_IFMT = S_IFREG /\ p = N.ldiff mode S_IFMT
    | Ok (IDirectory p) => N.land mode S_IFMT = S_IFDIR /\ p = N.ldiff mode S_IFMT
    | Ok (IBlockDev p d) => N.land mode S_IFMT = S_IFBLK /\ p = N.ldiff mode S_IFMT /\ d = dev
    | Ok (ICharDev p d) => N.land mode S_IFMT = S_IFCHR /\ p = N.ldiff mode S_IFMT /\ d = dev
    | Ok (IFifo p) => N.land mode S_IFMT = S_IFIFO /\ p = N.ldiff mode S_IFMT
    | Ok _ => False
    | Err NotImplemented => N.land mode S_IFMT = S_IFSOCK
    | Err InvalidArgument => ~ In (N.land mode S_IFMT) [S_IFREG; S_IFDIR; S_IFBLK; S_IFCHR; S_IFIFO; S_IFSOCK]
    | Err _ => False
    end.
Proof. exact c_mknod_decode. Qed.

Example C14_split_examples :
  path_split (b "a/b/c") = Some (Ok (b "a/b", Some (b "c"))) /\
  path_split (b "c") = Some (Ok (b ".", Some (b "c"))) /\
  path_split (b "/c") = Some (Ok (b "/", Some (b "c"))) /\
  path_split (b "a/b/") = Some (Ok (b "a/b", None)) /\
  path_split (b "a/..") = Some (Ok (b "a", Some (b ".."))) /\
  path_split [] = Some (Ok (b ".", None)).
Proof. repeat split; reflexivity. Qed.

(* ... and, executed on the static kernel model over any well-formed tree, the emulated
   backend hands the *at call a descriptor open on exactly the object the in-root
   walk of the prefix ends on, together with path_split's last component (C01's
   refinement composed with the split; premise on check_current as in C01) *)
Theorem C14_static_parent_object :
  forall s rp F fz o2 pfuel gh ps df rs t root path dirp name,
    StaticProofs.closed s -> fz <> 0%nat -> StaticProofs.chk_static_ok s rp F (OpathM.check_current fz o2 pfuel gh) -> wf s df -> StaticProofs.links_ok s ->
    rs_kernel rs = false ->
    path_split path = Some (Ok (dirp, Some name)) -> has_nul dirp = false ->
    StaticProofs.Frame s F t -> Static.tget t root = Some ROOT ->
    match ewalk s dirp false (has (rs_flags rs) RESOLVE_NO_SYMLINKS) with
    | WOk o => exists t' fd, Static.run s rp t (parent_and_name fz o2 pfuel gh ps rs root path) = Static.Done t' (Ok (fd, name))
                             /\ Static.tget t' fd = Some o
    | WErr n => exists t', Static.run s rp t (parent_and_name fz o2 pfuel gh ps rs root path) = Static.Done t' (Err (OsError n))
    | WBudget => exists t', Static.run s rp t (parent_and_name fz o2 pfuel gh ps rs root path) = Static.Done t' (Err (OsError ELOOP))
    end.
Proof. exact StaticProofs.parent_and_name_static. Qed.

(* ... and the call that changes the tree is made on that descriptor with that name:
   executing create (directory / file / fifo / device node) and remove_file / remove_dir of the
   emulated backend on the static kernel over any well-formed tree ARRIVES AT mkdirat /
   mknodat / unlinkat on (descriptor open on the object the in-root walk of the parent path
   ends on, path_split's last component).  [reaches] is "execution on the static kernel
   arrives at this call"; that no other tree-changing call is issued before or after it is
   C03's statement for all answers and is counted on every real trace by tools/props/C14.py. *)
From PV Require StaticEffects.

Theorem C14_create_dir_acts_on_parent_object :
  forall s rp F df fz pfuel o2 gh ps rs t root path dirp name o m,
    StaticProofs.closed s -> fz <> 0%nat -> StaticProofs.chk_static_ok s rp F (OpathM.check_current fz o2 pfuel gh) ->
    wf s df -> StaticProofs.links_ok s -> rs_kernel rs = false ->
    path_split path = Some (Ok (dirp, Some name)) -> has_nul dirp = false -> has_nul name = false ->
    StaticProofs.Frame s F t -> Static.tget t root = Some ROOT ->
    ewalk s dirp false (has (rs_flags rs) RESOLVE_NO_SYMLINKS) = WOk o ->
    exists t1 dir, Static.tget t1 dir = Some o /\
      StaticEffects.reaches s rp t (root_create fz o2 pfuel gh ps rs root path (IDirectory m))
                                  (Mkdirat dir name (N.land (perm m) MODE_BITS)) t1.
Proof. intros s rp F df fz pfuel o2 gh ps rs t root path dirp name o m Hcl Hfz Hchk Hwf Hl Hk.
       exact (StaticEffects.create_dir_reaches s rp F df fz pfuel o2 gh ps Hcl Hfz Hchk Hwf Hl rs Hk t root path dirp name o m). Qed.

Theorem C14_remove_acts_on_parent_object :
  forall s rp F df fz pfuel o2 gh ps rs t root path dirp name o isdir,
    StaticProofs.closed s -> fz <> 0%nat -> StaticProofs.chk_static_ok s rp F (OpathM.check_current fz o2 pfuel gh) ->
    wf s df -> StaticProofs.links_ok s -> rs_kernel rs = false ->
    path_split path = Some (Ok (dirp, Some name)) -> has_nul dirp = false -> has_nul name = false ->
    StaticProofs.Frame s F t -> Static.tget t root = Some ROOT ->
    ewalk s dirp false (has (rs_flags rs) RESOLVE_NO_SYMLINKS) = WOk o ->
    exists t1 dir, Static.tget t1 dir = Some o /\
      StaticEffects.reaches s rp t (root_remove_inode fz o2 pfuel gh ps rs root path isdir)
                                  (Unlinkat dir name (if isdir then AT_REMOVEDIR else 0)) t1.
Proof. intros s rp F df fz pfuel o2 gh ps rs t root path dirp name o isdir Hcl Hfz Hchk Hwf Hl Hk.
       exact (StaticEffects.remove_reaches s rp F df fz pfuel o2 gh ps Hcl Hfz Hchk Hwf Hl rs Hk t root path dirp name o isdir). Qed.

Theorem C14_create_node_acts_on_parent_object :
  forall s rp F df fz pfuel o2 gh ps rs t root path dirp name o raw dev ty,
    StaticProofs.closed s -> fz <> 0%nat -> StaticProofs.chk_static_ok s rp F (OpathM.check_current fz o2 pfuel gh) ->
    wf s df -> StaticProofs.links_ok s -> rs_kernel rs = false ->
    (ty = IFile raw \/ ty = IFifo raw \/ ty = ICharDev raw dev \/ ty = IBlockDev raw dev) ->
    path_split path = Some (Ok (dirp, Some name)) -> has_nul dirp = false -> has_nul name = false ->
    StaticProofs.Frame s F t -> Static.tget t root = Some ROOT ->
    ewalk s dirp false (has (rs_flags rs) RESOLVE_NO_SYMLINKS) = WOk o ->
    exists t1 dir mode d, Static.tget t1 dir = Some o /\
      StaticEffects.reaches s rp t (root_create fz o2 pfuel gh ps rs root path ty) (Mknodat dir name mode d) t1.
Proof. intros s rp F df fz pfuel o2 gh ps rs t root path dirp name o raw dev ty Hcl Hfz Hchk Hwf Hl Hk.
       exact (StaticEffects.create_node_reaches s rp F df fz pfuel o2 gh ps Hcl Hfz Hchk Hwf Hl rs Hk t root path dirp name o raw dev ty). Qed.

(* the mknodat call exactly: the inode kind comes from the InodeType alone, the permission
   bits are the caller's mode & 07777 -- whatever S_IFMT bits that mode word carries are
   dropped -- and the device number is the one given *)
Theorem C14_create_node_exact_call :
  forall s rp F df fz pfuel o2 gh ps rs t root path dirp name o ty,
    StaticProofs.closed s -> fz <> 0%nat -> StaticProofs.chk_static_ok s rp F (OpathM.check_current fz o2 pfuel gh) ->
    wf s df -> StaticProofs.links_ok s -> rs_kernel rs = false ->
    StaticEffects.node_type ty <> 0 ->
    path_split path = Some (Ok (dirp, Some name)) -> has_nul dirp = false -> has_nul name = false ->
    StaticProofs.Frame s F t -> Static.tget t root = Some ROOT ->
    ewalk s dirp false (has (rs_flags rs) RESOLVE_NO_SYMLINKS) = WOk o ->
    exists t1 dir, Static.tget t1 dir = Some o /\
      StaticEffects.reaches s rp t (root_create fz o2 pfuel gh ps rs root path ty)
        (Mknodat dir name (N.lor (StaticEffects.node_type ty) (N.land (StaticEffects.node_raw ty) MODE_BITS)) (StaticEffects.node_dev ty)) t1.
Proof. intros s rp F df fz pfuel o2 gh ps rs t root path dirp name o ty Hcl Hfz Hchk Hwf Hl Hk.
       exact (StaticEffects.create_node_reaches_exact s rp F df fz pfuel o2 gh ps Hcl Hfz Hchk Hwf Hl rs Hk t root path dirp name o ty). Qed.

Example C14_node_type_table :
  StaticEffects.node_type (IFile 16872) = S_IFREG /\ StaticEffects.node_type (IFifo 33184) = S_IFIFO /\
  StaticEffects.node_type (ICharDev 16872 259) = S_IFCHR /\ StaticEffects.node_type (IBlockDev 33184 259) = S_IFBLK /\
  N.lor (StaticEffects.node_type (IFile 16872)) (N.land (StaticEffects.node_raw (IFile 16872)) MODE_BITS) = 33256.
Proof. repeat split; reflexivity. Qed.

Theorem C14_create_symlink_acts_on_parent_object :
  forall s rp F df fz pfuel o2 gh ps rs t root path dirp name o target,
    StaticProofs.closed s -> fz <> 0%nat -> StaticProofs.chk_static_ok s rp F (OpathM.check_current fz o2 pfuel gh) ->
    wf s df -> StaticProofs.links_ok s -> rs_kernel rs = false ->
    path_split path = Some (Ok (dirp, Some name)) -> has_nul dirp = false -> has_nul name = false -> has_nul target = false ->
    StaticProofs.Frame s F t -> Static.tget t root = Some ROOT ->
    ewalk s dirp false (has (rs_flags rs) RESOLVE_NO_SYMLINKS) = WOk o ->
    exists t1 dir, Static.tget t1 dir = Some o /\
      StaticEffects.reaches s rp t (root_create fz o2 pfuel gh ps rs root path (ISymlink target)) (Symlinkat target dir name) t1.
Proof. intros s rp F df fz pfuel o2 gh ps rs t root path dirp name o target Hcl Hfz Hchk Hwf Hl Hk.
       exact (StaticEffects.create_symlink_reaches s rp F df fz pfuel o2 gh ps Hcl Hfz Hchk Hwf Hl rs Hk t root path dirp name o target). Qed.

Theorem C14_create_file_acts_on_parent_object :
  forall s rp F df fz pfuel o2 gh ps rs t root path dirp name o flags mode,
    StaticProofs.closed s -> fz <> 0%nat -> StaticProofs.chk_static_ok s rp F (OpathM.check_current fz o2 pfuel gh) ->
    wf s df -> StaticProofs.links_ok s -> rs_kernel rs = false ->
    has flags O_PATH = false ->
    path_split path = Some (Ok (dirp, Some name)) -> has_nul dirp = false -> has_nul name = false ->
    StaticProofs.Frame s F t -> Static.tget t root = Some ROOT ->
    ewalk s dirp false (has (rs_flags rs) RESOLVE_NO_SYMLINKS) = WOk o ->
    exists t1 dir, Static.tget t1 dir = Some o /\
      StaticEffects.reaches s rp t (root_create_file fz o2 pfuel gh ps rs root path flags mode)
        (Openat dir name (N.lor (N.lor (N.lor (N.lor flags CREATE_FILE_FORCED) OPENAT_NOFOLLOW_FORCED) OPENAT_FORCED) O_LARGEFILE)
                (N.land mode MODE_BITS)) t1.
Proof. intros s rp F df fz pfuel o2 gh ps rs t root path dirp name o flags mode Hcl Hfz Hchk Hwf Hl Hk.
       exact (StaticEffects.create_file_reaches s rp F df fz pfuel o2 gh ps Hcl Hfz Hchk Hwf Hl rs Hk t root path dirp name o flags mode). Qed.

(* two parents: the descriptor of the first parent survives the second walk (C11's balance
   judgement read on the static kernel), so rename and hard links arrive at renameat(2) /
   linkat on (source parent object, name, destination parent object, name) *)
Theorem C14_rename_acts_on_parent_objects :
  forall s rp F df fz pfuel o2 gh ps rs t root src dst sdirp sname ddirp dname o1 o3 fl,
    StaticProofs.closed s -> fz <> 0%nat -> StaticProofs.chk_static_ok s rp F (OpathM.check_current fz o2 pfuel gh) ->
    wf s df -> StaticProofs.links_ok s -> rs_kernel rs = false ->
    path_split src = Some (Ok (sdirp, Some sname)) -> has_nul sdirp = false -> has_nul sname = false ->
    path_split dst = Some (Ok (ddirp, Some dname)) -> has_nul ddirp = false -> has_nul dname = false ->
    StaticProofs.Frame s F t -> Static.tget t root = Some ROOT ->
    ewalk s sdirp false (has (rs_flags rs) RESOLVE_NO_SYMLINKS) = WOk o1 ->
    ewalk s ddirp false (has (rs_flags rs) RESOLVE_NO_SYMLINKS) = WOk o3 ->
    exists t2 d1 d2, Static.tget t2 d1 = Some o1 /\ Static.tget t2 d2 = Some o3 /\
      StaticEffects.reaches s rp t (root_rename fz o2 pfuel gh ps rs root src dst fl)
        (if N.eqb fl 0 then Renameat d1 sname d2 dname else Renameat2 d1 sname d2 dname fl) t2.
Proof. intros s rp F df fz pfuel o2 gh ps rs t root src dst sdirp sname ddirp dname o1 o3 fl Hcl Hfz Hchk Hwf Hl Hk.
       exact (StaticEffects.rename_reaches s rp F df fz pfuel o2 gh ps Hcl Hfz Hchk Hwf Hl rs Hk t root src dst sdirp sname ddirp dname o1 o3 fl). Qed.

Theorem C14_hardlink_acts_on_parent_objects :
  forall s rp F df fz pfuel o2 gh ps rs t root path target dirp name tdirp tname o1 o3,
    StaticProofs.closed s -> fz <> 0%nat -> StaticProofs.chk_static_ok s rp F (OpathM.check_current fz o2 pfuel gh) ->
    wf s df -> StaticProofs.links_ok s -> rs_kernel rs = false ->
    path_split path = Some (Ok (dirp, Some name)) -> has_nul dirp = false -> has_nul name = false ->
    path_split target = Some (Ok (tdirp, Some tname)) -> has_nul tdirp = false -> has_nul tname = false ->
    StaticProofs.Frame s F t -> Static.tget t root = Some ROOT ->
    ewalk s dirp false (has (rs_flags rs) RESOLVE_NO_SYMLINKS) = WOk o1 ->
    ewalk s tdirp false (has (rs_flags rs) RESOLVE_NO_SYMLINKS) = WOk o3 ->
    exists t2 d1 d2, Static.tget t2 d1 = Some o1 /\ Static.tget t2 d2 = Some o3 /\
      StaticEffects.reaches s rp t (root_create fz o2 pfuel gh ps rs root path (IHardlink target)) (Linkat d2 tname d1 name LINKAT_FLAGS) t2.
Proof. intros s rp F df fz pfuel o2 gh ps rs t root path target dirp name tdirp tname o1 o3 Hcl Hfz Hchk Hwf Hl Hk.
       exact (StaticEffects.create_hardlink_reaches s rp F df fz pfuel o2 gh ps Hcl Hfz Hchk Hwf Hl rs Hk t root path target dirp name tdirp tname o1 o3). Qed.


(* ---- the full functional statement, on the DYNAMIC kernel model (theories/Dyn.v) -------------
   The state is (tree, descriptor table, directory streams read to their end); the calls that
   change the tree have their effect on it ([create_sem], [unlink_sem], [link_sem], [rename_sem],
   [creat_sem]: tied to the running kernel by T2d, tools/props/C14.py).  [parent_ok] is "the
   parent lookup of this path ended with [dir] open on object [o], every other descriptor as it
   was"; each backend establishes it from its walk (the emulated one by C01's refinement and
   C11's balance through the bridge DynProofs.drun_static, the kernel one by one openat2).
   Executing the operation then ends in EXACTLY the state the *at call produces on (o, name):
   its tree, or the old tree and its errno; [dir] closed again; nothing else. *)
From PV Require Dyn DynProofs DynEffects.

Theorem C14_bridge_static_to_dynamic :
  forall rp A (p : prog A), FaultProofs.calls_le EffectProofs.eff 0 p -> forall s t t1 a,
    Static.run s rp t p = Static.Done t1 a ->
    Dyn.drun rp {| Dyn.ds := s; Dyn.dt := t; Dyn.dseen := [] |} p = Dyn.DDone {| Dyn.ds := s; Dyn.dt := t1; Dyn.dseen := [] |} a.
Proof. exact DynProofs.drun_static. Qed.

Theorem C14_parent_ok_emulated :
  forall s rp F df fz pfuel o2 gh ps,
    StaticProofs.closed s -> fz <> 0%nat -> StaticProofs.chk_static_ok s rp F (OpathM.check_current fz o2 pfuel gh) ->
    wf s df -> StaticProofs.links_ok s -> forall rs, rs_kernel rs = false ->
    forall t root path dirp name o,
    path_split path = Some (Ok (dirp, Some name)) -> has_nul dirp = false ->
    StaticProofs.Frame s F t -> Static.tget t root = Some ROOT ->
    ewalk s dirp false (has (rs_flags rs) RESOLVE_NO_SYMLINKS) = WOk o ->
    exists t1 dir, DynEffects.parent_ok s rp fz pfuel o2 gh ps rs t root path t1 dir name o /\ StaticProofs.Frame s F t1 /\ Static.tget t1 root = Some ROOT.
Proof. exact DynEffects.parent_ok_emu. Qed.

Theorem C14_parent_ok_kernel :
  forall s rp fz pfuel gh ps, StaticProofs.closed s -> fz <> 0%nat -> forall rs, rs_kernel rs = true ->
    forall t root path dirp name o,
    path_split path = Some (Ok (dirp, Some name)) -> has_nul dirp = false ->
    Static.tget t root = Some ROOT ->
    kwalk s dirp false (has (N.lor OPENAT2_RESOLVE_RESOLVE (rs_flags rs)) RESOLVE_NO_SYMLINKS) = WOk o ->
    DynEffects.parent_ok s rp fz pfuel true gh ps rs t root path ((Static.fresh t, o) :: t) (Static.fresh t) name o.
Proof. exact DynEffects.parent_ok_kern. Qed.

Theorem C14_create_dir_exact_effect :
  forall s rp fz pfuel o2 gh ps rs, fz <> 0%nat -> forall t root path t1 dir name o m,
    DynEffects.parent_ok s rp fz pfuel o2 gh ps rs t root path t1 dir name o -> has_nul name = false ->
    Dyn.drun rp {| Dyn.ds := s; Dyn.dt := t; Dyn.dseen := [] |} (root_create fz o2 pfuel gh ps rs root path (IDirectory m)) =
    DynProofs.after_unit s t1 dir (Dyn.create_sem s o name KDir).
Proof. exact DynEffects.create_dir_exact. Qed.

Theorem C14_create_node_exact_effect :
  forall s rp fz pfuel o2 gh ps rs, fz <> 0%nat -> forall t root path t1 dir name o ty k,
    DynEffects.parent_ok s rp fz pfuel o2 gh ps rs t root path t1 dir name o -> has_nul name = false ->
    StaticEffects.node_type ty <> 0 ->
    Dyn.kind_of_mode (N.lor (StaticEffects.node_type ty) (N.land (StaticEffects.node_raw ty) MODE_BITS)) = Some k ->
    Dyn.drun rp {| Dyn.ds := s; Dyn.dt := t; Dyn.dseen := [] |} (root_create fz o2 pfuel gh ps rs root path ty) =
    DynProofs.after_unit s t1 dir (Dyn.create_sem s o name k).
Proof. exact DynEffects.create_node_exact. Qed.

Theorem C14_create_symlink_exact_effect :
  forall s rp fz pfuel o2 gh ps rs, fz <> 0%nat -> forall t root path t1 dir name o target,
    DynEffects.parent_ok s rp fz pfuel o2 gh ps rs t root path t1 dir name o -> has_nul name = false -> has_nul target = false ->
    Dyn.drun rp {| Dyn.ds := s; Dyn.dt := t; Dyn.dseen := [] |} (root_create fz o2 pfuel gh ps rs root path (ISymlink target)) =
    DynProofs.after_unit s t1 dir (if is_nil target then Dyn.EErr ENOENT else Dyn.create_sem s o name (KLnk target)).
Proof. exact DynEffects.create_symlink_exact. Qed.

Theorem C14_remove_exact_effect :
  forall s rp fz pfuel o2 gh ps rs, fz <> 0%nat -> forall t root path t1 dir name o isdir,
    DynEffects.parent_ok s rp fz pfuel o2 gh ps rs t root path t1 dir name o -> has_nul name = false ->
    Dyn.drun rp {| Dyn.ds := s; Dyn.dt := t; Dyn.dseen := [] |} (root_remove_inode fz o2 pfuel gh ps rs root path isdir) =
    DynProofs.after_unit s t1 dir (Dyn.unlink_sem s o name (if isdir then AT_REMOVEDIR else 0)).
Proof. exact DynEffects.remove_exact. Qed.

(* create_file: the descriptor returned is open on the very object that now is (or already
   was) under that name in the resulting tree *)
Theorem C14_create_file_exact_effect :
  forall s rp fz pfuel o2 gh ps rs, fz <> 0%nat -> forall t root path t1 dir name o flags mode,
    has flags O_PATH = false ->
    DynEffects.parent_ok s rp fz pfuel o2 gh ps rs t root path t1 dir name o -> has_nul name = false ->
    let fl := N.lor (N.lor (N.lor (N.lor flags CREATE_FILE_FORCED) OPENAT_NOFOLLOW_FORCED) OPENAT_FORCED) O_LARGEFILE in
    Dyn.drun rp {| Dyn.ds := s; Dyn.dt := t; Dyn.dseen := [] |} (root_create_file fz o2 pfuel gh ps rs root path flags mode) =
    match Dyn.creat_sem s o name fl with
    | Dyn.EOpen s' ob =>
        let t2 := Dyn.reloc (Dyn.NPB s) (Dyn.NPB s') t1 in
        Dyn.DDone {| Dyn.ds := s'; Dyn.dt := Static.tdel ((Static.fresh t2, ob) :: t2) dir; Dyn.dseen := [] |} (Ok (Static.fresh t2))
    | Dyn.EErr e => Dyn.DDone {| Dyn.ds := s; Dyn.dt := Static.tdel t1 dir; Dyn.dseen := [] |} (Err (OsError e))
    | Dyn.EOut => Dyn.DDone {| Dyn.ds := s; Dyn.dt := Static.tdel t1 dir; Dyn.dseen := [] |} (Err (OsError ENOSYS))
    | Dyn.EUnit _ => Dyn.DNoFuel
    end.
Proof. exact DynEffects.create_file_exact. Qed.

(* F-S: with O_PATH the kernel drops O_CREAT, so create_file would OPEN its unresolved final component --
   create_file("..", O_PATH) returned a descriptor of the root's parent.  Since fix f484c6b O_PATH is refused
   before any system call (T0 fact CREATE_FILE_REFUSES_OPATH); the theorems above are about the other flag words *)
Theorem C14_create_file_refuses_o_path :
  forall fz o2 pfuel gh ps rs root path flags mode,
    has flags O_PATH = true -> root_create_file fz o2 pfuel gh ps rs root path flags mode = Ret (Err InvalidArgument).
Proof. intros. apply DynEffects.create_file_opath_refused. assumption. Qed.

Theorem C14_rename_exact_effect :
  forall s rp fz pfuel o2 gh ps rs, fz <> 0%nat -> forall t root src dst t1 d1 sname o1 t2 d2 dname o3 fl,
    DynEffects.parent_ok s rp fz pfuel o2 gh ps rs t root src t1 d1 sname o1 ->
    DynEffects.parent_ok s rp fz pfuel o2 gh ps rs t1 root dst t2 d2 dname o3 ->
    has_nul sname = false -> has_nul dname = false ->
    Dyn.drun rp {| Dyn.ds := s; Dyn.dt := t; Dyn.dseen := [] |} (root_rename fz o2 pfuel gh ps rs root src dst fl) =
    match Dyn.rename_sem s o1 sname o3 dname fl with
    | Dyn.EUnit s' => Dyn.DDone {| Dyn.ds := s'; Dyn.dt := Static.tdel (Static.tdel (Dyn.reloc (Dyn.NPB s) (Dyn.NPB s') t2) d2) d1; Dyn.dseen := [] |} (Ok tt)
    | Dyn.EErr e => Dyn.DDone {| Dyn.ds := s; Dyn.dt := Static.tdel (Static.tdel t2 d2) d1; Dyn.dseen := [] |} (Err (OsError e))
    | Dyn.EOut => Dyn.DDone {| Dyn.ds := s; Dyn.dt := Static.tdel (Static.tdel t2 d2) d1; Dyn.dseen := [] |} (Err (OsError ENOSYS))
    | Dyn.EOpen _ _ => Dyn.DNoFuel
    end.
Proof. exact DynEffects.rename_exact. Qed.

Theorem C14_hardlink_exact_effect :
  forall s rp fz pfuel o2 gh ps rs, fz <> 0%nat -> forall t root path target t1 d1 name o1 t2 d2 tname o3,
    DynEffects.parent_ok s rp fz pfuel o2 gh ps rs t root path t1 d1 name o1 ->
    DynEffects.parent_ok s rp fz pfuel o2 gh ps rs t1 root target t2 d2 tname o3 ->
    has_nul name = false -> has_nul tname = false ->
    Dyn.drun rp {| Dyn.ds := s; Dyn.dt := t; Dyn.dseen := [] |} (root_create fz o2 pfuel gh ps rs root path (IHardlink target)) =
    match Dyn.link_sem s o3 tname o1 name LINKAT_FLAGS with
    | Dyn.EUnit s' => Dyn.DDone {| Dyn.ds := s'; Dyn.dt := Static.tdel (Static.tdel (Dyn.reloc (Dyn.NPB s) (Dyn.NPB s') t2) d1) d2; Dyn.dseen := [] |} (Ok tt)
    | Dyn.EErr e => Dyn.DDone {| Dyn.ds := s; Dyn.dt := Static.tdel (Static.tdel t2 d1) d2; Dyn.dseen := [] |} (Err (OsError e))
    | Dyn.EOut => Dyn.DDone {| Dyn.ds := s; Dyn.dt := Static.tdel (Static.tdel t2 d1) d2; Dyn.dseen := [] |} (Err (OsError ENOSYS))
    | Dyn.EOpen _ _ => Dyn.DNoFuel
    end.
Proof. exact DynEffects.hardlink_exact. Qed.

(* the kernel backend with every premise discharged but the tree's own: create(path, Directory) and remove_file /
   remove_dir end in mkdirat's / unlinkat's effect on (the kernel's in-root walk of the parent path, the last
   component), with the descriptor table exactly as it was *)
Theorem C14_create_dir_kernel_backend :
  forall s rp fz pfuel gh ps rs, StaticProofs.closed s -> fz <> 0%nat -> rs_kernel rs = true ->
  forall t root path dirp name o m,
  path_split path = Some (Ok (dirp, Some name)) -> has_nul dirp = false -> has_nul name = false ->
  Static.tget t root = Some ROOT ->
  kwalk s dirp false (has (N.lor OPENAT2_RESOLVE_RESOLVE (rs_flags rs)) RESOLVE_NO_SYMLINKS) = WOk o ->
  Dyn.drun rp {| Dyn.ds := s; Dyn.dt := t; Dyn.dseen := [] |} (root_create fz true pfuel gh ps rs root path (IDirectory m)) =
  match Dyn.create_sem s o name KDir with
  | Dyn.EUnit s' => Dyn.DDone {| Dyn.ds := s'; Dyn.dt := Dyn.reloc (Dyn.NPB s) (Dyn.NPB s') t; Dyn.dseen := [] |} (Ok tt)
  | Dyn.EErr e => Dyn.DDone {| Dyn.ds := s; Dyn.dt := t; Dyn.dseen := [] |} (Err (OsError e))
  | Dyn.EOut => Dyn.DDone {| Dyn.ds := s; Dyn.dt := t; Dyn.dseen := [] |} (Err (OsError ENOSYS))
  | Dyn.EOpen _ _ => Dyn.DNoFuel
  end.
Proof. exact DynEffects.create_dir_kernel. Qed.

Theorem C14_remove_kernel_backend :
  forall s rp fz pfuel gh ps rs, StaticProofs.closed s -> fz <> 0%nat -> rs_kernel rs = true ->
  forall t root path dirp name o isdir,
  path_split path = Some (Ok (dirp, Some name)) -> has_nul dirp = false -> has_nul name = false ->
  Static.tget t root = Some ROOT ->
  kwalk s dirp false (has (N.lor OPENAT2_RESOLVE_RESOLVE (rs_flags rs)) RESOLVE_NO_SYMLINKS) = WOk o ->
  Dyn.drun rp {| Dyn.ds := s; Dyn.dt := t; Dyn.dseen := [] |} (root_remove_inode fz true pfuel gh ps rs root path isdir) =
  match Dyn.unlink_sem s o name (if isdir then AT_REMOVEDIR else 0) with
  | Dyn.EUnit s' => Dyn.DDone {| Dyn.ds := s'; Dyn.dt := Dyn.reloc (Dyn.NPB s) (Dyn.NPB s') t; Dyn.dseen := [] |} (Ok tt)
  | Dyn.EErr e => Dyn.DDone {| Dyn.ds := s; Dyn.dt := t; Dyn.dseen := [] |} (Err (OsError e))
  | Dyn.EOut => Dyn.DDone {| Dyn.ds := s; Dyn.dt := t; Dyn.dseen := [] |} (Err (OsError ENOSYS))
  | Dyn.EOpen _ _ => Dyn.DNoFuel
  end.
Proof. exact DynEffects.remove_kernel. Qed.

(* ---- the premises are invariants: every tree that any sequence of the modelled operations (mkdirat / mknodat /
   symlinkat, openat(O_CREAT), unlinkat, linkat, renameat2 with its three flag values, mkdir_all's loop, remove_all) can
   produce from an empty root -- any order, any arguments, failing or not -- satisfies what the functional theorems
   assume of a tree (closed2, ents_ok, uniq, dirs_ok, tree_ok) *)
From PV Require DynInv.
Theorem C14_every_reachable_tree_satisfies_the_premises :
  forall ops, let s := fold_left DynInv.apply_op ops DynInv.root_only in
  DynMkdir.closed2 s /\ DynRemove.ents_ok s /\ DynRemoveExact.uniq s /\ DynMkdirComplete.dirs_ok s /\ DynRemoveConc.tree_ok s.
Proof. exact DynInv.reachable_premises. Qed.

(* executed (non-vacuity): on a concrete tree the real model programs, run on the dynamic kernel by
   both backends, create a/b/new through the escaping link, refuse to rmdir a non-empty directory
   (ENOTEMPTY, tree unchanged), and move a directory with its content *)
Example C14_dynamic_runs :
  let s := FSModel.build [FSModel.MkDir [b "a"]; FSModel.MkDir [b "a"; b "b"]; FSModel.MkFile [b "a"; b "b"; b "f"]; FSModel.MkLnk [b "esc"] (b "../../.."); FSModel.MkLnk [b "a"; b "up"] (b "../a/b")] in
  let gh := {| ph_fd := 4; ph_mnt := Some Static.PROC_MNT; ph_subset := false; ph_openat2 := true |} in
  let st := {| Dyn.ds := s; Dyn.dt := [(5%Z, ROOT); (4%Z, Static.PB s)]; Dyn.dseen := [] |} in
  let emu := {| rs_kernel := false; rs_flags := 0 |} in let kern := {| rs_kernel := true; rs_flags := 0 |} in
  let tree {A} (o : Dyn.doutcome A) := match o with Dyn.DDone st' _ => map (fun e => fst (fst e)) (Dyn.dump (Dyn.ds st')) | _ => [] end in
  let res {A} (o : Dyn.doutcome A) := match o with Dyn.DDone _ a => Some a | _ => None end in
  tree (Dyn.drun (b "/srv/root") st (root_create 1 true 2 gh 1 emu 5 (b "esc/a/up/new") (IDirectory 493)))
    = [[b "a"]; [b "a"; b "b"]; [b "a"; b "b"; b "f"]; [b "a"; b "b"; b "new"]; [b "a"; b "up"]; [b "esc"]] /\
  tree (Dyn.drun (b "/srv/root") st (root_create 1 true 2 gh 1 kern 5 (b "esc/a/up/new") (IDirectory 493)))
    = [[b "a"]; [b "a"; b "b"]; [b "a"; b "b"; b "f"]; [b "a"; b "b"; b "new"]; [b "a"; b "up"]; [b "esc"]] /\
  res (Dyn.drun (b "/srv/root") st (root_remove_inode 1 true 2 gh 1 emu 5 (b "a/b") true)) = Some (Err (OsError ENOTEMPTY)) /\
  tree (Dyn.drun (b "/srv/root") st (root_remove_inode 1 true 2 gh 1 emu 5 (b "a/b") true)) = map (fun e => fst (fst e)) (Dyn.dump s) /\
  tree (Dyn.drun (b "/srv/root") st (root_rename 1 true 2 gh 1 emu 5 (b "a/b") (b "bb") 0))
    = [[b "a"]; [b "a"; b "up"]; [b "esc"]; [b "bb"]; [b "bb"; b "f"]].
Proof. vm_compute. repeat split. Qed.

Print Assumptions C14_every_reachable_tree_satisfies_the_premises.
Print Assumptions C14_parent_and_name.
Print Assumptions C14_split_shape.
Print Assumptions C14_trailing_slash.
Print Assumptions C14_final_not_followed.
Print Assumptions C14_parent_is_in_root_resolution.
Print Assumptions C14_mknod_mode_decode.
Print Assumptions C14_static_parent_object.
Print Assumptions C14_create_dir_acts_on_parent_object.
Print Assumptions C14_remove_acts_on_parent_object.
Print Assumptions C14_create_node_acts_on_parent_object.
Print Assumptions C14_create_node_exact_call.
Print Assumptions C14_create_symlink_acts_on_parent_object.
Print Assumptions C14_create_file_acts_on_parent_object.
Print Assumptions C14_rename_acts_on_parent_objects.
Print Assumptions C14_hardlink_acts_on_parent_objects.
Print Assumptions C14_bridge_static_to_dynamic.
Print Assumptions C14_parent_ok_emulated.
Print Assumptions C14_parent_ok_kernel.
Print Assumptions C14_create_dir_exact_effect.
Print Assumptions C14_create_node_exact_effect.
Print Assumptions C14_create_symlink_exact_effect.
Print Assumptions C14_remove_exact_effect.
Print Assumptions C14_create_file_exact_effect.
Print Assumptions C14_rename_exact_effect.
Print Assumptions C14_hardlink_exact_effect.
Print Assumptions C14_create_file_refuses_o_path.
Print Assumptions C14_create_dir_kernel_backend.
Print Assumptions C14_remove_kernel_backend.
