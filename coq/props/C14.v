(* C14 -- single-entry operations act on exactly (in-root parent, final name). *)
From PV Require Static StaticProofs.
From PV Require Import Discipline ProgTac PathProofs DisciplineProofs OpathDisc RootDisc OpsProofs FSModel FSProofs CApi CApiProofs.
Open Scope N_scope.

(* The (parent, name) pair every single-entry operation acts on: the parent is
   the in-root resolution (links followed) of everything before the last '/',
   the name is the last component -- non-empty, without '/', passed to the *at call
   as is (never resolved, so a final symlink is never followed). *)
Theorem C14_parent_and_name :
  forall fz cfg pfuel gh ps rs root path,
    match path_split path with
    | Some (Ok (dirp, Some name)) =>
        peq (parent_and_name fz cfg pfuel gh ps rs root path)
            (dir <-? r_resolve fz cfg pfuel gh ps rs root dirp false ;; Ret (Ok (dir, name)))
        /\ name <> [] /\ has_slash name = false
    | Some (Ok (dirp, None)) =>
        peq (parent_and_name fz cfg pfuel gh ps rs root path)
            (dir <-? r_resolve fz cfg pfuel gh ps rs root dirp false ;; close dir ;;; Ret (Err InvalidArgument))
        /\ (path = [] \/ exists q, path = q ++ [SLASH])
    | _ => False
    end.
Proof. exact parent_and_name_shape. Qed.

(* where the split happens, for every byte string *)
Theorem C14_split_shape :
  forall p d n, path_split p = Some (Ok (d, Some n)) ->
    (has_slash p = false /\ d = [DOT] /\ n = p) \/
    (exists d0, p = d0 ++ SLASH :: n /\ d = (if is_nil d0 then [SLASH] else d0)).
Proof. exact path_split_shape. Qed.

(* a trailing slash (or an empty path) is rejected as an invalid argument and the
   operation does nothing else than resolve and close the parent -- for every
   continuation, i.e. for create (all inode types), create_file, remove_file,
   remove_dir, remove_all and both sides of rename *)
Theorem C14_trailing_slash :
  forall fz cfg pfuel gh ps B (K : Z * bytes -> prog (result B ekind)) rs root path dirp,
    path_split path = Some (Ok (dirp, None)) ->
    peq (dn <-? parent_and_name fz cfg pfuel gh ps rs root path ;; K dn)
        (dir <-? r_resolve fz cfg pfuel gh ps rs root dirp false ;; close dir ;;; Ret (Err InvalidArgument)).
Proof. intros. apply no_name_refused. assumption. Qed.

(* every call of the single-entry operations names one component relative to a
   descriptor and forbids following it (C05), for all kernel answers *)
Theorem C14_final_not_followed :
  forall fz cfg pfuel gh ps rs root path path2 ty flags mode isdir rflags,
    rfd (ph_fd gh) -> rfd root ->
    all_calls Pdn (root_create fz cfg pfuel gh ps rs root path ty) /\
    all_calls Pdn (root_create_file fz cfg pfuel gh ps rs root path flags mode) /\
    all_calls Pdn (root_remove_inode fz cfg pfuel gh ps rs root path isdir) /\
    all_calls Pdn (root_rename fz cfg pfuel gh ps rs root path path2 rflags).
Proof.
  intros. repeat split; eapply okp_all_calls;
    [apply root_create_ok|apply root_create_file_ok|apply root_remove_inode_ok|apply root_rename_ok]; assumption.
Qed.

(* the parent really is the kernel's in-root resolution of the prefix (C01) *)
Theorem C14_parent_is_in_root_resolution :
  forall s df, wf s df -> forall p nosym, p <> [] -> kwalk s p false nosym <> WBudget ->
    ewalk s p false nosym = kwalk s p false nosym.
Proof. intros s df H p nosym Hp Hb. apply (emu_eq_kernel s df H); [right; exact Hp|exact Hb]. Qed.

Theorem C14_mknod_mode_decode :
  forall mode dev,
    match c_mknod_type mode dev with
    | Ok (IFile p) => N.land mode S_IFMT = S_IFREG /\ p = N.ldiff mode S_IFMT
    | Ok (IDirectory p) => N.land mode S_IFMT = S_IFDIR /\ p = N.ldiff mode S_IFMT
    | Ok (IBlockDev p d) => N.land mode S_IFMT = S_IFBLK /\ p = N.ldiff mode S_IFMT /\ d = dev
    | Ok (ICharDev p d) => N.land mode S_IFMT = S_IFCHR /\ p = N.ldiff mode S_IFMT /\ d = dev
    | Ok (IFifo p) => N.land mode S_IFMT = S_IFIFO /\ p = N.ldiff mode S_IFMT
    | Ok _ => False
    | Err NotImplemented => N.land mode S_IFMT = S_IFSOCK
    | Err InvalidArgument => ~ In (N.land mode S_IFMT) [S_IFREG; S_IFDIR; S_IFBLK; S_IFCHR; S_IFIFO; S_IFSOCK]
    | Err _ => False
    end.
Proof. exact c_mknod_decode. Qed.

Example C14_split_examples :
  path_split (b "a/b/c") = Some (Ok (b "a/b", Some (b "c"))) /\
  path_split (b "c") = Some (Ok (b ".", Some (b "c"))) /\
  path_split (b "/c") = Some (Ok (b "/", Some (b "c"))) /\
  path_split (b "a/b/") = Some (Ok (b "a/b", None)) /\
  path_split (b "a/..") = Some (Ok (b "a", Some (b ".."))) /\
  path_split [] = Some (Ok (b ".", None)).
Proof. repeat split; reflexivity. Qed.

(* ... and, executed on the static kernel model over any well-formed tree, the emulated
   backend hands the *at call a descriptor open on exactly the object the in-root
   walk of the prefix ends on, together with path_split's last component (C01's
   refinement composed with the split; premise on check_current as in C01) *)
Theorem C14_static_parent_object :
  forall s rp F fz o2 pfuel gh ps df rs t root path dirp name,
    StaticProofs.closed s -> fz <> 0%nat -> StaticProofs.chk_static_ok s rp F (OpathM.check_current fz o2 pfuel gh) -> wf s df -> StaticProofs.links_ok s ->
    rs_kernel rs = false ->
    path_split path = Some (Ok (dirp, Some name)) -> has_nul dirp = false ->
    StaticProofs.Frame s F t -> Static.tget t root = Some ROOT ->
    match ewalk s dirp false (has (rs_flags rs) RESOLVE_NO_SYMLINKS) with
    | WOk o => exists t' fd, Static.run s rp t (parent_and_name fz o2 pfuel gh ps rs root path) = Static.Done t' (Ok (fd, name))
                             /\ Static.tget t' fd = Some o
    | WErr n => exists t', Static.run s rp t (parent_and_name fz o2 pfuel gh ps rs root path) = Static.Done t' (Err (OsError n))
    | WBudget => exists t', Static.run s rp t (parent_and_name fz o2 pfuel gh ps rs root path) = Static.Done t' (Err (OsError ELOOP))
    end.
Proof. exact StaticProofs.parent_and_name_static. Qed.

(* ... and the call that changes the tree is made on that descriptor with that name:
   executing create (directory / file / fifo / device node) and remove_file / remove_dir of the
   emulated backend on the static kernel over any well-formed tree ARRIVES AT mkdirat /
   mknodat / unlinkat on (descriptor open on the object the in-root walk of the parent path
   ends on, path_split's last component).  [reaches] is "execution on the static kernel
   arrives at this call"; that no other tree-changing call is issued before or after it is
   C03's statement for all answers and is counted on every real trace by tools/props/C14.py. *)
From PV Require StaticEffects.

Theorem C14_create_dir_acts_on_parent_object :
  forall s rp F df fz pfuel o2 gh ps rs t root path dirp name o m,
    StaticProofs.closed s -> fz <> 0%nat -> StaticProofs.chk_static_ok s rp F (OpathM.check_current fz o2 pfuel gh) ->
    wf s df -> StaticProofs.links_ok s -> rs_kernel rs = false ->
    path_split path = Some (Ok (dirp, Some name)) -> has_nul dirp = false -> has_nul name = false ->
    StaticProofs.Frame s F t -> Static.tget t root = Some ROOT ->
    ewalk s dirp false (has (rs_flags rs) RESOLVE_NO_SYMLINKS) = WOk o ->
    exists t1 dir, Static.tget t1 dir = Some o /\
      StaticEffects.reaches s rp t (root_create fz o2 pfuel gh ps rs root path (IDirectory m))
                                  (Mkdirat dir name (N.land (perm m) MODE_BITS)) t1.
Proof. intros s rp F df fz pfuel o2 gh ps rs t root path dirp name o m Hcl Hfz Hchk Hwf Hl Hk.
       exact (StaticEffects.create_dir_reaches s rp F df fz pfuel o2 gh ps Hcl Hfz Hchk Hwf Hl rs Hk t root path dirp name o m). Qed.

Theorem C14_remove_acts_on_parent_object :
  forall s rp F df fz pfuel o2 gh ps rs t root path dirp name o isdir,
    StaticProofs.closed s -> fz <> 0%nat -> StaticProofs.chk_static_ok s rp F (OpathM.check_current fz o2 pfuel gh) ->
    wf s df -> StaticProofs.links_ok s -> rs_kernel rs = false ->
    path_split path = Some (Ok (dirp, Some name)) -> has_nul dirp = false -> has_nul name = false ->
    StaticProofs.Frame s F t -> Static.tget t root = Some ROOT ->
    ewalk s dirp false (has (rs_flags rs) RESOLVE_NO_SYMLINKS) = WOk o ->
    exists t1 dir, Static.tget t1 dir = Some o /\
      StaticEffects.reaches s rp t (root_remove_inode fz o2 pfuel gh ps rs root path isdir)
                                  (Unlinkat dir name (if isdir then AT_REMOVEDIR else 0)) t1.
Proof. intros s rp F df fz pfuel o2 gh ps rs t root path dirp name o isdir Hcl Hfz Hchk Hwf Hl Hk.
       exact (StaticEffects.remove_reaches s rp F df fz pfuel o2 gh ps Hcl Hfz Hchk Hwf Hl rs Hk t root path dirp name o isdir). Qed.

Theorem C14_create_node_acts_on_parent_object :
  forall s rp F df fz pfuel o2 gh ps rs t root path dirp name o raw dev ty,
    StaticProofs.closed s -> fz <> 0%nat -> StaticProofs.chk_static_ok s rp F (OpathM.check_current fz o2 pfuel gh) ->
    wf s df -> StaticProofs.links_ok s -> rs_kernel rs = false ->
    (ty = IFile raw \/ ty = IFifo raw \/ ty = ICharDev raw dev \/ ty = IBlockDev raw dev) ->
    path_split path = Some (Ok (dirp, Some name)) -> has_nul dirp = false -> has_nul name = false ->
    StaticProofs.Frame s F t -> Static.tget t root = Some ROOT ->
    ewalk s dirp false (has (rs_flags rs) RESOLVE_NO_SYMLINKS) = WOk o ->
    exists t1 dir mode d, Static.tget t1 dir = Some o /\
      StaticEffects.reaches s rp t (root_create fz o2 pfuel gh ps rs root path ty) (Mknodat dir name mode d) t1.
Proof. intros s rp F df fz pfuel o2 gh ps rs t root path dirp name o raw dev ty Hcl Hfz Hchk Hwf Hl Hk.
       exact (StaticEffects.create_node_reaches s rp F df fz pfuel o2 gh ps Hcl Hfz Hchk Hwf Hl rs Hk t root path dirp name o raw dev ty). Qed.

(* the mknodat call exactly: the inode kind comes from the InodeType alone, the permission
   bits are the caller's mode & 07777 -- whatever S_IFMT bits that mode word carries are
   dropped -- and the device number is the one given *)
Theorem C14_create_node_exact_call :
  forall s rp F df fz pfuel o2 gh ps rs t root path dirp name o ty,
    StaticProofs.closed s -> fz <> 0%nat -> StaticProofs.chk_static_ok s rp F (OpathM.check_current fz o2 pfuel gh) ->
    wf s df -> StaticProofs.links_ok s -> rs_kernel rs = false ->
    StaticEffects.node_type ty <> 0 ->
    path_split path = Some (Ok (dirp, Some name)) -> has_nul dirp = false -> has_nul name = false ->
    StaticProofs.Frame s F t -> Static.tget t root = Some ROOT ->
    ewalk s dirp false (has (rs_flags rs) RESOLVE_NO_SYMLINKS) = WOk o ->
    exists t1 dir, Static.tget t1 dir = Some o /\
      StaticEffects.reaches s rp t (root_create fz o2 pfuel gh ps rs root path ty)
        (Mknodat dir name (N.lor (StaticEffects.node_type ty) (N.land (StaticEffects.node_raw ty) MODE_BITS)) (StaticEffects.node_dev ty)) t1.
Proof. intros s rp F df fz pfuel o2 gh ps rs t root path dirp name o ty Hcl Hfz Hchk Hwf Hl Hk.
       exact (StaticEffects.create_node_reaches_exact s rp F df fz pfuel o2 gh ps Hcl Hfz Hchk Hwf Hl rs Hk t root path dirp name o ty). Qed.

Example C14_node_type_table :
  StaticEffects.node_type (IFile 16872) = S_IFREG /\ StaticEffects.node_type (IFifo 33184) = S_IFIFO /\
  StaticEffects.node_type (ICharDev 16872 259) = S_IFCHR /\ StaticEffects.node_type (IBlockDev 33184 259) = S_IFBLK /\
  N.lor (StaticEffects.node_type (IFile 16872)) (N.land (StaticEffects.node_raw (IFile 16872)) MODE_BITS) = 33256.
Proof. repeat split; reflexivity. Qed.

Theorem C14_create_symlink_acts_on_parent_object :
  forall s rp F df fz pfuel o2 gh ps rs t root path dirp name o target,
    StaticProofs.closed s -> fz <> 0%nat -> StaticProofs.chk_static_ok s rp F (OpathM.check_current fz o2 pfuel gh) ->
    wf s df -> StaticProofs.links_ok s -> rs_kernel rs = false ->
    path_split path = Some (Ok (dirp, Some name)) -> has_nul dirp = false -> has_nul name = false -> has_nul target = false ->
    StaticProofs.Frame s F t -> Static.tget t root = Some ROOT ->
    ewalk s dirp false (has (rs_flags rs) RESOLVE_NO_SYMLINKS) = WOk o ->
    exists t1 dir, Static.tget t1 dir = Some o /\
      StaticEffects.reaches s rp t (root_create fz o2 pfuel gh ps rs root path (ISymlink target)) (Symlinkat target dir name) t1.
Proof. intros s rp F df fz pfuel o2 gh ps rs t root path dirp name o target Hcl Hfz Hchk Hwf Hl Hk.
       exact (StaticEffects.create_symlink_reaches s rp F df fz pfuel o2 gh ps Hcl Hfz Hchk Hwf Hl rs Hk t root path dirp name o target). Qed.

Theorem C14_create_file_acts_on_parent_object :
  forall s rp F df fz pfuel o2 gh ps rs t root path dirp name o flags mode,
    StaticProofs.closed s -> fz <> 0%nat -> StaticProofs.chk_static_ok s rp F (OpathM.check_current fz o2 pfuel gh) ->
    wf s df -> StaticProofs.links_ok s -> rs_kernel rs = false ->
    path_split path = Some (Ok (dirp, Some name)) -> has_nul dirp = false -> has_nul name = false ->
    StaticProofs.Frame s F t -> Static.tget t root = Some ROOT ->
    ewalk s dirp false (has (rs_flags rs) RESOLVE_NO_SYMLINKS) = WOk o ->
    exists t1 dir, Static.tget t1 dir = Some o /\
      StaticEffects.reaches s rp t (root_create_file fz o2 pfuel gh ps rs root path flags mode)
        (Openat dir name (N.lor (N.lor (N.lor (N.lor flags CREATE_FILE_FORCED) OPENAT_NOFOLLOW_FORCED) OPENAT_FORCED) O_LARGEFILE)
                (N.land mode MODE_BITS)) t1.
Proof. intros s rp F df fz pfuel o2 gh ps rs t root path dirp name o flags mode Hcl Hfz Hchk Hwf Hl Hk.
       exact (StaticEffects.create_file_reaches s rp F df fz pfuel o2 gh ps Hcl Hfz Hchk Hwf Hl rs Hk t root path dirp name o flags mode). Qed.

(* two parents: the descriptor of the first parent survives the second walk (C11's balance
   judgement read on the static kernel), so rename and hard links arrive at renameat(2) /
   linkat on (source parent object, name, destination parent object, name) *)
Theorem C14_rename_acts_on_parent_objects :
  forall s rp F df fz pfuel o2 gh ps rs t root src dst sdirp sname ddirp dname o1 o3 fl,
    StaticProofs.closed s -> fz <> 0%nat -> StaticProofs.chk_static_ok s rp F (OpathM.check_current fz o2 pfuel gh) ->
    wf s df -> StaticProofs.links_ok s -> rs_kernel rs = false ->
    path_split src = Some (Ok (sdirp, Some sname)) -> has_nul sdirp = false -> has_nul sname = false ->
    path_split dst = Some (Ok (ddirp, Some dname)) -> has_nul ddirp = false -> has_nul dname = false ->
    StaticProofs.Frame s F t -> Static.tget t root = Some ROOT ->
    ewalk s sdirp false (has (rs_flags rs) RESOLVE_NO_SYMLINKS) = WOk o1 ->
    ewalk s ddirp false (has (rs_flags rs) RESOLVE_NO_SYMLINKS) = WOk o3 ->
    exists t2 d1 d2, Static.tget t2 d1 = Some o1 /\ Static.tget t2 d2 = Some o3 /\
      StaticEffects.reaches s rp t (root_rename fz o2 pfuel gh ps rs root src dst fl)
        (if N.eqb fl 0 then Renameat d1 sname d2 dname else Renameat2 d1 sname d2 dname fl) t2.
Proof. intros s rp F df fz pfuel o2 gh ps rs t root src dst sdirp sname ddirp dname o1 o3 fl Hcl Hfz Hchk Hwf Hl Hk.
       exact (StaticEffects.rename_reaches s rp F df fz pfuel o2 gh ps Hcl Hfz Hchk Hwf Hl rs Hk t root src dst sdirp sname ddirp dname o1 o3 fl). Qed.

Theorem C14_hardlink_acts_on_parent_objects :
  forall s rp F df fz pfuel o2 gh ps rs t root path target dirp name tdirp tname o1 o3,
    StaticProofs.closed s -> fz <> 0%nat -> StaticProofs.chk_static_ok s rp F (OpathM.check_current fz o2 pfuel gh) ->
    wf s df -> StaticProofs.links_ok s -> rs_kernel rs = false ->
    path_split path = Some (Ok (dirp, Some name)) -> has_nul dirp = false -> has_nul name = false ->
    path_split target = Some (Ok (tdirp, Some tname)) -> has_nul tdirp = false -> has_nul tname = false ->
    StaticProofs.Frame s F t -> Static.tget t root = Some ROOT ->
    ewalk s dirp false (has (rs_flags rs) RESOLVE_NO_SYMLINKS) = WOk o1 ->
    ewalk s tdirp false (has (rs_flags rs) RESOLVE_NO_SYMLINKS) = WOk o3 ->
    exists t2 d1 d2, Static.tget t2 d1 = Some o1 /\ Static.tget t2 d2 = Some o3 /\
      StaticEffects.reaches s rp t (root_create fz o2 pfuel gh ps rs root path (IHardlink target)) (Linkat d2 tname d1 name LINKAT_FLAGS) t2.
Proof. intros s rp F df fz pfuel o2 gh ps rs t root path target dirp name tdirp tname o1 o3 Hcl Hfz Hchk Hwf Hl Hk.
       exact (StaticEffects.create_hardlink_reaches s rp F df fz pfuel o2 gh ps Hcl Hfz Hchk Hwf Hl rs Hk t root path target dirp name tdirp tname o1 o3). Qed.


Print Assumptions C14_parent_and_name.
Print Assumptions C14_split_shape.
Print Assumptions C14_trailing_slash.
Print Assumptions C14_final_not_followed.
Print Assumptions C14_parent_is_in_root_resolution.
Print Assumptions C14_mknod_mode_decode.
Print Assumptions C14_static_parent_object.
Print Assumptions C14_create_dir_acts_on_parent_object.
Print Assumptions C14_remove_acts_on_parent_object.
Print Assumptions C14_create_node_acts_on_parent_object.
Print Assumptions C14_create_node_exact_call.
Print Assumptions C14_create_symlink_acts_on_parent_object.
Print Assumptions C14_create_file_acts_on_parent_object.
Print Assumptions C14_rename_acts_on_parent_objects.
Print Assumptions C14_hardlink_acts_on_parent_objects.
