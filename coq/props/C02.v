(* C02 -- lookups never escape the root under any concurrent attacker schedule.
   The statements below quantify over every kernel answer at every call, i.e.
   over every attacker acting at any system-call boundary.  They establish WHERE
   results come from: the emulated walk hands out a completed lookup only through
   final_check, final_check completes only when check_current passed, and a ".."
   step is discarded unless check_current passed right after it.  That a passing
   check_current (the kernel's own /proc/thread-self/fd/N rendering of the
   descriptor equals root path + expected path) implies the object was inside the
   root at that moment is the kernel's d_path contract (DESIGN.md C02); it is
   exercised by the schedule-exhaustive runs of tools/props/C02.py, not proved. *)
From PV Require Import Discipline ProgTac PathProofs DisciplineProofs FaultProofs EscapeProofs FSModel FSProofs.
Open Scope N_scope.

Theorem C02_complete_only_via_fin :
  forall fz ps chk fin budget nosym nofollow,
    (forall st, okp TC TS not_complete (fin st)) ->
    forall st cs, okp TC TS not_complete (walk_gen fz ps chk fin budget nosym nofollow st cs).
Proof. exact walk_gen_nc. Qed.

Theorem C02_final_check_needs_passing_check :
  forall chk st, chk_fails chk -> okp TC TS not_complete (final_check_gen chk st).
Proof. exact final_check_gen_nc. Qed.

Theorem C02_dotdot_checked :
  forall fz ps chk fin nosym nofollow follow inner remaining rest st,
    chk_fails chk ->
    okp TC TS not_complete (walk_open fz ps chk fin nosym nofollow follow inner remaining rest st [DOT; DOT]).
Proof. exact dotdot_step_checked. Qed.

(* the real resolver is that walk with chk = check_current and fin = final_check *)
Theorem C02_instantiation :
  forall fz cfg pfuel gh ps, walk fz cfg pfuel gh ps = walk_gen fz ps (check_current fz cfg pfuel gh) (final_check fz cfg pfuel gh)
  /\ final_check fz cfg pfuel gh = final_check_gen (check_current fz cfg pfuel gh).
Proof. intros. split; reflexivity. Qed.

(* openat2 backend: at most 16 attempts; EAGAIN (the kernel noticing a racing
   rename/mount) never surfaces as a result, it ends as SafetyViolation *)
Theorem C02_kern_bounded_retry :
  forall fz cfg root path rf nf,
    calls_le is_openat2 (N.to_nat OPENAT2_RETRIES) (k_resolve_loop fz (N.to_nat OPENAT2_RETRIES) root path rf nf) /\
    okp TC TS not_eagain (k_resolve fz cfg root path rf (negb (N.eqb nf 0))).
Proof. intros. split; [apply k_resolve_loop_bounded|apply k_resolve_no_eagain]. Qed.

(* with no attacker at all, the walk's result lies in the root's tree (C01) *)
Theorem C02_static_in_root :
  forall s df, wf s df -> forall p nf nosym o, ewalk s p nf nosym = WOk o -> reach s o.
Proof. intros s df H. apply (emu_in_root s df H). Qed.

Check C02_complete_only_via_fin :
  forall fz ps chk fin budget nosym nofollow,
    (forall st, okp TC TS not_complete (fin st)) ->
    forall st cs, okp TC TS not_complete (walk_gen fz ps chk fin budget nosym nofollow st cs).
Check C02_dotdot_checked :
  forall fz ps chk fin nosym nofollow follow inner remaining rest st,
    chk_fails chk ->
    okp TC TS not_complete (walk_open fz ps chk fin nosym nofollow follow inner remaining rest st [DOT; DOT]).

Print Assumptions C02_complete_only_via_fin.
Print Assumptions C02_final_check_needs_passing_check.
Print Assumptions C02_dotdot_checked.
Print Assumptions C02_instantiation.
Print Assumptions C02_kern_bounded_retry.
Print Assumptions C02_static_in_root.
