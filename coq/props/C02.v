(* C02 -- lookups never escape the root under any concurrent attacker schedule.
   The statements below quantify over every kernel answer at every call, i.e.
   over every attacker acting at any system-call boundary.  They establish WHERE
   results come from: the emulated walk hands out a completed lookup only through
   final_check, final_check completes only when check_current passed, and a ".."
   step is discarded unless check_current passed right after it.  That a passing
   check_current (the kernel's own /proc/thread-self/fd/N rendering of the
   descriptor equals root path + expected path) implies the object was inside the
   root at that moment is the kernel's d_path contract (DESIGN.md C02), exercised by
   the schedule-exhaustive runs of tools/props/C02.py; what the comparison itself
   establishes is proved here for all byte strings (C02_check_passes_means) and for
   all answers (C02_check_sound). *)
From PV Require Import Discipline ProgTac PathProofs DisciplineProofs FaultProofs EscapeProofs FSModel FSProofs.
From PV Require Import Hoare CheckProofs DentryProofs.
Open Scope N_scope.

Theorem C02_complete_only_via_fin :
  forall fz ps chk fin budget nosym nofollow,
    (forall st, okp TC TS not_complete (fin st)) ->
    forall st cs, okp TC TS not_complete (walk_gen fz ps chk fin budget nosym nofollow st cs).
Proof. exact walk_gen_nc. Qed.

Theorem C02_final_check_needs_passing_check :
  forall chk st, chk_fails chk -> okp TC TS not_complete (final_check_gen chk st).
Proof. exact final_check_gen_nc. Qed.

Theorem C02_dotdot_checked :
  forall fz ps chk fin nosym nofollow follow inner remaining rest st,
    chk_fails chk ->
    okp TC TS not_complete (walk_open fz ps chk fin nosym nofollow follow inner remaining rest st [DOT; DOT]).
Proof. exact dotdot_step_checked. Qed.

(* the real resolver is that walk with chk = check_current and fin = final_check *)
Theorem C02_instantiation :
  forall fz cfg pfuel gh ps, walk fz cfg pfuel gh ps = walk_gen fz ps (check_current fz cfg pfuel gh) (final_check fz cfg pfuel gh)
  /\ final_check fz cfg pfuel gh = final_check_gen (check_current fz cfg pfuel gh).
Proof. intros. split; reflexivity. Qed.

(* openat2 backend: at most 16 attempts; EAGAIN (the kernel noticing a racing
   rename/mount) never surfaces as a result, it ends as SafetyViolation *)
Theorem C02_kern_bounded_retry :
  forall fz cfg root path rf nf,
    calls_le is_openat2 (N.to_nat OPENAT2_RETRIES) (k_resolve_loop fz (N.to_nat OPENAT2_RETRIES) root path rf nf) /\
    okp TC TS not_eagain (k_resolve fz cfg root path rf (negb (N.eqb nf 0))).
Proof. intros. split; [apply k_resolve_loop_bounded|apply k_resolve_no_eagain]. Qed.

(* with no attacker at all, the walk's result lies in the root's tree (C01) *)
Theorem C02_static_in_root :
  forall s df, wf s df -> forall p nf nosym o, ewalk s p nf nosym = WOk o -> reach s o.
Proof. intros s df H. apply (emu_in_root s df H). Qed.

(* what check_current's comparison establishes, for ALL byte strings: the kernel's
   rendering of the current descriptor consists of the root path's components
   followed by exactly the expected components (std::path normalisation) *)
Theorem C02_check_passes_means :
  forall root_path cur_path exp,
    path_eq cur_path (OpathM.push_all root_path ([DOT] :: exp)) = true ->
    Forall name_ok exp ->
    nf cur_path = nf root_path ++ exp.
Proof. exact check_passes_means. Qed.

(* for all answers: the check passes only if the three renderings it read --
   root, current, root again -- satisfy both comparisons *)
Theorem C02_check_sound :
  forall cur root exp,
    spec (fun _ _ => True)
         (fun res h => res = Ok tt ->
            exists c1 c2 c3 p1 p2 p3,
              h = [(c3, RBytes p3); (c2, RBytes p2); (c1, RBytes p1)] /\
              path_eq p2 (OpathM.push_all p1 ([DOT] :: exp)) = true /\ path_eq p1 p3 = true)
         [] (check_current_gen g0 cur root exp).
Proof. exact check_gen_sound. Qed.

Theorem C02_check_current_is_that_check :
  forall fz o2 pfuel gh cur root exp,
    OpathM.check_current fz o2 pfuel gh cur root exp = check_current_gen (ProcfsM.as_unsafe_path fz o2 pfuel gh) cur root exp.
Proof. exact check_current_is_gen. Qed.

(* ... and why that comparison means "inside": in the kernel's dentry forest at the instant
   of the second read (sibling names unique; [up] = d_path; assumption A1: the rendering of
   the root read first is still the root's), a `current` whose rendering passes the
   comparison IS the object reached from the root by walking down the expected components,
   so the root is its ancestor |exp| levels up.  The forest is a premise, not a model of
   /repo: this is the kernel contract the schedule runs of tools/props/C02.py exercise. *)
Theorem C02_passing_check_means_inside :
  forall f root cur root_path cur_path exp,
    fwf f -> renders f root root_path -> renders f cur cur_path ->
    path_eq cur_path (OpathM.push_all root_path ([DOT] :: exp)) = true -> Forall name_ok exp ->
    desc f root exp cur /\ ancestor f (length exp) cur = Some root.
Proof. exact check_means_inside. Qed.

(* non-vacuity: /srv/root with a/b below it; object 4 (b) rendered sloppily still passes and is
   found two levels below object 2 (the root) *)
Definition C02_forest : forest :=
  {| parent := fun o => match o with
                        | 1%nat => Some (0%nat, b "srv") | 2%nat => Some (1%nat, b "root")
                        | 3%nat => Some (2%nat, b "a") | 4%nat => Some (3%nat, b "b")
                        | 5%nat => Some (1%nat, b "b")
                        | _ => None end |}.
Example C02_forest_example :
  renders C02_forest 2 (b "/srv/root") /\ renders C02_forest 4 (b "/srv/root//a/./b/") /\
  ancestor C02_forest 2 4 = Some 2%nat /\
  (* object 5 = /srv/b, a directory moved out of the root: its rendering does not pass *)
  renders C02_forest 5 (b "/srv/b") /\
  path_eq (b "/srv/b") (OpathM.push_all (b "/srv/root") ([DOT] :: [b "a"; b "b"])) = false.
Proof.
  repeat split; try (exists 5%nat; vm_compute; reflexivity); vm_compute; reflexivity.
Qed.

Example C02_check_example :
  path_eq (b "/srv/root//a/./b/") (OpathM.push_all (b "/srv/root") ([DOT] :: [b "a"; b "b"])) = true /\
  nf (b "/srv/root//a/./b/") = [b "srv"; b "root"; b "a"; b "b"] /\
  path_eq (b "/srv/a/b") (OpathM.push_all (b "/srv/root") ([DOT] :: [b "a"; b "b"])) = false /\
  path_eq (b "/srv/root/a/b (deleted)") (OpathM.push_all (b "/srv/root") ([DOT] :: [b "a"; b "b"])) = false.
Proof. vm_compute. repeat split. Qed.


Check C02_complete_only_via_fin :
  forall fz ps chk fin budget nosym nofollow,
    (forall st, okp TC TS not_complete (fin st)) ->
    forall st cs, okp TC TS not_complete (walk_gen fz ps chk fin budget nosym nofollow st cs).
Check C02_dotdot_checked :
  forall fz ps chk fin nosym nofollow follow inner remaining rest st,
    chk_fails chk ->
    okp TC TS not_complete (walk_open fz ps chk fin nosym nofollow follow inner remaining rest st [DOT; DOT]).

Print Assumptions C02_complete_only_via_fin.
Print Assumptions C02_final_check_needs_passing_check.
Print Assumptions C02_dotdot_checked.
Print Assumptions C02_instantiation.
Print Assumptions C02_kern_bounded_retry.
Print Assumptions C02_static_in_root.
Print Assumptions C02_check_passes_means.
Print Assumptions C02_check_sound.
Print Assumptions C02_check_current_is_that_check.
Print Assumptions C02_passing_check_means_inside.
