(* C05 -- only single, non-followed components are ever handed to the kernel.
   Property theorems only: each is closed by [exact] of a lemma proved in
   proofs/, pinned by a [Check], and followed by [Print Assumptions]. *)
From PV Require Import Discipline ProgTac DisciplineProofs OpathDisc RootDisc.
Open Scope N_scope.

(* Every call of every in-root lookup satisfies the per-call discipline
   [disc_b] and forbids following ([nofollow_b]) -- for all kernel answers,
   hence all trees, faults, attackers, feature sets, success and error paths. *)
Theorem C05_lookups :
  forall fz cfg pfuel gh ps rs root path nofollow,
    rfd (ph_fd gh) -> rfd root ->
    all_calls Pdn (r_resolve fz cfg pfuel gh ps rs root path nofollow) /\
    all_calls Pdn (r_resolve_partial fz cfg pfuel gh ps rs root path nofollow) /\
    all_calls Pdn (root_readlink fz cfg pfuel gh ps rs root path).
Proof.
  intros. repeat split; eapply okp_all_calls;
    [apply r_resolve_ok|apply r_resolve_partial_ok|apply root_readlink_ok]; assumption.
Qed.

(* one-shot open: disciplined; the only open that may lack O_NOFOLLOW is the
   re-open of the resolved handle through procfs (see C05_reopen_site) *)
Theorem C05_open :
  forall fz cfg pfuel gh ps rs root path flags,
    rfd (ph_fd gh) -> rfd root ->
    all_calls Pd (r_open fz cfg pfuel gh ps rs root path flags).
Proof. intros. eapply okp_all_calls. apply r_open_ok; assumption. Qed.

Theorem C05_mutators :
  forall fz cfg pfuel gh ps rs root path path2 ty flags mode isdir rflags rfuel,
    rfd (ph_fd gh) -> rfd root ->
    all_calls Pdn (root_create fz cfg pfuel gh ps rs root path ty) /\
    all_calls Pdn (root_create_file fz cfg pfuel gh ps rs root path flags mode) /\
    all_calls Pdn (root_remove_inode fz cfg pfuel gh ps rs root path isdir) /\
    all_calls Pdn (root_rename fz cfg pfuel gh ps rs root path path2 rflags) /\
    all_calls Pdn (root_remove_all fz cfg pfuel gh ps rfuel rs root path) /\
    all_calls Pd (root_mkdir_all fz cfg pfuel gh ps rs root path mode).
Proof.
  intros. repeat split; eapply okp_all_calls;
    [apply root_create_ok|apply root_create_file_ok|apply root_remove_inode_ok
    |apply root_rename_ok|apply root_remove_all_ok|apply root_mkdir_all_ok]; assumption.
Qed.

Theorem C05_procfs :
  forall fz cfg fuel h base sub flags,
    rfd (ph_fd h) ->
    all_calls Pdn (popen fz cfg fuel h base sub flags) /\
    all_calls Pdn (preadlink fz cfg fuel h base sub) /\
    all_calls Pd (popen_follow fz cfg fuel h base sub flags).
Proof.
  intros. repeat split; eapply okp_all_calls;
    [apply popen_ok|apply preadlink_ok|apply popen_follow_ok]; assumption.
Qed.

Theorem C05_reopen :
  forall fz cfg fuel gh fd flags,
    rfd (ph_fd gh) -> rfd fd -> all_calls Pd (reopen fz cfg fuel gh fd flags).
Proof. intros. eapply okp_all_calls. apply reopen_ok; assumption. Qed.

(* the procfs constructors: the closed list of exempt absolute-path calls
   (fsopen("proc"), open_tree(AT_FDCWD,"/proc"), openat(AT_FDCWD,"/proc")) is
   part of [disc_b]; every descriptor they create is close-on-exec *)
Theorem C05_constructors :
  forall fz cfg,
    all_calls Pdn (procfs_new fz cfg) /\ all_calls Pdn (procfs_new_unmasked fz cfg).
Proof.
  intros. split; eapply okp_all_calls; [apply procfs_new_ok|apply procfs_new_unmasked_ok].
Qed.

(* "never becomes a controlling terminal": the flag word of EVERY openat2 call the library can make
   (syscalls::openat2 adds O_CLOEXEC always, O_NOCTTY unless O_PATH is set -- both regenerated from
   the source by T0) is close-on-exec and carries O_NOCTTY or O_PATH; the same two conditions are
   part of [disc_b], i.e. of every theorem above (F-R: before fix 'never let openat2 acquire a
   controlling terminal', Root::open_subpath on the openat2 backend opened terminals without O_NOCTTY) *)
Theorem C05_openat2_cloexec_never_ctty :
  forall fl, has (openat2_flags fl) O_CLOEXEC = true /\
             (has (openat2_flags fl) O_NOCTTY || has (openat2_flags fl) O_PATH) = true /\
             (forall c, has fl c = true -> has (openat2_flags fl) c = true).
Proof. intro fl. split; [apply openat2_flags_cloexec|split; [apply openat2_flags_noctty|intro c; apply openat2_flags_keeps]]. Qed.

Check C05_lookups :
  forall fz cfg pfuel gh ps rs root path nofollow,
    rfd (ph_fd gh) -> rfd root ->
    all_calls Pdn (r_resolve fz cfg pfuel gh ps rs root path nofollow) /\
    all_calls Pdn (r_resolve_partial fz cfg pfuel gh ps rs root path nofollow) /\
    all_calls Pdn (root_readlink fz cfg pfuel gh ps rs root path).
Check C05_open :
  forall fz cfg pfuel gh ps rs root path flags,
    rfd (ph_fd gh) -> rfd root ->
    all_calls Pd (r_open fz cfg pfuel gh ps rs root path flags).
Check C05_mutators :
  forall fz cfg pfuel gh ps rs root path path2 ty flags mode isdir rflags rfuel,
    rfd (ph_fd gh) -> rfd root ->
    all_calls Pdn (root_create fz cfg pfuel gh ps rs root path ty) /\
    all_calls Pdn (root_create_file fz cfg pfuel gh ps rs root path flags mode) /\
    all_calls Pdn (root_remove_inode fz cfg pfuel gh ps rs root path isdir) /\
    all_calls Pdn (root_rename fz cfg pfuel gh ps rs root path path2 rflags) /\
    all_calls Pdn (root_remove_all fz cfg pfuel gh ps rfuel rs root path) /\
    all_calls Pd (root_mkdir_all fz cfg pfuel gh ps rs root path mode).
Check C05_procfs :
  forall fz cfg fuel h base sub flags,
    rfd (ph_fd h) ->
    all_calls Pdn (popen fz cfg fuel h base sub flags) /\
    all_calls Pdn (preadlink fz cfg fuel h base sub) /\
    all_calls Pd (popen_follow fz cfg fuel h base sub flags).
Check C05_reopen :
  forall fz cfg fuel gh fd flags,
    rfd (ph_fd gh) -> rfd fd -> all_calls Pd (reopen fz cfg fuel gh fd flags).
Check C05_constructors :
  forall fz cfg,
    all_calls Pdn (procfs_new fz cfg) /\ all_calls Pdn (procfs_new_unmasked fz cfg).

(* non-vacuity: the discipline predicate is not trivially true, and the
   hypotheses are satisfiable *)
Example C05_predicate_rejects :
  disc_b (Openat 5 (b "a/b") (N.lor O_CLOEXEC O_NOFOLLOW) 0) = false /\
  disc_b (Openat AT_FDCWD (b "/etc") (N.lor O_CLOEXEC O_NOFOLLOW) 0) = false /\
  disc_b (Openat 5 (b "a") O_NOFOLLOW 0) = false /\
  nofollow_b (Openat 5 (b "a") O_CLOEXEC 0) = false /\
  disc_b (OpenTree AT_FDCWD (b "/proc") OPEN_TREE_CLONE) = false /\
  disc_b (Openat2 5 (b "a/b") O_CLOEXEC 0 RESOLVE_NO_MAGICLINKS) = false /\
  rfd 3.
Proof. repeat split; reflexivity. Qed.

Print Assumptions C05_lookups.
Print Assumptions C05_open.
Print Assumptions C05_mutators.
Print Assumptions C05_procfs.
Print Assumptions C05_reopen.
Print Assumptions C05_constructors.
Print Assumptions C05_openat2_cloexec_never_ctty.
