(* C18 -- the C header and the language bindings describe the exported ABI exactly.
   The fact lists in gen/Abi.v are regenerated from /repo on every run (header,
   Rust extern "C" items, nm of the freshly built library, a C translation unit
   compiled and linked against header + library, Go and Python call sites); the
   claims below are finite and are decided completely by computation, and the
   checkers' meaning is given by the soundness theorems of proofs/AbiProofs.v. *)
From Coq Require Import String List ZArith Bool. Import ListNotations.
From PV Require Import AbiCheck AbiProofs.
Open Scope string_scope.

(* header declarations = Rust extern "C" items (names, arity, width classes), both ways *)
Theorem C18_header_eq_rust : (forall f, In f hdr_fns -> In f rs_fns) /\ (forall g, In g rs_fns -> In g hdr_fns).
Proof. apply decls_match_sound. vm_compute. reflexivity. Qed.

(* exported pathrs_* symbols of the built library = declared functions, both ways *)
Theorem C18_symbols_eq_header :
  (forall s, In s lib_syms -> In s (names hdr_fns)) /\ (forall s, In s (names hdr_fns) -> In s lib_syms).
Proof. split; apply strs_sub_sound; vm_compute; reflexivity. Qed.

(* PATHRS_PROC_* : header text = Rust discriminants = what the C compiler sees; the carrier is 64-bit everywhere *)
Theorem C18_enum_values :
  enums_eqb hdr_enums rs_enums = true /\ enums_eqb hdr_enums c_enums = true /\
  cty_eqb rs_base_t U64 = true /\ cty_eqb hdr_base_t U64 = true.
Proof. vm_compute. repeat split. Qed.

(* pathrs_error_t: field list, size, alignment and offsets agree between the
   header as compiled by gcc and the repr(C, align(8)) Rust struct *)
Theorem C18_error_layout :
  fields_eqb hdr_error_fields rs_error_fields = true /\ zs_eqb c_error_layout rs_error_layout = true /\
  zs_eqb c_sizes [4; 8; 8; 8]%Z = true /\ c_link_ok = 1%Z.
Proof. vm_compute. repeat split. Qed.

(* every C.pathrs_* call of the Go binding: declared, right arity, visible casts agree *)
Theorem C18_go_calls_declared :
  forall c, In c go_calls -> exists d, In d hdr_fns /\ fst c = fst (fst d) /\ length (snd c) = length (snd d) /\
                                       args_compat (snd c) (snd d) = true.
Proof. apply calls_ok_sound. vm_compute. reflexivity. Qed.

(* every libpathrs_so.pathrs_* call of the Python binding: declared, right arity;
   and the typedefs the binding adds to the header agree with the header's *)
Theorem C18_python_calls_declared :
  (forall c, In c py_calls -> exists d, In d hdr_fns /\ fst c = fst (fst d) /\ snd c = length (snd d)) /\
  typedefs_agree py_typedefs hdr_typedefs = true.
Proof. split; [apply arity_ok_sound; vm_compute; reflexivity|vm_compute; reflexivity]. Qed.

Example C18_nonvacuous :
  Nat.leb 20 (length hdr_fns) = true /\ Nat.leb 20 (length lib_syms) = true /\ Nat.leb 15 (length go_calls) = true /\
  Nat.leb 15 (length py_calls) = true /\ decl_eqb ("f", I32, [Ptr]) ("f", I32, [U64]) = false.
Proof. vm_compute. repeat split. Qed.

Print Assumptions C18_header_eq_rust.
Print Assumptions C18_symbols_eq_header.
Print Assumptions C18_enum_values.
Print Assumptions C18_error_layout.
Print Assumptions C18_go_calls_declared.
Print Assumptions C18_python_calls_declared.
