(* C15 -- the emulated resolver enforces fs.protected_symlinks exactly like the kernel.
   [k_may_follow] transcribes fs/namei.c may_follow_link (applied only to links in
   a trailing position) and is validated against the running kernel for all 648
   parameter combinations on every run; [emu_may_follow] is the library's rule. *)
From PV Require Import Symlinks SymlinkProofs Discipline ProgTac.
Open Scope N_scope.

Theorem C15_trailing_exact :
  forall sysctl fsuid dir_mode dir_uid link_uid,
    emu_may_follow sysctl fsuid dir_mode dir_uid link_uid true = k_may_follow sysctl fsuid dir_mode dir_uid link_uid true.
Proof. exact trailing_exact. Qed.

(* all positions: intermediate links are not restricted, exactly as in the kernel (F-G, fixed) *)
Theorem C15_positions_exact :
  forall sysctl fsuid dir_mode dir_uid link_uid trailing,
    emu_may_follow sysctl fsuid dir_mode dir_uid link_uid trailing = k_may_follow sysctl fsuid dir_mode dir_uid link_uid trailing.
Proof. exact positions_exact. Qed.

(* which links are in a trailing position, as a function of the components still to
   walk: nothing left, or nothing but empty components (trailing slashes) -- in the
   library (walk_open consults ps_trailing) exactly as in the kernel *)
Theorem C15_trailing_notion_exact :
  forall rest, OpathM.ps_trailing rest = k_trailing rest.
Proof. exact trailing_notion_exact. Qed.

Example C15_trailing_examples :
  k_trailing [] = true /\ k_trailing [[]] = true /\ k_trailing [[]; []] = true /\
  k_trailing [[DOT]] = false /\ k_trailing [b "f"] = false /\ k_trailing [[]; b "f"] = false.
Proof. repeat split. Qed.

Theorem C15_off_nothing_refused :
  forall fsuid dir_mode dir_uid link_uid trailing,
    k_may_follow 0 fsuid dir_mode dir_uid link_uid trailing = true /\ emu_may_follow 0 fsuid dir_mode dir_uid link_uid trailing = true.
Proof. exact off_nothing_refused. Qed.

(* refused exactly when: trailing link, sysctl on, link not owned by the caller,
   directory sticky and world-writable, link not owned by the directory's owner *)
Theorem C15_refusal_characterised :
  forall sysctl fsuid dir_mode dir_uid link_uid trailing,
    k_may_follow sysctl fsuid dir_mode dir_uid link_uid trailing = false <->
    trailing = true /\ sysctl <> 0 /\ link_uid <> fsuid /\ N.land dir_mode STICKY_WRITABLE = STICKY_WRITABLE /\ link_uid <> dir_uid.
Proof. exact refusal_characterised. Qed.

(* the system-call level program decides by that very rule on the kernel's stat answers *)
Theorem C15_prog_rule :
  forall fz sysctl dir link,
    peq (may_follow_link fz sysctl dir link)
        (Call Geteuid (fun ru =>
           dm <-? os (w_fstatat fz dir []) ;;
           lm <-? os (w_fstatat fz link []) ;;
           Ret (if ps_rule sysctl (z2n (as_num ru)) (st_mode dm) (st_uid dm) (st_uid lm) then Ok tt else Err (OsError EACCES)))).
Proof. exact prog_rule. Qed.

Example C15_examples :
  k_may_follow 1 2000 1023 0 3000 true = false /\        (* foreign link in /tmp-like dir: refused *)
  k_may_follow 1 2000 1023 0 3000 false = true /\       (* same link as an intermediate component: followed *)
  k_may_follow 1 2000 1023 0 2000 true = true /\        (* own link *)
  k_may_follow 1 2000 1023 3000 3000 true = true /\     (* link owned by the directory owner *)
  k_may_follow 1 2000 511 0 3000 true = true /\         (* directory not sticky *)
  k_may_follow 0 2000 1023 0 3000 true = true.
Proof. repeat split. Qed.

Print Assumptions C15_trailing_exact.
Print Assumptions C15_positions_exact.
Print Assumptions C15_off_nothing_refused.
Print Assumptions C15_refusal_characterised.
Print Assumptions C15_prog_rule.
Print Assumptions C15_trailing_notion_exact.
