(* C01 -- in-root lookups match kernel RESOLVE_IN_ROOT semantics for every tree and path.
   [kwalk] is the reference semantics of openat2(RESOLVE_IN_ROOT|NO_MAGICLINKS
   [|NO_SYMLINKS], O_PATH[|O_NOFOLLOW]) -- validated against the running kernel on
   every run (tie T2) -- and [ewalk] is what the emulated resolver computes on a
   tree that is not being modified -- validated against the library on every run.
   The theorems hold for EVERY well-formed file system [s] (any shape, any link
   bodies), every path, both trailing-symlink modes, with and without NO_SYMLINKS. *)
From PV Require Import FSModel FSProofs.
Open Scope N_scope.

(* the emulated backend computes exactly the kernel's answer whenever the kernel
   needs at most its 40 link traversals (beyond that: known finding F-H) *)
Theorem C01_emu_eq_kernel :
  forall s df, wf s df -> forall p nf nosym,
    (EMPTY_PATH_IS_ENOENT = true \/ p <> []) ->
    kwalk s p nf nosym <> WBudget ->
    ewalk s p nf nosym = kwalk s p nf nosym.
Proof. exact emu_eq_kernel. Qed.

(* a successful lookup never yields an object outside the root's tree *)
Theorem C01_result_in_root :
  forall s df, wf s df -> forall p nf nosym o,
    (kwalk s p nf nosym = WOk o -> reach s o) /\ (ewalk s p nf nosym = WOk o -> reach s o).
Proof. intros s df H p nf nosym o. split; [apply (kernel_in_root s df H)|apply (emu_in_root s df H)]. Qed.

(* the empty path is ENOENT for the emulated backend too (F-E, fixed) *)
Theorem C01_empty_path : forall s nf nosym, ewalk s [] nf nosym = WErr E_NOENT /\ kwalk s [] nf nosym = WErr E_NOENT.
Proof. intros. split; reflexivity. Qed.

(* the walks are total functions by structural recursion on the link budget and
   the component queue: a lookup through a symlink loop ends -- with ELOOP -- after a
   bounded number of steps, on every file system *)
Example C01_loop_eloop :
  let s := build [MkLnk [b "loop"] (b "loop"); MkLnk [b "a"] (b "/b"); MkLnk [b "b"] (b "a")] in
  wf_b s = true /\
  enc_wres (kwalk s (b "loop") false false) = [2; 40]%Z /\ enc_wres (ewalk s (b "loop") false false) = [2; 40]%Z /\
  enc_wres (kwalk s (b "a/x") false false) = [2; 40]%Z /\ enc_wres (ewalk s (b "a/x") true false) = [2; 40]%Z /\
  kwalk s (b "loop") true false = WOk 1%nat.
Proof. vm_compute. repeat split. Qed.

(* non-vacuity: a concrete tree with escaping / absolute links and ".." meets [wf],
   and the walks clamp at the root *)
Example C01_concrete :
  let s := build [MkDir [b "a"]; MkDir [b "a"; b "b"]; MkFile [b "a"; b "b"; b "f"]; MkLnk [b "esc"] (b "../../..");
                  MkLnk [b "a"; b "up"] (b "../a/b"); MkLnk [b "abs"] (b "/a")] in
  wf_b s = true /\
  kwalk s (b "esc/a/up/../b/f") false false = WOk 3%nat /\
  ewalk s (b "esc/a/up/../b/f") false false = WOk 3%nat /\
  ewalk s (b "abs/../../..") false false = WOk 0%nat /\
  ewalk s (b "a/b/f/") false false = WErr E_NOTDIR.
Proof. vm_compute. repeat split. Qed.

Theorem C01_wf_check_sound : forall s, wf_b s = true -> wf s (depthf s).
Proof. exact wf_b_sound. Qed.

(* the recorded finding F-H is real in the model: 41 links resolve under emulation only *)
Example C01_link_budget_witness :
  let chain := MkFile [b "t"] :: MkLnk [b "c0"] (b "t") ::
               map (fun i => MkLnk [b "c" ++ dec (N.of_nat (S i))] (b "c" ++ dec (N.of_nat i))) (seq 0 41) in
  let s := build chain in
  kwalk s (b "c41") false false = WBudget /\ ewalk s (b "c41") false false = WOk 1%nat.
Proof. vm_compute. split; reflexivity. Qed.

Check C01_emu_eq_kernel :
  forall s df, wf s df -> forall p nf nosym,
    (EMPTY_PATH_IS_ENOENT = true \/ p <> []) ->
    kwalk s p nf nosym <> WBudget ->
    ewalk s p nf nosym = kwalk s p nf nosym.
Check C01_result_in_root :
  forall s df, wf s df -> forall p nf nosym o,
    (kwalk s p nf nosym = WOk o -> reach s o) /\ (ewalk s p nf nosym = WOk o -> reach s o).

Print Assumptions C01_emu_eq_kernel.
Print Assumptions C01_result_in_root.
Print Assumptions C01_empty_path.
Print Assumptions C01_wf_check_sound.

(* ---- the library's program, not only the pure walk ------------------------------------
   [resolve_gen] is the model program of opath::resolve (OpathM.opath_resolve_root is
   its instance for check_current: C01_program_is_the_model) -- the program that tie
   T1 replays against the real library call by call.  Executed on the static kernel
   of theories/Static.v (validated against the running kernel by tie T2'), over ANY
   well-formed tree and any path, it returns a descriptor for exactly the object the
   kernel's RESOLVE_IN_ROOT walk ends on, or that walk's errno -- for every check
   routine that succeeds when the walk is where it believes to be. *)
From PV Require Import Static StaticProofs.

Theorem C01_program_refines_walk :
  forall s rp F df, wf s df -> links_ok s -> closed s ->
  forall fz chk, fz <> 0%nat -> chk_static_ok s rp F chk ->
  forall ps nosym nf t root path, Frame s F t -> tget t root = Some ROOT -> has_nul path = false ->
    match ewalk s path nf nosym with
    | WOk o => exists t' fd, run s rp t (resolve_gen fz ps chk root path nosym nf) = Done t' (Ok fd) /\ tget t' fd = Some o
    | WErr n => exists t', run s rp t (resolve_gen fz ps chk root path nosym nf) = Done t' (Err (OsError n))
    | WBudget => exists t', run s rp t (resolve_gen fz ps chk root path nosym nf) = Done t' (Err (OsError ELOOP))
    end.
Proof. intros s rp F df Hwf Hl Hcl fz chk Hfz Hchk ps nosym nf t root path. exact (resolve_static s rp F Hcl fz Hfz chk Hchk df Hwf Hl ps nosym nf t root path). Qed.

Theorem C01_program_eq_kernel :
  forall s rp F df, wf s df -> links_ok s -> closed s ->
  forall fz chk, fz <> 0%nat -> chk_static_ok s rp F chk ->
  forall ps nosym nf t root path, Frame s F t -> tget t root = Some ROOT -> has_nul path = false ->
    (EMPTY_PATH_IS_ENOENT = true \/ path <> []) ->
    match kwalk s path nf nosym with
    | WOk o => exists t' fd, run s rp t (resolve_gen fz ps chk root path nosym nf) = Done t' (Ok fd) /\ tget t' fd = Some o
    | WErr n => exists t', run s rp t (resolve_gen fz ps chk root path nosym nf) = Done t' (Err (OsError n))
    | WBudget => True          (* more than 40 link traversals: known finding F-H *)
    end.
Proof.
  intros s rp F df Hwf Hl Hcl fz chk Hfz Hchk ps nosym nf t root path Hfr Hroot Hnul Hp.
  pose proof (C01_program_refines_walk s rp F df Hwf Hl Hcl fz chk Hfz Hchk ps nosym nf t root path Hfr Hroot Hnul) as H.
  destruct (kwalk s path nf nosym) as [o|n|] eqn:Ek; [| |exact I];
    rewrite (emu_eq_kernel s df Hwf path nf nosym Hp) in H by (rewrite Ek; discriminate); rewrite Ek in H; exact H.
Qed.

Theorem C01_program_is_the_model :
  forall fz o2 pfuel gh ps root path nosym nf,
    opath_resolve_root fz o2 pfuel gh ps root path nosym nf =
    resolve_gen fz ps (check_current fz o2 pfuel gh) root path nosym nf.
Proof. exact resolve_is_gen. Qed.

(* the real program, with the premise reduced to the kernel's d_path contract: whenever
   as_unsafe_path -- the library's reading of /proc/thread-self/fd/N -- returns, for a
   descriptor open on the object with path [exp] below the root, an absolute path made of
   the root directory's components followed by [exp], opath::resolve itself (check_current
   included) returns the walk's answer.  (Discharged below for a procfs handle that uses openat2.) *)
Theorem C01_resolve_refines_walk :
  forall s rp F df rootcomps, wf s df -> links_ok s -> names_ok s -> closed s ->
  forall fz o2 pfuel gh, fz <> 0%nat -> getpath_ok s rp F rootcomps (as_unsafe_path fz o2 pfuel gh) ->
  forall ps nosym nf t root path, Frame s F t -> tget t root = Some ROOT -> has_nul path = false ->
    match ewalk s path nf nosym with
    | WOk o => exists t' fd, run s rp t (opath_resolve_root fz o2 pfuel gh ps root path nosym nf) = Done t' (Ok fd) /\ tget t' fd = Some o
    | WErr n => exists t', run s rp t (opath_resolve_root fz o2 pfuel gh ps root path nosym nf) = Done t' (Err (OsError n))
    | WBudget => exists t', run s rp t (opath_resolve_root fz o2 pfuel gh ps root path nosym nf) = Done t' (Err (OsError ELOOP))
    end.
Proof.
  intros s rp F df rc Hwf Hl Hn Hcl fz o2 pfuel gh Hfz Hg ps nosym nf t root path Hfr Hroot Hnul.
  rewrite resolve_is_gen.
  apply (C01_program_refines_walk s rp F df Hwf Hl Hcl fz _ Hfz (check_current_static s rp F rc _ Hn Hg) ps nosym nf t root path Hfr Hroot Hnul).
Qed.

(* ... and with nothing left open about check_current: Static.v models as much of procfs
   as as_unsafe_path needs (the handle's root, the thread directory, one magic-link per
   open descriptor whose readlink is the kernel's rendering of the object's path), and on
   it the library's own reading of /proc/thread-self/fd/N is proved to return root path +
   path -- through openat2 when the kernel has it (StaticProcfs.run_as_unsafe_path) and through
   the emulated procfs resolver when it has not (StaticProcfsEmu.run_as_unsafe_path_emu: the
   thread-self symlink followed component by component, every step's mount id verified, the
   magic-link re-opened with O_PATH|O_NOFOLLOW).  So the whole of opath::resolve -- walk, Rc
   bookkeeping, every check_current with its procfs round-trips -- returns what the kernel's
   walk returns, on every well-formed tree without hard links, with or without openat2.
   The premises after [wf] are properties of the tree alone. *)
From PV Require Import StaticProcfs StaticProcfsEmu.

Theorem C01_resolve_eq_walk :
  forall s rp df, wf s df -> links_ok s -> names_ok s -> closed s -> paths_found s -> paths_short s rp -> is_abs rp = true ->
  (* [o2]: is openat2 available?  The procfs handle resolves with it exactly when it is. *)
  forall fz pf gh o2, fz <> 0%nat -> ph_mnt gh = Some PROC_MNT -> ph_openat2 gh = o2 ->
  forall ps nosym nf t root path,
    Frame s [(ph_fd gh, PB s)] t -> tget t root = Some ROOT -> has_nul path = false ->
    match ewalk s path nf nosym with
    | WOk o => exists t' fd, run s rp t (opath_resolve_root fz o2 (S pf) gh ps root path nosym nf) = Done t' (Ok fd) /\ tget t' fd = Some o
    | WErr n => exists t', run s rp t (opath_resolve_root fz o2 (S pf) gh ps root path nosym nf) = Done t' (Err (OsError n))
    | WBudget => exists t', run s rp t (opath_resolve_root fz o2 (S pf) gh ps root path nosym nf) = Done t' (Err (OsError ELOOP))
    end.
Proof.
  intros s rp df Hwf Hl Hn Hcl Hpf Hps Habs fz pf gh o2 Hfz Hmnt Ho2 ps nosym nf t root path Hfr Hroot Hnul.
  destruct o2.
  - apply (C01_resolve_refines_walk s rp _ df (CheckProofs.nf rp) Hwf Hl Hn Hcl fz true (S pf) gh Hfz
             (getpath_static s rp fz gh pf Hfz Hmnt Ho2 Habs Hn Hpf Hps) ps nosym nf t root path Hfr Hroot Hnul).
  - apply (C01_resolve_refines_walk s rp _ df (CheckProofs.nf rp) Hwf Hl Hn Hcl fz false (S pf) gh Hfz
             (getpath_static_emu s rp fz gh pf Hfz Hmnt Ho2 Habs Hn Hpf Hps) ps nosym nf t root path Hfr Hroot Hnul).
Qed.

(* the real program, executed: tree with escaping / absolute links, '..' steps (each one
   checked through the procfs handle at descriptor 4), root at descriptor 5 *)
Example C01_resolve_runs :
  let s := FSModel.build [FSModel.MkDir [b "a"]; FSModel.MkDir [b "a"; b "b"]; FSModel.MkFile [b "a"; b "b"; b "f"]; FSModel.MkLnk [b "esc"] (b "../../..");
                  FSModel.MkLnk [b "a"; b "up"] (b "../a/b"); FSModel.MkLnk [b "abs"] (b "/a")] in
  let gh := {| ph_fd := 4; ph_mnt := Some PROC_MNT; ph_subset := false; ph_openat2 := true |} in
  let t := [(5%Z, ROOT); (4%Z, PB s)] in
  (match run s (b "/srv/root") t (opath_resolve_root 1 true 2 gh 1 5 (b "esc/a/up/../b/f") false false) with
   | Done t' (Ok fd) => (tget t' fd, length t')
   | _ => (None, 0%nat) end) = (Some 3%nat, 3%nat) /\
  (match run s (b "/srv/root") t (opath_resolve_root 1 true 2 gh 1 5 (b "a/../../abs/b/..") false false) with
   | Done t' (Ok fd) => tget t' fd
   | _ => None end) = Some 1%nat /\
  find_path s 3 = Some [b "a"; b "b"; b "f"].
Proof. vm_compute. repeat split. Qed.

(* the same with openat2 absent everywhere -- the configuration in which the emulated
   resolver is used in practice: check_current then reaches fd/N through the EMULATED procfs
   resolver (thread-self is a symlink it follows component by component, each step's mount id
   verified): the second case of C01_resolve_eq_walk, executed. *)
Example C01_resolve_runs_without_openat2 :
  let s := FSModel.build [FSModel.MkDir [b "a"]; FSModel.MkDir [b "a"; b "b"]; FSModel.MkFile [b "a"; b "b"; b "f"]; FSModel.MkLnk [b "esc"] (b "../../..");
                  FSModel.MkLnk [b "a"; b "up"] (b "../a/b"); FSModel.MkLnk [b "abs"] (b "/a")] in
  let gh := {| ph_fd := 4; ph_mnt := Some PROC_MNT; ph_subset := false; ph_openat2 := false |} in
  let t := [(5%Z, ROOT); (4%Z, PB s)] in
  (match run s (b "/srv/root") t (as_unsafe_path 1 false 2 gh 5) with
   | Done t' (Ok p) => (Some p, length t') | _ => (None, 0%nat) end) = (Some (b "/srv/root"), 2%nat) /\
  (match run s (b "/srv/root") t (opath_resolve_root 1 false 2 gh 1 5 (b "esc/a/up/../b/f") false false) with
   | Done t' (Ok fd) => (tget t' fd, length t')
   | _ => (None, 0%nat) end) = (Some 3%nat, 3%nat).
Proof. vm_compute. split; reflexivity. Qed.

(* non-vacuity: the premises are met by a concrete tree and check routine, and the
   program really runs to the kernel's answer there *)
Example C01_program_concrete :
  let s := FSModel.build [FSModel.MkDir [b "a"]; FSModel.MkDir [b "a"; b "b"]; FSModel.MkFile [b "a"; b "b"; b "f"]; FSModel.MkLnk [b "esc"] (b "../../..");
                  FSModel.MkLnk [b "a"; b "up"] (b "../a/b"); FSModel.MkLnk [b "abs"] (b "/a")] in
  let chk := fun (_ _ : Z) (_ : list bytes) => Ret (Ok tt) in
  wf_b s = true /\ chk_static_ok s (b "/srv/root") [] chk /\
  (match run s (b "/srv/root") [(5%Z, ROOT)] (resolve_gen 1 1 chk 5 (b "esc/a/up/../b/f") false false) with
   | Done t' (Ok fd) => tget t' fd
   | _ => None end) = Some 3%nat /\
  (match run s (b "/srv/root") [(5%Z, ROOT)] (resolve_gen 1 1 chk 5 (b "a/b/f/x") false false) with
   | Done _ (Err (OsError e)) => Some e
   | _ => None end) = Some E_NOTDIR.
Proof. split; [vm_compute; reflexivity|]. split; [intros t cur root exp o _ _ _ _; reflexivity|]. split; vm_compute; reflexivity. Qed.

Print Assumptions C01_program_refines_walk.
Print Assumptions C01_program_eq_kernel.
Print Assumptions C01_program_is_the_model.
Print Assumptions C01_resolve_refines_walk.
Print Assumptions C01_resolve_eq_walk.
