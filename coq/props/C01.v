(* C01 -- in-root lookups match kernel RESOLVE_IN_ROOT semantics for every tree and path.
   [kwalk] is the reference semantics of openat2(RESOLVE_IN_ROOT|NO_MAGICLINKS
   [|NO_SYMLINKS], O_PATH[|O_NOFOLLOW]) -- validated against the running kernel on
   every run (tie T2) -- and [ewalk] is what the emulated resolver computes on a
   tree that is not being modified -- validated against the library on every run.
   The theorems hold for EVERY well-formed file system [s] (any shape, any link
   bodies), every path, both trailing-symlink modes, with and without NO_SYMLINKS. *)
From PV Require Import FSModel FSProofs.
Open Scope N_scope.

(* the emulated backend computes exactly the kernel's answer whenever the kernel
   needs at most its 40 link traversals (beyond that: known finding F-H) *)
Theorem C01_emu_eq_kernel :
  forall s df, wf s df -> forall p nf nosym,
    (EMPTY_PATH_IS_ENOENT = true \/ p <> []) ->
    kwalk s p nf nosym <> WBudget ->
    ewalk s p nf nosym = kwalk s p nf nosym.
Proof. exact emu_eq_kernel. Qed.

(* a successful lookup never yields an object outside the root's tree *)
Theorem C01_result_in_root :
  forall s df, wf s df -> forall p nf nosym o,
    (kwalk s p nf nosym = WOk o -> reach s o) /\ (ewalk s p nf nosym = WOk o -> reach s o).
Proof. intros s df H p nf nosym o. split; [apply (kernel_in_root s df H)|apply (emu_in_root s df H)]. Qed.

(* the empty path is ENOENT for the emulated backend too (F-E, fixed) *)
Theorem C01_empty_path : forall s nf nosym, ewalk s [] nf nosym = WErr E_NOENT /\ kwalk s [] nf nosym = WErr E_NOENT.
Proof. intros. split; reflexivity. Qed.

(* the walks are total functions by structural recursion on the link budget and
   the component queue: a lookup through a symlink loop ends -- with ELOOP -- after a
   bounded number of steps, on every file system *)
Example C01_loop_eloop :
  let s := build [MkLnk [b "loop"] (b "loop"); MkLnk [b "a"] (b "/b"); MkLnk [b "b"] (b "a")] in
  wf_b s = true /\
  enc_wres (kwalk s (b "loop") false false) = [2; 40]%Z /\ enc_wres (ewalk s (b "loop") false false) = [2; 40]%Z /\
  enc_wres (kwalk s (b "a/x") false false) = [2; 40]%Z /\ enc_wres (ewalk s (b "a/x") true false) = [2; 40]%Z /\
  kwalk s (b "loop") true false = WOk 1%nat.
Proof. vm_compute. repeat split. Qed.

(* non-vacuity: a concrete tree with escaping / absolute links and ".." meets [wf],
   and the walks clamp at the root *)
Example C01_concrete :
  let s := build [MkDir [b "a"]; MkDir [b "a"; b "b"]; MkFile [b "a"; b "b"; b "f"]; MkLnk [b "esc"] (b "../../..");
                  MkLnk [b "a"; b "up"] (b "../a/b"); MkLnk [b "abs"] (b "/a")] in
  wf_b s = true /\
  kwalk s (b "esc/a/up/../b/f") false false = WOk 3%nat /\
  ewalk s (b "esc/a/up/../b/f") false false = WOk 3%nat /\
  ewalk s (b "abs/../../..") false false = WOk 0%nat /\
  ewalk s (b "a/b/f/") false false = WErr E_NOTDIR.
Proof. vm_compute. repeat split. Qed.

Theorem C01_wf_check_sound : forall s, wf_b s = true -> wf s (depthf s).
Proof. exact wf_b_sound. Qed.

(* the recorded finding F-H is real in the model: 41 links resolve under emulation only *)
Example C01_link_budget_witness :
  let chain := MkFile [b "t"] :: MkLnk [b "c0"] (b "t") ::
               map (fun i => MkLnk [b "c" ++ dec (N.of_nat (S i))] (b "c" ++ dec (N.of_nat i))) (seq 0 41) in
  let s := build chain in
  kwalk s (b "c41") false false = WBudget /\ ewalk s (b "c41") false false = WOk 1%nat.
Proof. vm_compute. split; reflexivity. Qed.

Check C01_emu_eq_kernel :
  forall s df, wf s df -> forall p nf nosym,
    (EMPTY_PATH_IS_ENOENT = true \/ p <> []) ->
    kwalk s p nf nosym <> WBudget ->
    ewalk s p nf nosym = kwalk s p nf nosym.
Check C01_result_in_root :
  forall s df, wf s df -> forall p nf nosym o,
    (kwalk s p nf nosym = WOk o -> reach s o) /\ (ewalk s p nf nosym = WOk o -> reach s o).

Print Assumptions C01_emu_eq_kernel.
Print Assumptions C01_result_in_root.
Print Assumptions C01_empty_path.
Print Assumptions C01_wf_check_sound.
