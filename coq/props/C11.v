(* C11 -- calls leave the descriptor table unchanged except for the returned fd.
   [bal R [] p]: for ALL kernel answers (in which the kernel never hands out a descriptor
   number the operation is holding), the operation p, started owning nothing,
   (a) never closes a descriptor it did not itself open -- so descriptors lent
   by the caller (root, handle, borrowed fds) stay open -- and (b) returns
   owning exactly what R says: the returned descriptor, or nothing. *)
From PV Require Import FdBalance ProgTac FdBalProofs RootBal OpathBal.
From Coq Require Import Permutation.
Open Scope N_scope.

Theorem C11_procfs :
  forall fz cfg fuel h base sub flags,
    bal (Rfd []) [] (popen fz cfg fuel h base sub flags) /\
    bal (Rfd []) [] (popen_follow fz cfg fuel h base sub flags) /\
    bal (Rsame []) [] (preadlink fz cfg fuel h base sub).
Proof. intros. repeat split; [apply popen_bal|apply popen_follow_bal|apply preadlink_bal]. Qed.

Theorem C11_reopen :
  forall fz cfg fuel gh fd flags, bal (Rfd []) [] (reopen fz cfg fuel gh fd flags).
Proof. intros. apply reopen_bal. Qed.

Theorem C11_constructors :
  forall fz cfg, bal (Rph []) [] (procfs_new fz cfg) /\ bal (Rph []) [] (procfs_new_unmasked fz cfg).
Proof. intros. split; [apply procfs_new_bal|apply procfs_new_unmasked_bal]. Qed.

(* Root operations, for any resolver meeting the lookup contract ... *)
Theorem C11_root_ops :
  forall fz cfg pfuel gh ps rs,
    res_ok fz cfg pfuel gh ps rs -> resp_ok fz cfg pfuel gh ps rs ->
    forall root path path2 ty flags mode isdir rflags rfuel,
      bal (Rfd []) [] (r_open fz cfg pfuel gh ps rs root path flags) /\
      bal (Rsame []) [] (root_readlink fz cfg pfuel gh ps rs root path) /\
      bal (Rsame []) [] (root_create fz cfg pfuel gh ps rs root path ty) /\
      bal (Rfd []) [] (root_create_file fz cfg pfuel gh ps rs root path flags mode) /\
      bal (Rsame []) [] (root_remove_inode fz cfg pfuel gh ps rs root path isdir) /\
      bal (Rsame []) [] (root_rename fz cfg pfuel gh ps rs root path path2 rflags) /\
      bal (Rsame []) [] (root_remove_all fz cfg pfuel gh ps rfuel rs root path) /\
      bal (Rfd []) [] (root_mkdir_all fz cfg pfuel gh ps rs root path mode).
Proof.
  intros fz cfg pfuel gh ps rs H1 H2. intros. repeat split;
    [apply r_open_bal|apply root_readlink_bal|apply root_create_bal|apply root_create_file_bal
    |apply root_remove_inode_bal|apply root_rename_bal|apply root_remove_all_bal|apply root_mkdir_all_bal];
    assumption.
Qed.

(* ... and the kernel (openat2) backend meets it, including the 16-try EAGAIN loop
   and the ancestor probing of resolve_partial *)
Theorem C11_kernel_backend :
  forall fz cfg pfuel gh ps rs, rs_kernel rs = true ->
    res_ok fz cfg pfuel gh ps rs /\ resp_ok fz cfg pfuel gh ps rs.
Proof. intros. split; [apply kernel_res_ok|apply kernel_resp_ok]; assumption. Qed.

(* ... and so does the emulated (O_PATH) backend, the Rc<OwnedFd> reference counting of
   its walk state and of its symlink stack included: the count the library keeps for a
   descriptor is the number of roles holding it (root, current, one per stack entry), a
   descriptor is closed exactly when its last holder lets go, and at the end only the
   result's handle is left *)
Theorem C11_emulated_backend :
  forall fz cfg pfuel gh ps rs, rs_kernel rs = false ->
    res_ok fz cfg pfuel gh ps rs /\ resp_ok fz cfg pfuel gh ps rs.
Proof. intros. split; [apply emu_res_ok|apply emu_resp_ok]; assumption. Qed.

(* hence every Root operation is balanced on every backend, no contract assumed *)
Theorem C11_root_ops_all_backends :
  forall fz cfg pfuel gh ps rs root path path2 ty flags mode isdir rflags rfuel,
      bal (Rfd []) [] (r_open fz cfg pfuel gh ps rs root path flags) /\
      bal (Rsame []) [] (root_readlink fz cfg pfuel gh ps rs root path) /\
      bal (Rsame []) [] (root_create fz cfg pfuel gh ps rs root path ty) /\
      bal (Rfd []) [] (root_create_file fz cfg pfuel gh ps rs root path flags mode) /\
      bal (Rsame []) [] (root_remove_inode fz cfg pfuel gh ps rs root path isdir) /\
      bal (Rsame []) [] (root_rename fz cfg pfuel gh ps rs root path path2 rflags) /\
      bal (Rsame []) [] (root_remove_all fz cfg pfuel gh ps rfuel rs root path) /\
      bal (Rfd []) [] (root_mkdir_all fz cfg pfuel gh ps rs root path mode).
Proof.
  intros. destruct (rs_kernel rs) eqn:Hk.
  - destruct (C11_kernel_backend fz cfg pfuel gh ps rs Hk) as [H1 H2]. apply C11_root_ops; assumption.
  - destruct (C11_emulated_backend fz cfg pfuel gh ps rs Hk) as [H1 H2]. apply C11_root_ops; assumption.
Qed.

(* what the judgement means on any trace the model accepts (T1 replays recorded
   traces through run_trace) and in which no returned descriptor number was one the
   operation held (trace_fresh, evaluated on every recorded trace): the descriptors
   opened and not closed inside the trace are exactly R's, and no foreign descriptor
   was closed *)
Theorem C11_sound_on_traces :
  forall A (R : A -> list Z -> Prop) (p : prog A) t a n,
    bal R [] p -> run_trace p t 0 = RDone a n -> trace_fresh t [] = true ->
    exists o', trace_owned t [] [] = (o', []) /\ R a o'.
Proof. intros. eapply bal_sound_on_traces; eassumption. Qed.

(* read on the static kernel of theories/Static.v (whose answers are particular ones): any
   balanced operation leaves every descriptor that was open before it bound to what it was
   bound to, and afterwards nothing else is open than those and the returned descriptor *)
From PV Require Static StaticBal.

Theorem C11_static_table_after :
  forall s rp (p : prog (result Z ekind)) t t' r,
    bal (Rfd []) [] p -> Static.run s rp t p = Static.Done t' r ->
    (forall x, StaticBal.indom t x -> Static.tfind t' x = Static.tfind t x) /\
    (forall x, StaticBal.indom t' x -> StaticBal.indom t x \/ r = Ok x).
Proof.
  intros s rp p t t' r Hb Hrun.
  destruct (StaticBal.bal_run s rp _ _ [] t t' r Hb Hrun (NoDup_nil _) ltac:(intros n [])) as (o' & HR & _ & _ & Hkeep & Honly).
  hnf in HR. split.
  - intros x Hx. apply Hkeep; [exact Hx|intros []].
  - intros x Hx. destruct (Honly x Hx) as [[Hin _]|Hin]; [left; exact Hin|right].
    apply (Permutation_in _ HR) in Hin. destruct r as [fd|e]; [destruct Hin as [E|[]]; subst; reflexivity|destruct Hin].
Qed.

(* e.g. the emulated resolver: its walk, however many descriptors it opens and closes on the
   way and however its Rc handles are shared, leaves exactly one new descriptor or none *)
Corollary C11_static_emulated_resolve :
  forall s rp fz cfg pfuel gh ps root path nosym nf t t' r,
    Static.run s rp t (opath_resolve_root fz cfg pfuel gh ps root path nosym nf) = Static.Done t' r ->
    (forall x, StaticBal.indom t x -> Static.tfind t' x = Static.tfind t x) /\
    (forall x, StaticBal.indom t' x -> StaticBal.indom t x \/ r = Ok x).
Proof. intros. eapply C11_static_table_after; [apply opath_resolve_root_bal|eassumption]. Qed.

Check C11_procfs :
  forall fz cfg fuel h base sub flags,
    bal (Rfd []) [] (popen fz cfg fuel h base sub flags) /\
    bal (Rfd []) [] (popen_follow fz cfg fuel h base sub flags) /\
    bal (Rsame []) [] (preadlink fz cfg fuel h base sub).
Check C11_reopen :
  forall fz cfg fuel gh fd flags, bal (Rfd []) [] (reopen fz cfg fuel gh fd flags).
Check C11_constructors :
  forall fz cfg, bal (Rph []) [] (procfs_new fz cfg) /\ bal (Rph []) [] (procfs_new_unmasked fz cfg).
Check C11_kernel_backend :
  forall fz cfg pfuel gh ps rs, rs_kernel rs = true ->
    res_ok fz cfg pfuel gh ps rs /\ resp_ok fz cfg pfuel gh ps rs.
Check C11_emulated_backend :
  forall fz cfg pfuel gh ps rs, rs_kernel rs = false ->
    res_ok fz cfg pfuel gh ps rs /\ resp_ok fz cfg pfuel gh ps rs.
Check C11_root_ops_all_backends :
  forall fz cfg pfuel gh ps rs root path path2 ty flags mode isdir rflags rfuel,
      bal (Rfd []) [] (r_open fz cfg pfuel gh ps rs root path flags) /\
      bal (Rsame []) [] (root_readlink fz cfg pfuel gh ps rs root path) /\
      bal (Rsame []) [] (root_create fz cfg pfuel gh ps rs root path ty) /\
      bal (Rfd []) [] (root_create_file fz cfg pfuel gh ps rs root path flags mode) /\
      bal (Rsame []) [] (root_remove_inode fz cfg pfuel gh ps rs root path isdir) /\
      bal (Rsame []) [] (root_rename fz cfg pfuel gh ps rs root path path2 rflags) /\
      bal (Rsame []) [] (root_remove_all fz cfg pfuel gh ps rfuel rs root path) /\
      bal (Rfd []) [] (root_mkdir_all fz cfg pfuel gh ps rs root path mode).
Check C11_sound_on_traces :
  forall A (R : A -> list Z -> Prop) (p : prog A) t a n,
    bal R [] p -> run_trace p t 0 = RDone a n -> trace_fresh t [] = true ->
    exists o', trace_owned t [] [] = (o', []) /\ R a o'.

(* non-vacuity: the judgement rejects a leaking program and a foreign close *)
Example C11_rejects_leak :
  ~ bal (@Rsame unit []) [] (Call (Openat 3 (b "x") 0 0) (fun _ => Ret tt)).
Proof.
  intro H. inversion H as [| c k o Hc Hk | |]; subst.
  specialize (Hk (RFd 7) ltac:(intros n _ Hin; exact Hin)). cbn in Hk. inversion Hk as [a o Hr | | |]; subst.
  hnf in Hr. apply Permutation_length in Hr. discriminate.
Qed.
Example C11_rejects_foreign_close :
  ~ bal (@Rsame unit []) [] (Call (Close 3) (fun _ => Ret tt)).
Proof.
  intro H. inversion H as [| c k o Hc Hk | |]; subst. specialize (Hc 3%Z eq_refl). discriminate.
Qed.

Print Assumptions C11_procfs.
Print Assumptions C11_reopen.
Print Assumptions C11_constructors.
Print Assumptions C11_root_ops.
Print Assumptions C11_kernel_backend.
Print Assumptions C11_emulated_backend.
Print Assumptions C11_root_ops_all_backends.
Print Assumptions C11_static_table_after.
Print Assumptions C11_static_emulated_resolve.
Print Assumptions C11_sound_on_traces.
