(* C12 -- mkdir_all creates exactly the missing directories and converges under races.
   Proved here: the argument checks and the discipline/balance of every call, for
   all kernel answers.  The functional post-condition on the tree ("exactly the
   missing directories") and the convergence of concurrent callers are decided by
   the snapshot and interleaving runs of tools/props/C12.py (see DESIGN.md: partial). *)
From PV Require Import Discipline ProgTac PathProofs DisciplineProofs OpathDisc RootDisc OpsProofs FdBalance FdBalProofs RootBal.
Open Scope N_scope.

Theorem C12_mode_checked :
  forall fz cfg pfuel gh ps rs root path mode,
    N.ldiff mode 1023 <> 0 ->
    root_mkdir_all fz cfg pfuel gh ps rs root path mode = Ret (Err InvalidArgument).
Proof. exact mkdir_all_mode_checked. Qed.

(* every mkdirat / openat it issues names one '/'-free component relative to a
   descriptor; every open forbids following except the verified re-open of the
   resolved prefix through procfs *)
Theorem C12_calls_disciplined :
  forall fz cfg pfuel gh ps rs root path mode,
    rfd (ph_fd gh) -> rfd root ->
    all_calls Pd (root_mkdir_all fz cfg pfuel gh ps rs root path mode).
Proof. intros. eapply okp_all_calls. apply root_mkdir_all_ok; assumption. Qed.

(* no descriptor is leaked on any path, the returned handle is the only new one *)
Theorem C12_balanced :
  forall fz cfg pfuel gh ps rs, res_ok fz cfg pfuel gh ps rs -> resp_ok fz cfg pfuel gh ps rs ->
    forall root path mode, bal (Rfd []) [] (root_mkdir_all fz cfg pfuel gh ps rs root path mode).
Proof. intros. apply root_mkdir_all_bal; assumption. Qed.

(* it cannot panic *)
Theorem C12_no_unknown_panic :
  forall fz cfg pfuel gh ps rs root path mode,
    rfd (ph_fd gh) -> rfd root ->
    only_panics FaultProofs.known_sites (root_mkdir_all fz cfg pfuel gh ps rs root path mode).
Proof. intros. eapply FaultProofs.okp_known. apply root_mkdir_all_ok; assumption. Qed.

Example C12_mode_examples : N.ldiff 511 1023 = 0 /\ N.ldiff 1023 1023 = 0 /\ N.ldiff 1024 1023 <> 0 /\ N.ldiff 16877 1023 <> 0.
Proof. repeat split; try reflexivity; discriminate. Qed.

Print Assumptions C12_mode_checked.
Print Assumptions C12_calls_disciplined.
Print Assumptions C12_balanced.
Print Assumptions C12_no_unknown_panic.
