(* C12 -- mkdir_all creates exactly the missing directories and converges under races.
   Proved here: the argument checks and the discipline/balance of every call, for
   all kernel answers.  The functional post-condition on the tree ("exactly the
   missing directories") and the convergence of concurrent callers are decided by
   the snapshot and interleaving runs of tools/props/C12.py (see DESIGN.md: partial). *)
From PV Require Import Discipline ProgTac PathProofs DisciplineProofs OpathDisc RootDisc OpsProofs FdBalance FdBalProofs RootBal OpathBal BeneathProofs Replay MonitorProofs.
Open Scope N_scope.

Theorem C12_mode_checked :
  forall fz cfg pfuel gh ps rs root path mode,
    N.ldiff mode 1023 <> 0 ->
    root_mkdir_all fz cfg pfuel gh ps rs root path mode = Ret (Err InvalidArgument).
Proof. exact mkdir_all_mode_checked. Qed.

(* every mkdirat / openat it issues names one '/'-free component relative to a
   descriptor; every open forbids following except the verified re-open of the
   resolved prefix through procfs *)
Theorem C12_calls_disciplined :
  forall fz cfg pfuel gh ps rs root path mode,
    rfd (ph_fd gh) -> rfd root ->
    all_calls Pd (root_mkdir_all fz cfg pfuel gh ps rs root path mode).
Proof. intros. eapply okp_all_calls. apply root_mkdir_all_ok; assumption. Qed.

(* no descriptor is leaked on any path, the returned handle is the only new one *)
Theorem C12_balanced :
  forall fz cfg pfuel gh ps rs, res_ok fz cfg pfuel gh ps rs -> resp_ok fz cfg pfuel gh ps rs ->
    forall root path mode, bal (Rfd []) [] (root_mkdir_all fz cfg pfuel gh ps rs root path mode).
Proof. intros. apply root_mkdir_all_bal; assumption. Qed.

(* ... on either backend, no contract assumed (the emulated backend's partial lookup with its
   symlink stack of Rc handles included: OpathBal.v) *)
Theorem C12_balanced_all_backends :
  forall fz cfg pfuel gh ps rs root path mode, bal (Rfd []) [] (root_mkdir_all fz cfg pfuel gh ps rs root path mode).
Proof.
  intros. destruct (rs_kernel rs) eqn:Hk.
  - apply root_mkdir_all_bal; first [apply kernel_res_ok|apply kernel_resp_ok]; exact Hk.
  - apply root_mkdir_all_bal; first [apply emu_res_ok|apply emu_resp_ok]; exact Hk.
Qed.

(* the directories are created as ONE chain, for all answers: mkdir_all is the argument checks,
   the partial lookup, the re-open of the deepest existing directory and then the loop
   [mk_parts] (C12_loop: by computation) over the remaining components, none of which is "",
   "." or ".."; in that loop every mkdirat is made on the directory the chain has reached,
   with a '/'-free name, and the only open is openat(that directory, that very name,
   O_NOFOLLOW|O_DIRECTORY), whose result is where the chain continues; nothing else changes
   the tree ([chain_ok], [chain] in proofs/BeneathProofs.v) *)
Theorem C12_creation_is_one_chain :
  forall fz mode (remaining : option bytes) current0,
    let parts := filter (fun p => negb (noop_part p)) (match remaining with Some rm => raw_components rm | None => [] end) in
    existsb is_dotdot parts = false ->
    chain (@anyQ (result Z ekind)) (current0, None) (mk_parts fz mode parts current0).
Proof. intros fz mode remaining current0 parts H. apply mk_parts_chain. apply mkdir_all_parts_ok. exact H. Qed.

(* the same judgement as an executable monitor over recorded traces (tools/props/C12.py evaluates
   [trace_chain], the monitor started at the first mkdirat, on the recorded calls) *)
Theorem C12_chain_monitor_sound :
  forall fz mode (remaining : option bytes) current0 t idx a n,
    let parts := filter (fun p => negb (noop_part p)) (match remaining with Some rm => raw_components rm | None => [] end) in
    existsb is_dotdot parts = false ->
    run_trace (mk_parts fz mode parts current0) t idx = RDone a n -> trace_chain_from t (current0, None) = true.
Proof. intros fz mode remaining current0 t idx a n parts H Hr. eapply chain_sound; [apply C12_creation_is_one_chain; exact H|exact Hr]. Qed.

Theorem C12_loop :
  forall fz cfg pfuel gh ps rs root path mode,
  root_mkdir_all fz cfg pfuel gh ps rs root path mode =
  (if negb (N.eqb (N.ldiff mode MKDIR_ALL_MASK1) 0) then Ret (Err InvalidArgument) else
   if negb (N.eqb (N.ldiff mode MKDIR_ALL_MASK2) 0) then Ret (Err InvalidArgument) else
   l <-? r_resolve_partial fz cfg pfuel gh ps rs root path false ;;
   r <- match l with
        | Complete fd => Ret (Ok (fd, None))
        | Partial fd remaining e =>
            if (match e with OsError n => N.eqb n ENOENT | _ => false end)
            then Ret (Ok (fd, Some remaining))
            else close fd ;;; Ret (Err e)
        end ;;
   match r with
   | Err e => Ret (Err e)
   | Ok (handle, remaining) =>
       r <- h_reopen fz cfg pfuel gh handle MKDIR_ALL_REOPEN_FLAGS ;;
       match r with
       | Err e => frozen fz handle ;;; close handle ;;; Ret (Err e)
       | Ok current0 =>
           close handle ;;;
           let parts := filter (fun p => negb (noop_part p)) (match remaining with Some rm => raw_components rm | None => [] end) in
           if existsb is_dotdot parts then close current0 ;;; Ret (Err (OsError ENOENT))
           else mk_parts fz mode parts current0
       end
   end).
Proof. intros. reflexivity. Qed.

Example C12_chain_examples :
  chain_ok (5%Z, None) (Mkdirat 5 (b "new") 493) /\ ~ chain_ok (5%Z, None) (Mkdirat 6 (b "new") 493) /\
  ~ chain_ok (5%Z, Some (b "new")) (Mkdirat 5 (b "other") 493) /\
  chain_ok (5%Z, Some (b "new")) (Openat 5 (b "new") (N.lor O_NOFOLLOW O_DIRECTORY) 0) /\
  ~ chain_ok (5%Z, Some (b "new")) (Openat 5 (b "new") O_DIRECTORY 0) /\
  ~ chain_ok (5%Z, Some (b "new")) (Openat 5 (b "evil") (N.lor O_NOFOLLOW O_DIRECTORY) 0) /\
  chain_step (5%Z, Some (b "new")) (Openat 5 (b "new") (N.lor O_NOFOLLOW O_DIRECTORY) 0) (RFd 9) = (9%Z, None).
Proof.
  unfold chain_ok. cbn [fst snd]. repeat split; try reflexivity; try discriminate.
  - intros (H & _). discriminate.
  - intros (_ & H & _). discriminate.
  - intros (_ & _ & H & _). discriminate.
  - intros (_ & H & _). discriminate.
Qed.

(* it cannot panic *)
Theorem C12_no_unknown_panic :
  forall fz cfg pfuel gh ps rs root path mode,
    rfd (ph_fd gh) -> rfd root ->
    only_panics FaultProofs.known_sites (root_mkdir_all fz cfg pfuel gh ps rs root path mode).
Proof. intros. eapply FaultProofs.okp_known. apply root_mkdir_all_ok; assumption. Qed.

Example C12_mode_examples : N.ldiff 511 1023 = 0 /\ N.ldiff 1023 1023 = 0 /\ N.ldiff 1024 1023 <> 0 /\ N.ldiff 16877 1023 <> 0.
Proof. repeat split; try reflexivity; discriminate. Qed.

(* ---- the functional statement, on the DYNAMIC kernel model (theories/Dyn.v) ---------------------
   [mk_spec] is a pure function of the tree: for each remaining component, mkdirat's effect
   (EEXIST tolerated) and then the directory now under that name, or the errno that ends the loop.
   1. the creation loop, executed, computes it; 2. what it does to any tree; 3. the partial lookup
   of the kernel backend as a pure function ([kpartial]: the first ancestor of the path that the
   kernel's in-root walk resolves); 4. RootRef::mkdir_all end to end on the kernel backend. *)
From PV Require Dyn DynProofs DynMkdir DynMkdirAll.

Theorem C12_loop_computes_spec :
  forall rp fz, fz <> 0%nat -> forall mode ps s t cur o,
  DynMkdir.closed2 s -> Static.tget t cur = Some o -> (o < Dyn.NPB s)%nat -> Forall (fun p => Dyn.plain p = true) ps ->
  exists t',
    (forall x ob, x <> cur -> Static.tget t x = Some ob -> Static.tget t' x = Some (DynMkdir.rel s (fst (DynMkdir.mk_spec s o ps)) ob)) /\
    match snd (DynMkdir.mk_spec s o ps) with
    | inl c => exists fd,
        Dyn.drun rp {| Dyn.ds := s; Dyn.dt := t; Dyn.dseen := [] |} (mk_parts fz mode ps cur) =
          Dyn.DDone {| Dyn.ds := fst (DynMkdir.mk_spec s o ps); Dyn.dt := t'; Dyn.dseen := [] |} (Ok fd) /\
        Static.tget t' fd = Some c /\ (c < Dyn.NPB (fst (DynMkdir.mk_spec s o ps)))%nat /\
        (forall x, StaticBal.indom t' x -> x = fd \/ (StaticBal.indom t x /\ x <> cur)) /\ (ps = [] -> fd = cur)
    | inr e =>
        Dyn.drun rp {| Dyn.ds := s; Dyn.dt := t; Dyn.dseen := [] |} (mk_parts fz mode ps cur) =
          Dyn.DDone {| Dyn.ds := fst (DynMkdir.mk_spec s o ps); Dyn.dt := t'; Dyn.dseen := [] |} (Err (OsError e)) /\
        (forall x, StaticBal.indom t' x -> StaticBal.indom t x /\ x <> cur)
    end.
Proof. exact DynMkdir.mk_parts_dyn. Qed.

(* "nothing else in the tree was added, removed or modified; when it fails nothing outside the
   requested chain was created; every component now exists": [extends] = the old tree plus new
   DIRECTORIES entered under names that did not exist; the result is the plain descent along the
   components in the new tree *)
Theorem C12_spec_post :
  forall ps s o, DynMkdir.closed2 s -> (o < length (FSModel.kinds s))%nat -> Forall (fun p => Dyn.plain p = true) ps ->
  DynMkdir.extends s (fst (DynMkdir.mk_spec s o ps)) /\ DynMkdir.closed2 (fst (DynMkdir.mk_spec s o ps)) /\
  match snd (DynMkdir.mk_spec s o ps) with
  | inl c => DynMkdir.descend_dirs (fst (DynMkdir.mk_spec s o ps)) o ps = Some c /\
             (FSModel.is_dir s o = true -> FSModel.is_dir (fst (DynMkdir.mk_spec s o ps)) c = true)
  | inr _ => True
  end.
Proof. exact DynMkdir.mk_spec_post. Qed.

Theorem C12_extends_changes_nothing_else :
  forall s s', DynMkdir.extends s s' ->
  (forall o, (o < length (FSModel.kinds s))%nat -> FSModel.kind_of s' o = FSModel.kind_of s o) /\
  (forall d n c, FSModel.lookup s d n = Some c -> FSModel.lookup s' d n = Some c) /\
  (length (FSModel.kinds s) <= length (FSModel.kinds s'))%nat /\
  (exists new, FSModel.ents s' = FSModel.ents s ++ new /\
               Forall (fun e => (length (FSModel.kinds s) <= Dyn.ent_obj e)%nat /\ FSModel.kind_of s' (Dyn.ent_obj e) = FSModel.KDir) new).
Proof. exact DynMkdir.extends_frame. Qed.

Theorem C12_partial_lookup_kernel_backend :
  forall s rp fz, fz <> 0%nat -> StaticProofs.closed s -> forall t root path rflags,
  Static.tget t root = Some FSModel.ROOT -> has_nul path = false ->
  Static.run s rp t (k_resolve_partial fz true root path rflags false) =
  match DynMkdirAll.kpartial s path (has (N.lor OPENAT2_RESOLVE_RESOLVE rflags) RESOLVE_NO_SYMLINKS) with
  | DynMkdirAll.KComplete o => Static.Done ((Static.fresh t, o) :: t) (Ok (Complete (Static.fresh t)))
  | DynMkdirAll.KPartial o rem l => Static.Done ((Static.fresh t, o) :: t) (Ok (Partial (Static.fresh t) rem (OsError l)))
  | DynMkdirAll.KFail e => Static.Done t (Err (OsError e))
  end.
Proof. exact DynMkdirAll.run_k_resolve_partial. Qed.

Theorem C12_mkdir_all_kernel_backend :
  forall s rp fz pfuel gh ps rs, fz <> 0%nat -> DynMkdir.closed2 s ->
  ph_mnt gh = Some Static.PROC_MNT -> ph_openat2 gh = true -> rs_kernel rs = true ->
  forall t root path mode o remaining exp,
  Static.tget t root = Some FSModel.ROOT -> Static.tget t (ph_fd gh) = Some (Static.PB s) -> has_nul path = false ->
  N.ldiff mode MKDIR_ALL_MASK1 = 0 -> N.ldiff mode MKDIR_ALL_MASK2 = 0 ->
  ((DynMkdirAll.kpartial s path (has (N.lor OPENAT2_RESOLVE_RESOLVE (rs_flags rs)) RESOLVE_NO_SYMLINKS) = DynMkdirAll.KComplete o /\ remaining = None) \/
   (exists rm, DynMkdirAll.kpartial s path (has (N.lor OPENAT2_RESOLVE_RESOLVE (rs_flags rs)) RESOLVE_NO_SYMLINKS) = DynMkdirAll.KPartial o rm ENOENT /\ remaining = Some rm)) ->
  FSModel.is_dir s o = true -> Static.find_path s o = Some exp -> N.leb READLINK_BUF (N.of_nat (length (Static.render rp exp))) = false ->
  existsb is_dotdot (DynMkdirAll.parts_of remaining) = false ->
  exists t',
    match snd (DynMkdir.mk_spec s o (DynMkdirAll.parts_of remaining)) with
    | inl c => exists fd,
        Dyn.drun rp {| Dyn.ds := s; Dyn.dt := t; Dyn.dseen := [] |} (root_mkdir_all fz true (S pfuel) gh ps rs root path mode) =
          Dyn.DDone {| Dyn.ds := fst (DynMkdir.mk_spec s o (DynMkdirAll.parts_of remaining)); Dyn.dt := t'; Dyn.dseen := [] |} (Ok fd) /\
        Static.tget t' fd = Some c /\ (forall x, StaticBal.indom t' x -> x = fd \/ StaticBal.indom t x)
    | inr e =>
        Dyn.drun rp {| Dyn.ds := s; Dyn.dt := t; Dyn.dseen := [] |} (root_mkdir_all fz true (S pfuel) gh ps rs root path mode) =
          Dyn.DDone {| Dyn.ds := fst (DynMkdir.mk_spec s o (DynMkdirAll.parts_of remaining)); Dyn.dt := t'; Dyn.dseen := [] |} (Err (OsError e)) /\
        (forall x, StaticBal.indom t' x -> StaticBal.indom t x)
    end.
Proof. exact DynMkdirAll.mkdir_all_kernel. Qed.

(* ---- C12, the whole statement (kernel backend, path with a missing tail) ------------------------
   On the dynamic kernel, over any tree: mkdir_all ends with the tree extended by new directories only
   (also when it fails); when it succeeds, the returned descriptor is open on a directory and that
   directory IS the kernel's in-root resolution of the path in the resulting tree. *)
From PV Require DynResolve.

Theorem C12_handle_is_resolution_in_resulting_tree :
  forall s s' path nosym o rm c,
  DynMkdir.closed2 s -> FSModel.is_dir s FSModel.ROOT = true -> path <> [] ->
  DynMkdirAll.kpartial s path nosym = DynMkdirAll.KPartial o rm ENOENT ->
  DynMkdir.extends s s' -> FSModel.is_dir s o = true ->
  existsb is_dotdot (DynMkdirAll.parts_of (Some rm)) = false ->
  DynMkdir.descend_dirs s' o (DynMkdirAll.parts_of (Some rm)) = Some c ->
  FSModel.kwalk s' path false nosym = FSModel.WOk c.
Proof. exact DynResolve.mkdir_all_handle_is_resolution. Qed.

Theorem C12_mkdir_all_post_kernel_backend :
  forall s rp fz pfuel gh ps rs t root path mode o rm exp,
  fz <> 0%nat -> DynMkdir.closed2 s -> FSModel.is_dir s FSModel.ROOT = true ->
  ph_mnt gh = Some Static.PROC_MNT -> ph_openat2 gh = true -> rs_kernel rs = true ->
  Static.tget t root = Some FSModel.ROOT -> Static.tget t (ph_fd gh) = Some (Static.PB s) -> has_nul path = false -> path <> [] ->
  N.ldiff mode MKDIR_ALL_MASK1 = 0 -> N.ldiff mode MKDIR_ALL_MASK2 = 0 ->
  let nosym := has (N.lor OPENAT2_RESOLVE_RESOLVE (rs_flags rs)) RESOLVE_NO_SYMLINKS in
  DynMkdirAll.kpartial s path nosym = DynMkdirAll.KPartial o rm ENOENT ->
  FSModel.is_dir s o = true -> Static.find_path s o = Some exp -> N.leb READLINK_BUF (N.of_nat (length (Static.render rp exp))) = false ->
  existsb is_dotdot (DynMkdirAll.parts_of (Some rm)) = false ->
  let s' := fst (DynMkdir.mk_spec s o (DynMkdirAll.parts_of (Some rm))) in
  DynMkdir.extends s s' /\
  exists t',
    match snd (DynMkdir.mk_spec s o (DynMkdirAll.parts_of (Some rm))) with
    | inl c => exists fd,
        Dyn.drun rp {| Dyn.ds := s; Dyn.dt := t; Dyn.dseen := [] |} (root_mkdir_all fz true (S pfuel) gh ps rs root path mode) =
          Dyn.DDone {| Dyn.ds := s'; Dyn.dt := t'; Dyn.dseen := [] |} (Ok fd) /\ Static.tget t' fd = Some c /\
        FSModel.is_dir s' c = true /\ FSModel.kwalk s' path false nosym = FSModel.WOk c
    | inr e =>
        Dyn.drun rp {| Dyn.ds := s; Dyn.dt := t; Dyn.dseen := [] |} (root_mkdir_all fz true (S pfuel) gh ps rs root path mode) =
          Dyn.DDone {| Dyn.ds := s'; Dyn.dt := t'; Dyn.dseen := [] |} (Err (OsError e))
    end.
Proof. exact DynResolve.mkdir_all_kernel_post. Qed.

(* ---- either backend, given what its partial lookup returned: everything after the lookup is backend-independent.
   For the emulated backend the lookup's result (handle on [o], unresolved rest) is what T3 executes against the
   library and C04 differences against the kernel backend; from there on this theorem applies. *)
From PV Require DynMkdirAny.
Theorem C12_mkdir_all_either_backend_given_lookup :
  forall s rp fz pfuel gh ps rs t root path mode t1 h o remaining exp,
  fz <> 0%nat -> DynMkdir.closed2 s -> ph_mnt gh = Some Static.PROC_MNT -> ph_openat2 gh = true ->
  N.ldiff mode MKDIR_ALL_MASK1 = 0 -> N.ldiff mode MKDIR_ALL_MASK2 = 0 ->
  Static.run s rp t (r_resolve_partial fz true (S pfuel) gh ps rs root path false) =
    Static.Done t1 (Ok (match remaining with None => Complete h | Some rm => Partial h rm (OsError ENOENT) end)) ->
  Static.tget t1 (ph_fd gh) = Some (Static.PB s) -> Static.tget t1 h = Some o -> (o < Static.PB s)%nat ->
  FSModel.is_dir s o = true -> Static.find_path s o = Some exp ->
  N.leb READLINK_BUF (N.of_nat (length (Static.render rp exp))) = false ->
  existsb is_dotdot (DynMkdirAll.parts_of remaining) = false -> (forall x, remaining = Some x -> has_nul x = false) ->
  exists t',
    match snd (DynMkdir.mk_spec s o (DynMkdirAll.parts_of remaining)) with
    | inl c => exists fd,
        Dyn.drun rp {| Dyn.ds := s; Dyn.dt := t; Dyn.dseen := [] |} (root_mkdir_all fz true (S pfuel) gh ps rs root path mode) =
          Dyn.DDone {| Dyn.ds := fst (DynMkdir.mk_spec s o (DynMkdirAll.parts_of remaining)); Dyn.dt := t'; Dyn.dseen := [] |} (Ok fd) /\
        Static.tget t' fd = Some c /\
        (forall x, StaticBal.indom t' x -> x = fd \/ (StaticBal.indom t1 x /\ x <> h))
    | inr e =>
        Dyn.drun rp {| Dyn.ds := s; Dyn.dt := t; Dyn.dseen := [] |} (root_mkdir_all fz true (S pfuel) gh ps rs root path mode) =
          Dyn.DDone {| Dyn.ds := fst (DynMkdir.mk_spec s o (DynMkdirAll.parts_of remaining)); Dyn.dt := t'; Dyn.dseen := [] |} (Err (OsError e)) /\
        (forall x, StaticBal.indom t' x -> StaticBal.indom t1 x /\ x <> h)
    end.
Proof. exact DynMkdirAny.mkdir_all_given_lookup. Qed.

(* ---- C12, completeness: mkdir_all has no reason to fail when every component that exists along the remaining
   chain is a directory and every name fits NAME_MAX -- and then it does not fail (kernel backend).  [dirs_ok]:
   every entry's directory is an object of the tree. *)
From PV Require DynMkdirComplete.

Theorem C12_spec_complete :
  forall ps s o, DynMkdir.closed2 s -> DynMkdirComplete.dirs_ok s -> (o < length (FSModel.kinds s))%nat -> FSModel.is_dir s o = true ->
  Forall (fun p => Dyn.plain p = true) ps -> DynMkdirComplete.chain_ok s o ps ->
  exists c, snd (DynMkdir.mk_spec s o ps) = inl c.
Proof. exact DynMkdirComplete.mk_spec_complete. Qed.

Theorem C12_mkdir_all_succeeds_kernel_backend :
  forall s rp fz pfuel gh ps rs t root path mode o rm exp,
  fz <> 0%nat -> DynMkdir.closed2 s -> DynMkdirComplete.dirs_ok s -> FSModel.is_dir s FSModel.ROOT = true ->
  ph_mnt gh = Some Static.PROC_MNT -> ph_openat2 gh = true -> rs_kernel rs = true ->
  Static.tget t root = Some FSModel.ROOT -> Static.tget t (ph_fd gh) = Some (Static.PB s) -> has_nul path = false -> path <> [] ->
  N.ldiff mode MKDIR_ALL_MASK1 = 0 -> N.ldiff mode MKDIR_ALL_MASK2 = 0 ->
  let nosym := has (N.lor OPENAT2_RESOLVE_RESOLVE (rs_flags rs)) RESOLVE_NO_SYMLINKS in
  DynMkdirAll.kpartial s path nosym = DynMkdirAll.KPartial o rm ENOENT ->
  FSModel.is_dir s o = true -> Static.find_path s o = Some exp ->
  N.leb READLINK_BUF (N.of_nat (length (Static.render rp exp))) = false ->
  existsb is_dotdot (DynMkdirAll.parts_of (Some rm)) = false ->
  DynMkdirComplete.chain_ok s o (DynMkdirAll.parts_of (Some rm)) ->
  let s' := fst (DynMkdir.mk_spec s o (DynMkdirAll.parts_of (Some rm))) in
  exists t' fd c,
    Dyn.drun rp {| Dyn.ds := s; Dyn.dt := t; Dyn.dseen := [] |} (root_mkdir_all fz true (S pfuel) gh ps rs root path mode) =
      Dyn.DDone {| Dyn.ds := s'; Dyn.dt := t'; Dyn.dseen := [] |} (Ok fd) /\ Static.tget t' fd = Some c /\
    FSModel.is_dir s' c = true /\ FSModel.kwalk s' path false nosym = FSModel.WOk c /\ DynMkdir.extends s s'.
Proof. exact DynMkdirComplete.mkdir_all_kernel_succeeds. Qed.

(* ---- C12, racing callers (the property's "all callers succeed with handles to the directories now at their
   paths"), on the model: [mk_conc] is the creation loop with the environment adding directories -- what every other
   mkdir_all caller does, and what the loop's own steps do ([C12_own_steps_are_environment_steps]) -- between any
   two of its calls.  Whatever the interleaving, a loop that had no reason to fail at the start does not fail, and
   its handle is the descent along the components in the final tree.  Without interference [mk_conc] is mk_spec. *)
From PV Require DynMkdirConc.

Theorem C12_interference_free_is_spec :
  forall ps s o, DynMkdirConc.mk_conc s o ps (fst (DynMkdir.mk_spec s o ps)) (snd (DynMkdir.mk_spec s o ps)).
Proof. exact DynMkdirConc.mk_conc_seq. Qed.

Theorem C12_own_steps_are_environment_steps :
  forall s o p s1, DynMkdir.mk_dir s o p = inl s1 -> DynMkdir.extends s s1.
Proof. exact DynMkdirConc.mk_dir_extends. Qed.

Theorem C12_loop_converges_under_racing_creators :
  forall s o ps s' r, DynMkdirConc.mk_conc s o ps s' r ->
  DynMkdir.closed2 s -> DynMkdirComplete.dirs_ok s -> FSModel.is_dir s o = true ->
  Forall (fun p => Dyn.plain p = true) ps -> DynMkdirComplete.chain_ok s o ps ->
  DynMkdir.extends s s' /\
  exists c, r = inl c /\ DynMkdir.descend_dirs s' o ps = Some c /\ FSModel.is_dir s' c = true.
Proof. exact DynMkdirConc.mk_conc_converges. Qed.

Theorem C12_racing_callers_hold_the_same_directory :
  forall sa sb o ps sa' sb' ra rb sF,
  DynMkdirConc.mk_conc sa o ps sa' ra -> DynMkdirConc.mk_conc sb o ps sb' rb -> DynMkdir.extends sa' sF -> DynMkdir.extends sb' sF ->
  DynMkdir.closed2 sa -> DynMkdirComplete.dirs_ok sa -> FSModel.is_dir sa o = true -> DynMkdirComplete.chain_ok sa o ps ->
  DynMkdir.closed2 sb -> DynMkdirComplete.dirs_ok sb -> FSModel.is_dir sb o = true -> DynMkdirComplete.chain_ok sb o ps ->
  Forall (fun p => Dyn.plain p = true) ps ->
  exists c, ra = inl c /\ rb = inl c /\ DynMkdir.descend_dirs sF o ps = Some c.
Proof. exact DynMkdirConc.mk_conc_same_handles. Qed.

(* non-vacuity: another caller creates x before our mkdirat (EEXIST, tolerated) and x/y between our open of x and
   our mkdirat of y; we end on the other caller's x/y *)
Example C12_racing_run :
  let s0 := {| FSModel.kinds := [FSModel.KDir]; FSModel.parents := [0%nat]; FSModel.ents := [] |} in
  let s1 := FSModel.add_obj s0 0 (b "x") FSModel.KDir in
  let s2 := FSModel.add_obj s1 1 (b "y") FSModel.KDir in
  DynMkdirConc.mk_conc s0 0 [b "x"; b "y"] s2 (inl 2%nat) /\
  DynMkdir.closed2 s0 /\ DynMkdirComplete.dirs_ok s0 /\ DynMkdirComplete.chain_ok s0 0 [b "x"; b "y"].
Proof.
  intros s0 s1 s2. split.
  - apply (DynMkdirConc.mc_env s0 s1); [apply (DynMkdir.ext_add s0 s0); [apply DynMkdir.ext_refl|reflexivity|reflexivity]|].
    apply (DynMkdirConc.mc_step s1 0%nat (b "x") [b "y"] s1 s2 1%nat); [vm_compute; reflexivity| |vm_compute; reflexivity|].
    + apply (DynMkdir.ext_add s1 s1); [apply DynMkdir.ext_refl|reflexivity|reflexivity].
    + apply (DynMkdirConc.mc_step s2 1%nat (b "y") [] s2 s2 2%nat); [vm_compute; reflexivity|apply DynMkdir.ext_refl|vm_compute; reflexivity|apply DynMkdirConc.mc_nil].
  - split; [|split].
    + split; [split; [vm_compute; lia|split]|reflexivity].
      * intros d n c H. destruct d; discriminate H.
      * intros o Ho. unfold Static.PB in *. cbn in Ho. destruct o; [vm_compute; lia|lia].
    + intros e [].
    + vm_compute. repeat split; constructor; try reflexivity; constructor.
Qed.

(* ---- the premises are invariants: every tree that any sequence of the modelled operations (mkdirat / mknodat /
   symlinkat, openat(O_CREAT), unlinkat, linkat, renameat2 with its three flag values, mkdir_all's loop, remove_all) can
   produce from an empty root -- any order, any arguments, failing or not -- satisfies what the functional theorems
   assume of a tree (closed2, ents_ok, uniq, dirs_ok, tree_ok) *)
From PV Require DynInv.
Theorem C12_every_reachable_tree_satisfies_the_premises :
  forall ops, let s := fold_left DynInv.apply_op ops DynInv.root_only in
  DynMkdir.closed2 s /\ DynRemove.ents_ok s /\ DynRemoveExact.uniq s /\ DynMkdirComplete.dirs_ok s /\ DynRemoveConc.tree_ok s.
Proof. exact DynInv.reachable_premises. Qed.

(* executed (non-vacuity): abs -> /a; mkdir_all("abs/x/y/z") on both backends creates a/x, a/x/y, a/x/y/z and
   returns the last one; the pure functions give the same tree and object; a file in the way ends the loop
   with ENOTDIR after a/x was created (what was created lies on the chain) *)
Example C12_dynamic_runs :
  let s := FSModel.build [FSModel.MkDir [b "a"]; FSModel.MkFile [b "a"; b "f"]; FSModel.MkLnk [b "abs"] (b "/a")] in
  let gh := {| ph_fd := 4; ph_mnt := Some Static.PROC_MNT; ph_subset := false; ph_openat2 := true |} in
  let st := {| Dyn.ds := s; Dyn.dt := [(5%Z, FSModel.ROOT); (4%Z, Static.PB s)]; Dyn.dseen := [] |} in
  let emu := {| rs_kernel := false; rs_flags := 0 |} in let kern := {| rs_kernel := true; rs_flags := 0 |} in
  let tree {A} (o : Dyn.doutcome A) := match o with Dyn.DDone st' _ => map (fun e => fst (fst e)) (Dyn.dump (Dyn.ds st')) | _ => [] end in
  let obj (o : Dyn.doutcome (result Z ekind)) := match o with Dyn.DDone st' (Ok fd) => Static.tget (Dyn.dt st') fd | _ => None end in
  let want := [[b "a"]; [b "a"; b "f"]; [b "a"; b "x"]; [b "a"; b "x"; b "y"]; [b "a"; b "x"; b "y"; b "z"]; [b "abs"]] in
  tree (Dyn.drun (b "/srv/root") st (root_mkdir_all 1 true 2 gh 1 kern 5 (b "abs/x/y/z") 493)) = want /\
  tree (Dyn.drun (b "/srv/root") st (root_mkdir_all 1 true 2 gh 1 emu 5 (b "abs/x/y/z") 493)) = want /\
  obj (Dyn.drun (b "/srv/root") st (root_mkdir_all 1 true 2 gh 1 kern 5 (b "abs/x/y/z") 493)) = Some 6%nat /\
  DynMkdirAll.kpartial s (b "abs/x/y/z") false = DynMkdirAll.KPartial 1 (b "x/y/z") ENOENT /\
  map (fun e => fst (fst e)) (Dyn.dump (fst (DynMkdir.mk_spec s 1 [b "x"; b "y"; b "z"]))) = want /\
  snd (DynMkdir.mk_spec s 1 [b "x"; b "y"; b "z"]) = inl 6%nat /\
  snd (DynMkdir.mk_spec s 1 [b "x"; b "f"; b "z"]) = inl 6%nat /\
  snd (DynMkdir.mk_spec s 1 [b "f"; b "z"]) = inr ENOTDIR.
Proof. vm_compute. repeat split. Qed.

Print Assumptions C12_mode_checked.
Print Assumptions C12_calls_disciplined.
Print Assumptions C12_balanced.
Print Assumptions C12_no_unknown_panic.
Print Assumptions C12_balanced_all_backends.
Print Assumptions C12_creation_is_one_chain.
Print Assumptions C12_loop.
Print Assumptions C12_chain_monitor_sound.
Print Assumptions C12_loop_computes_spec.
Print Assumptions C12_spec_post.
Print Assumptions C12_extends_changes_nothing_else.
Print Assumptions C12_partial_lookup_kernel_backend.
Print Assumptions C12_mkdir_all_kernel_backend.
Print Assumptions C12_handle_is_resolution_in_resulting_tree.
Print Assumptions C12_mkdir_all_post_kernel_backend.
Print Assumptions C12_mkdir_all_either_backend_given_lookup.
Print Assumptions C12_spec_complete.
Print Assumptions C12_mkdir_all_succeeds_kernel_backend.
Print Assumptions C12_interference_free_is_spec.
Print Assumptions C12_own_steps_are_environment_steps.
Print Assumptions C12_loop_converges_under_racing_creators.
Print Assumptions C12_racing_callers_hold_the_same_directory.
Print Assumptions C12_every_reachable_tree_satisfies_the_premises.
