(* C12 -- mkdir_all creates exactly the missing directories and converges under races.
   Proved here: the argument checks and the discipline/balance of every call, for
   all kernel answers.  The functional post-condition on the tree ("exactly the
   missing directories") and the convergence of concurrent callers are decided by
   the snapshot and interleaving runs of tools/props/C12.py (see DESIGN.md: partial). *)
From PV Require Import Discipline ProgTac PathProofs DisciplineProofs OpathDisc RootDisc OpsProofs FdBalance FdBalProofs RootBal OpathBal BeneathProofs Replay MonitorProofs.
Open Scope N_scope.

Theorem C12_mode_checked :
  forall fz cfg pfuel gh ps rs root path mode,
    N.ldiff mode 1023 <> 0 ->
    root_mkdir_all fz cfg pfuel gh ps rs root path mode = Ret (Err InvalidArgument).
Proof. exact mkdir_all_mode_checked. Qed.

(* every mkdirat / openat it issues names one '/'-free component relative to a
   descriptor; every open forbids following except the verified re-open of the
   resolved prefix through procfs *)
Theorem C12_calls_disciplined :
  forall fz cfg pfuel gh ps rs root path mode,
    rfd (ph_fd gh) -> rfd root ->
    all_calls Pd (root_mkdir_all fz cfg pfuel gh ps rs root path mode).
Proof. intros. eapply okp_all_calls. apply root_mkdir_all_ok; assumption. Qed.

(* no descriptor is leaked on any path, the returned handle is the only new one *)
Theorem C12_balanced :
  forall fz cfg pfuel gh ps rs, res_ok fz cfg pfuel gh ps rs -> resp_ok fz cfg pfuel gh ps rs ->
    forall root path mode, bal (Rfd []) [] (root_mkdir_all fz cfg pfuel gh ps rs root path mode).
Proof. intros. apply root_mkdir_all_bal; assumption. Qed.

(* ... on either backend, no contract assumed (the emulated backend's partial lookup with its
   symlink stack of Rc handles included: OpathBal.v) *)
Theorem C12_balanced_all_backends :
  forall fz cfg pfuel gh ps rs root path mode, bal (Rfd []) [] (root_mkdir_all fz cfg pfuel gh ps rs root path mode).
Proof.
  intros. destruct (rs_kernel rs) eqn:Hk.
  - apply root_mkdir_all_bal; first [apply kernel_res_ok|apply kernel_resp_ok]; exact Hk.
  - apply root_mkdir_all_bal; first [apply emu_res_ok|apply emu_resp_ok]; exact Hk.
Qed.

(* the directories are created as ONE chain, for all answers: mkdir_all is the argument checks,
   the partial lookup, the re-open of the deepest existing directory and then the loop
   [mk_parts] (C12_loop: by computation) over the remaining components, none of which is "",
   "." or ".."; in that loop every mkdirat is made on the directory the chain has reached,
   with a '/'-free name, and the only open is openat(that directory, that very name,
   O_NOFOLLOW|O_DIRECTORY), whose result is where the chain continues; nothing else changes
   the tree ([chain_ok], [chain] in proofs/BeneathProofs.v) *)
Theorem C12_creation_is_one_chain :
  forall fz mode (remaining : option bytes) current0,
    let parts := filter (fun p => negb (noop_part p)) (match remaining with Some rm => raw_components rm | None => [] end) in
    existsb is_dotdot parts = false ->
    chain (@anyQ (result Z ekind)) (current0, None) (mk_parts fz mode parts current0).
Proof. intros fz mode remaining current0 parts H. apply mk_parts_chain. apply mkdir_all_parts_ok. exact H. Qed.

(* the same judgement as an executable monitor over recorded traces (tools/props/C12.py evaluates
   [trace_chain], the monitor started at the first mkdirat, on the recorded calls) *)
Theorem C12_chain_monitor_sound :
  forall fz mode (remaining : option bytes) current0 t idx a n,
    let parts := filter (fun p => negb (noop_part p)) (match remaining with Some rm => raw_components rm | None => [] end) in
    existsb is_dotdot parts = false ->
    run_trace (mk_parts fz mode parts current0) t idx = RDone a n -> trace_chain_from t (current0, None) = true.
Proof. intros fz mode remaining current0 t idx a n parts H Hr. eapply chain_sound; [apply C12_creation_is_one_chain; exact H|exact Hr]. Qed.

Theorem C12_loop :
  forall fz cfg pfuel gh ps rs root path mode,
  root_mkdir_all fz cfg pfuel gh ps rs root path mode =
  (if negb (N.eqb (N.ldiff mode MKDIR_ALL_MASK1) 0) then Ret (Err InvalidArgument) else
   if negb (N.eqb (N.ldiff mode MKDIR_ALL_MASK2) 0) then Ret (Err InvalidArgument) else
   l <-? r_resolve_partial fz cfg pfuel gh ps rs root path false ;;
   r <- match l with
        | Complete fd => Ret (Ok (fd, None))
        | Partial fd remaining e =>
            if (match e with OsError n => N.eqb n ENOENT | _ => false end)
            then Ret (Ok (fd, Some remaining))
            else close fd ;;; Ret (Err e)
        end ;;
   match r with
   | Err e => Ret (Err e)
   | Ok (handle, remaining) =>
       r <- h_reopen fz cfg pfuel gh handle MKDIR_ALL_REOPEN_FLAGS ;;
       match r with
       | Err e => frozen fz handle ;;; close handle ;;; Ret (Err e)
       | Ok current0 =>
           close handle ;;;
           let parts := filter (fun p => negb (noop_part p)) (match remaining with Some rm => raw_components rm | None => [] end) in
           if existsb is_dotdot parts then close current0 ;;; Ret (Err (OsError ENOENT))
           else mk_parts fz mode parts current0
       end
   end).
Proof. intros. reflexivity. Qed.

Example C12_chain_examples :
  chain_ok (5%Z, None) (Mkdirat 5 (b "new") 493) /\ ~ chain_ok (5%Z, None) (Mkdirat 6 (b "new") 493) /\
  ~ chain_ok (5%Z, Some (b "new")) (Mkdirat 5 (b "other") 493) /\
  chain_ok (5%Z, Some (b "new")) (Openat 5 (b "new") (N.lor O_NOFOLLOW O_DIRECTORY) 0) /\
  ~ chain_ok (5%Z, Some (b "new")) (Openat 5 (b "new") O_DIRECTORY 0) /\
  ~ chain_ok (5%Z, Some (b "new")) (Openat 5 (b "evil") (N.lor O_NOFOLLOW O_DIRECTORY) 0) /\
  chain_step (5%Z, Some (b "new")) (Openat 5 (b "new") (N.lor O_NOFOLLOW O_DIRECTORY) 0) (RFd 9) = (9%Z, None).
Proof.
  unfold chain_ok. cbn [fst snd]. repeat split; try reflexivity; try discriminate.
  - intros (H & _). discriminate.
  - intros (_ & H & _). discriminate.
  - intros (_ & _ & H & _). discriminate.
  - intros (_ & H & _). discriminate.
Qed.

(* it cannot panic *)
Theorem C12_no_unknown_panic :
  forall fz cfg pfuel gh ps rs root path mode,
    rfd (ph_fd gh) -> rfd root ->
    only_panics FaultProofs.known_sites (root_mkdir_all fz cfg pfuel gh ps rs root path mode).
Proof. intros. eapply FaultProofs.okp_known. apply root_mkdir_all_ok; assumption. Qed.

Example C12_mode_examples : N.ldiff 511 1023 = 0 /\ N.ldiff 1023 1023 = 0 /\ N.ldiff 1024 1023 <> 0 /\ N.ldiff 16877 1023 <> 0.
Proof. repeat split; try reflexivity; discriminate. Qed.

Print Assumptions C12_mode_checked.
Print Assumptions C12_calls_disciplined.
Print Assumptions C12_balanced.
Print Assumptions C12_no_unknown_panic.
Print Assumptions C12_balanced_all_backends.
Print Assumptions C12_creation_is_one_chain.
Print Assumptions C12_loop.
Print Assumptions C12_chain_monitor_sound.
