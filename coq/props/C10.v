(* C10 -- a failing system call anywhere inside an operation yields a clean error.
   All statements quantify over every kernel answer at every call, i.e. over
   every fault plan (single faults, repeated EAGAIN, fd exhaustion, ...). *)
From PV Require Import Discipline ProgTac DisciplineProofs OpathDisc RootDisc FaultProofs.
Open Scope N_scope.

(* No operation can panic except at the two recorded sites (known findings):
   site 1 = "at least one candidate /proc/thread-self path should work" (all
   three stat probes fail), site 5 = Rc::try_unwrap in the O_PATH resolver
   (believed unreachable; not yet proved).  In particular the unreachable!() of
   openat2::resolve_partial, the expect() on fstat in try_from_fd and the
   expect() of path_split can not fire, whatever fails. *)
Theorem C10_panic_sites_root :
  forall fz cfg pfuel gh ps rs root path path2 nofollow ty flags mode isdir rflags rfuel,
    rfd (ph_fd gh) -> rfd root ->
    only_panics known_sites (r_resolve fz cfg pfuel gh ps rs root path nofollow) /\
    only_panics known_sites (r_resolve_partial fz cfg pfuel gh ps rs root path nofollow) /\
    only_panics known_sites (r_open fz cfg pfuel gh ps rs root path flags) /\
    only_panics known_sites (root_readlink fz cfg pfuel gh ps rs root path) /\
    only_panics known_sites (root_create fz cfg pfuel gh ps rs root path ty) /\
    only_panics known_sites (root_create_file fz cfg pfuel gh ps rs root path flags mode) /\
    only_panics known_sites (root_remove_inode fz cfg pfuel gh ps rs root path isdir) /\
    only_panics known_sites (root_rename fz cfg pfuel gh ps rs root path path2 rflags) /\
    only_panics known_sites (root_remove_all fz cfg pfuel gh ps rfuel rs root path) /\
    only_panics known_sites (root_mkdir_all fz cfg pfuel gh ps rs root path mode).
Proof.
  intros. repeat split; eapply okp_known;
    [apply r_resolve_ok|apply r_resolve_partial_ok|apply r_open_ok|apply root_readlink_ok|apply root_create_ok
    |apply root_create_file_ok|apply root_remove_inode_ok|apply root_rename_ok|apply root_remove_all_ok
    |apply root_mkdir_all_ok]; assumption.
Qed.

Theorem C10_panic_sites_procfs :
  forall fz cfg fuel h base sub flags fd,
    rfd (ph_fd h) -> rfd fd ->
    only_panics known_sites (popen fz cfg fuel h base sub flags) /\
    only_panics known_sites (popen_follow fz cfg fuel h base sub flags) /\
    only_panics known_sites (preadlink fz cfg fuel h base sub) /\
    only_panics known_sites (reopen fz cfg fuel h fd flags) /\
    only_panics known_sites (procfs_new fz cfg) /\
    only_panics known_sites (procfs_new_unmasked fz cfg).
Proof.
  intros. repeat split; eapply okp_known;
    [apply popen_ok|apply popen_follow_ok|apply preadlink_ok|apply reopen_ok|apply procfs_new_ok
    |apply procfs_new_unmasked_ok]; assumption.
Qed.

(* openat2 reporting EAGAIN: retried at most OPENAT2_RETRIES (16, from T0) times ... *)
Theorem C10_eagain_bounded :
  forall fz root path fl rs,
    calls_le is_openat2 (N.to_nat OPENAT2_RETRIES) (k_resolve_loop fz (N.to_nat OPENAT2_RETRIES) root path fl rs) /\
    calls_le is_openat2 (N.to_nat OPENAT2_OPEN_RETRIES) (k_open_loop fz (N.to_nat OPENAT2_OPEN_RETRIES) root path fl rs) /\
    calls_le is_openat2 (N.to_nat PROCFS_OPENAT2_RETRIES) (openat2_retry fz (N.to_nat PROCFS_OPENAT2_RETRIES) root path fl rs).
Proof. intros. repeat split; [apply k_resolve_loop_bounded|apply openat2_retry_bounded|apply openat2_retry_bounded]. Qed.

(* ... and it never surfaces as an OS error: a lookup or one-shot open through
   the kernel backend ends with a descriptor, another error, or SafetyViolation *)
Theorem C10_eagain_never_surfaces :
  forall fz cfg root path rf nf fl,
    okp TC TS not_eagain (k_resolve fz cfg root path rf nf) /\
    okp TC TS not_eagain (k_open fz cfg root path rf fl) /\
    okp TC TS not_eagain (openat2_resolve fz cfg root path fl rf).
Proof. intros. repeat split; [apply k_resolve_no_eagain|apply k_open_no_eagain|apply openat2_resolve_no_eagain]. Qed.

(* ... never as a partial result *)
Theorem C10_partial_never_from_eagain :
  forall fz cfg root path rf nf,
    okp TC TS partial_not_from_violation (k_resolve_partial fz cfg root path rf nf).
Proof. intros. apply k_resolve_partial_sound. Qed.

Theorem C10_mntid_fail_closed :
  forall a, opt_n_eqb (Some a) None = false /\ opt_n_eqb None (Some a) = false.
Proof. exact mntid_fail_closed. Qed.

(* the recorded site is genuinely reachable (witness of the known finding):
   every thread-self candidate probe fails => ProcfsBase::into_path panics *)
Example C10_thread_self_panic_witness :
  exists answers : list resp,
    run_trace (into_path 1 5 ProcThreadSelf)
      (combine [Gettid; Fstatat 5 (b "thread-self") FSTATAT_FLAGS; Gettid;
                Fstatat AT_FDCWD (b "/proc/thread-self") FSTATAT_FLAGS;
                Readlink (b "/proc/thread-self/fd/5");
                Fstatat 5 (b "self/task/7") FSTATAT_FLAGS; Gettid;
                Fstatat AT_FDCWD (b "/proc/thread-self") FSTATAT_FLAGS;
                Readlink (b "/proc/thread-self/fd/5");
                Fstatat 5 (b "self") FSTATAT_FLAGS; Gettid;
                Fstatat AT_FDCWD (b "/proc/thread-self") FSTATAT_FLAGS;
                Readlink (b "/proc/thread-self/fd/5")] answers) 0
    = RPanic PANIC_THREAD_SELF 13.
Proof.
  exists [RNum 7; RErr EACCES; RNum 7; RStat 0 0 0 0; RBytes []; RErr EACCES; RNum 7; RStat 0 0 0 0; RBytes [];
          RErr EACCES; RNum 7; RStat 0 0 0 0; RBytes []].
  vm_compute. reflexivity.
Qed.

Check C10_eagain_bounded :
  forall fz root path fl rs,
    calls_le is_openat2 (N.to_nat OPENAT2_RETRIES) (k_resolve_loop fz (N.to_nat OPENAT2_RETRIES) root path fl rs) /\
    calls_le is_openat2 (N.to_nat OPENAT2_OPEN_RETRIES) (k_open_loop fz (N.to_nat OPENAT2_OPEN_RETRIES) root path fl rs) /\
    calls_le is_openat2 (N.to_nat PROCFS_OPENAT2_RETRIES) (openat2_retry fz (N.to_nat PROCFS_OPENAT2_RETRIES) root path fl rs).
Check C10_eagain_never_surfaces :
  forall fz cfg root path rf nf fl,
    okp TC TS not_eagain (k_resolve fz cfg root path rf nf) /\
    okp TC TS not_eagain (k_open fz cfg root path rf fl) /\
    okp TC TS not_eagain (openat2_resolve fz cfg root path fl rf).
Check C10_partial_never_from_eagain :
  forall fz cfg root path rf nf,
    okp TC TS partial_not_from_violation (k_resolve_partial fz cfg root path rf nf).

Print Assumptions C10_panic_sites_root.
Print Assumptions C10_panic_sites_procfs.
Print Assumptions C10_eagain_bounded.
Print Assumptions C10_eagain_never_surfaces.
Print Assumptions C10_partial_never_from_eagain.
Print Assumptions C10_mntid_fail_closed.
