(* C04 -- the kernel and emulated resolver backends are observationally equivalent.
   Lookups: the emulated walk equals the kernel walk on every well-formed static
   file system within 40 link traversals (C01).  Parent-based operations: both
   backends run the same program around the lookup -- the operation is the
   backend's lookup of the parent followed by a continuation in which the
   backend does not occur.  Partial lookups (mkdir_all) and the resulting trees
   are compared by the direct differential of tools/props/C04.py (DESIGN.md: partial). *)
From PV Require Import Discipline ProgTac PathProofs DisciplineProofs OpathDisc RootDisc OpsProofs FSModel FSProofs.
Open Scope N_scope.

Theorem C04_resolve_equiv :
  forall s df, wf s df -> forall p nf nosym,
    (EMPTY_PATH_IS_ENOENT = true \/ p <> []) -> kwalk s p nf nosym <> WBudget ->
    ewalk s p nf nosym = kwalk s p nf nosym.
Proof. exact emu_eq_kernel. Qed.

(* the operation = (backend lookup of the parent) ; (backend-independent continuation) *)
Theorem C04_parent_ops_factor :
  forall fz cfg pfuel gh ps rs root path,
    match path_split path with
    | Some (Ok (dirp, Some name)) =>
        peq (parent_and_name fz cfg pfuel gh ps rs root path)
            (dir <-? r_resolve fz cfg pfuel gh ps rs root dirp false ;; Ret (Ok (dir, name)))
        /\ name <> [] /\ has_slash name = false
    | Some (Ok (dirp, None)) =>
        peq (parent_and_name fz cfg pfuel gh ps rs root path)
            (dir <-? r_resolve fz cfg pfuel gh ps rs root dirp false ;; close dir ;;; Ret (Err InvalidArgument))
        /\ (path = [] \/ exists q, path = q ++ [SLASH])
    | _ => False
    end.
Proof. exact parent_and_name_shape. Qed.

(* flags refused by the one-shot open are refused identically by both backends, before any call *)
Theorem C04_open_refusals :
  forall fz cfg pfuel gh ps rs root path flags,
    (intersects flags RESOLVER_OPEN_REFUSED || has_nz flags RESOLVER_OPEN_REFUSED_CONTAINS) = true ->
    r_open fz cfg pfuel gh ps rs root path flags = Ret (Err InvalidArgument).
Proof. intros. unfold r_open. rewrite H. reflexivity. Qed.

(* NUL bytes: both backends answer EINVAL without a lookup call (F-F, fixed) *)
Theorem C04_nul_refused_by_wrappers :
  forall fz fd path fl m rs, valid_fd fd = true -> has_nul path = true ->
    peq (w_openat2 fz fd path fl m rs) (fail1 fz fd EINVAL) /\
    peq (w_openat fz fd path fl m) (fail1 fz fd EINVAL).
Proof.
  intros fz fd path fl m rs Hv Hn. split.
  - unfold w_openat2. rewrite Hv. cbn [negb].
    assert (E : OPENAT2_NUL_EINVAL = true) by reflexivity. rewrite E, Hn. apply peq_refl.
  - unfold w_openat, w_openat_follow, rustix_path. rewrite Hv, Hn. apply peq_refl.
Qed.

(* The two backends as PROGRAMS, on the static kernel model (whose openat2(RESOLVE_IN_ROOT)
   answers with the reference walk [kwalk] -- tie T2 -- and whose single-component calls and
   procfs are tied by T2'): for the same tree, root descriptor, path, trailing mode and
   resolver flags, Resolver::resolve on the kernel backend and on the emulated backend
   (with or without openat2 for its procfs checks) return descriptors open on the SAME
   object, or fail with the SAME errno -- whenever the kernel's walk stays within its 40-link
   budget.  Premises after [wf] are properties of the tree alone (no hard links). *)
From PV Require Static StaticProofs StaticProcfs StaticBackends.

Theorem C04_backends_agree :
  forall s rp df fz pf gh o2 ps t root path nofollow rflags,
    wf s df -> StaticProofs.links_ok s -> StaticProofs.names_ok s -> StaticProofs.closed s ->
    StaticProcfs.paths_found s -> StaticProcfs.paths_short s rp -> is_abs rp = true ->
    fz <> 0%nat -> ph_mnt gh = Some Static.PROC_MNT -> ph_openat2 gh = o2 ->
    StaticProofs.Frame s [(ph_fd gh, Static.PB s)] t -> Static.tget t root = Some ROOT -> has_nul path = false ->
    (EMPTY_PATH_IS_ENOENT = true \/ path <> []) ->
    let nosym := has rflags RESOLVE_NO_SYMLINKS in
    let kern := {| rs_kernel := true; rs_flags := rflags |} in
    let emu := {| rs_kernel := false; rs_flags := rflags |} in
    match kwalk s path nofollow nosym with
    | WOk o =>
        (exists t1 fd1, Static.run s rp t (r_resolve fz true (S pf) gh ps kern root path nofollow) = Static.Done t1 (Ok fd1) /\ Static.tget t1 fd1 = Some o) /\
        (exists t2 fd2, Static.run s rp t (r_resolve fz o2 (S pf) gh ps emu root path nofollow) = Static.Done t2 (Ok fd2) /\ Static.tget t2 fd2 = Some o)
    | WErr n =>
        (exists t1, Static.run s rp t (r_resolve fz true (S pf) gh ps kern root path nofollow) = Static.Done t1 (Err (OsError n))) /\
        (exists t2, Static.run s rp t (r_resolve fz o2 (S pf) gh ps emu root path nofollow) = Static.Done t2 (Err (OsError n)))
    | WBudget => True
    end.
Proof. exact StaticBackends.backends_agree. Qed.

Print Assumptions C04_resolve_equiv.
Print Assumptions C04_parent_ops_factor.
Print Assumptions C04_open_refusals.
Print Assumptions C04_nul_refused_by_wrappers.
Print Assumptions C04_backends_agree.
