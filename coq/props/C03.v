(* C03 -- mutating Root operations never touch anything outside the root.
   Proved here (all kernel answers, hence all attacker schedules): every
   effectful call names ONE component relative to a descriptor and never follows
   it; the descriptor is the parent obtained by in-root resolution (C01/C02); "."
   and ".." are refused by remove_all; a missing final name is refused.  That the
   parent descriptor itself lies inside the root under attack is C02's statement;
   the snapshot oracle of tools/props/C03.py judges the real effects. *)
From PV Require Import Discipline ProgTac PathProofs DisciplineProofs OpathDisc RootDisc OpsProofs FaultProofs EffectProofs Replay MonitorProofs.
Open Scope N_scope.

Theorem C03_single_entry_ops :
  forall fz cfg pfuel gh ps rs root path path2 ty flags mode isdir rflags rfuel,
    rfd (ph_fd gh) -> rfd root ->
    all_calls Pdn (root_create fz cfg pfuel gh ps rs root path ty) /\
    all_calls Pdn (root_create_file fz cfg pfuel gh ps rs root path flags mode) /\
    all_calls Pdn (root_remove_inode fz cfg pfuel gh ps rs root path isdir) /\
    all_calls Pdn (root_rename fz cfg pfuel gh ps rs root path path2 rflags) /\
    all_calls Pdn (root_remove_all fz cfg pfuel gh ps rfuel rs root path) /\
    all_calls Pd (root_mkdir_all fz cfg pfuel gh ps rs root path mode).
Proof.
  intros. repeat split; eapply okp_all_calls;
    [apply root_create_ok|apply root_create_file_ok|apply root_remove_inode_ok
    |apply root_rename_ok|apply root_remove_all_ok|apply root_mkdir_all_ok]; assumption.
Qed.

(* how many calls that change the tree ([eff]: mkdirat, mknodat, unlinkat, linkat, symlinkat,
   renameat(2), open with O_CREAT) can be issued, for all answers and on either backend:
   lookups -- the emulated walk with all its procfs round-trips, even when a fresh procfs handle
   has to be made on the way, and the openat2 retry loops -- issue none ... *)
Theorem C03_lookups_change_nothing :
  forall fz cfg pfuel gh ps rs root path nf,
    calls_le eff 0 (r_resolve fz cfg pfuel gh ps rs root path nf) /\
    calls_le eff 0 (r_resolve_partial fz cfg pfuel gh ps rs root path nf) /\
    calls_le eff 0 (parent_and_name fz cfg pfuel gh ps rs root path).
Proof. intros. repeat split; [apply r_resolve_ne|apply r_resolve_partial_ne|apply parent_and_name_ne]. Qed.

(* ... and every single-entry operation issues at most one *)
Theorem C03_at_most_one_effect :
  forall fz cfg pfuel gh ps rs root path path2 ty flags mode isdir rflags,
    calls_le eff 1 (root_create fz cfg pfuel gh ps rs root path ty) /\
    calls_le eff 1 (root_create_file fz cfg pfuel gh ps rs root path flags mode) /\
    calls_le eff 1 (root_remove_inode fz cfg pfuel gh ps rs root path isdir) /\
    calls_le eff 1 (root_rename fz cfg pfuel gh ps rs root path path2 rflags).
Proof.
  intros. repeat split; [apply root_create_one|apply root_create_file_one|apply root_remove_inode_one|apply root_rename_one].
Qed.

(* the count as a monitor over recorded traces (tools/props/C14.py evaluates [trace_effects] on the
   traces of the running library): a trace the model program accepts contains no more tree-changing
   calls than the bound proved for the program *)
Theorem C03_effect_count_sound :
  forall A (p : prog A) n t idx a m,
    calls_le eff n p -> run_trace p t idx = RDone a m -> (trace_count eff t <= n)%nat.
Proof. intros. eapply calls_le_sound; eassumption. Qed.

Example C03_eff_examples :
  eff (Mkdirat 5 (b "x") 493) = true /\ eff (Openat 5 (b "x") (N.lor O_WRONLY O_CREAT) 420) = true /\
  eff (Openat 5 (b "x") (N.lor O_PATH O_NOFOLLOW) 0) = false /\ eff (Fstatat 5 (b "x") 256) = false /\
  ~ calls_le eff 0 (Call (Unlinkat 5 (b "x") 0) (fun _ => Ret tt)) /\
  ~ calls_le eff 1 (Call (Unlinkat 5 (b "x") 0) (fun _ => Call (Mkdirat 5 (b "x") 493) (fun _ => Ret tt))).
Proof.
  repeat split; try reflexivity.
  - intro H. inversion H as [| |? ? ? E| |]; subst. discriminate.
  - intro H. inversion H as [|n c k E Hk|? ? ? E| |]; subst; [|discriminate].
    specialize (Hk RUnit). inversion Hk as [| |? ? ? E2| |]; subst. discriminate.
Qed.

Theorem C03_dots_refused :
  forall fz fuel dirfd name,
    dot_or_dotdot name = true -> has_slash name = false ->
    remove_all fz (S fuel) dirfd name = Ret (Err InvalidArgument).
Proof. exact remove_all_dots_refused. Qed.

Theorem C03_no_name_refused :
  forall fz cfg pfuel gh ps B (K : Z * bytes -> prog (result B ekind)) rs root path dirp,
    path_split path = Some (Ok (dirp, None)) ->
    peq (dn <-? parent_and_name fz cfg pfuel gh ps rs root path ;; K dn)
        (dir <-? r_resolve fz cfg pfuel gh ps rs root dirp false ;; close dir ;;; Ret (Err InvalidArgument)).
Proof. intros. apply no_name_refused. assumption. Qed.

Print Assumptions C03_single_entry_ops.
Print Assumptions C03_dots_refused.
Print Assumptions C03_no_name_refused.
Print Assumptions C03_lookups_change_nothing.
Print Assumptions C03_at_most_one_effect.
Print Assumptions C03_effect_count_sound.
