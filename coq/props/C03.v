(* C03 -- mutating Root operations never touch anything outside the root.
   Proved here (all kernel answers, hence all attacker schedules): every
   effectful call names ONE component relative to a descriptor and never follows
   it; the descriptor is the parent obtained by in-root resolution (C01/C02); "."
   and ".." are refused by remove_all; a missing final name is refused.  That the
   parent descriptor itself lies inside the root under attack is C02's statement;
   the snapshot oracle of tools/props/C03.py judges the real effects. *)
From PV Require Import Discipline ProgTac PathProofs DisciplineProofs OpathDisc RootDisc OpsProofs.
Open Scope N_scope.

Theorem C03_single_entry_ops :
  forall fz cfg pfuel gh ps rs root path path2 ty flags mode isdir rflags rfuel,
    rfd (ph_fd gh) -> rfd root ->
    all_calls Pdn (root_create fz cfg pfuel gh ps rs root path ty) /\
    all_calls Pdn (root_create_file fz cfg pfuel gh ps rs root path flags mode) /\
    all_calls Pdn (root_remove_inode fz cfg pfuel gh ps rs root path isdir) /\
    all_calls Pdn (root_rename fz cfg pfuel gh ps rs root path path2 rflags) /\
    all_calls Pdn (root_remove_all fz cfg pfuel gh ps rfuel rs root path) /\
    all_calls Pd (root_mkdir_all fz cfg pfuel gh ps rs root path mode).
Proof.
  intros. repeat split; eapply okp_all_calls;
    [apply root_create_ok|apply root_create_file_ok|apply root_remove_inode_ok
    |apply root_rename_ok|apply root_remove_all_ok|apply root_mkdir_all_ok]; assumption.
Qed.

Theorem C03_dots_refused :
  forall fz fuel dirfd name,
    dot_or_dotdot name = true -> has_slash name = false ->
    remove_all fz (S fuel) dirfd name = Ret (Err InvalidArgument).
Proof. exact remove_all_dots_refused. Qed.

Theorem C03_no_name_refused :
  forall fz cfg pfuel gh ps B (K : Z * bytes -> prog (result B ekind)) rs root path dirp,
    path_split path = Some (Ok (dirp, None)) ->
    peq (dn <-? parent_and_name fz cfg pfuel gh ps rs root path ;; K dn)
        (dir <-? r_resolve fz cfg pfuel gh ps rs root dirp false ;; close dir ;;; Ret (Err InvalidArgument)).
Proof. intros. apply no_name_refused. assumption. Qed.

Print Assumptions C03_single_entry_ops.
Print Assumptions C03_dots_refused.
Print Assumptions C03_no_name_refused.
