(* C13 -- remove_all removes exactly the named subtree and never follows links.
   Proved here (all kernel answers): "." / ".." and names with '/' are refused before
   anything is touched; every open forbids following; every unlink names one
   component relative to a descriptor of the walk; descriptors are balanced.  The
   post-condition on the tree and the convergence of concurrent callers are decided
   by the snapshot and interleaving runs (DESIGN.md: partial). *)
From PV Require Import Discipline ProgTac PathProofs DisciplineProofs OpathDisc RootDisc OpsProofs FdBalance FdBalProofs RootBal BeneathProofs Replay MonitorProofs.
Open Scope N_scope.

Theorem C13_dot_refused :
  forall fz fuel dirfd name,
    dot_or_dotdot name = true -> has_slash name = false ->
    remove_all fz (S fuel) dirfd name = Ret (Err InvalidArgument).
Proof. exact remove_all_dots_refused. Qed.

Theorem C13_slash_refused :
  forall fz fuel dirfd name, has_slash name = true -> remove_all fz (S fuel) dirfd name = Ret (Err SafetyViolation).
Proof. exact remove_all_slash_refused. Qed.

(* never follows links: every open carries O_NOFOLLOW (or names "."), every
   unlink/rmdir names a single component relative to a descriptor *)
Theorem C13_links_not_followed :
  forall fz fuel dirfd name, rfd dirfd -> all_calls Pdn (remove_all fz fuel dirfd name).
Proof. intros. eapply okp_all_calls. apply remove_all_ok. assumption. Qed.

Theorem C13_root_op_disciplined :
  forall fz cfg pfuel gh ps rfuel rs root path,
    rfd (ph_fd gh) -> rfd root -> all_calls Pdn (root_remove_all fz cfg pfuel gh ps rfuel rs root path).
Proof. intros. eapply okp_all_calls. apply root_remove_all_ok; assumption. Qed.

Theorem C13_balanced :
  forall fz fuel dirfd name o, bal (Rsame o) o (remove_all fz fuel dirfd name).
Proof. intros. apply remove_all_bal. Qed.

(* stays beneath the named entry, for all answers -- whatever the directory listings say
   and whoever rearranges the tree meanwhile: every unlinkat is on (dirfd, name) itself or
   on a descriptor obtained by descending from it (opening the entry, or a '/'-free name
   other than "." / ".." below such a descriptor, always with O_NOFOLLOW; or re-opening "."
   of one), and names a '/'-free entry other than "." and ".."; no other call that changes
   the tree is issued ([call_ok], [sub] in proofs/BeneathProofs.v: the set D of descending
   descriptors starts empty and grows by exactly the results of those opens) *)
Theorem C13_stays_beneath :
  forall fz fuel dirfd name, sub dirfd name (grows []) [] (remove_all fz fuel dirfd name).
Proof. intros. apply remove_all_sub. left. split; reflexivity. Qed.

(* the same judgement as an executable monitor over recorded traces: every trace of the running
   library that the model program accepts (T1) is accepted by [trace_sub]; tools/props/C13.py
   evaluates [trace_beneath] (the monitor started at the first unlinkat) on the recorded calls *)
Theorem C13_beneath_monitor_sound :
  forall fz fuel dirfd name t idx a n,
    run_trace (remove_all fz fuel dirfd name) t idx = RDone a n -> trace_sub dirfd name t [] = true.
Proof. intros. eapply sub_sound; [apply C13_stays_beneath|eassumption]. Qed.

(* what the judgement accepts and rejects *)
Example C13_beneath_examples :
  call_ok 5 (b "v") [] (Unlinkat 5 (b "v") 0) /\ ~ call_ok 5 (b "v") [] (Unlinkat 5 (b "w") 0) /\
  ~ call_ok 5 (b "v") [7%Z] (Unlinkat 7 (b "..") 0) /\ ~ call_ok 5 (b "v") [7%Z] (Unlinkat 8 (b "x") 0) /\
  call_ok 5 (b "v") [7%Z] (Unlinkat 7 (b "x") 512) /\
  ~ call_ok 5 (b "v") [7%Z] (Openat 7 (b "x") O_DIRECTORY 0) /\
  ~ call_ok 5 (b "v") [7%Z] (Renameat 7 (b "x") 7 (b "y")).
Proof.
  unfold call_ok, plain. repeat split; try (left; split; reflexivity); try (right; split; [left; reflexivity|split; reflexivity]).
  - intros [[_ H]|[[] _]]. discriminate.
  - intros [[H _]|[_ [_ H]]]; discriminate.
  - intros [[H _]|[[H|[]] _]]; discriminate.
  - intros [[H _]|[_ [[_ H]|H]]]; discriminate.
  - intros [].
Qed.

Example C13_dots : dot_or_dotdot (b ".") = true /\ dot_or_dotdot (b "..") = true /\ dot_or_dotdot (b "...") = false.
Proof. repeat split. Qed.

Print Assumptions C13_dot_refused.
Print Assumptions C13_slash_refused.
Print Assumptions C13_links_not_followed.
Print Assumptions C13_root_op_disciplined.
Print Assumptions C13_balanced.
Print Assumptions C13_stays_beneath.
Print Assumptions C13_beneath_monitor_sound.
