(* C13 -- remove_all removes exactly the named subtree and never follows links.
   Proved here (all kernel answers): "." / ".." and names with '/' are refused before
   anything is touched; every open forbids following; every unlink names one
   component relative to a descriptor of the walk; descriptors are balanced.  The
   post-condition on the tree and the convergence of concurrent callers are decided
   by the snapshot and interleaving runs (DESIGN.md: partial). *)
From PV Require Import Discipline ProgTac PathProofs DisciplineProofs OpathDisc RootDisc OpsProofs FdBalance FdBalProofs RootBal BeneathProofs Replay MonitorProofs.
Open Scope N_scope.

Theorem C13_dot_refused :
  forall fz fuel dirfd name,
    dot_or_dotdot name = true -> has_slash name = false ->
    remove_all fz (S fuel) dirfd name = Ret (Err InvalidArgument).
Proof. exact remove_all_dots_refused. Qed.

Theorem C13_slash_refused :
  forall fz fuel dirfd name, has_slash name = true -> remove_all fz (S fuel) dirfd name = Ret (Err SafetyViolation).
Proof. exact remove_all_slash_refused. Qed.

(* never follows links: every open carries O_NOFOLLOW (or names "."), every
   unlink/rmdir names a single component relative to a descriptor *)
Theorem C13_links_not_followed :
  forall fz fuel dirfd name, rfd dirfd -> all_calls Pdn (remove_all fz fuel dirfd name).
Proof. intros. eapply okp_all_calls. apply remove_all_ok. assumption. Qed.

Theorem C13_root_op_disciplined :
  forall fz cfg pfuel gh ps rfuel rs root path,
    rfd (ph_fd gh) -> rfd root -> all_calls Pdn (root_remove_all fz cfg pfuel gh ps rfuel rs root path).
Proof. intros. eapply okp_all_calls. apply root_remove_all_ok; assumption. Qed.

Theorem C13_balanced :
  forall fz fuel dirfd name o, bal (Rsame o) o (remove_all fz fuel dirfd name).
Proof. intros. apply remove_all_bal. Qed.

(* stays beneath the named entry, for all answers -- whatever the directory listings say
   and whoever rearranges the tree meanwhile: every unlinkat is on (dirfd, name) itself or
   on a descriptor obtained by descending from it (opening the entry, or a '/'-free name
   other than "." / ".." below such a descriptor, always with O_NOFOLLOW; or re-opening "."
   of one), and names a '/'-free entry other than "." and ".."; no other call that changes
   the tree is issued ([call_ok], [sub] in proofs/BeneathProofs.v: the set D of descending
   descriptors starts empty and grows by exactly the results of those opens) *)
Theorem C13_stays_beneath :
  forall fz fuel dirfd name, sub dirfd name (grows []) [] (remove_all fz fuel dirfd name).
Proof. intros. apply remove_all_sub. left. split; reflexivity. Qed.

(* the same judgement as an executable monitor over recorded traces: every trace of the running
   library that the model program accepts (T1) is accepted by [trace_sub]; tools/props/C13.py
   evaluates [trace_beneath] (the monitor started at the first unlinkat) on the recorded calls *)
Theorem C13_beneath_monitor_sound :
  forall fz fuel dirfd name t idx a n,
    run_trace (remove_all fz fuel dirfd name) t idx = RDone a n -> trace_sub dirfd name t [] = true.
Proof. intros. eapply sub_sound; [apply C13_stays_beneath|eassumption]. Qed.

(* what the judgement accepts and rejects *)
Example C13_beneath_examples :
  call_ok 5 (b "v") [] (Unlinkat 5 (b "v") 0) /\ ~ call_ok 5 (b "v") [] (Unlinkat 5 (b "w") 0) /\
  ~ call_ok 5 (b "v") [7%Z] (Unlinkat 7 (b "..") 0) /\ ~ call_ok 5 (b "v") [7%Z] (Unlinkat 8 (b "x") 0) /\
  call_ok 5 (b "v") [7%Z] (Unlinkat 7 (b "x") 512) /\
  ~ call_ok 5 (b "v") [7%Z] (Openat 7 (b "x") O_DIRECTORY 0) /\
  ~ call_ok 5 (b "v") [7%Z] (Renameat 7 (b "x") 7 (b "y")).
Proof.
  unfold call_ok, plain. repeat split; try (left; split; reflexivity); try (right; split; [left; reflexivity|split; reflexivity]).
  - intros [[_ H]|[[] _]]. discriminate.
  - intros [[H _]|[_ [_ H]]]; discriminate.
  - intros [[H _]|[[H|[]] _]]; discriminate.
  - intros [[H _]|[_ [[_ H]|H]]]; discriminate.
  - intros [].
Qed.

Example C13_dots : dot_or_dotdot (b ".") = true /\ dot_or_dotdot (b "..") = true /\ dot_or_dotdot (b "...") = false.
Proof. repeat split. Qed.

(* ---- the functional statement, on the DYNAMIC kernel model (theories/Dyn.v) ---------------------
   [rm_all] is a pure function of the tree (and of the fuel that bounds recursion depth, scan rounds
   and directory size): unlink / rmdir of the entry, else -- a non-empty directory -- scan rounds
   over its listing with the recursion into each entry, then the directory itself.
   1. dir.rs remove_all, executed on the dynamic kernel, computes it, and leaves the descriptor
      table and the set of directory streams exactly as they were; 2. RootRef::remove_all = parent
      lookup (either backend) ; rm_all; 3. for ANY tree: rm_all adds and modifies nothing
      ([shrinks]), every entry that disappears lies BENEATH the named entry -- reached through real
      directories, never through a link --, and a reported success means the named entry is gone. *)
From PV Require Dyn DynProofs DynMkdir DynRemove DynEffects.

Theorem C13_remove_all_computes_spec :
  forall rp fz, fz <> 0%nat -> forall fuel s t seen dirfd d name,
  DynRemove.ents_ok s -> DynRemove.seen_ok t seen -> Static.tget t dirfd = Some d -> (d < Dyn.NPB s)%nat ->
  has_nul name = false -> is_nil name = false ->
  Dyn.drun rp {| Dyn.ds := s; Dyn.dt := t; Dyn.dseen := seen |} (remove_all fz fuel dirfd name) =
  match DynRemove.rm_all fuel s d name with
  | None => Dyn.DNoFuel
  | Some (s', r) => Dyn.DDone {| Dyn.ds := s'; Dyn.dt := t; Dyn.dseen := seen |} r
  end.
Proof. exact DynRemove.remove_all_dyn. Qed.

Theorem C13_root_remove_all_exact :
  forall s rp fz pfuel o2 gh ps rs, fz <> 0%nat -> forall rfuel t root path t1 dir name o,
  DynEffects.parent_ok s rp fz pfuel o2 gh ps rs t root path t1 dir name o -> DynRemove.ents_ok s ->
  has_nul name = false -> is_nil name = false ->
  Dyn.drun rp {| Dyn.ds := s; Dyn.dt := t; Dyn.dseen := [] |} (root_remove_all fz o2 pfuel gh ps rfuel rs root path) =
  match DynRemove.rm_all rfuel s o name with
  | None => Dyn.DNoFuel
  | Some (s', r) => Dyn.DDone {| Dyn.ds := s'; Dyn.dt := Static.tdel t1 dir; Dyn.dseen := [] |} r
  end.
Proof. exact DynRemove.root_remove_all_exact. Qed.

(* nothing is added, no object or parent pointer modified: the entries afterwards are among those before *)
Theorem C13_spec_only_removes :
  forall fuel s d name s' r, DynRemove.rm_all fuel s d name = Some (s', r) ->
  FSModel.kinds s' = FSModel.kinds s /\ FSModel.parents s' = FSModel.parents s /\ incl (FSModel.ents s') (FSModel.ents s).
Proof. exact DynRemove.rm_all_shrinks. Qed.

(* whatever disappears is the named entry or lies beneath the directory under that name (success or failure) *)
Theorem C13_spec_removes_only_beneath :
  forall fuel s d name s' r, DynRemove.rm_all fuel s d name = Some (s', r) ->
  forall e, In e (FSModel.ents s) -> ~ In e (FSModel.ents s') -> DynRemove.under s d name e.
Proof. intros fuel s d name s' r H. exact (DynRemove.rm_all_only fuel s s d name s' r (DynRemove.shrinks_refl s) H). Qed.

Theorem C13_spec_success_means_gone :
  forall fuel s d name s', Dyn.plain name = true ->
  DynRemove.rm_all fuel s d name = Some (s', Ok tt) -> FSModel.lookup s' d name = None.
Proof. exact DynRemove.rm_all_gone. Qed.

(* ---- C13, the exact statement ---------------------------------------------------------------------
   [uniq]: names are unique within a directory.  Whenever the entry of a directory disappears, that
   directory is empty from then on ([step_ok], true of every unlink/rmdir and therefore of rm_all); so after a
   success every directory below the named one is empty, everything beneath it is gone, and -- with
   C13_spec_removes_only_beneath -- the entries afterwards are EXACTLY the entries before minus the named
   entry and what is beneath it. *)
From PV Require DynRemoveExact.

Theorem C13_spec_removes_everything_beneath :
  forall fuel s d name s' n' c,
  DynRemoveExact.uniq s -> Dyn.plain name = true -> DynRemove.rm_all fuel s d name = Some (s', Ok tt) ->
  In (d, n', c) (FSModel.ents s) -> beq name n' = true -> FSModel.is_dir s c = true ->
  forall e, DynRemove.beneath s c e -> ~ In e (FSModel.ents s').
Proof. exact DynRemoveExact.rm_all_removes_everything_beneath. Qed.

Theorem C13_spec_exact :
  forall fuel s d name s',
  DynRemoveExact.uniq s -> Dyn.plain name = true -> DynRemove.rm_all fuel s d name = Some (s', Ok tt) ->
  forall e, In e (FSModel.ents s') <-> (In e (FSModel.ents s) /\ ~ DynRemove.under s d name e).
Proof. exact DynRemoveExact.rm_all_exact. Qed.

(* ---- C13: remove_all does not run out of fuel, and the whole statement for the kernel backend ------------
   [deep s k c]: the sub-directories below [c] nest at most k deep.  With fuel k + (number of entries) + 6 the
   pure function returns a result ([Some]): every pass over a directory has enough fuel, a pass that went
   through leaves the directory empty, so the second round sees nothing -- two rounds always suffice. *)
From PV Require DynRemoveTotal.

Theorem C13_spec_terminates :
  forall k f s d name, DynRemove.ents_ok s -> (k + length (FSModel.ents s) + 6 <= f)%nat ->
  (forall c, FSModel.lookup s d name = Some c -> FSModel.is_dir s c = true -> DynRemoveTotal.deep s k c) ->
  DynRemove.rm_all f s d name <> None.
Proof. exact DynRemoveTotal.rm_all_total. Qed.

Theorem C13_remove_all_post_kernel_backend :
  forall s rp fz pfuel gh ps rs t root path dirp name o k rfuel,
  StaticProofs.closed s -> fz <> 0%nat -> rs_kernel rs = true -> DynRemoveExact.uniq s -> DynRemove.ents_ok s ->
  path_split path = Some (Ok (dirp, Some name)) -> has_nul dirp = false -> Dyn.plain name = true ->
  Static.tget t root = Some FSModel.ROOT ->
  FSModel.kwalk s dirp false (has (N.lor OPENAT2_RESOLVE_RESOLVE (rs_flags rs)) RESOLVE_NO_SYMLINKS) = FSModel.WOk o ->
  (forall c, FSModel.lookup s o name = Some c -> FSModel.is_dir s c = true -> DynRemoveTotal.deep s k c) ->
  (k + length (FSModel.ents s) + 6 <= rfuel)%nat ->
  exists s' r,
    Dyn.drun rp {| Dyn.ds := s; Dyn.dt := t; Dyn.dseen := [] |} (root_remove_all fz true pfuel gh ps rfuel rs root path) =
      Dyn.DDone {| Dyn.ds := s'; Dyn.dt := t; Dyn.dseen := [] |} r /\
    DynRemove.shrinks s s' /\
    (r = Ok tt -> forall e, In e (FSModel.ents s') <-> (In e (FSModel.ents s) /\ ~ DynRemove.under s o name e)).
Proof. exact DynRemoveTotal.remove_all_kernel_post. Qed.


Theorem C13_remove_all_post_emulated_backend :
  forall s rp F df fz pfuel o2 gh ps rs t root path dirp name o k rfuel,
  StaticProofs.closed s -> fz <> 0%nat -> StaticProofs.chk_static_ok s rp F (OpathM.check_current fz o2 pfuel gh) ->
  FSProofs.wf s df -> StaticProofs.links_ok s ->
  rs_kernel rs = false -> DynRemoveExact.uniq s -> DynRemove.ents_ok s ->
  path_split path = Some (Ok (dirp, Some name)) -> has_nul dirp = false -> Dyn.plain name = true ->
  StaticProofs.Frame s F t -> Static.tget t root = Some FSModel.ROOT ->
  FSModel.ewalk s dirp false (has (rs_flags rs) RESOLVE_NO_SYMLINKS) = FSModel.WOk o ->
  (forall c, FSModel.lookup s o name = Some c -> FSModel.is_dir s c = true -> DynRemoveTotal.deep s k c) ->
  (k + length (FSModel.ents s) + 6 <= rfuel)%nat ->
  exists s' t' r,
    Dyn.drun rp {| Dyn.ds := s; Dyn.dt := t; Dyn.dseen := [] |} (root_remove_all fz o2 pfuel gh ps rfuel rs root path) =
      Dyn.DDone {| Dyn.ds := s'; Dyn.dt := t'; Dyn.dseen := [] |} r /\
    (forall x, StaticBal.indom t' x -> StaticBal.indom t x) /\
    DynRemove.shrinks s s' /\
    (r = Ok tt -> forall e, In e (FSModel.ents s') <-> (In e (FSModel.ents s) /\ ~ DynRemove.under s o name e)).
Proof. exact DynRemoveTotal.remove_all_emu_post. Qed.

(* a caller that comes after another one succeeded (or finds the name absent for any other reason) reports success
   and changes nothing: the sequential half of "concurrent remove_all calls all report success" *)
Theorem C13_absent_entry_is_success_without_change :
  forall f s d name, Dyn.plain name = true -> Dyn.too_long name = false -> FSModel.is_dir s d = true ->
  FSModel.lookup s d name = None -> DynRemove.rm_all (S f) s d name = Some (s, Ok tt).
Proof. exact DynRemoveTotal.rm_all_absent. Qed.

Theorem C13_later_caller_succeeds_without_change :
  forall f g s d name s', Dyn.plain name = true -> Dyn.too_long name = false -> FSModel.is_dir s d = true ->
  DynRemove.rm_all f s d name = Some (s', Ok tt) -> DynRemove.rm_all (S g) s' d name = Some (s', Ok tt).
Proof. exact DynRemoveTotal.rm_all_again. Qed.

(* ---- C13, the race clause on the model: [rc] is dir.rs remove_all with the environment removing entries -- what
   every other remove_all caller does -- between any two of its system calls ([rc_env] applies at every point,
   also between the unlinkat and the unlinkat(AT_REMOVEDIR) of remove_inode: the [shrinks] premises).  Without
   interference it is rm_all, the function remove_all was refined to ([C13_interference_free_is_spec]).  For EVERY
   interleaving, on a tree with unique short plain names, remove_all reports success, the name is gone, and nothing
   was added or modified: every error a racing remover can cause (ENOENT from unlinkat, rmdir, the open; a listing
   whose entries have vanished; a directory emptied or removed under our feet) is tolerated, and ENOTEMPTY after a
   pass that saw nothing cannot happen because nobody adds. *)
From PV Require DynRemoveConc.

Theorem C13_interference_free_is_spec :
  forall f s d n s' r, DynRemove.rm_all f s d n = Some (s', r) ->
  DynRemoveConc.rc (DynRemoveConc.TAll d n) s s' (DynRemoveConc.lift r).
Proof. exact DynRemoveConc.rm_all_rc. Qed.

Theorem C13_converges_under_racing_removers :
  forall s d n s' r, DynRemoveConc.rc (DynRemoveConc.TAll d n) s s' r ->
  DynRemoveConc.tree_ok s -> DynRemoveConc.nm_ok n -> FSModel.is_dir s d = true ->
  (exists b, r = Ok b) /\ FSModel.lookup s' d n = None /\ DynRemove.shrinks s s'.
Proof. exact DynRemoveConc.remove_all_converges_under_racing_removers. Qed.

(* executed: another remover takes a/f away between our rmdir (ENOTEMPTY) and our open of a/ *)
Example C13_racing_run :
  DynRemoveConc.rc (DynRemoveConc.TAll 0 (b "a")) DynRemoveConc.ex_s0 DynRemoveConc.ex_s2 (Ok true) /\
  DynRemoveConc.tree_ok DynRemoveConc.ex_s0 /\ DynRemoveConc.nm_ok (b "a") /\ FSModel.is_dir DynRemoveConc.ex_s0 0 = true.
Proof. exact DynRemoveConc.racing_run. Qed.

(* ---- the premises are invariants: every tree that any sequence of the modelled operations (mkdirat / mknodat /
   symlinkat, openat(O_CREAT), unlinkat, linkat, renameat2 with its three flag values, mkdir_all's loop, remove_all) can
   produce from an empty root -- any order, any arguments, failing or not -- satisfies what the functional theorems
   assume of a tree (closed2, ents_ok, uniq, dirs_ok, tree_ok) *)
From PV Require DynInv.
Theorem C13_every_reachable_tree_satisfies_the_premises :
  forall ops, let s := fold_left DynInv.apply_op ops DynInv.root_only in
  DynMkdir.closed2 s /\ DynRemove.ents_ok s /\ DynRemoveExact.uniq s /\ DynMkdirComplete.dirs_ok s /\ DynRemoveConc.tree_ok s.
Proof. exact DynInv.reachable_premises. Qed.

(* ---- the depth bound is an invariant too: on every tree built by operations that move no directory (renameat2 of
   non-directories is included), remove_all never runs out of fuel -- #objects + #entries + 6 suffices, whatever it
   is asked to remove *)
From PV Require DynDepth.
Theorem C13_remove_all_terminates_on_reachable_trees :
  forall ops s d name f, DynDepth.run_ops DynInv.root_only ops = Some s ->
  (length (FSModel.kinds s) + length (FSModel.ents s) + 6 <= f)%nat -> DynRemove.rm_all f s d name <> None.
Proof. exact DynDepth.remove_all_terminates_on_reachable. Qed.

(* executed (non-vacuity): a/ has a sub-directory with a file, a link to a sibling and a link to the
   outside; remove_all("a") on both backends removes a and everything below, follows neither link
   (keep/ and its content stay), returns Ok; the pure function gives the same tree; remove_all of a
   name that does not exist is Ok and changes nothing; "a/." is refused *)
Example C13_dynamic_runs :
  let s := FSModel.build [FSModel.MkDir [b "keep"]; FSModel.MkFile [b "keep"; b "k"]; FSModel.MkDir [b "a"]; FSModel.MkDir [b "a"; b "sub"];
                          FSModel.MkFile [b "a"; b "sub"; b "f"]; FSModel.MkLnk [b "a"; b "tokeep"] (b "../keep");
                          FSModel.MkLnk [b "a"; b "sub"; b "out"] (b "../../..")] in
  let gh := {| ph_fd := 4; ph_mnt := Some Static.PROC_MNT; ph_subset := false; ph_openat2 := true |} in
  let st := {| Dyn.ds := s; Dyn.dt := [(5%Z, FSModel.ROOT); (4%Z, Static.PB s)]; Dyn.dseen := [] |} in
  let emu := {| rs_kernel := false; rs_flags := 0 |} in let kern := {| rs_kernel := true; rs_flags := 0 |} in
  let tree {A} (o : Dyn.doutcome A) := match o with Dyn.DDone st' _ => map (fun e => fst (fst e)) (Dyn.dump (Dyn.ds st')) | _ => [] end in
  let res {A} (o : Dyn.doutcome A) := match o with Dyn.DDone st' a => Some (a, Dyn.dt st', Dyn.dseen st') | _ => None end in
  let want := [[b "keep"]; [b "keep"; b "k"]] in
  tree (Dyn.drun (b "/srv/root") st (root_remove_all 1 true 2 gh 1 12 kern 5 (b "a"))) = want /\
  tree (Dyn.drun (b "/srv/root") st (root_remove_all 1 true 2 gh 1 12 emu 5 (b "keep/../a"))) = want /\
  res (Dyn.drun (b "/srv/root") st (root_remove_all 1 true 2 gh 1 12 kern 5 (b "a"))) = Some (Ok tt, Dyn.dt st, []) /\
  (match DynRemove.rm_all 12 s FSModel.ROOT (b "a") with Some (s', r) => Some (map (fun e => fst (fst e)) (Dyn.dump s'), r) | None => None end) = Some (want, Ok tt) /\
  (match DynRemove.rm_all 12 s FSModel.ROOT (b "nothing") with Some (s', r) => Some (FSModel.ents s', r) | None => None end) = Some (FSModel.ents s, Ok tt) /\
  res (Dyn.drun (b "/srv/root") st (root_remove_all 1 true 2 gh 1 12 kern 5 (b "a/."))) = Some (Err InvalidArgument, Dyn.dt st, []).
Proof. vm_compute. repeat split. Qed.

Print Assumptions C13_dot_refused.
Print Assumptions C13_slash_refused.
Print Assumptions C13_links_not_followed.
Print Assumptions C13_root_op_disciplined.
Print Assumptions C13_balanced.
Print Assumptions C13_stays_beneath.
Print Assumptions C13_beneath_monitor_sound.
Print Assumptions C13_remove_all_computes_spec.
Print Assumptions C13_root_remove_all_exact.
Print Assumptions C13_spec_only_removes.
Print Assumptions C13_spec_removes_only_beneath.
Print Assumptions C13_spec_success_means_gone.
Print Assumptions C13_spec_removes_everything_beneath.
Print Assumptions C13_spec_exact.
Print Assumptions C13_spec_terminates.
Print Assumptions C13_remove_all_post_kernel_backend.
Print Assumptions C13_remove_all_post_emulated_backend.
Print Assumptions C13_absent_entry_is_success_without_change.
Print Assumptions C13_later_caller_succeeds_without_change.
Print Assumptions C13_interference_free_is_spec.
Print Assumptions C13_converges_under_racing_removers.
Print Assumptions C13_every_reachable_tree_satisfies_the_premises.
Print Assumptions C13_remove_all_terminates_on_reachable_trees.
