(* C16 -- C error ids are unique, consumed exactly once, and never look like an errno.
   The table is a state machine whose operations are atomic (the Mutex); a
   history is any list of store / take operations, i.e. any interleaving of any
   number of threads.  [draws] (the generator's candidate stream) is arbitrary. *)
From PV Require Import ErrTable ErrTableProofs.
Open Scope Z_scope.

Theorem C16_id_not_errno :
  forall E (t : table E) o t' id,
    draws_ok E o -> step E t o = (t', RStored E id) -> id < -4095 /\ INT_MIN <= id.
Proof. exact id_not_errno. Qed.

Theorem C16_unique_live :
  forall E (t : table E) draws e t' id,
    step E t (OStore E draws e) = (t', RStored E id) -> tlookup E id t = None.
Proof. exact unique_live. Qed.

Theorem C16_take_exact_once :
  forall E (t : table E) draws e t1 id,
    step E t (OStore E draws e) = (t1, RStored E id) ->
    forall others : list (op E),
      Forall (fun o => match o with OTake _ i => i <> id | OStore _ _ _ => True end) others ->
      let '(t2, _) := run E t1 others in
      let '(t3, r1) := step E t2 (OTake E id) in
      let '(_, r2) := step E t3 (OTake E id) in
      r1 = RTaken E (Some e) /\ r2 = RTaken E None.
Proof. exact take_exact_once. Qed.

Theorem C16_refines_map :
  forall E (t : table E) o,
    match o, step E t o with
    | OStore _ draws e, (t', RStored _ id) =>
        In id draws /\ abs E t id = None /\ forall k, abs E t' k = aset E (abs E t) id e k
    | OStore _ _ _, (t', RStuck _) => t' = t
    | OTake _ id, (t', RTaken _ r) => r = abs E t id /\ forall k, abs E t' k = adel E (abs E t) id k
    | _, _ => False
    end.
Proof. exact step_refines. Qed.

Theorem C16_errno_table :
  (forall e, saved_errno (OsError e) = e) /\
  saved_errno InvalidArgument = 22%N /\ saved_errno SafetyViolation = 18%N /\
  saved_errno NotImplemented = 38%N /\ saved_errno NotSupported = 0%N /\ saved_errno InternalError = 0%N.
Proof. exact errno_table. Qed.

Check C16_id_not_errno :
  forall E (t : table E) o t' id,
    draws_ok E o -> step E t o = (t', RStored E id) -> id < -4095 /\ INT_MIN <= id.
Check C16_unique_live :
  forall E (t : table E) draws e t' id,
    step E t (OStore E draws e) = (t', RStored E id) -> tlookup E id t = None.

(* non-vacuity: a concrete history with a collision in the draw stream *)
Example C16_history :
  snd (run nat [] [OStore nat [-5000; -6000] 1%nat; OStore nat [-5000; -6000] 2%nat; OTake nat (-5000);
                   OTake nat (-5000); OStore nat [-5000] 3%nat; OTake nat (-6000)])
  = [RStored nat (-5000); RStored nat (-6000); RTaken nat (Some 1%nat); RTaken nat None;
     RStored nat (-5000); RTaken nat (Some 2%nat)].
Proof. reflexivity. Qed.

(* the model's store and take are atomic steps; in the source each is one critical
   section of ERROR_MAP (one lock acquisition around entry() / remove()) -- a fact T0
   re-reads from src/capi/error.rs on every run *)
Theorem C16_ops_atomic_in_source : ERRTABLE_OPS_ATOMIC = true.
Proof. reflexivity. Qed.

Print Assumptions C16_id_not_errno.
Print Assumptions C16_unique_live.
Print Assumptions C16_take_exact_once.
Print Assumptions C16_refines_map.
Print Assumptions C16_errno_table.
Print Assumptions C16_ops_atomic_in_source.
