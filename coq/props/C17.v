(* C17 -- the C boundary validates arguments and respects caller buffers. *)
From PV Require Import CApi CApiProofs FdBalance FdBalProofs RootBal.
Open Scope Z_scope.

(* pathrs_inroot_readlink / pathrs_proc_readlink: for every link body, buffer
   address, buffer size and memory: the return value is the full length and
   memory changes exactly on [buf, buf + min(len, size)) (nothing for NULL or a
   zero size) *)
Theorem C17_copy_exact :
  forall body buf size m,
    let '(ret, m') := copy_path_into_buffer body buf size m in
    ret = Z.of_nat (length body) /\
    forall a,
      m' a = if negb (Z.eqb buf 0) && negb (Nat.eqb size 0)
                && Z.leb buf a && Z.ltb a (buf + Z.of_nat (Nat.min (length body) size))
             then nth (Z.to_nat (a - buf)) body 0%N
             else m a.
Proof. exact copy_exact. Qed.

(* the length always fits a C int: link bodies longer than the readlink buffer
   (T0: READLINK_BUF) are refused by the wrapper with ENAMETOOLONG *)
Theorem C17_len_fits_int : (Z.of_N READLINK_BUF < 2 ^ 31)%Z.
Proof. reflexivity. Qed.

Theorem C17_args_validated :
  (forall A root path (body : Z -> bytes -> prog (result A ekind)),
     (root < 0 \/ path = None) -> c_entry root path body = Ret (Err InvalidArgument)) /\
  (forall A base path (body : pbase -> bytes -> prog (result A ekind)),
     ((base <> PATHRS_PROC_ROOT /\ base <> PATHRS_PROC_SELF /\ base <> PATHRS_PROC_THREAD_SELF) \/ path = None) ->
     c_proc_entry base path body = Ret (Err InvalidArgument)).
Proof. split; intros; [apply c_entry_validates|apply c_proc_entry_validates]; assumption. Qed.

Theorem C17_mknod_mode_decode :
  forall mode dev,
    match c_mknod_type mode dev with
    | Ok (IFile p) => N.land mode S_IFMT = S_IFREG /\ p = N.ldiff mode S_IFMT
    | Ok (IDirectory p) => N.land mode S_IFMT = S_IFDIR /\ p = N.ldiff mode S_IFMT
    | Ok (IBlockDev p d) => N.land mode S_IFMT = S_IFBLK /\ p = N.ldiff mode S_IFMT /\ d = dev
    | Ok (ICharDev p d) => N.land mode S_IFMT = S_IFCHR /\ p = N.ldiff mode S_IFMT /\ d = dev
    | Ok (IFifo p) => N.land mode S_IFMT = S_IFIFO /\ p = N.ldiff mode S_IFMT
    | Ok _ => False
    | Err NotImplemented => N.land mode S_IFMT = S_IFSOCK
    | Err InvalidArgument =>
        ~ In (N.land mode S_IFMT) [S_IFREG; S_IFDIR; S_IFBLK; S_IFCHR; S_IFIFO; S_IFSOCK]
    | Err _ => False
    end.
Proof. exact c_mknod_decode. Qed.

(* borrowed descriptors are never closed: every Root operation reached through
   the C boundary is balanced from an empty owned set (C11), for any resolver
   meeting the lookup contract *)
Theorem C17_borrowed_not_closed :
  forall fz cfg pfuel gh ps rs, res_ok fz cfg pfuel gh ps rs ->
    forall root path o, (0 <= root) ->
      bal (Rsame o) o (c_entry root (Some path) (fun fd p => root_readlink fz cfg pfuel gh ps rs fd p)).
Proof.
  intros fz cfg pfuel gh ps rs Hres root path o Hr. rewrite c_entry_passes by exact Hr.
  apply root_readlink_bal. exact Hres.
Qed.

Check C17_copy_exact :
  forall body buf size m,
    let '(ret, m') := copy_path_into_buffer body buf size m in
    ret = Z.of_nat (length body) /\
    forall a,
      m' a = if negb (Z.eqb buf 0) && negb (Nat.eqb size 0)
                && Z.leb buf a && Z.ltb a (buf + Z.of_nat (Nat.min (length body) size))
             then nth (Z.to_nat (a - buf)) body 0%N
             else m a.

Example C17_copy_example :
  let '(ret, m') := copy_path_into_buffer (b "abcdef") 100 4 (fun _ => 255%N) in
  (ret, map m' [99; 100; 101; 102; 103; 104; 105]) = (6, [255; 97; 98; 99; 100; 255; 255]%N).
Proof. reflexivity. Qed.

Print Assumptions C17_copy_exact.
Print Assumptions C17_len_fits_int.
Print Assumptions C17_args_validated.
Print Assumptions C17_mknod_mode_decode.
Print Assumptions C17_borrowed_not_closed.
