(* FdBalance.v -- C11: descriptor accounting over programs and recorded traces. *)
From PV Require Export Replay.
Open Scope N_scope.

(* descriptors a call adds to the table (given its answer) *)
Definition opens (c : call) (r : resp) : list Z :=
  match c with
  | Openat _ _ _ _ | Openat2 _ _ _ _ _ | DupCloexec _ | Fsopen _ _ | Fsmount _ _ _ | OpenTree _ _ _ =>
      match as_fd r with Ok n => [n] | Err _ => [] end
  | _ => []
  end.

Fixpoint remove_one (x : Z) (l : list Z) : list Z :=
  match l with
  | [] => []
  | y :: t => if Z.eqb x y then t else y :: remove_one x t
  end.

Definition mem (x : Z) (l : list Z) : bool := existsb (Z.eqb x) l.

(* the descriptors the running operation itself has opened and not yet closed *)
Definition step_owned (o : list Z) (c : call) (r : resp) : list Z :=
  match c with
  | Close fd => remove_one fd o
  | _ => opens c r ++ o
  end.

(* [bal R o p]: started while owning [o] (descriptors opened by this very
   operation), for all answers in which the kernel never hands out a descriptor
   number the operation is holding (no kernel does: the number is in use): p
   never closes a descriptor it does not own -- so descriptors lent by the
   caller are never closed -- and when it returns [a] owning [o'], [R a o'] holds. *)
Definition fresh_for (o : list Z) (c : call) (r : resp) : Prop :=
  forall n, In n (opens c r) -> ~ In n o.

Inductive bal {A} (R : A -> list Z -> Prop) : list Z -> prog A -> Prop :=
| bal_ret a o : R a o -> bal R o (Ret a)
| bal_call c k o :
    (forall fd, c = Close fd -> mem fd o = true) ->
    (forall r, fresh_for o c r -> bal R (step_owned o c r) (k r)) ->
    bal R o (Call c k)
| bal_panic s o : bal R o (Panic s)
| bal_fuel o : bal R o OutOfFuel.

(* ---- on recorded traces ----------------------------------------------------- *)

Fixpoint trace_owned (t : trace) (o foreign : list Z) : list Z * list Z :=
  match t with
  | [] => (o, foreign)
  | (c, r) :: t' =>
      let foreign' := match c with
                      | Close fd => if mem fd o then foreign else fd :: foreign
                      | _ => foreign
                      end in
      trace_owned t' (step_owned o c r) foreign'
  end.

(* does the trace ever show the kernel handing out a number the operation holds? *)
Fixpoint trace_fresh (t : trace) (o : list Z) : bool :=
  match t with
  | [] => true
  | (c, r) :: t' => forallb (fun n => negb (mem n o)) (opens c r) && trace_fresh t' (step_owned o c r)
  end.

(* [n_leaked; leaked...; n_foreign; foreign...] *)
Definition trace_balance (t : trace) : list Z :=
  let '(o, f) := trace_owned t [] [] in
  (Z.of_nat (length o) :: o) ++ (Z.of_nat (length f) :: f).
