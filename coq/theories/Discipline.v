(* Discipline.v -- the executable predicates of property C05 (what a single
   system call may look like) and C11/C10 helpers over recorded traces.
   Definitions only; the theorems are in proofs/DisciplineProofs.v. *)
From PV Require Export Replay.
Open Scope N_scope.

(* a single path component: no '/' (so neither absolute nor multi-component).
   Emptiness is not required here: names read back from getdents are
   arbitrary answers in the all-responses theorems, and "" is refused by the
   kernel with ENOENT; the runtime monitor additionally checks non-emptiness
   on real traces. *)
Definition single (n : bytes) : bool := negb (has_slash n).
Definition dotname (n : bytes) : bool := is_dot n || is_dotdot n.
Definition real_fd (fd : Z) : bool := Z.leb 0 fd.

Fixpoint strip_prefix (pre s : bytes) : option bytes :=
  match pre, s with
  | [], _ => Some s
  | a :: pre', c :: s' => if N.eqb a c then strip_prefix pre' s' else None
  | _ :: _, [] => None
  end.

(* "self/task/<tid>": the one multi-component name libpathrs ever passes, a
   stat-only existence probe relative to the procfs root (procfs.rs:100-113) *)
Definition is_task_path (n : bytes) : bool :=
  match strip_prefix (b "self/task/") n with
  | Some r => negb (has_slash r)
  | None => false
  end.

(* host-/proc paths used only to render error messages (FrozenFd) *)
Definition is_host_proc (n : bytes) : bool :=
  match strip_prefix (b "/proc/") n with Some _ => true | None => false end.

(* name argument of a stat-like call: "" (the descriptor itself) or one component *)
Definition stat_name (n : bytes) : bool := is_nil n || single n.

(* C05, per-call part.  [Openat] without O_NOFOLLOW is judged separately
   ([nofollow_b]) because the two legitimate follow sites are identified by
   where they occur, not by their arguments. *)
Definition disc_b (c : call) : bool :=
  match c with
  | Openat fd n fl _ =>
      if Z.eqb fd AT_FDCWD then
        (* ProcfsHandle::new_unsafe_open: the procfs constructor, exempt, closed list *)
        beq n (b "/proc") && has fl O_CLOEXEC && has fl O_NOFOLLOW && has fl O_PATH && has fl O_DIRECTORY
      else
        real_fd fd && single n && has fl O_CLOEXEC
        && (dotname n || has fl O_NOCTTY || has fl O_PATH || has fl O_DIRECTORY)
  | Openat2 fd p fl _ rs =>
      real_fd fd && has fl O_CLOEXEC && has rs RESOLVE_NO_MAGICLINKS
      && (has rs RESOLVE_IN_ROOT || (has rs RESOLVE_BENEATH && has rs RESOLVE_NO_XDEV))
      (* never a controlling terminal: O_NOCTTY unless the open cannot make one (O_PATH, a directory) *)
      && (has fl O_NOCTTY || has fl O_PATH || has fl O_DIRECTORY)
  | Readlinkat fd n => real_fd fd && is_nil n
  | Fstatat fd n at_ =>
      if Z.eqb fd AT_FDCWD then is_host_proc n && has at_ AT_SYMLINK_NOFOLLOW
      else real_fd fd && (stat_name n || is_task_path n)
           && has at_ AT_SYMLINK_NOFOLLOW && has at_ AT_NO_AUTOMOUNT
  | Statx fd n at_ _ =>
      real_fd fd && stat_name n && has at_ AT_SYMLINK_NOFOLLOW && has at_ AT_NO_AUTOMOUNT
  | Fstatfs fd => real_fd fd
  | Faccessat fd n _ at_ => real_fd fd && single n && has at_ AT_SYMLINK_NOFOLLOW
  | Mkdirat fd n _ => real_fd fd && single n
  | Mknodat fd n _ _ => real_fd fd && single n
  | Unlinkat fd n _ => real_fd fd && single n
  | Linkat ofd on nfd nn at_ =>
      real_fd ofd && single on && real_fd nfd && single nn && negb (has at_ AT_SYMLINK_FOLLOW)
  | Symlinkat _ fd n => real_fd fd && single n
  | Renameat ofd on nfd nn => real_fd ofd && single on && real_fd nfd && single nn
  | Renameat2 ofd on nfd nn _ => real_fd ofd && single on && real_fd nfd && single nn
  | FcntlGetfl fd => real_fd fd
  | Getdents fd => real_fd fd
  | DupCloexec fd => real_fd fd          (* F_DUPFD_CLOEXEC by construction of the call *)
  | Close fd => real_fd fd
  | Read fd => real_fd fd
  | Fsopen n fl => beq n (b "proc") && has fl FSOPEN_CLOEXEC
  | FsconfigSetString fd _ _ => real_fd fd
  | FsconfigCreate fd => real_fd fd
  | Fsmount fd fl _ => real_fd fd && has fl FSMOUNT_CLOEXEC
  | OpenTree fd n fl =>
      Z.eqb fd AT_FDCWD && beq n (b "/proc") && has fl OPEN_TREE_CLOEXEC && has fl OPEN_TREE_CLONE
  | Readlink n => is_host_proc n        (* FrozenFd: error text only *)
  | Geteuid => true
  | Gettid => true
  | Rand => true
  end.

(* every open forbids following the name: O_NOFOLLOW, or the name is "."/".."
   (which can never be links) *)
Definition nofollow_b (c : call) : bool :=
  match c with
  | Openat fd n fl _ => has fl O_NOFOLLOW || dotname n
  | _ => true
  end.

(* openat2 confined to the root / to procfs *)
Definition openat2_root_b (c : call) : bool :=
  match c with
  | Openat2 _ _ _ _ rs => has rs RESOLVE_IN_ROOT
  | _ => true
  end.
Definition openat2_proc_b (c : call) : bool :=
  match c with
  | Openat2 _ _ _ _ rs => has rs RESOLVE_BENEATH && has rs RESOLVE_NO_XDEV
  | _ => true
  end.

Definition Pd (c : call) : Prop := disc_b c = true.
Definition Pnf (c : call) : Prop := nofollow_b c = true.
Definition Pdn (c : call) : Prop := disc_b c = true /\ nofollow_b c = true.

(* trace-level evaluation for the runtime monitor (tie: the same predicate the
   theorem is about is evaluated on every recorded call) *)
Definition trace_disc (t : trace) : list Z :=
  let bad := filter (fun ir => negb (disc_b (fst (snd ir))))
                    (combine (seq 0 (length t)) t) in
  map (fun ir => Z.of_nat (fst ir)) bad.
Definition trace_follow_sites (t : trace) : list Z :=
  let bad := filter (fun ir => negb (nofollow_b (fst (snd ir))))
                    (combine (seq 0 (length t)) t) in
  map (fun ir => Z.of_nat (fst ir)) bad.
