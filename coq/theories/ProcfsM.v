(* ProcfsM.v -- transcription of /repo/src/procfs.rs, /repo/src/resolvers/procfs.rs
   and the procfs-related half of /repo/src/utils/fd.rs. *)
From PV Require Export Sysw.
Open Scope N_scope.

Definition rerr := result.   (* readability *)

Definition os {A} (p : prog (result A N)) : prog (result A ekind) := map_err OsError p.

(* ProcfsHandle (procfs.rs:169-175) *)
Record phandle := {
  ph_fd : Z;
  ph_mnt : option N;
  ph_subset : bool;
  ph_openat2 : bool;      (* resolver = ProcfsResolver::Openat2 *)
}.

Inductive pbase := ProcRoot | ProcSelf | ProcThreadSelf.

Definition opt_n_eqb (a c : option N) : bool :=
  match a, c with
  | None, None => true
  | Some x, Some y => N.eqb x y
  | _, _ => false
  end.

Section Procfs.
Variable fz : nat.
Variable cfg_openat2 : bool.   (* *syscalls::OPENAT2_IS_SUPPORTED *)

(* utils/fd.rs fetch_mnt_id (257-309) *)
Definition fetch_mnt_id (dirfd : Z) (path : bytes) : prog (result (option N) ekind) :=
  r <- w_statx fz dirfd path STATX_WANT_MASK ;;
  match r with
  | Ok (mask, id) => Ret (Ok (if intersects mask STATX_WANT_MASK then Some id else None))
  | Err e => if existsb (N.eqb e) STATX_TOLERATED then Ret (Ok None) else Ret (Err (OsError e))
  end.

(* procfs.rs verify_same_mnt (575-595) *)
Definition verify_same_mnt (root_mnt : option N) (dirfd : Z) (path : bytes)
  : prog (result unit ekind) :=
  mnt <-? fetch_mnt_id dirfd path ;;
  if opt_n_eqb root_mnt mnt then Ret (Ok tt) else Ret (Err (OsError EXDEV)).

(* procfs.rs verify_is_procfs (555-573) *)
Definition verify_is_procfs (fd : Z) : prog (result unit ekind) :=
  t <-? os (w_fstatfs fz fd) ;;
  if N.eqb t PROC_SUPER_MAGIC then Ret (Ok tt) else Ret (Err (OsError EXDEV)).

Definition verify_same_procfs_mnt (h : phandle) (fd : Z) : prog (result unit ekind) :=
  _ <-? verify_same_mnt (ph_mnt h) fd [] ;;
  verify_is_procfs fd.

(* ---- resolvers/procfs.rs ------------------------------------------------ *)

Definition procfs_flags_invalid (oflags : N) : bool :=
  intersects oflags PROCFS_INVALID_FLAGS || has oflags PROCFS_INVALID_CONTAINS.

(* bounded EAGAIN retry shared by the openat2-based resolvers *)
Fixpoint openat2_retry (n : nat) (root : Z) (path : bytes) (oflags resolve : N)
  : prog (result Z ekind) :=
  match n with
  | O => Ret (Err SafetyViolation)
  | S m =>
      r <- w_openat2 fz root path oflags 0 resolve ;;
      match r with
      | Ok fd => Ret (Ok fd)
      | Err e =>
          if N.eqb e EAGAIN then openat2_retry m root path oflags resolve
          else Ret (Err (OsError e))
      end
  end.

(* PROCFS_OPENAT2_RETRIES = 0: one shot, EAGAIN surfaces as an OS error *)
Definition openat2_resolve (root : Z) (path : bytes) (oflags rflags : N) : prog (result Z ekind) :=
  if negb cfg_openat2 then Ret (Err NotSupported) else
  if N.eqb PROCFS_OPENAT2_RETRIES 0
  then os (w_openat2 fz root path oflags 0 (N.lor PROCFS_OPENAT2_RESOLVE rflags))
  else openat2_retry (N.to_nat PROCFS_OPENAT2_RETRIES) root path oflags (N.lor PROCFS_OPENAT2_RESOLVE rflags).

Definition is_symlink_mode (m : N) : bool := N.eqb (N.land m S_IFMT) S_IFLNK.

(* One iteration of the loop in opath_resolve (procfs.rs:166-353); [follow]
   is the recursive call used after a symlink body was spliced in. *)
Definition pwalk_body (root_mnt : option N) (oflags rflags : N)
           (follow : option (Z -> list bytes -> prog (result Z ekind)))
  : Z -> list bytes -> prog (result Z ekind) :=
  fix inner (current : Z) (comps : list bytes) : prog (result Z ekind) :=
    match comps with
    | [] => Ret (Ok current)
    | part0 :: rest =>
        let part := if is_nil part0 then [DOT] else part0 in
        if is_dotdot part then close current ;;; Ret (Err (OsError EXDEV)) else
        r <- os (w_openat fz current part PROCFS_WALK_FLAGS 0) ;;
        match r with
        | Err e => close current ;;; Ret (Err e)
        | Ok next =>
            let fail (e : ekind) : prog (result Z ekind) :=
              close next ;;; close current ;;; Ret (Err e) in
            r <- verify_same_mnt root_mnt next [] ;;
            match r with
            | Err e => fail e
            | Ok _ =>
                r <- os (w_fstatat fz next []) ;;
                match r with
                | Err e => fail e
                | Ok meta =>
                    let is_link := is_symlink_mode (st_mode meta) in
                    (* continuation after the "last component" block *)
                    let continue_ : prog (result Z ekind) :=
                      if negb is_link then close current ;;; inner next rest
                      else if has rflags RESOLVE_NO_SYMLINKS then fail (OsError ELOOP)
                      else match follow with
                           | None => fail (OsError ELOOP)            (* traversal limit *)
                           | Some go =>
                               r <- os (w_readlinkat fz next []) ;;
                               match r with
                               | Err e => fail e
                               | Ok target =>
                                   if is_abs target then fail (OsError ELOOP)
                                   else close next ;;; go current (raw_components target ++ rest)
                               end
                           end in
                    if is_nil rest &&
                       negb (N.eqb (N.land oflags PROCFS_CASE1_MASK) PROCFS_CASE1_VALUE)
                    then
                      r <- w_openat fz current part (N.lor oflags PROCFS_FINAL_EXTRA) 0 ;;
                      match r with
                      | Ok final =>
                          r <- verify_same_mnt root_mnt final [] ;;
                          match r with
                          | Err e => close final ;;; fail e
                          | Ok _ => close next ;;; close current ;;; Ret (Ok final)
                          end
                      | Err e =>
                          if has oflags O_NOFOLLOW || negb (has oflags O_DIRECTORY)
                             || negb (N.eqb e ENOTDIR) || negb is_link
                          then fail (OsError e)
                          else continue_
                      end
                    else continue_
                end
            end
        end
    end.

(* symlink_traversals += 1; if >= MAX => ELOOP : [budget] = MAX - traversals *)
Fixpoint pwalk (budget : nat) (root_mnt : option N) (oflags rflags : N)
  : Z -> list bytes -> prog (result Z ekind) :=
  match budget with
  | O => pwalk_body root_mnt oflags rflags None
  | S bd =>
      pwalk_body root_mnt oflags rflags
        (match bd with O => None | S _ => Some (pwalk bd root_mnt oflags rflags) end)
  end.

Definition opath_resolve (root : Z) (path : bytes) (oflags rflags : N) : prog (result Z ekind) :=
  root_mnt <-? fetch_mnt_id root [] ;;
  current <-? os (dup_cloexec root) ;;
  pwalk (N.to_nat MAX_SYMLINK_TRAVERSALS) root_mnt oflags rflags current (raw_components path).

(* ProcfsResolver::resolve (procfs.rs:70-96) *)
Definition presolve (use_openat2 : bool) (root : Z) (path : bytes) (oflags rflags : N)
  : prog (result Z ekind) :=
  if procfs_flags_invalid oflags then Ret (Err InvalidArgument) else
  if use_openat2 then openat2_resolve root path oflags rflags
  else opath_resolve root path oflags rflags.

(* ---- procfs.rs ----------------------------------------------------------- *)

(* ProcfsBase::into_path(Some(proc_root)) (procfs.rs:90-119) *)
Definition into_path (proc_root : Z) (base : pbase) : prog bytes :=
  match base with
  | ProcRoot => Ret [DOT]
  | ProcSelf => Ret (b "self")
  | ProcThreadSelf =>
      Call Gettid (fun rt =>
        (fix find (cands : list bytes) : prog bytes :=
           match cands with
           | [] => Panic PANIC_THREAD_SELF
           | c :: rest =>
               r <- w_fstatat fz proc_root c ;;
               match r with Ok _ => Ret c | Err _ => find rest end
           end) (thread_self_cands (as_num rt)))
  end.

(* ProcfsHandle::try_from_fd (procfs.rs:513-552) *)
Definition try_from_fd (inner : Z) : prog (result phandle ekind) :=
  r <- verify_is_procfs inner ;;
  match r with
  | Err e => close inner ;;; Ret (Err e)
  | Ok _ =>
      r <- w_fstatat fz inner [] ;;
      match r with
      | Err e =>
          if TRY_FROM_FD_FSTAT_PANICS then Panic PANIC_FSTAT_PROC
          else close inner ;;; Ret (Err (OsError e))
      | Ok meta =>
          if negb (N.eqb (st_ino meta) PROC_ROOT_INO) then close inner ;;; Ret (Err SafetyViolation)
          else
            r <- fetch_mnt_id inner [] ;;
            match r with
            | Err e => close inner ;;; Ret (Err e)
            | Ok mnt =>
                (* [..].iter().any(|p| accessat(inner, p, EXISTS, SYMLINK_NOFOLLOW).is_err()) *)
                (fix probes (ps : list bytes) : prog (result phandle ekind) :=
                   match ps with
                   | [] => Ret (Ok {| ph_fd := inner; ph_mnt := mnt; ph_subset := false;
                                      ph_openat2 := cfg_openat2 |})
                   | p :: rest =>
                       Call (Faccessat inner p 0 AT_SYMLINK_NOFOLLOW) (fun r =>
                         match as_unit r with
                         | Err _ => Ret (Ok {| ph_fd := inner; ph_mnt := mnt; ph_subset := true;
                                                ph_openat2 := cfg_openat2 |})
                         | Ok _ => probes rest
                         end)
                   end) SUBSET_PROBES
            end
      end
  end.

(* ProcfsHandle::new_fsopen (procfs.rs:189-225) *)
Definition new_fsopen (subset : bool) : prog (result phandle ekind) :=
  sfd <-? os (w_fsopen (b "proc") FSOPEN_FLAGS) ;;
  (if subset then
     w_fsconfig_set_string fz sfd (b "hidepid") (b "ptraceable") ;;;
     w_fsconfig_set_string fz sfd (b "subset") (b "pid") ;;; Ret tt
   else Ret tt) ;;;
  r <- os (w_fsconfig_create fz sfd) ;;
  match r with
  | Err e => close sfd ;;; Ret (Err e)
  | Ok _ =>
      r <- os (w_fsmount fz sfd FSMOUNT_FLAGS FSMOUNT_ATTRS) ;;
      match r with
      | Err e => close sfd ;;; Ret (Err e)
      | Ok mfd => r <- try_from_fd mfd ;; close sfd ;;; Ret r
      end
  end.

(* ProcfsHandle::new_open_tree (procfs.rs:230-245) *)
Definition new_open_tree (flags : N) : prog (result phandle ekind) :=
  fd <-? os (w_open_tree fz AT_FDCWD (b "/proc") (N.lor OPEN_TREE_BASE flags)) ;;
  try_from_fd fd.

(* ProcfsHandle::new_unsafe_open (procfs.rs:250-266) *)
Definition new_unsafe_open : prog (result phandle ekind) :=
  fd <-? os (w_openat fz AT_FDCWD (b "/proc") UNSAFE_OPEN_FLAGS 0) ;;
  try_from_fd fd.

Definition or_else {A} (p q : prog (result A ekind)) : prog (result A ekind) :=
  r <- p ;; match r with Ok a => Ret (Ok a) | Err _ => q end.

(* ProcfsHandle::new / new_unmasked (procfs.rs:287-302) *)
Definition procfs_new : prog (result phandle ekind) :=
  or_else (or_else (new_fsopen NEW_SUBSET) (new_open_tree NEW_OPEN_TREE_FLAGS)) new_unsafe_open.
Definition procfs_new_unmasked : prog (result phandle ekind) :=
  or_else (or_else (new_fsopen UNMASKED_SUBSET) (new_open_tree UNMASKED_OPEN_TREE_FLAGS)) new_unsafe_open.

(* ProcfsHandle::open_base (procfs.rs:304-314) *)
Definition open_base (h : phandle) (base : pbase) : prog (result Z ekind) :=
  p <- into_path (ph_fd h) base ;;
  fd <-? presolve (ph_openat2 h) (ph_fd h) p OPEN_BASE_FLAGS 0 ;;
  r <- verify_same_procfs_mnt h fd ;;
  match r with
  | Err e => close fd ;;; Ret (Err e)
  | Ok _ => Ret (Ok fd)
  end.

Definition ekind_is_enoent (e : ekind) : bool :=
  match e with OsError n => N.eqb n ENOENT | _ => false end.

(* ProcfsHandle::open (procfs.rs:442-478).  [fuel] bounds the recursion through
   freshly created unmasked handles (which may be masked again). *)
Fixpoint popen (fuel : nat) (h : phandle) (base : pbase) (subpath : bytes) (oflags : N)
  : prog (result Z ekind) :=
  match fuel with
  | O => OutOfFuel
  | S f =>
      let oflags := N.lor oflags PROCFS_OPEN_FORCED in
      basedir <-? open_base h base ;;
      r <- presolve (ph_openat2 h) basedir subpath oflags 0 ;;
      r <- match r with
           | Ok fd =>
               v <- verify_same_procfs_mnt h fd ;;
               match v with
               | Ok _ => Ret (Ok fd)
               | Err e => close fd ;;; Ret (Err e)
               end
           | Err e => Ret (Err e)
           end ;;
      r <- match r with
           | Ok fd => Ret (Ok fd)
           | Err e =>
               if ph_subset h && ekind_is_enoent e then
                 nh <- procfs_new_unmasked ;;
                 match nh with
                 | Err _ => Ret (Err e)
                 | Ok h' =>
                     (* T0: the retry only runs on a handle that is not itself masked *)
                     if RETRY_ONLY_UNMASKED && ph_subset h' then close (ph_fd h') ;;; Ret (Err e) else
                     r' <- popen f h' base subpath oflags ;;
                     close (ph_fd h') ;;; Ret r'
                 end
               else Ret (Err e)
           end ;;
      close basedir ;;; Ret r
  end.

(* ProcfsHandle::readlink (procfs.rs:489-498) *)
Definition preadlink (fuel : nat) (h : phandle) (base : pbase) (subpath : bytes)
  : prog (result bytes ekind) :=
  link <-? popen fuel h base subpath PROCFS_READLINK_FLAGS ;;
  r <- os (w_readlinkat fz link []) ;;
  close link ;;; Ret r.

(* ProcfsHandle::open_follow (procfs.rs:337-406) *)
Definition popen_follow (fuel : nat) (h : phandle) (base : pbase) (subpath : bytes) (oflags : N)
  : prog (result Z ekind) :=
  if intersects oflags OPEN_FOLLOW_REFUSED || has_nz oflags OPEN_FOLLOW_REFUSED_CONTAINS
  then Ret (Err InvalidArgument) else
  let '(subpath, trailing_slash) := path_strip_trailing_slash subpath in
  let oflags := if trailing_slash then N.lor oflags OPEN_FOLLOW_SLASH_FLAG else oflags in
  rl <- preadlink fuel h base subpath ;;
  match rl with
  | Err _ => popen fuel h base subpath oflags
  | Ok _ =>
      match path_split subpath with
      | None => Panic PANIC_PATH_SPLIT
      | Some (Err e) => Ret (Err e)
      | Some (Ok (_, None)) => Ret (Err InvalidArgument)
      | Some (Ok (parent, Some trailing)) =>
          pfd <-? popen fuel h base parent OPEN_FOLLOW_PARENT_FLAGS ;;
          r <- fetch_mnt_id pfd [] ;;
          match r with
          | Err e => close pfd ;;; Ret (Err e)
          | Ok parent_mnt =>
              r <- verify_same_mnt parent_mnt pfd trailing ;;
              match r with
              | Err e => close pfd ;;; Ret (Err e)
              | Ok _ =>
                  r <- os (w_openat_follow fz pfd trailing oflags 0) ;;
                  close pfd ;;; Ret r
              end
          end
      end
  end.

(* ---- utils/fd.rs --------------------------------------------------------- *)

(* FdExt::reopen (fd.rs:193-219) *)
Definition reopen (fuel : nat) (gh : phandle) (fd : Z) (flags : N) : prog (result Z ekind) :=
  meta <-? os (w_fstatat fz fd []) ;;
  if is_symlink_mode (st_mode meta) then Ret (Err (OsError ELOOP)) else
  let flags := without flags REOPEN_REMOVED in
  match proc_subpath fd with
  | None => Ret (Err InvalidArgument)
  | Some sub => popen_follow fuel gh ProcThreadSelf sub flags
  end.

(* FdExt::as_unsafe_path (fd.rs:221-224) *)
Definition as_unsafe_path (fuel : nat) (gh : phandle) (fd : Z) : prog (result bytes ekind) :=
  match proc_subpath fd with
  | None => Ret (Err InvalidArgument)
  | Some sub => preadlink fuel gh ProcThreadSelf sub
  end.

(* FdExt::is_magiclink_filesystem (fd.rs:244-254) *)
Definition is_magiclink_filesystem (fd : Z) : prog (result bool ekind) :=
  t <-? os (w_fstatfs fz fd) ;;
  Ret (Ok (existsb (N.eqb t) DANGEROUS_FILESYSTEMS)).

End Procfs.
