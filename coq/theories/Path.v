(* Path.v -- transcription of /repo/src/utils/path.rs (pure byte-level helpers). *)
From PV Require Export Bytes.
Open Scope N_scope.

(* ToCString::to_c_string : truncate at the first NUL (path.rs:34-44). *)
Fixpoint to_c_string (p : bytes) : bytes :=
  match p with
  | [] => []
  | c :: r => if N.eqb c 0 then [] else c :: to_c_string r
  end.

(* RawComponents (path.rs:103-137): split on '/', keeping "", "." and "..". *)
Fixpoint raw_components (p : bytes) : list bytes :=
  match p with
  | [] => [[]]
  | c :: r =>
      if N.eqb c SLASH then [] :: raw_components r
      else match raw_components r with
           | [] => [[c]]
           | h :: t => (c :: h) :: t
           end
  end.

(* Itertools::intersperse(.., "/").collect() as used for `remaining`. *)
Fixpoint join_slash (cs : list bytes) : bytes :=
  match cs with
  | [] => []
  | [c] => c
  | c :: rest => c ++ SLASH :: join_slash rest
  end.

(* memrchr(b'/', p): index of the last '/' *)
Fixpoint rindex_slash_from (i : nat) (p : bytes) (acc : option nat) : option nat :=
  match p with
  | [] => acc
  | c :: r => rindex_slash_from (S i) r (if N.eqb c SLASH then Some i else acc)
  end.
Definition rindex_slash (p : bytes) : option nat := rindex_slash_from 0 p None.

(* rposition(|c| c != '/') *)
Fixpoint rindex_nonslash_from (i : nat) (p : bytes) (acc : option nat) : option nat :=
  match p with
  | [] => acc
  | c :: r => rindex_nonslash_from (S i) r (if N.eqb c SLASH then acc else Some i)
  end.
Definition rindex_nonslash (p : bytes) : option nat := rindex_nonslash_from 0 p None.

(* path_strip_trailing_slash (path.rs:52-74) *)
Definition path_strip_trailing_slash (p : bytes) : bytes * bool :=
  match rindex_nonslash p with
  | None => if Nat.ltb 1 (length p) then ([SLASH], true) else (p, false)
  | Some idx =>
      if Nat.eqb idx (length p - 1) then (p, false)
      else (firstn (S idx) p, true)
  end.

(* Ancestors iterator (path.rs:174-241), unrolled into the list of its items.
   [limit] is the Middle(idx) state; fuel bounds the number of items by the
   path length + 1 (idx strictly decreases). *)
Definition anc_end (a : bytes) : bool :=
  is_nil a || beq a [DOT] || beq a [SLASH].

Fixpoint anc_iter (fuel : nat) (inner : bytes) (limit : option nat)
  : list (bytes * option bytes) :=
  match fuel with
  | O => []
  | S f =>
      let hay := match limit with None => inner | Some i => firstn i inner end in
      match rindex_slash hay with
      | None => [([DOT], if is_nil inner then None else Some inner)]
      | Some idx =>
          let anc := firstn idx inner in
          let rem := skipn idx inner in
          let anc' := if is_nil anc then [SLASH] else anc in
          let rem' := if beq rem [SLASH] then None else Some (tl rem) in
          (anc', rem') :: (if anc_end anc' then [] else anc_iter f inner (Some idx))
      end
  end.

Definition partial_ancestors (p : bytes) : list (bytes * option bytes) :=
  anc_iter (S (length p)) p None.

(* std::path::Path equality compares `components()`: repeated separators and
   "." components are normalised away (a leading "." of a relative path is
   kept as CurDir), a trailing separator is ignored.  check_current compares
   PathBufs, i.e. uses this equality. *)
Definition path_norm (p : bytes) : bool * bool * list bytes :=
  let cs := raw_components p in
  let has_root := is_abs p in
  let lead_dot := negb has_root && match cs with c :: _ => is_dot c | [] => false end in
  (has_root, lead_dot, filter (fun c => negb (is_nil c || is_dot c)) cs).

Fixpoint list_beq (x y : list bytes) : bool :=
  match x, y with
  | [], [] => true
  | a :: x', c :: y' => beq a c && list_beq x' y'
  | _, _ => false
  end.

Definition path_eq (p q : bytes) : bool :=
  let '(r1, d1, c1) := path_norm p in
  let '(r2, d2, c2) := path_norm q in
  Bool.eqb r1 r2 && Bool.eqb d1 d2 && list_beq c1 c2.

(* error kinds of the library (error.rs ErrorKind) *)
Inductive ekind :=
| OsError (e : N)        (* ErrorKind::OsError(Some(e)) *)
| OsErrorNone            (* ErrorKind::OsError(None)    *)
| InvalidArgument
| SafetyViolation
| NotSupported
| NotImplemented
| InternalError.

(* path_split (path.rs:76-101).  The `.expect()` on the first ancestor is
   modelled by the [None] result, proved unreachable in PathProofs. *)
Definition path_split (p : bytes) : option (result (bytes * option bytes) ekind) :=
  match partial_ancestors p with
  | [] => None                                  (* expect() would panic *)
  | (dir, base) :: _ =>
      Some match base with
           | Some bs =>
               if is_nil bs then Err SafetyViolation
               else if has_slash bs then Err SafetyViolation
               else Ok (dir, base)
           | None => Ok (dir, base)
           end
  end.
