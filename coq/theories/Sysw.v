(* Sysw.v -- transcription of /repo/src/syscalls.rs: the wrapper layer.
   Every wrapper (a) rejects descriptors other than AT_FDCWD / non-negative
   ones (hotfix_rustix_fd), (b) adds the forced flags, (c) on failure builds a
   FrozenFd for each descriptor argument, which issues error-message-only
   calls against the host /proc (as_unsafe_path_unchecked). *)
From PV Require Export Prog LinuxAbi Consts.
Open Scope N_scope.

(* panic sites of /repo (expect/unwrap/unreachable!) *)
Definition PANIC_THREAD_SELF := 1.     (* procfs.rs: "at least one candidate /proc/thread-self path should work" *)
Definition PANIC_FSTAT_PROC := 2.      (* procfs.rs try_from_fd: "fstat(/proc) should work" *)
Definition PANIC_GLOBAL_PROCFS := 3.   (* procfs.rs GLOBAL_PROCFS_HANDLE: "should be able to get some /proc handle" *)
Definition PANIC_SYSCTL := 4.          (* imp.rs: "should be able to parse fs.protected_symlinks" *)
Definition PANIC_RC_UNWRAP := 5.       (* resolvers.rs: "current handle in lookup should only have a single Rc reference" *)
Definition PANIC_PARTIAL_UNREACHABLE := 6. (* openat2.rs:162 unreachable!() *)
Definition PANIC_PATH_SPLIT := 7.      (* path.rs: "partial_ancestors iterator must return at least one entry" *)
Definition PANIC_READLINK_NUL := 8.    (* capi/utils.rs: "link from readlink should not contain any nulls" *)

Definition valid_fd (fd : Z) : bool := Z.eqb fd AT_FDCWD || Z.leb 0 fd.

Definition z2n (z : Z) : N := Z.to_N z.

(* utils/fd.rs proc_subpath *)
Definition proc_subpath (fd : Z) : option bytes :=
  if Z.eqb fd AT_FDCWD then Some (b "cwd")
  else if Z.leb PROC_SUBPATH_MIN_FD fd then Some (b "fd/" ++ dec (z2n fd))
  else None.

Definition thread_self_cands (tid : Z) : list bytes :=
  [b "thread-self"; b "self/task/" ++ dec (z2n tid); b "self"].

(* FrozenFd::from(fd): as_unsafe_path_unchecked().ok().  A failing fstatat probe
   is itself a wrapper failure and builds a FrozenFd for AT_FDCWD: the
   recursion is only bounded if some probe eventually succeeds; [fuel] makes
   that explicit. *)
Fixpoint frozen (fuel : nat) (fd : Z) : prog unit :=
  match fuel with
  | O => OutOfFuel
  | S f =>
      Call Gettid (fun rt =>
        let tid := as_num rt in
        (fix find (cands : list bytes) : prog unit :=
           match cands with
           | [] => Panic PANIC_THREAD_SELF
           | c :: rest =>
               Call (Fstatat AT_FDCWD (b "/proc/" ++ c) FSTATAT_FLAGS) (fun r =>
                 match as_stat r with
                 | Ok _ =>
                     match proc_subpath fd with
                     | None => Ret tt
                     | Some sub => Call (Readlink (b "/proc/" ++ c ++ SLASH :: sub)) (fun _ => Ret tt)
                     end
                 | Err _ => frozen f AT_FDCWD ;;; find rest
                 end)
           end) (thread_self_cands tid))
  end.

Section Wrappers.
Variable fz : nat.   (* fuel for FrozenFd construction *)

Definition fail1 {A} (fd : Z) (e : N) : prog (result A N) := frozen fz fd ;;; Ret (Err e).
Definition fail2 {A} (fd1 fd2 : Z) (e : N) : prog (result A N) :=
  frozen fz fd1 ;;; frozen fz fd2 ;;; Ret (Err e).

(* rustix refuses paths with an interior NUL with EINVAL, without a system call *)
Definition rustix_path {A} (fd : Z) (path : bytes) (k : prog (result A N)) : prog (result A N) :=
  if has_nul path then fail1 fd EINVAL else k.

Definition MODE_BITS := 4095. (* rustix Mode::from_raw_mode truncates to 0o7777 *)

(* syscalls::openat_follow (syscalls.rs:310-332) *)
Definition w_openat_follow (dirfd : Z) (path : bytes) (flags mode : N) : prog (result Z N) :=
  if negb (valid_fd dirfd) then Ret (Err EBADF) else
  let flags := N.lor flags OPENAT_FORCED in
  rustix_path dirfd path
    (Call (Openat dirfd path (N.lor flags O_LARGEFILE) (N.land mode MODE_BITS)) (fun r =>
       match as_fd r with
       | Ok n => Ret (Ok n)
       | Err e => fail1 dirfd e
       end)).

(* syscalls::openat (syscalls.rs:338-346) *)
Definition w_openat (dirfd : Z) (path : bytes) (flags mode : N) : prog (result Z N) :=
  w_openat_follow dirfd path (N.lor flags OPENAT_NOFOLLOW_FORCED) mode.

(* the flags syscalls::openat2 adds: O_CLOEXEC always; O_NOCTTY unless O_PATH is set (openat2
   refuses O_NOCTTY together with O_PATH, which cannot acquire a terminal anyway) *)
Definition openat2_flags (flags : N) : N :=
  let f := N.lor flags OPENAT2_FORCED in
  if has f O_PATH then f else N.lor f OPENAT2_FORCED_UNLESS_PATH.

(* syscalls::openat2 (syscalls.rs:677-717): own wrapper, path truncated at NUL *)
Definition w_openat2 (dirfd : Z) (path : bytes) (flags mode resolve : N) : prog (result Z N) :=
  if negb (valid_fd dirfd) then Ret (Err EBADF) else
  if OPENAT2_NUL_EINVAL && has_nul path then fail1 dirfd EINVAL else
  Call (Openat2 dirfd (to_c_string path) (openat2_flags flags) mode resolve) (fun r =>
    match as_fd r with
    | Ok n => Ret (Ok n)
    | Err e => fail1 dirfd e
    end).

(* syscalls::readlinkat (syscalls.rs:353-383) *)
Definition w_readlinkat (dirfd : Z) (path : bytes) : prog (result bytes N) :=
  if negb (valid_fd dirfd) then Ret (Err EBADF) else
  rustix_path dirfd path
    (Call (Readlinkat dirfd path) (fun r =>
       match as_bytes r with
       | Ok bs => if N.leb READLINK_BUF (N.of_nat (length bs)) then fail1 dirfd ENAMETOOLONG
                  else Ret (Ok bs)
       | Err e => fail1 dirfd e
       end)).

Definition simple1 {A} (dirfd : Z) (path : bytes) (c : call) (dec : resp -> result A N)
  : prog (result A N) :=
  if negb (valid_fd dirfd) then Ret (Err EBADF) else
  rustix_path dirfd path
    (Call c (fun r => match dec r with Ok a => Ret (Ok a) | Err e => fail1 dirfd e end)).

Definition w_mkdirat (dirfd : Z) (path : bytes) (mode : N) : prog (result unit N) :=
  simple1 dirfd path (Mkdirat dirfd path (N.land mode MODE_BITS)) as_unit.

(* rustix mknodat: file type bits and permission bits are passed separately *)
Definition w_mknodat (dirfd : Z) (path : bytes) (raw_mode dev : N) : prog (result unit N) :=
  simple1 dirfd path
    (Mknodat dirfd path (N.lor (N.land raw_mode S_IFMT) (N.land raw_mode MODE_BITS)) dev) as_unit.

Definition w_unlinkat (dirfd : Z) (path : bytes) (atflags : N) : prog (result unit N) :=
  simple1 dirfd path (Unlinkat dirfd path atflags) as_unit.

Definition w_fstatfs (fd : Z) : prog (result N N) :=
  if negb (valid_fd fd) then Ret (Err EBADF) else
  Call (Fstatfs fd) (fun r => match as_fstype r with Ok t => Ret (Ok t) | Err e => fail1 fd e end).

Definition w_fstatat (dirfd : Z) (path : bytes) : prog (result stat N) :=
  simple1 dirfd path (Fstatat dirfd path FSTATAT_FLAGS) as_stat.

Definition w_statx (dirfd : Z) (path : bytes) (mask : N) : prog (result (N * N) N) :=
  simple1 dirfd path (Statx dirfd path STATX_FLAGS mask) as_statx.

Definition w_symlinkat (target : bytes) (dirfd : Z) (path : bytes) : prog (result unit N) :=
  if negb (valid_fd dirfd) then Ret (Err EBADF) else
  if has_nul target || has_nul path then fail1 dirfd EINVAL else
  Call (Symlinkat target dirfd path) (fun r =>
    match as_unit r with Ok u => Ret (Ok u) | Err e => fail1 dirfd e end).

Definition two_fd (ofd : Z) (opath : bytes) (nfd : Z) (npath : bytes) (c : call)
  : prog (result unit N) :=
  if negb (valid_fd ofd) then Ret (Err EBADF) else
  if negb (valid_fd nfd) then Ret (Err EBADF) else
  if has_nul opath || has_nul npath then fail2 ofd nfd EINVAL else
  Call c (fun r => match as_unit r with Ok u => Ret (Ok u) | Err e => fail2 ofd nfd e end).

Definition w_linkat (ofd : Z) (opath : bytes) (nfd : Z) (npath : bytes) (atflags : N) :=
  two_fd ofd opath nfd npath (Linkat ofd opath nfd npath atflags).

Definition w_renameat (ofd : Z) (opath : bytes) (nfd : Z) (npath : bytes) :=
  two_fd ofd opath nfd npath (Renameat ofd opath nfd npath).

(* syscalls::renameat2: plain renameat when no flags are given *)
Definition w_renameat2 (ofd : Z) (opath : bytes) (nfd : Z) (npath : bytes) (flags : N) :=
  if N.eqb flags 0 then w_renameat ofd opath nfd npath
  else two_fd ofd opath nfd npath (Renameat2 ofd opath nfd npath flags).

(* mount API wrappers *)
Definition w_fsopen (name : bytes) (flags : N) : prog (result Z N) :=
  Call (Fsopen name flags) (fun r => Ret (as_fd r)).

Definition w_fsconfig_set_string (sfd : Z) (key value : bytes) : prog (result unit N) :=
  if negb (valid_fd sfd) then Ret (Err EBADF) else
  Call (FsconfigSetString sfd key value) (fun r =>
    match as_unit r with Ok u => Ret (Ok u) | Err e => fail1 sfd e end).

Definition w_fsconfig_create (sfd : Z) : prog (result unit N) :=
  if negb (valid_fd sfd) then Ret (Err EBADF) else
  Call (FsconfigCreate sfd) (fun r =>
    match as_unit r with Ok u => Ret (Ok u) | Err e => fail1 sfd e end).

Definition w_fsmount (sfd : Z) (flags attrs : N) : prog (result Z N) :=
  if negb (valid_fd sfd) then Ret (Err EBADF) else
  Call (Fsmount sfd flags attrs) (fun r =>
    match as_fd r with Ok n => Ret (Ok n) | Err e => fail1 sfd e end).

Definition w_open_tree (dirfd : Z) (path : bytes) (flags : N) : prog (result Z N) :=
  if negb (valid_fd dirfd) then Ret (Err EBADF) else
  rustix_path dirfd path
    (Call (OpenTree dirfd path (N.lor flags OPEN_TREE_FORCED)) (fun r =>
       match as_fd r with Ok n => Ret (Ok n) | Err e => fail1 dirfd e end)).

(* BorrowedFd::try_clone_to_owned : fcntl(F_DUPFD_CLOEXEC, 3); plain io::Error *)
Definition dup_cloexec (fd : Z) : prog (result Z N) :=
  Call (DupCloexec fd) (fun r => Ret (as_fd r)).

End Wrappers.
