(* AbiCheck.v -- boolean checkers over the extracted ABI fact lists (gen/Abi.v). *)
From Coq Require Import String List ZArith Bool. Import ListNotations.
From PV Require Export Abi.
Open Scope string_scope.

Definition cty_eqb (a c : cty) : bool :=
  match a, c with
  | I32, I32 | U32, U32 | I64, I64 | U64, U64 | Ptr, Ptr | Void, Void | Any, Any | I16, I16 | U16, U16 | I8, I8 | U8, U8 => true
  | _, _ => false
  end.

Fixpoint ctys_eqb (x y : list cty) : bool :=
  match x, y with
  | [], [] => true
  | a :: x', c :: y' => cty_eqb a c && ctys_eqb x' y'
  | _, _ => false
  end.

Definition decl_eqb (f g : decl) : bool :=
  let '(n1, r1, a1) := f in let '(n2, r2, a2) := g in
  String.eqb n1 n2 && cty_eqb r1 r2 && ctys_eqb a1 a2.

(* every declaration of [h] has an identical one in [r] *)
Definition decls_sub (h r : list decl) : bool := forallb (fun f => existsb (decl_eqb f) r) h.
Definition decls_match (h r : list decl) : bool := decls_sub h r && decls_sub r h.

Definition names (l : list decl) : list string := map (fun d => fst (fst d)) l.
Definition strs_sub (x y : list string) : bool := forallb (fun s => existsb (String.eqb s) y) x.

(* a call site is compatible with a declaration: same arity, and every
   argument whose class the call site shows ([Any] = not visible) agrees *)
Definition arg_compat (seen declared : cty) : bool :=
  match seen with Any => true | _ => cty_eqb seen declared end.
Fixpoint args_compat (x y : list cty) : bool :=
  match x, y with
  | [], [] => true
  | a :: x', c :: y' => arg_compat a c && args_compat x' y'
  | _, _ => false
  end.
Definition call_ok (h : list decl) (c : string * list cty) : bool :=
  existsb (fun d => String.eqb (fst c) (fst (fst d)) && args_compat (snd c) (snd d)) h.
Definition arity_ok (h : list decl) (c : string * nat) : bool :=
  existsb (fun d => String.eqb (fst c) (fst (fst d)) && Nat.eqb (snd c) (length (snd d))) h.

Fixpoint assoc {A} (k : string) (l : list (string * A)) : option A :=
  match l with [] => None | (k', v) :: t => if String.eqb k k' then Some v else assoc k t end.

Definition typedefs_agree (mine theirs : list (string * cty)) : bool :=
  forallb (fun kv => match assoc (fst kv) theirs with Some t => cty_eqb (snd kv) t | None => false end) mine.

Definition enums_eqb (x y : list (string * Z)) : bool :=
  forallb (fun kv => match assoc (fst kv) y with Some v => Z.eqb (snd kv) v | None => false end) x
  && Nat.eqb (length x) (length y).

Fixpoint zs_eqb (x y : list Z) : bool :=
  match x, y with
  | [], [] => true
  | a :: x', c :: y' => Z.eqb a c && zs_eqb x' y'
  | _, _ => false
  end.

Definition fields_eqb (x y : list (string * cty)) : bool :=
  (fix go x y := match x, y with
                 | [], [] => true
                 | (n1, t1) :: x', (n2, t2) :: y' => String.eqb n1 n2 && cty_eqb t1 t2 && go x' y'
                 | _, _ => false end) x y.
