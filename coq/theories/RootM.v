(* RootM.v -- transcription of /repo/src/resolvers/openat2.rs, resolvers.rs
   (backend dispatch, one-shot open), root.rs (RootRef operations) and
   utils/dir.rs (remove_all). *)
From PV Require Export OpathM.
Open Scope N_scope.

Record resolver := { rs_kernel : bool; rs_flags : N }.

Section Root.
Variable fz : nat.
Variable cfg_openat2 : bool.
Variable pfuel : nat.
Variable gh : phandle.
Variable sysctl_ps : N.

(* ---- resolvers/openat2.rs ------------------------------------------------ *)

Definition k_open_loop := openat2_retry fz.

(* openat2::open: one-shot when OPENAT2_OPEN_RETRIES = 0 (no EAGAIN handling) *)
Definition k_open (root : Z) (path : bytes) (rflags oflags : N) : prog (result Z ekind) :=
  if negb cfg_openat2 then Ret (Err NotSupported) else
  if N.eqb OPENAT2_OPEN_RETRIES 0
  then os (w_openat2 fz root path oflags 0 (N.lor OPENAT2_OPEN_RESOLVE rflags))
  else k_open_loop (N.to_nat OPENAT2_OPEN_RETRIES) root path oflags (N.lor OPENAT2_OPEN_RESOLVE rflags).

Fixpoint k_resolve_loop (n : nat) (root : Z) (path : bytes) (oflags resolve : N)
  : prog (result Z ekind) :=
  match n with
  | O => Ret (Err SafetyViolation)
  | S m =>
      r <- w_openat2 fz root path oflags 0 resolve ;;
      match r with
      | Ok fd => Ret (Ok fd)
      | Err e =>
          if N.eqb e ENOSYS then Ret (Err NotSupported)
          else if N.eqb e EAGAIN then k_resolve_loop m root path oflags resolve
          else Ret (Err (OsError e))
      end
  end.

Definition k_resolve (root : Z) (path : bytes) (rflags : N) (nofollow : bool)
  : prog (result Z ekind) :=
  if negb cfg_openat2 then Ret (Err NotSupported) else
  let oflags := if nofollow then N.lor OPENAT2_RESOLVE_OFLAGS OPENAT2_RESOLVE_NOFOLLOW
                else OPENAT2_RESOLVE_OFLAGS in
  k_resolve_loop (N.to_nat OPENAT2_RETRIES) root path oflags (N.lor OPENAT2_RESOLVE_RESOLVE rflags).

Definition k_resolve_partial (root : Z) (path : bytes) (rflags : N) (nofollow : bool)
  : prog (result lookup ekind) :=
  r <- k_resolve root path rflags nofollow ;;
  match r with
  | Ok fd => Ret (Ok (Complete fd))
  | Err e0 =>
      (fix go (anc : list (bytes * option bytes)) (last : ekind) : prog (result lookup ekind) :=
         match anc with
         | [] => if PARTIAL_UNREACHABLE_PANICS then Panic PANIC_PARTIAL_UNREACHABLE else Ret (Err last)
         | (p, rem) :: rest =>
             if is_safety_violation last then Ret (Err last) else
             r <- k_resolve root p rflags nofollow ;;
             match r with
             | Ok fd => Ret (Ok (Partial fd (match rem with Some x => x | None => [] end) last))
             | Err e => go rest e
             end
         end) (partial_ancestors path) e0
  end.

(* ---- resolvers.rs -------------------------------------------------------- *)

Definition r_resolve (rs : resolver) (root : Z) (path : bytes) (nofollow : bool)
  : prog (result Z ekind) :=
  if rs_kernel rs then k_resolve root path (rs_flags rs) nofollow
  else opath_resolve_root fz cfg_openat2 pfuel gh sysctl_ps root path
         (has (rs_flags rs) RESOLVE_NO_SYMLINKS) nofollow.

Definition r_resolve_partial (rs : resolver) (root : Z) (path : bytes) (nofollow : bool)
  : prog (result lookup ekind) :=
  if rs_kernel rs then k_resolve_partial root path (rs_flags rs) nofollow
  else opath_resolve_partial fz cfg_openat2 pfuel gh sysctl_ps root path
         (has (rs_flags rs) RESOLVE_NO_SYMLINKS) nofollow.

(* Handle::reopen -> FdExt::reopen(&GLOBAL_PROCFS_HANDLE, flags) *)
Definition h_reopen (fd : Z) (flags : N) : prog (result Z ekind) :=
  reopen fz cfg_openat2 pfuel gh fd flags.

(* Resolver::open (resolvers.rs:209-272) *)
Definition r_open (rs : resolver) (root : Z) (path : bytes) (flags : N) : prog (result Z ekind) :=
  if intersects flags RESOLVER_OPEN_REFUSED || has_nz flags RESOLVER_OPEN_REFUSED_CONTAINS
  then Ret (Err InvalidArgument) else
  if rs_kernel rs then k_open root path (rs_flags rs) flags else
  handle <-? r_resolve rs root path (has flags O_NOFOLLOW) ;;
  r <- os (w_fstatat fz handle []) ;;
  match r with
  | Err e => close handle ;;; Ret (Err e)
  | Ok meta =>
      if is_symlink_mode (st_mode meta) then
        if has flags O_DIRECTORY then close handle ;;; Ret (Err (OsError ENOTDIR))
        else if has flags O_PATH then Ret (Ok handle)
        else close handle ;;; Ret (Err (OsError ELOOP))
      else
        r <- h_reopen handle flags ;;
        close handle ;;; Ret r
  end.

(* ---- root.rs ------------------------------------------------------------- *)

(* RootRef::resolve_parent (root.rs:754-761) *)
Definition resolve_parent (rs : resolver) (root : Z) (path : bytes)
  : prog (result (Z * option bytes) ekind) :=
  match path_split path with
  | None => Panic PANIC_PATH_SPLIT
  | Some (Err e) => Ret (Err e)
  | Some (Ok (parent, name)) =>
      dir <-? r_resolve rs root parent false ;;
      Ret (Ok (dir, name))
  end.

(* resolve_parent + "name must be present" *)
Definition parent_and_name (rs : resolver) (root : Z) (path : bytes)
  : prog (result (Z * bytes) ekind) :=
  pn <-? resolve_parent rs root path ;;
  match pn with
  | (dir, Some name) => Ret (Ok (dir, name))
  | (dir, None) => close dir ;;; Ret (Err InvalidArgument)
  end.

(* RootRef::readlink (root.rs:763-775) *)
Definition root_readlink (rs : resolver) (root : Z) (path : bytes) : prog (result bytes ekind) :=
  link <-? r_resolve rs root path true ;;
  r <- os (w_readlinkat fz link []) ;;
  close link ;;; Ret r.

Inductive inode_type :=
| IFile (mode : N) | IDirectory (mode : N) | ISymlink (target : bytes) | IHardlink (target : bytes)
| IFifo (mode : N) | ICharDev (mode dev : N) | IBlockDev (mode dev : N).

Definition perm (mode : N) : N := without mode S_IFMT.

(* RootRef::create (root.rs:777-853).  The directory handle is moved into the
   wrapper, i.e. closed right after the system call. *)
Definition root_create (rs : resolver) (root : Z) (path : bytes) (ty : inode_type)
  : prog (result unit ekind) :=
  dn <-? parent_and_name rs root path ;;
  let '(dir, name) := dn in
  match ty with
  | IFile m => r <- os (w_mknodat fz dir name (N.lor S_IFREG (perm m)) 0) ;; close dir ;;; Ret r
  | IDirectory m => r <- os (w_mkdirat fz dir name (perm m)) ;; close dir ;;; Ret r
  | ISymlink target => r <- os (w_symlinkat fz target dir name) ;; close dir ;;; Ret r
  | IHardlink target =>
      r <- parent_and_name rs root target ;;
      match r with
      | Err e => close dir ;;; Ret (Err e)
      | Ok (olddir, oldname) =>
          r <- os (w_linkat fz olddir oldname dir name LINKAT_FLAGS) ;;
          (* arguments dropped in reverse order of declaration *)
          close dir ;;; close olddir ;;; Ret r
      end
  | IFifo m => r <- os (w_mknodat fz dir name (N.lor S_IFIFO (perm m)) 0) ;; close dir ;;; Ret r
  | ICharDev m dev => r <- os (w_mknodat fz dir name (N.lor S_IFCHR (perm m)) dev) ;; close dir ;;; Ret r
  | IBlockDev m dev => r <- os (w_mknodat fz dir name (N.lor S_IFBLK (perm m)) dev) ;; close dir ;;; Ret r
  end.

(* RootRef::create_file (root.rs:855-909) *)
Definition root_create_file (rs : resolver) (root : Z) (path : bytes) (flags mode : N)
  : prog (result Z ekind) :=
  (* O_PATH is refused up front: the kernel would drop O_CREAT and open the unresolved final component (F-S) *)
  if CREATE_FILE_REFUSES_OPATH && has flags O_PATH then Ret (Err InvalidArgument) else
  dn <-? parent_and_name rs root path ;;
  let '(dir, name) := dn in
  r <- os (w_openat fz dir name (N.lor flags CREATE_FILE_FORCED) mode) ;;
  close dir ;;; Ret r.

(* RootRef::remove_inode (root.rs:1070-1098) *)
Definition root_remove_inode (rs : resolver) (root : Z) (path : bytes) (is_dir : bool)
  : prog (result unit ekind) :=
  dn <-? parent_and_name rs root path ;;
  let '(dir, name) := dn in
  r <- os (w_unlinkat fz dir name (if is_dir then AT_REMOVEDIR else 0)) ;;
  close dir ;;; Ret r.

(* RootRef::rename (root.rs:1191-1222) *)
Definition root_rename (rs : resolver) (root : Z) (src dst : bytes) (rflags : N)
  : prog (result unit ekind) :=
  sn <-? parent_and_name rs root src ;;
  let '(src_dir, src_name) := sn in
  r <- parent_and_name rs root dst ;;
  match r with
  | Err e => close src_dir ;;; Ret (Err e)
  | Ok (dst_dir, dst_name) =>
      r <- os (w_renameat2 fz src_dir src_name dst_dir dst_name rflags) ;;
      close dst_dir ;;; close src_dir ;;; Ret r
  end.

(* ---- utils/dir.rs -------------------------------------------------------- *)

Definition ignore_enoent (r : result unit ekind) : result unit ekind :=
  match r with
  | Ok u => Ok u
  | Err e => if errno_is e ENOENT then Ok tt else Err e
  end.

(* dir.rs remove_inode (50-70) *)
Definition remove_inode (dirfd : Z) (name : bytes) : prog (result unit ekind) :=
  r <- w_unlinkat fz dirfd name 0 ;;
  match r with
  | Ok u => Ret (Ok u)
  | Err ue =>
      r2 <- w_unlinkat fz dirfd name AT_REMOVEDIR ;;
      match r2 with
      | Ok u => Ret (Ok u)
      | Err re => Ret (Err (OsError (if N.eqb re ENOTDIR then ue else re)))
      end
  end.

Definition dot_or_dotdot (n : bytes) : bool := is_dot n || is_dotdot n.

(* one pass over a fresh directory iterator: process entries lazily; [seen] =
   a non-dot entry was seen in this pass.  [rec] removes one child. *)
Fixpoint ra_entries (rec : bytes -> prog (result unit ekind)) (g : nat) (dfd : Z)
         (buf : list bytes) (seen : bool) : prog (result bool ekind) :=      (* Ok seen / Err *)
  match g with
  | O => OutOfFuel
  | S g' =>
      match buf with
      | n :: rest =>
          if dot_or_dotdot n then ra_entries rec g' dfd rest seen
          else
            r <- rec n ;;
            match ignore_enoent r with
            | Err e => close dfd ;;; Ret (Err e)
            | Ok _ => ra_entries rec g' dfd rest true
            end
      | [] =>
          Call (Getdents dfd) (fun r =>
            match as_dents r with
            | Err e =>
                (* rustix Dir::read retries getdents64 on EINTR *)
                if N.eqb e EINTR then ra_entries rec g' dfd [] seen
                else if N.eqb e ENOENT then close dfd ;;; Ret (Ok seen)
                else close dfd ;;; Ret (Err (OsError e))
            | Ok [] => close dfd ;;; Ret (Ok seen)
            | Ok l => ra_entries rec g' dfd l seen
            end)
      end
  end.

(* the `loop` of remove_all: re-scan the directory until a pass sees nothing *)
Fixpoint ra_rounds (scan : Z -> prog (result bool ekind)) (finish_ : prog (result unit ekind))
         (subdir : Z) (g : nat) : prog (result unit ekind) :=
  match g with
  | O => OutOfFuel
  | S g' =>
      (* Dir::read_from(&subdir): fcntl(F_GETFL) + openat(".") *)
      Call (FcntlGetfl subdir) (fun rf =>
        match rf with
        | RErr e =>
            if N.eqb e ENOENT then finish_ else close subdir ;;; Ret (Err (OsError e))
        | _ =>
            let fl := z2n (as_num rf) in
            Call (Openat subdir [DOT] (N.lor (N.lor fl O_CLOEXEC) O_LARGEFILE) 0) (fun ro =>
              match as_fd ro with
              | Err e =>
                  if N.eqb e ENOENT then finish_ else close subdir ;;; Ret (Err (OsError e))
              | Ok dfd =>
                  r <- scan dfd ;;
                  match r with
                  | Err e => close subdir ;;; Ret (Err e)
                  | Ok false => finish_
                  | Ok true => ra_rounds scan finish_ subdir g'
                  end
              end)
        end)
  end.

(* dir.rs remove_all (72-165).  [fuel] bounds: recursion depth, number of
   scan rounds and number of getdents batches. *)
Fixpoint remove_all (fuel : nat) (dirfd : Z) (name : bytes) : prog (result unit ekind) :=
  match fuel with
  | O => OutOfFuel
  | S f =>
      if has_slash name then Ret (Err SafetyViolation) else
      if REMOVE_ALL_REFUSES_DOTS && dot_or_dotdot name then Ret (Err InvalidArgument) else
      r <- remove_inode dirfd name ;;
      match ignore_enoent r with
      | Ok _ => Ret (Ok tt)
      | Err _ =>
          r <- os (w_openat fz dirfd name REMOVE_ALL_OPEN_FLAGS 0) ;;
          match r with
          | Err e => if errno_is e ENOENT then Ret (Ok tt) else Ret (Err e)
          | Ok subdir =>
              let finish_ :=
                r <- remove_inode dirfd name ;;
                close subdir ;;; Ret (ignore_enoent r) in
              ra_rounds (fun dfd => ra_entries (remove_all f subdir) f dfd [] false) finish_ subdir f
          end
      end
  end.

(* RootRef::remove_all (root.rs:1162-1179) *)
Definition root_remove_all (rfuel : nat) (rs : resolver) (root : Z) (path : bytes)
  : prog (result unit ekind) :=
  dn <-? parent_and_name rs root path ;;
  let '(dir, name) := dn in
  r <- remove_all rfuel dir name ;;
  close dir ;;; Ret r.

(* RootRef::mkdir_all (root.rs:940-1068) *)
Definition root_mkdir_all (rs : resolver) (root : Z) (path : bytes) (mode : N)
  : prog (result Z ekind) :=
  if negb (N.eqb (N.ldiff mode MKDIR_ALL_MASK1) 0) then Ret (Err InvalidArgument) else
  if negb (N.eqb (N.ldiff mode MKDIR_ALL_MASK2) 0) then Ret (Err InvalidArgument) else
  l <-? r_resolve_partial rs root path false ;;
  (* TryInto<(Handle, Option<PathBuf>)> (resolvers.rs:159-175) *)
  r <- match l with
       | Complete fd => Ret (Ok (fd, None))
       | Partial fd remaining e =>
           if (match e with OsError n => N.eqb n ENOENT | _ => false end)
           then Ret (Ok (fd, Some remaining))
           else close fd ;;; Ret (Err e)
       end ;;
  match r with
  | Err e => Ret (Err e)
  | Ok (handle, remaining) =>
      r <- h_reopen handle MKDIR_ALL_REOPEN_FLAGS ;;
      match r with
      | Err e =>
          (* with_wrap(|| format!(.., FrozenFd::from(handle))) *)
          frozen fz handle ;;; close handle ;;; Ret (Err e)
      | Ok current0 =>
          (* `handle` was moved into the with_wrap closure: dropped here *)
          close handle ;;;
          let parts :=
            filter (fun p => negb (noop_part p))
                   (match remaining with Some rm => raw_components rm | None => [] end) in
          if existsb is_dotdot parts then
            close current0 ;;; Ret (Err (OsError ENOENT))
          else
            (fix mk (ps : list bytes) (current : Z) : prog (result Z ekind) :=
               match ps with
               | [] => Ret (Ok current)
               | part :: rest =>
                   if has_slash part then close current ;;; Ret (Err SafetyViolation) else
                   r <- w_mkdirat fz current part mode ;;
                   match (match r with
                          | Ok _ => None
                          | Err e => if N.eqb e EEXIST then None else Some e
                          end) with
                   | Some e => close current ;;; Ret (Err (OsError e))
                   | None =>
                       r <- os (w_openat fz current part MKDIR_ALL_OPEN_FLAGS 0) ;;
                       match r with
                       | Err e => close current ;;; Ret (Err e)
                       | Ok next => close current ;;; mk rest next
                       end
                   end
               end) parts current0
      end
  end.

End Root.
