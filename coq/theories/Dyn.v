(* Dyn.v -- a dynamic kernel: the static kernel of Static.v plus the calls that CHANGE the
   tree (mkdirat, mknodat, symlinkat, linkat, unlinkat, renameat/renameat2, open with O_CREAT)
   and the two calls by which remove_all scans a directory (getdents64, fcntl(F_GETFL)).
   The state is the tree, the descriptor table and the set of directory streams that have
   been read to their end.  [drun] executes a model program against it.

   Objects are never freed: removing an entry removes the (directory, name, object) triple,
   the object keeps its number (an open descriptor may still denote it).  A new object gets
   the next number; the procfs objects of Static.v, which are numbered from [PB] = the number
   of tree objects on, move up by one ([reloc]).

   Every call that the static kernel answers (everything with [eff c = false], Static.sem) is
   answered as there, on the current tree: lemma DynProofs.drun_static is the bridge that
   carries the static theorems (C01, C04, C14's parent object) over to this model.

   Executable: tie T2d (tools/props/C14.py, C12.py, C13.py) replays recorded traces of the real
   library's mutating operations through [dagree_trace] -- every answer of the running kernel
   against [dsem], the tree evolving on both sides -- and compares the final tree ([dump]). *)
From PV Require Export Static RootM.
From PV Require FSModel.
Open Scope N_scope.

Definition EBUSY := 16.

Notation kinds := FSModel.kinds.
Notation parents := FSModel.parents.
Notation ents := FSModel.ents.
Notation is_dir := FSModel.is_dir.
Notation lookup := FSModel.lookup.

Definition ent := (nat * bytes * nat)%type.
Definition ent_dir (e : ent) : nat := fst (fst e).
Definition ent_name (e : ent) : bytes := snd (fst e).
Definition ent_obj (e : ent) : nat := snd e.
Definition ent_at (d : nat) (n : bytes) (e : ent) : bool := Nat.eqb (ent_dir e) d && beq (ent_name e) n.

(* ---- pure effects on a tree --------------------------------------------------------- *)

Definition del_ent (s : fs) (d : nat) (n : bytes) : fs :=
  {| kinds := kinds s; parents := parents s; ents := filter (fun e => negb (ent_at d n e)) (ents s) |}.
Definition add_ent (s : fs) (d : nat) (n : bytes) (c : nat) : fs :=
  {| kinds := kinds s; parents := parents s; ents := ents s ++ [(d, n, c)] |}.
Fixpoint set_nth {A} (l : list A) (i : nat) (x : A) : list A :=
  match l, i with
  | [], _ => []
  | _ :: t, O => x :: t
  | h :: t, S j => h :: set_nth t j x
  end.
Definition set_parent (s : fs) (c d : nat) : fs :=
  {| kinds := kinds s; parents := set_nth (parents s) c d; ents := ents s |}.
Definition has_child (s : fs) (d : nat) : bool := existsb (fun e => Nat.eqb (ent_dir e) d) (ents s).
Definition dir_names (s : fs) (d : nat) : list bytes :=
  map ent_name (filter (fun e => Nat.eqb (ent_dir e) d) (ents s)).

(* [a] is [o] or one of the directories above it *)
Fixpoint anc_f (s : fs) (fuel a o : nat) : bool :=
  if Nat.eqb a o then true else if Nat.eqb o ROOT then false else
  match fuel with O => false | S f => anc_f s f a (FSModel.parent_of s o) end.
Definition is_anc (s : fs) (a o : nat) : bool := anc_f s (length (kinds s)) a o.

Definition too_long (n : bytes) : bool := Nat.ltb 255 (length n).
(* a name the kernel treats as an ordinary last component *)
Definition plain (n : bytes) : bool :=
  negb (is_nil n || is_dot n || is_dotdot n || has_slash n || has_nul n).

Inductive eres :=
| EOut                              (* outside this model *)
| EErr (e : N)
| EUnit (s' : fs)
| EOpen (s' : fs) (o : nat).

(* mkdirat / mknodat / symlinkat: a new object of kind [k] under (d, n) *)
Definition create_sem (s : fs) (d : nat) (n : bytes) (k : FSModel.kind) : eres :=
  if negb (is_dir s d) then EErr ENOTDIR
  else if is_nil n then EErr ENOENT
  else if has_slash n || has_nul n then EOut
  else if is_dot n || is_dotdot n then EErr EEXIST
  else if too_long n then EErr ENAMETOOLONG
  else match lookup s d n with
       | Some _ => EErr EEXIST
       | None => EUnit (FSModel.add_obj s d n k)
       end.

Definition kind_of_mode (m : N) : option FSModel.kind :=
  let ty := N.land m S_IFMT in
  if N.eqb ty S_IFREG || N.eqb ty 0 then Some FSModel.KReg
  else if N.eqb ty S_IFIFO then Some FSModel.KFifo
  else if N.eqb ty S_IFSOCK then Some FSModel.KSock
  else if N.eqb ty S_IFCHR then Some FSModel.KChr
  else None.

Definition unlink_sem (s : fs) (d : nat) (n : bytes) (atflags : N) : eres :=
  if negb (N.eqb atflags 0 || N.eqb atflags AT_REMOVEDIR) then EOut
  else if negb (is_dir s d) then EErr ENOTDIR
  else if is_nil n then EErr ENOENT
  else if has_slash n || has_nul n then EOut
  else if N.eqb atflags 0 then
    if is_dot n || is_dotdot n then EErr EISDIR
    else match lookup s d n with
         | None => EErr (FSModel.name_err n)
         | Some c => if is_dir s c then EErr EISDIR else EUnit (del_ent s d n)
         end
  else
    if is_dot n then EErr EINVAL
    else if is_dotdot n then EErr ENOTEMPTY
    else match lookup s d n with
         | None => EErr (FSModel.name_err n)
         | Some c => if negb (is_dir s c) then EErr ENOTDIR
                     else if has_child s c then EErr ENOTEMPTY
                     else EUnit (del_ent s d n)
         end.

Definition link_sem (s : fs) (od : nat) (on : bytes) (nd : nat) (nn : bytes) (atflags : N) : eres :=
  if negb (N.eqb atflags 0) || negb (plain on && plain nn) then EOut
  else if negb (is_dir s od) then EErr ENOTDIR
  else match lookup s od on with
       | None => EErr (FSModel.name_err on)
       | Some c =>
           if negb (is_dir s nd) then EErr ENOTDIR
           else if too_long nn then EErr ENAMETOOLONG
           else match lookup s nd nn with
                | Some _ => EErr EEXIST
                | None => if is_dir s c then EErr EPERM else EUnit (add_ent s nd nn c)
                end
       end.

Definition reparent (s : fs) (c d : nat) : fs := if is_dir s c then set_parent s c d else s.

Definition rename_sem (s : fs) (od : nat) (on : bytes) (nd : nat) (nn : bytes) (fl : N) : eres :=
  if negb (plain on && plain nn) then EOut
  else if negb (N.eqb fl 0 || N.eqb fl RENAME_NOREPLACE || N.eqb fl RENAME_EXCHANGE) then EOut
  else if negb (is_dir s od) || negb (is_dir s nd) then EErr ENOTDIR
  else if too_long on then EErr ENAMETOOLONG
  else match lookup s od on with
       | None => EErr ENOENT
       | Some c =>
           if too_long nn then EErr ENAMETOOLONG else
           match lookup s nd nn with
           | None =>
               if N.eqb fl RENAME_EXCHANGE then EErr ENOENT
               else if is_dir s c && is_anc s c nd then EErr EINVAL
               else EUnit (reparent (add_ent (del_ent s od on) nd nn c) c nd)
           | Some e =>
               if N.eqb fl RENAME_NOREPLACE then EErr EEXIST
               else if is_dir s c && is_anc s c nd then EErr EINVAL
               else if N.eqb fl RENAME_EXCHANGE then
                 if is_dir s e && is_anc s e od then EErr EINVAL
                 else if Nat.eqb c e then EUnit s
                 else EUnit (reparent (reparent (add_ent (add_ent (del_ent (del_ent s od on) nd nn) nd nn c) od on e) c nd) e od)
               else
                 if is_dir s e && is_anc s e od then EErr ENOTEMPTY
                 else if Nat.eqb c e then EUnit s
                 else if is_dir s c then
                   if negb (is_dir s e) then EErr ENOTDIR
                   else if has_child s e then EErr ENOTEMPTY
                   else EUnit (reparent (add_ent (del_ent (del_ent s od on) nd nn) nd nn c) c nd)
                 else if is_dir s e then EErr EISDIR
                 else EUnit (add_ent (del_ent (del_ent s od on) nd nn) nd nn c)
           end
       end.

(* open(dirfd, name, O_CREAT|O_NOFOLLOW|..., mode): create_file *)
Definition creat_sem (s : fs) (d : nat) (n : bytes) (fl : N) : eres :=
  if has fl O_PATH || has fl O_DIRECTORY || negb (has fl O_NOFOLLOW) then EOut
  else if negb (is_dir s d) then EErr ENOTDIR
  else if is_nil n then EErr ENOENT
  else if has_slash n || has_nul n then EOut
  else if is_dot n || is_dotdot n then EErr EISDIR
  else if too_long n then EErr ENAMETOOLONG
  else match lookup s d n with
       | None => EOpen (FSModel.add_obj s d n FSModel.KReg) (length (kinds s))
       | Some c =>
           if has fl O_EXCL then EErr EEXIST
           else match FSModel.kind_of s c with
                | FSModel.KLnk _ => EErr ELOOP
                | FSModel.KDir => EErr EISDIR
                | FSModel.KReg => EOpen s c
                | _ => EOut
                end
       end.

(* ---- the kernel state and one call -------------------------------------------------- *)

Record dst := { ds : fs; dt : fdt; dseen : list Z }.

Definition NPB (s : fs) : nat := length (kinds s).

(* the procfs objects are numbered from the number of tree objects on *)
Definition reloc (pb pb' : nat) (t : fdt) : fdt :=
  map (fun e => (fst e, if Nat.leb pb (snd e) then (snd e + (pb' - pb))%nat else snd e)) t.

Fixpoint zrem (x : Z) (l : list Z) : list Z :=
  match l with [] => [] | y :: r => if Z.eqb x y then zrem x r else y :: zrem x r end.
Fixpoint zmem (x : Z) (l : list Z) : bool :=
  match l with [] => false | y :: r => Z.eqb x y || zmem x r end.

(* F_GETFL of a directory opened with O_RDONLY|O_DIRECTORY|O_NOFOLLOW (|O_CLOEXEC|O_NOCTTY, which F_GETFL does not show) *)
Definition GETFL_DIR : N := N.lor O_LARGEFILE (N.lor O_DIRECTORY O_NOFOLLOW).

Inductive dresp :=
| DNew (s' : fs) (o : nat)
| DRet (s' : fs) (seen' : list Z) (r : resp)
| DClose (fd : Z).

Inductive doutcome (A : Type) := DDone (st : dst) (a : A) | DPanicked (site : N) | DNoFuel.
Arguments DDone {A} st a.
Arguments DPanicked {A} site.
Arguments DNoFuel {A}.

Section Dyn.
Variable rp : bytes.

(* a descriptor that is open on an object of the tree (not of procfs) *)
Definition tree_obj (s : fs) (t : fdt) (fd : Z) : option nat + N :=
  match tget t fd with
  | None => inr EBADF
  | Some o => if Nat.ltb o (NPB s) then inl (Some o) else inl None
  end.

Definition of_eres (s : fs) (seen : list Z) (r : eres) : dresp :=
  match r with
  | EOut => DRet s seen (RErr ENOSYS)
  | EErr e => DRet s seen (RErr e)
  | EUnit s' => DRet s' seen RUnit
  | EOpen s' o => DNew s' o
  end.

Definition on1 (s : fs) (t : fdt) (seen : list Z) (fd : Z) (f : nat -> eres) : dresp :=
  match tree_obj s t fd with
  | inr e => DRet s seen (RErr e)
  | inl None => DRet s seen (RErr ENOSYS)
  | inl (Some d) => of_eres s seen (f d)
  end.

Definition on2 (s : fs) (t : fdt) (seen : list Z) (fd1 fd2 : Z) (f : nat -> nat -> eres) : dresp :=
  match tree_obj s t fd1, tree_obj s t fd2 with
  | inr e, _ => DRet s seen (RErr e)
  | _, inr e => DRet s seen (RErr e)
  | inl (Some d1), inl (Some d2) => of_eres s seen (f d1 d2)
  | _, _ => DRet s seen (RErr ENOSYS)
  end.

Definition of_sresp (s : fs) (seen : list Z) (r : sresp) : dresp :=
  match r with
  | SNew o => DNew s o
  | SRet r => DRet s seen r
  | SClose fd => DClose fd
  end.

Definition dsem (st : dst) (c : call) : dresp :=
  let s := ds st in let t := dt st in let seen := dseen st in
  match c with
  | Mkdirat fd n _ => on1 s t seen fd (fun d => create_sem s d n FSModel.KDir)
  | Mknodat fd n mode _ =>
      on1 s t seen fd (fun d => match kind_of_mode mode with Some k => create_sem s d n k | None => EOut end)
  | Symlinkat target fd n =>
      on1 s t seen fd (fun d => if is_nil target then EErr ENOENT else create_sem s d n (FSModel.KLnk target))
  | Unlinkat fd n atflags => on1 s t seen fd (fun d => unlink_sem s d n atflags)
  | Linkat ofd on nfd nn atflags => on2 s t seen ofd nfd (fun od nd => link_sem s od on nd nn atflags)
  | Renameat ofd on nfd nn => on2 s t seen ofd nfd (fun od nd => rename_sem s od on nd nn 0)
  | Renameat2 ofd on nfd nn fl => on2 s t seen ofd nfd (fun od nd => rename_sem s od on nd nn fl)
  | Openat fd n fl _ =>
      if has fl O_CREAT then on1 s t seen fd (fun d => creat_sem s d n fl)
      else of_sresp s seen (sem s rp t c)
  | Openat2 _ _ fl _ _ =>
      if has fl O_CREAT then DRet s seen (RErr ENOSYS) else of_sresp s seen (sem s rp t c)
  | Getdents fd =>
      match tree_obj s t fd with
      | inr e => DRet s seen (RErr e)
      | inl None => DRet s seen (RErr ENOSYS)
      | inl (Some d) =>
          if negb (is_dir s d) then DRet s seen (RErr ENOTDIR)
          else if zmem fd seen then DRet s seen (RDents [])
          else DRet s (fd :: seen) (RDents ([DOT] :: [DOT; DOT] :: dir_names s d))
      end
  | FcntlGetfl fd =>
      match tree_obj s t fd with
      | inr e => DRet s seen (RErr e)
      | inl None => DRet s seen (RErr ENOSYS)
      | inl (Some d) => if is_dir s d then DRet s seen (RNum (Z.of_N GETFL_DIR)) else DRet s seen (RErr ENOSYS)
      end
  | _ => of_sresp s seen (sem s rp t c)
  end.

Definition danswer (st : dst) (c : call) : dst * resp :=
  match dsem st c with
  | DNew s' o =>
      let t1 := reloc (NPB (ds st)) (NPB s') (dt st) in
      let n := fresh t1 in
      ({| ds := s'; dt := (n, o) :: t1; dseen := dseen st |}, RFd n)
  | DRet s' seen' r => ({| ds := s'; dt := reloc (NPB (ds st)) (NPB s') (dt st); dseen := seen' |}, r)
  | DClose fd => ({| ds := ds st; dt := tdel (dt st) fd; dseen := zrem fd (dseen st) |}, RUnit)
  end.

Fixpoint drun {A} (st : dst) (p : prog A) : doutcome A :=
  match p with
  | Ret a => DDone st a
  | Call c k => let (st', r) := danswer st c in drun st' (k r)
  | Panic site => DPanicked site
  | OutOfFuel => DNoFuel
  end.

(* ---- tie T2d: recorded real answers against [dsem], the tree evolving ------------------ *)

Definition dtracked (st : dst) (c : call) : bool :=
  match c with
  | Mkdirat fd _ _ | Mknodat fd _ _ _ | Unlinkat fd _ _ | Symlinkat _ fd _ | Getdents fd | FcntlGetfl fd =>
      match tget (dt st) fd with Some _ => true | None => false end
  | Linkat fd1 _ fd2 _ _ | Renameat fd1 _ fd2 _ | Renameat2 fd1 _ fd2 _ _ =>
      match tget (dt st) fd1, tget (dt st) fd2 with Some _, Some _ => true | _, _ => false end
  | _ => tracked_call (dt st) c
  end.

Fixpoint bsort_insert (x : bytes) (l : list bytes) : list bytes :=
  match l with
  | [] => [x]
  | y :: r => if (fix le (a c : bytes) : bool :=
                    match a, c with
                    | [], _ => true
                    | _ :: _, [] => false
                    | p :: a', q :: c' => if N.ltb p q then true else if N.ltb q p then false else le a' c'
                    end) x y then x :: l else y :: bsort_insert x r
  end.
Definition bsort (l : list bytes) : list bytes := fold_right bsort_insert [] l.
Fixpoint beq_list (x y : list bytes) : bool :=
  match x, y with
  | [], [] => true
  | a :: x', c :: y' => beq a c && beq_list x' y'
  | _, _ => false
  end.

Definition dresp_agrees (model real : resp) : bool :=
  match model, real with
  | RDents x, RDents y => beq_list (bsort x) (bsort y)
  | RNum x, RNum y => Z.eqb x y
  | _, _ => resp_agrees model real
  end.

(* (index of the first disagreement + 1 or 0, calls compared, index + 1 of the call at which the
   real execution left the model or 0, the final state) *)
Fixpoint dagree_trace (st : dst) (tr : list (call * resp)) (i compared : N) : N * N * N * dst :=
  match tr with
  | [] => (0, compared, 0, st)
  | (c, r) :: rest =>
      let forget (st : dst) := match r with RFd n => {| ds := ds st; dt := tdel (dt st) n; dseen := zrem n (dseen st) |} | _ => st end in
      if is_procfs_ctor c then
        dagree_trace (match r with
                      | RFd n => {| ds := ds st; dt := (n, NPB (ds st)) :: tdel (dt st) n; dseen := dseen st |}
                      | _ => st end) rest (i + 1) compared
      else if negb (dtracked st c) then dagree_trace (forget st) rest (i + 1) compared
      else match dsem st c, r with
           | DNew s' o, RFd n =>
               dagree_trace {| ds := s'; dt := (n, o) :: tdel (reloc (NPB (ds st)) (NPB s') (dt st)) n; dseen := zrem n (dseen st) |}
                            rest (i + 1) (compared + 1)
           | DNew _ _, _ => (i + 1, compared, 0, st)
           | DClose fd, _ => dagree_trace {| ds := ds st; dt := tdel (dt st) fd; dseen := zrem fd (dseen st) |} rest (i + 1) (compared + 1)
           | DRet s' seen' (RErr e), _ =>
               if N.eqb e ENOSYS then
                 (* outside the model: harmless if the real call failed or cannot change the tree *)
                 match r with
                 | RErr _ => dagree_trace (forget st) rest (i + 1) compared
                 | _ => match c with
                        | Mkdirat _ _ _ | Mknodat _ _ _ _ | Unlinkat _ _ _ | Symlinkat _ _ _ | Linkat _ _ _ _ _
                        | Renameat _ _ _ _ | Renameat2 _ _ _ _ _ => (0, compared, i + 1, st)
                        | Openat _ _ fl _ => if has fl O_CREAT then (0, compared, i + 1, st) else dagree_trace (forget st) rest (i + 1) compared
                        | _ => dagree_trace (forget st) rest (i + 1) compared
                        end
                 end
               else if dresp_agrees (RErr e) r then dagree_trace st rest (i + 1) (compared + 1)
               else (i + 1, compared, 0, st)
           | DRet s' seen' m, _ =>
               if dresp_agrees m r
               then dagree_trace {| ds := s'; dt := reloc (NPB (ds st)) (NPB s') (dt st); dseen := seen' |} rest (i + 1) (compared + 1)
               else (i + 1, compared, 0, st)
           end
  end.

End Dyn.

(* the tree as the harness sees it: every entry reachable from the root, as (path components, kind code);
   kind codes: 0 dir, 1 file, 2 symlink, 3 fifo, 4 socket, 5 character device *)
Definition kind_code (k : FSModel.kind) : N :=
  match k with
  | FSModel.KDir => 0 | FSModel.KReg => 1 | FSModel.KLnk _ => 2 | FSModel.KFifo => 3 | FSModel.KSock => 4 | FSModel.KChr => 5
  end.
Fixpoint dump_f (s : fs) (fuel : nat) (d : nat) (prefix : list bytes) : list (list bytes * N * bytes) :=
  match fuel with
  | O => []
  | S f =>
      flat_map (fun e : ent =>
                  if Nat.eqb (ent_dir e) d then
                    let p := prefix ++ [ent_name e] in
                    let k := FSModel.kind_of s (ent_obj e) in
                    (p, kind_code k, match k with FSModel.KLnk body => body | _ => [] end)
                      :: (if is_dir s (ent_obj e) then dump_f s f (ent_obj e) p else [])
                  else []) (ents s)
  end.
Definition dump (s : fs) : list (list bytes * N * bytes) := dump_f s (length (kinds s)) ROOT [].

(* encodings for the harness (lists of Z): [count; per entry: number of components; per component:
   length, bytes; kind code; body length, body bytes] *)
Definition enc_bytes (x : bytes) : list Z := Z.of_nat (length x) :: map Z.of_N x.
Definition enc_dump (l : list (list bytes * N * bytes)) : list Z :=
  Z.of_nat (length l) ::
  flat_map (fun e => let '(p, k, body) := e in
                     Z.of_nat (length p) :: flat_map enc_bytes p ++ Z.of_N k :: enc_bytes body) l.
(* tie T2d, one case: [first disagreement + 1 | 0; calls compared; left the model at + 1 | 0] ++ the final tree *)
Definition dagree_case (rp : bytes) (s : fs) (t : fdt) (tr : list (call * resp)) : list Z :=
  let '(bad, n, lft, st) := dagree_trace rp {| ds := s; dt := t; dseen := [] |} tr 0 0 in
  [Z.of_N bad; Z.of_N n; Z.of_N lft] ++ enc_dump (dump (ds st)).

(* tie T3: the model PROGRAM executed on the model KERNEL, for comparison with the library on the real kernel:
   [code; x; y] ++ the final tree.  code 0: Ok (x = object behind a returned descriptor, or -1); 1: Err (x = kind, y = errno);
   7: panic (x = site); 8: out of fuel *)
Definition enc_ekind (e : ekind) : list Z :=
  match e with
  | OsError n => [1; Z.of_N n]%Z | OsErrorNone => [1; -1]%Z | InvalidArgument => [2; 22]%Z | SafetyViolation => [3; 18]%Z
  | NotSupported => [4; 0]%Z | NotImplemented => [5; 38]%Z | InternalError => [6; 0]%Z
  end.
Definition enc_exec {A} (obj : dst -> A -> Z) (o : doutcome (result A ekind)) : list Z :=
  match o with
  | DDone st (Ok a) => [0; obj st a; 0]%Z ++ enc_dump (dump (ds st))
  | DDone st (Err e) => (1 :: enc_ekind e)%Z ++ enc_dump (dump (ds st))
  | DPanicked site => [7; Z.of_N site; 0]%Z
  | DNoFuel => [8; 0; 0]%Z
  end.
Definition obj_of_fd (st : dst) (fd : Z) : Z := match tget (dt st) fd with Some o => Z.of_nat o | None => (-2)%Z end.
Definition obj_none {A} (st : dst) (a : A) : Z := (-1)%Z.
