(* LinuxAbi.v -- numeric values of the libc / kernel constants the library
   names symbolically (x86-64 Linux).  Hand-written table; validated on every
   run by tie T1 (recorded traces carry the numeric values). *)
From Coq Require Export NArith ZArith.
Open Scope N_scope.

Definition O_RDONLY := 0.      Definition O_WRONLY := 1.       Definition O_RDWR := 2.
Definition O_ACCMODE := 3.
Definition O_CREAT := 64.      Definition O_EXCL := 128.       Definition O_NOCTTY := 256.
Definition O_TRUNC := 512.     Definition O_APPEND := 1024.    Definition O_NONBLOCK := 2048.
Definition O_DSYNC := 4096.    Definition O_DIRECT := 16384.   Definition O_LARGEFILE := 32768.
Definition O_DIRECTORY := 65536. Definition O_NOFOLLOW := 131072. Definition O_NOATIME := 262144.
Definition O_CLOEXEC := 524288.  Definition O_SYNC := 1052672.    Definition O_PATH := 2097152.
Definition O_TMPFILE := 4259840. (* __O_TMPFILE | O_DIRECTORY *)

Definition AT_SYMLINK_NOFOLLOW := 256. Definition AT_REMOVEDIR := 512.
Definition AT_SYMLINK_FOLLOW := 1024.  Definition AT_NO_AUTOMOUNT := 2048.
Definition AT_EMPTY_PATH := 4096.      Definition AT_RECURSIVE := 32768.

Definition RESOLVE_NO_XDEV := 1.   Definition RESOLVE_NO_MAGICLINKS := 2.
Definition RESOLVE_NO_SYMLINKS := 4. Definition RESOLVE_BENEATH := 8.
Definition RESOLVE_IN_ROOT := 16.  Definition RESOLVE_CACHED := 32.

Definition S_IFMT := 61440.  Definition S_IFSOCK := 49152. Definition S_IFLNK := 40960.
Definition S_IFREG := 32768. Definition S_IFBLK := 24576.  Definition S_IFDIR := 16384.
Definition S_IFCHR := 8192.  Definition S_IFIFO := 4096.
Definition S_ISVTX := 512.   Definition S_IWOTH := 2.
Definition S_ISUID := 2048.  Definition S_ISGID := 1024.

Definition PROC_SUPER_MAGIC := 40864.   (* 0x9fa0 *)
Definition STATX_MNT_ID := 4096.        (* 0x1000 *)

Definition FSOPEN_CLOEXEC := 1.   Definition FSMOUNT_CLOEXEC := 1.
Definition MOUNT_ATTR_NOSUID := 2. Definition MOUNT_ATTR_NODEV := 4. Definition MOUNT_ATTR_NOEXEC := 8.
Definition OPEN_TREE_CLONE := 1.  Definition OPEN_TREE_CLOEXEC := 524288.

Definition RENAME_NOREPLACE := 1. Definition RENAME_EXCHANGE := 2. Definition RENAME_WHITEOUT := 4.

Definition PATH_MAX := 4096.
Definition INT_MIN : Z := (-2147483648)%Z.

(* bit-set helpers over N *)
Definition has (flags bit : N) : bool := N.eqb (N.land flags bit) bit.
Definition intersects (flags bits : N) : bool := negb (N.eqb (N.land flags bits) 0).
Definition without (flags bits : N) : N := N.ldiff flags bits.
(* OpenFlags::contains(c) for a non-empty c; an empty c means "no such check in the source" *)
Definition has_nz (flags c : N) : bool := negb (N.eqb c 0) && has flags c.
