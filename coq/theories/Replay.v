(* Replay.v -- tie T1: replay a recorded system-call trace through a model
   program.  The model must issue the same call at every index (descriptor
   numbers, names, flags, modes) and finish exactly when the trace ends. *)
From PV Require Export RootM.
Open Scope N_scope.

Definition zeqb := Z.eqb.

Definition call_eqb (x y : call) : bool :=
  match x, y with
  | Openat f p fl m, Openat f' p' fl' m' => zeqb f f' && beq p p' && N.eqb fl fl' && N.eqb m m'
  | Openat2 f p fl m r, Openat2 f' p' fl' m' r' =>
      zeqb f f' && beq p p' && N.eqb fl fl' && N.eqb m m' && N.eqb r r'
  | Readlinkat f p, Readlinkat f' p' => zeqb f f' && beq p p'
  | Fstatat f p a, Fstatat f' p' a' => zeqb f f' && beq p p' && N.eqb a a'
  | Statx f p a m, Statx f' p' a' m' => zeqb f f' && beq p p' && N.eqb a a' && N.eqb m m'
  | Fstatfs f, Fstatfs f' => zeqb f f'
  | Faccessat f p m a, Faccessat f' p' m' a' => zeqb f f' && beq p p' && N.eqb m m' && N.eqb a a'
  | Mkdirat f p m, Mkdirat f' p' m' => zeqb f f' && beq p p' && N.eqb m m'
  | Mknodat f p m d, Mknodat f' p' m' d' => zeqb f f' && beq p p' && N.eqb m m' && N.eqb d d'
  | Unlinkat f p a, Unlinkat f' p' a' => zeqb f f' && beq p p' && N.eqb a a'
  | Linkat f p g q a, Linkat f' p' g' q' a' =>
      zeqb f f' && beq p p' && zeqb g g' && beq q q' && N.eqb a a'
  | Symlinkat t f p, Symlinkat t' f' p' => beq t t' && zeqb f f' && beq p p'
  | Renameat f p g q, Renameat f' p' g' q' => zeqb f f' && beq p p' && zeqb g g' && beq q q'
  | Renameat2 f p g q a, Renameat2 f' p' g' q' a' =>
      zeqb f f' && beq p p' && zeqb g g' && beq q q' && N.eqb a a'
  | FcntlGetfl f, FcntlGetfl f' => zeqb f f'
  | Getdents f, Getdents f' => zeqb f f'
  | DupCloexec f, DupCloexec f' => zeqb f f'
  | Close f, Close f' => zeqb f f'
  | Read f, Read f' => zeqb f f'
  | Fsopen n fl, Fsopen n' fl' => beq n n' && N.eqb fl fl'
  | FsconfigSetString f k v, FsconfigSetString f' k' v' => zeqb f f' && beq k k' && beq v v'
  | FsconfigCreate f, FsconfigCreate f' => zeqb f f'
  | Fsmount f fl a, Fsmount f' fl' a' => zeqb f f' && N.eqb fl fl' && N.eqb a a'
  | OpenTree f p fl, OpenTree f' p' fl' => zeqb f f' && beq p p' && N.eqb fl fl'
  | Readlink p, Readlink p' => beq p p'
  | Geteuid, Geteuid => true
  | Gettid, Gettid => true
  | Rand, Rand => true
  | _, _ => false
  end.

Definition trace := list (call * resp).

Inductive replay (A : Type) :=
| RDone (a : A) (idx : nat)              (* model and trace finished together *)
| RExtra (a : A) (idx : nat)             (* model finished, trace has more calls *)
| RMismatch (idx : nat) (expected : call)(* model wanted [expected] at idx, trace differs *)
| RShort (idx : nat) (expected : call)   (* trace ended, model wants more *)
| RPanic (site : N) (idx : nat)
| RFuel (idx : nat).
Arguments RDone {A}. Arguments RExtra {A}. Arguments RMismatch {A}.
Arguments RShort {A}. Arguments RPanic {A}. Arguments RFuel {A}.

Fixpoint run_trace {A} (p : prog A) (t : trace) (idx : nat) : replay A :=
  match p with
  | Ret a => match t with [] => RDone a idx | _ => RExtra a idx end
  | Panic s => RPanic s idx
  | OutOfFuel => RFuel idx
  | Call c k =>
      match t with
      | [] => RShort idx c
      | (c', r) :: t' => if call_eqb c c' then run_trace (k r) t' (S idx) else RMismatch idx c
      end
  end.

(* ---- compact encodings, one list of Z per case, parsed by the harness ---- *)

Definition enc_kind (k : ekind) : list Z :=
  match k with
  | OsError e => [1; Z.of_N e]
  | OsErrorNone => [1; 0]
  | InvalidArgument => [2; 0]
  | SafetyViolation => [3; 0]
  | NotSupported => [4; 0]
  | NotImplemented => [5; 0]
  | InternalError => [6; 0]
  end%Z.

Definition enc_bytes (bs : bytes) : list Z := Z.of_nat (length bs) :: map Z.of_N bs.

Definition enc_res {A} (enc : A -> list Z) (r : result A ekind) : list Z :=
  match r with Ok a => 0%Z :: enc a | Err k => 1%Z :: enc_kind k end.

Definition enc_fd (fd : Z) : list Z := [fd].
Definition enc_unit (_ : unit) : list Z := [].
Definition enc_lookup (l : lookup) : list Z :=
  match l with
  | Complete fd => [0; fd]%Z
  | Partial fd rem e => ([1; fd] ++ enc_kind e ++ enc_bytes rem)%Z
  end.

(* code: 0 done, 1 extra, 2 mismatch, 3 short, 4 panic, 5 fuel *)
Definition enc_replay {A} (enc : A -> list Z) (r : replay A) : list Z :=
  match r with
  | RDone a i => [0; Z.of_nat i]%Z ++ enc a
  | RExtra a i => [1; Z.of_nat i]%Z ++ enc a
  | RMismatch i _ => [2; Z.of_nat i]%Z
  | RShort i _ => [3; Z.of_nat i]%Z
  | RPanic s i => [4; Z.of_nat i; Z.of_N s]%Z
  | RFuel i => [5; Z.of_nat i]%Z
  end.

(* A short textual tag of the call the model expected (for diagnostics). *)
Definition call_tag (c : call) : Z :=
  match c with
  | Openat _ _ _ _ => 1 | Openat2 _ _ _ _ _ => 2 | Readlinkat _ _ => 3 | Fstatat _ _ _ => 4
  | Statx _ _ _ _ => 5 | Fstatfs _ => 6 | Faccessat _ _ _ _ => 7 | Mkdirat _ _ _ => 8
  | Mknodat _ _ _ _ => 9 | Unlinkat _ _ _ => 10 | Linkat _ _ _ _ _ => 11 | Symlinkat _ _ _ => 12
  | Renameat _ _ _ _ => 13 | Renameat2 _ _ _ _ _ => 14 | FcntlGetfl _ => 15 | Getdents _ => 16
  | DupCloexec _ => 17 | Close _ => 18 | Read _ => 19 | Fsopen _ _ => 20
  | FsconfigSetString _ _ _ => 21 | FsconfigCreate _ => 22 | Fsmount _ _ _ => 23
  | OpenTree _ _ _ => 24 | Readlink _ => 25 | Geteuid => 26 | Gettid => 27 | Rand => 28
  end%Z.

Definition call_fd (c : call) : Z :=
  match c with
  | Openat f _ _ _ | Openat2 f _ _ _ _ | Readlinkat f _ | Fstatat f _ _ | Statx f _ _ _
  | Fstatfs f | Faccessat f _ _ _ | Mkdirat f _ _ | Mknodat f _ _ _ | Unlinkat f _ _
  | Linkat f _ _ _ _ | Symlinkat _ f _ | Renameat f _ _ _ | Renameat2 f _ _ _ _
  | FcntlGetfl f | Getdents f | DupCloexec f | Close f | Read f
  | FsconfigSetString f _ _ | FsconfigCreate f | Fsmount f _ _ | OpenTree f _ _ => f
  | _ => (-1)%Z
  end.

Definition enc_replay_diag {A} (enc : A -> list Z) (r : replay A) : list Z :=
  match r with
  | RMismatch i c => [2; Z.of_nat i; call_tag c; call_fd c]%Z
  | RShort i c => [3; Z.of_nat i; call_tag c; call_fd c]%Z
  | _ => enc_replay enc r
  end.
