(* FSModel.v -- an abstract static file system (objects, directory entries,
   parents), the kernel's in-root walk as a reference semantics ([kwalk]) and a
   pure transcription of what the emulated resolver computes on a tree that is
   not being modified ([ewalk]).  Executable: the harness builds the same trees
   on disk and in this model and compares outcomes (tie T2). *)
From PV Require Export Bytes Path LinuxAbi Consts.
Open Scope N_scope.

Inductive kind := KDir | KReg | KLnk (body : bytes) | KFifo | KSock | KChr.

Record fs := {
  kinds : list kind;                       (* object id = index; 0 is the root *)
  parents : list nat;                      (* for directories: the directory holding them *)
  ents : list (nat * bytes * nat);         (* (directory, name, child) *)
}.

Definition kind_of (s : fs) (o : nat) : kind := nth o (kinds s) KReg.
Definition parent_of (s : fs) (o : nat) : nat := nth o (parents s) 0%nat.
Definition is_dir (s : fs) (o : nat) : bool := match kind_of s o with KDir => true | _ => false end.
Definition link_body (s : fs) (o : nat) : option bytes := match kind_of s o with KLnk b => Some b | _ => None end.

Fixpoint find_ent (es : list (nat * bytes * nat)) (d : nat) (n : bytes) : option nat :=
  match es with
  | [] => None
  | (d', n', c) :: t => if Nat.eqb d d' && beq n n' then Some c else find_ent t d n
  end.
Definition lookup (s : fs) (d : nat) (n : bytes) : option nat := find_ent (ents s) d n.

Definition ROOT : nat := 0%nat.

(* errno values *)
Definition E_NOENT := 2. Definition E_NOTDIR := 20. Definition E_LOOP := 40. Definition E_NAMETOOLONG := 36.
Definition E_ACCES := 13. Definition E_INVAL := 22.

Inductive wres := WOk (o : nat) | WErr (e : N) | WBudget.      (* WBudget: link budget exhausted (ELOOP) *)

Definition name_err (c : bytes) : N := if Nat.ltb 255 (length c) then E_NAMETOOLONG else E_NOENT.

(* ---- the kernel: openat2(RESOLVE_IN_ROOT|RESOLVE_NO_MAGICLINKS[|NO_SYMLINKS], O_PATH[|O_NOFOLLOW]) ----
   a component-queue machine; [budget] counts the links that may still be
   followed (MAXSYMLINKS = 40); ".." is clamped at the root; absolute link
   bodies restart at the root; "" and "." only require a directory. *)
Definition kbody (s : fs) (nf nosym : bool) (follow : option (nat -> list bytes -> wres))
  : nat -> list bytes -> wres :=
  fix inner (cur : nat) (comps : list bytes) : wres :=
    match comps with
    | [] => WOk cur
    | c :: rest =>
        if negb (is_dir s cur) then WErr E_NOTDIR
        else if is_nil c || is_dot c then inner cur rest
        else if is_dotdot c then inner (if Nat.eqb cur ROOT then ROOT else parent_of s cur) rest
        else match lookup s cur c with
             | None => WErr (name_err c)
             | Some d =>
                 match link_body s d with
                 | None => inner d rest
                 | Some body =>
                     if is_nil rest && nf then WOk d
                     else if nosym then WErr E_LOOP
                     else match follow with
                          | None => WBudget
                          | Some go => go (if is_abs body then ROOT else cur) (raw_components body ++ rest)
                          end
                 end
             end
    end.

Fixpoint kwalk_q (s : fs) (nf nosym : bool) (budget : nat) : nat -> list bytes -> wres :=
  kbody s nf nosym (match budget with O => None | S b => Some (kwalk_q s nf nosym b) end).

Definition KERNEL_LINKS : nat := 40.
Definition kwalk (s : fs) (p : bytes) (nf nosym : bool) : wres :=
  if is_nil p then WErr E_NOENT else kwalk_q s nf nosym KERNEL_LINKS ROOT (raw_components p).

(* ---- the emulated resolver on a static tree (imp.rs do_resolve) --------------------
   differences that are deliberately kept visible: the root is recognised by
   the *expected path* being "/" ([depth] = its length), not by identity; the
   budget is MAX_SYMLINK_TRAVERSALS - 1 followed links; an empty path is ENOENT
   only if the source says so (T0: EMPTY_PATH_IS_ENOENT). *)
Definition ebody (s : fs) (nf nosym : bool) (follow : option (nat -> nat -> list bytes -> wres))
  : nat -> nat -> list bytes -> wres :=
  fix inner (cur depth : nat) (comps : list bytes) : wres :=
    match comps with
    | [] => WOk cur
    | c :: rest =>
        if is_nil c || is_dot c then
          (* openat(cur, ".") : needs a directory *)
          if is_dir s cur then inner cur depth rest else WErr E_NOTDIR
        else if is_dotdot c then
          match depth with
          | O => inner ROOT O rest                       (* expected_path.pop() failed: at the root *)
          | S d' => if is_dir s cur then inner (parent_of s cur) d' rest else WErr E_NOTDIR
          end
        else if negb (is_dir s cur) then WErr E_NOTDIR
        else match lookup s cur c with
             | None => WErr (name_err c)
             | Some d =>
                 match link_body s d with
                 | None => inner d (S depth) rest
                 | Some body =>
                     if is_nil rest && nf then WOk d
                     else if nosym then WErr E_LOOP
                     else match follow with
                          | None => WBudget
                          | Some go => if is_abs body
                                       then go ROOT O (raw_components body ++ rest)
                                       else go cur depth (raw_components body ++ rest)
                          end
                 end
             end
    end.

Fixpoint ewalk_q (s : fs) (nf nosym : bool) (budget : nat) : nat -> nat -> list bytes -> wres :=
  ebody s nf nosym (match budget with O => None | S b => Some (ewalk_q s nf nosym b) end).

Definition EMU_LINKS : nat := N.to_nat MAX_SYMLINK_TRAVERSALS - 1.
Definition ewalk (s : fs) (p : bytes) (nf nosym : bool) : wres :=
  if EMPTY_PATH_IS_ENOENT && is_nil p then WErr E_NOENT
  else ewalk_q s nf nosym EMU_LINKS ROOT O (raw_components p).

(* ---- building a model tree from the harness' creation list -------------------------- *)

Inductive mkop :=
| MkDir (path : list bytes) | MkFile (path : list bytes) | MkLnk (path : list bytes) (body : bytes)
| MkFifo (path : list bytes) | MkSock (path : list bytes) | MkChr (path : list bytes)
| MkHard (path target : list bytes).

Definition empty_fs : fs := {| kinds := [KDir]; parents := [ROOT]; ents := [] |}.

(* plain descent through real directories (creation paths never go through links) *)
Fixpoint descend (s : fs) (cur : nat) (p : list bytes) : option nat :=
  match p with
  | [] => Some cur
  | c :: rest => match lookup s cur c with Some d => descend s d rest | None => None end
  end.

Fixpoint split_last {A} (l : list A) : option (list A * A) :=
  match l with
  | [] => None
  | [x] => Some ([], x)
  | x :: t => match split_last t with Some (i, z) => Some (x :: i, z) | None => None end
  end.

Definition add_obj (s : fs) (dir : nat) (name : bytes) (k : kind) : fs :=
  let id := length (kinds s) in
  {| kinds := kinds s ++ [k]; parents := parents s ++ [dir]; ents := ents s ++ [(dir, name, id)] |}.

Definition apply_mk (s : fs) (o : mkop) : fs :=
  let create path k :=
    match split_last path with
    | Some (dirp, name) => match descend s ROOT dirp with
                           | Some d => match lookup s d name with Some _ => s | None => add_obj s d name k end
                           | None => s end
    | None => s end in
  match o with
  | MkDir p => create p KDir
  | MkFile p => create p KReg
  | MkLnk p b => create p (KLnk b)
  | MkFifo p => create p KFifo
  | MkSock p => create p KSock
  | MkChr p => create p KChr
  | MkHard p t =>
      match split_last p, descend s ROOT t with
      | Some (dirp, name), Some target =>
          match descend s ROOT dirp with
          | Some d => match lookup s d name with
                      | Some _ => s
                      | None => {| kinds := kinds s; parents := parents s; ents := ents s ++ [(d, name, target)] |}
                      end
          | None => s end
      | _, _ => s
      end
  end.

Definition build (ops : list mkop) : fs := fold_left apply_mk ops empty_fs.

(* encodings for the harness *)
Definition enc_wres (r : wres) : list Z :=
  match r with
  | WOk o => [0; Z.of_nat o]%Z
  | WErr e => [1; Z.of_N e]%Z
  | WBudget => [2; 40]%Z      (* ELOOP because the link budget ran out *)
  end.
