(* ErrTable.v -- model of /repo/src/capi/error.rs: the table of stored errors
   behind the C API's negative error ids.  Every operation is one atomic step
   (the Mutex).  [draws] is the stream of candidates the random generator
   produces for one store_error call; it is arbitrary. *)
From PV Require Export RootM.
Open Scope Z_scope.

Section ErrTable.
Variable E : Type.                       (* the stored error *)

Definition table := list (Z * E).        (* association list, most recent first *)

Fixpoint tlookup (id : Z) (t : table) : option E :=
  match t with
  | [] => None
  | (k, e) :: r => if Z.eqb k id then Some e else tlookup id r
  end.

Fixpoint tremove (id : Z) (t : table) : table :=
  match t with
  | [] => []
  | (k, e) :: r => if Z.eqb k id then tremove id r else (k, e) :: tremove id r
  end.

(* gen_range(CReturn::MIN ..= ERR_ID_MAX) *)
Definition in_range (d : Z) : bool := Z.leb ERR_ID_MIN d && Z.leb d ERR_ID_MAX.

(* store_error: loop { idx = draw; if vacant { insert; return idx } } *)
Fixpoint store (draws : list Z) (e : E) (t : table) : option (Z * table) :=
  match draws with
  | [] => None                          (* the generator stream ended: fuel *)
  | d :: rest =>
      match tlookup d t with
      | Some _ => store rest e t
      | None => Some (d, (d, e) :: t)
      end
  end.

(* pathrs_errorinfo: remove(&id) *)
Definition take (id : Z) (t : table) : option E * table := (tlookup id t, tremove id t).

Inductive op := OStore (draws : list Z) (e : E) | OTake (id : Z).
Inductive out := RStored (id : Z) | RStuck | RTaken (e : option E).

Definition step (t : table) (o : op) : table * out :=
  match o with
  | OStore draws e =>
      match store draws e t with
      | Some (id, t') => (t', RStored id)
      | None => (t, RStuck)
      end
  | OTake id => let '(r, t') := take id t in (t', RTaken r)
  end.

(* run a history (any interleaving of any number of threads is one such list) *)
Fixpoint run (t : table) (h : list op) : table * list out :=
  match h with
  | [] => (t, [])
  | o :: r => let '(t1, x) := step t o in let '(t2, xs) := run t1 r in (t2, x :: xs)
  end.

(* the abstract specification: a partial map with fresh keys *)
Definition amap := Z -> option E.
Definition aempty : amap := fun _ => None.
Definition aset (m : amap) (k : Z) (e : E) : amap := fun x => if Z.eqb x k then Some e else m x.
Definition adel (m : amap) (k : Z) : amap := fun x => if Z.eqb x k then None else m x.
Definition abs (t : table) : amap := fun k => tlookup k t.

End ErrTable.

(* CError::from: saved_errno = kind.errno().unwrap_or(0).unsigned_abs() *)
Definition saved_errno (k : ekind) : N := match kind_errno k with Some e => e | None => 0%N end.
