(* OpathM.v -- transcription of /repo/src/resolvers/opath/imp.rs and
   symlink_stack.rs: the emulated (O_PATH) in-root resolver. *)
From PV Require Export ProcfsM.
Open Scope N_scope.

(* ---- symlink_stack.rs ---------------------------------------------------- *)

Record sentry := { se_dir : Z; se_rem : bytes; se_parts : list bytes }.
Definition sstack := list sentry.          (* head = front of the VecDeque *)
Inductive sserr := EmptyStack | BrokenStackEmpty | BrokenStackWrong.

Definition noop_part (p : bytes) : bool := is_nil p || is_dot p.

Definition ss_do_push (st : sstack) (dir : Z) (rem target : bytes) : sstack :=
  st ++ [{| se_dir := dir; se_rem := rem;
            se_parts := filter (fun p => negb (noop_part p)) (raw_components target) |}].

(* split a non-empty list into (init, last) *)
Fixpoint unsnoc {A} (l : list A) : option (list A * A) :=
  match l with
  | [] => None
  | [x] => Some ([], x)
  | x :: r => match unsnoc r with Some (i, t) => Some (x :: i, t) | None => None end
  end.

Definition ss_do_pop (st : sstack) (part : bytes) : result sstack sserr :=
  if is_dot part then Ok st else
  match unsnoc st with
  | None => Err EmptyStack
  | Some (init, tail) =>
      match se_parts tail with
      | [] => Err BrokenStackEmpty
      | expected :: ps =>
          if beq expected part
          then Ok (init ++ [{| se_dir := se_dir tail; se_rem := se_rem tail; se_parts := ps |}])
          else Err BrokenStackWrong
      end
  end.

(* the `while` loop of pop_part: drop tail entries without unwalked parts;
   returns the directories whose Rc reference is released, in order *)
Fixpoint ss_strip (fuel : nat) (st : sstack) (released : list Z) : sstack * list Z :=
  match fuel with
  | O => (st, released)
  | S f =>
      match unsnoc st with
      | None => (st, released)
      | Some (init, tail) =>
          if is_nil (se_parts tail) then ss_strip f init (released ++ [se_dir tail])
          else (st, released)
      end
  end.

Definition ss_pop_part (st : sstack) (part : bytes) : result (sstack * list Z) sserr :=
  match ss_do_pop st part with
  | Err EmptyStack => Ok (st, [])
  | Err e => Err e
  | Ok st' => Ok (ss_strip (length st') st' [])
  end.

Definition ss_swap_link (st : sstack) (part : bytes) (dir : Z) (rem target : bytes)
  : result sstack sserr :=
  match ss_do_pop st part with
  | Err EmptyStack => Ok (ss_do_push st dir rem target)
  | Ok st' => Ok (ss_do_push st' dir rem target)
  | Err e => Err e
  end.

(* ---- Rc<OwnedFd> reference counts --------------------------------------- *)

Definition refs := list (Z * nat).

Fixpoint rc_get (fd : Z) (r : refs) : nat :=
  match r with [] => 0%nat | (f, n) :: t => if Z.eqb f fd then n else rc_get fd t end.
Fixpoint rc_set (fd : Z) (n : nat) (r : refs) : refs :=
  match r with
  | [] => [(fd, n)]
  | (f, m) :: t => if Z.eqb f fd then (fd, n) :: t else (f, m) :: rc_set fd n t
  end.
Definition rc_inc (fd : Z) (r : refs) : refs := rc_set fd (S (rc_get fd r)) r.

(* drop one reference; close the descriptor when it was the last one *)
Definition rc_drop (fd : Z) (r : refs) : prog refs :=
  match rc_get fd r with
  | O => Ret r                         (* not tracked: nothing to do *)
  | S O => close fd ;;; Ret (rc_set fd 0 r)
  | S n => Ret (rc_set fd n r)
  end.

Fixpoint rc_drop_all (fds : list Z) (r : refs) : prog refs :=
  match fds with
  | [] => Ret r
  | fd :: t => r' <- rc_drop fd r ;; rc_drop_all t r'
  end.

(* ---- imp.rs -------------------------------------------------------------- *)

Inductive lookup :=
| Complete (fd : Z)
| Partial (fd : Z) (remaining : bytes) (err : ekind).

Record wst := {
  w_root : Z;                 (* the dup'ed root, Rc *)
  w_cur : Z;                  (* current, Rc (may alias w_root) *)
  w_exp : list bytes;         (* expected_path below "/" *)
  w_refs : refs;
  w_stack : option sstack;    (* Some for resolve_partial *)
}.

Record wres := { r_out : result lookup ekind; r_refs : refs; r_stack : option sstack }.

Section Opath.
Variable fz : nat.
Variable cfg_openat2 : bool.
Variable pfuel : nat.              (* fuel for ProcfsHandle::open recursion *)
Variable gh : phandle.             (* GLOBAL_PROCFS_HANDLE (already initialised) *)
Variable sysctl_ps : N.            (* cached fs.protected_symlinks *)

(* PathBuf rendering of root_path.join("." + components): the root path, then
   "/"+c for every component (PathBuf::push does not normalise) -- except that
   joining onto a root path that already ends in "/" (the fs root) adds no
   separator. *)
Fixpoint push_all (acc : bytes) (cs : list bytes) : bytes :=
  match cs with
  | [] => acc
  | c :: t =>
      let acc' := match rev acc with
                  | x :: _ => if N.eqb x SLASH then acc ++ c else acc ++ SLASH :: c
                  | [] => c
                  end in
      push_all acc' t
  end.

(* check_current (imp.rs:67-132) *)
Definition check_current (current root : Z) (expected : list bytes) : prog (result unit ekind) :=
  root_path <-? as_unsafe_path fz cfg_openat2 pfuel gh root ;;
  let full_path := push_all root_path ([DOT] :: expected) in
  current_path <-? as_unsafe_path fz cfg_openat2 pfuel gh current ;;
  if negb (path_eq current_path full_path) then Ret (Err SafetyViolation) else
  new_root_path <-? as_unsafe_path fz cfg_openat2 pfuel gh root ;;
  if negb (path_eq root_path new_root_path) then Ret (Err SafetyViolation) else
  Ret (Ok tt).

(* may_follow_link (imp.rs:148-173) *)
Definition may_follow_link (dir link : Z) : prog (result unit ekind) :=
  Call Geteuid (fun ru =>
    let fsuid := z2n (as_num ru) in
    dir_meta <-? os (w_fstatat fz dir []) ;;
    link_meta <-? os (w_fstatat fz link []) ;;
    if N.eqb sysctl_ps 0
       || N.eqb (st_uid link_meta) fsuid
       || negb (N.eqb (N.land (st_mode dir_meta) STICKY_WRITABLE) STICKY_WRITABLE)
       || N.eqb (st_uid link_meta) (st_uid dir_meta)
    then Ret (Ok tt)
    else Ret (Err (OsError EACCES))).

(* is a link with [rest] still to walk in a trailing position?  nothing left, or (T0)
   nothing but empty components, i.e. trailing slashes *)
Definition ps_trailing (rest : list bytes) : bool :=
  if EMU_PS_SLASHES_TRAILING then forallb (@is_nil N) rest else is_nil rest.

Definition finish (st : wst) (refs' : refs) (stack' : option sstack) (out : result lookup ekind) : wres :=
  {| r_out := out; r_refs := refs'; r_stack := stack' |}.

(* early `?` return from inside the `Ok(next)` arm: drop next, current, root *)
Definition bail (st : wst) (next : option Z) (e : ekind) : prog wres :=
  (match next with Some n => close n | None => Ret tt end) ;;;
  r1 <- rc_drop (w_cur st) (w_refs st) ;;
  r2 <- rc_drop (w_root st) r1 ;;
  Ret (finish st r2 (w_stack st) (Err e)).

(* return Ok(Partial{handle: current, ..}): next (if any) and root are dropped *)
Definition ret_partial (st : wst) (next : option Z) (remaining : bytes) (e : ekind) : prog wres :=
  (match next with Some n => close n | None => Ret tt end) ;;;
  r1 <- rc_drop (w_root st) (w_refs st) ;;
  Ret (finish st r1 (w_stack st) (Ok (Partial (w_cur st) remaining e))).

(* current = <new Rc>; the old value of current is dropped *)
Definition set_cur (st : wst) (newfd : Z) (fresh : bool) (exp : list bytes) (stack : option sstack)
  : prog wst :=
  let refs1 := if fresh then rc_set newfd 1 (w_refs st) else rc_inc newfd (w_refs st) in
  refs2 <- rc_drop (w_cur st) refs1 ;;
  Ret {| w_root := w_root st; w_cur := newfd; w_exp := exp; w_refs := refs2; w_stack := stack |}.

Definition pop_exp (e : list bytes) : list bytes := removelast e.

(* stack.pop_part(&part) with the released Rc references dropped *)
Definition stack_pop_part (st : wst) (part : bytes)
  : prog (result (option sstack * refs) sserr) :=
  match w_stack st with
  | None => Ret (Ok (None, w_refs st))
  | Some ss =>
      match ss_pop_part ss part with
      | Err e => Ret (Err e)
      | Ok (ss', released) =>
          r <- rc_drop_all released (w_refs st) ;; Ret (Ok (Some ss', r))
      end
  end.

(* final check_current (imp.rs:451-456) and Ok(Complete(current)) *)
Definition final_check_gen (chk : Z -> Z -> list bytes -> prog (result unit ekind)) (st : wst) : prog wres :=
  r <- chk (w_cur st) (w_root st) (w_exp st) ;;
  match r with
  | Err e => bail st None e
  | Ok _ =>
      r1 <- rc_drop (w_root st) (w_refs st) ;;
      Ret (finish st r1 (w_stack st) (Ok (Complete (w_cur st))))
  end.
Definition final_check : wst -> prog wres := final_check_gen check_current.

(* one `Ok(next)`/`Err` round of the loop body for the component [part]
   (imp.rs:262-449); [inner] continues the loop, [follow] restarts it after a
   symlink body was spliced in. *)
Definition walk_open (chk : Z -> Z -> list bytes -> prog (result unit ekind)) (fin : wst -> prog wres)
           (nosym nofollow : bool)
           (follow : option (wst -> list bytes -> prog wres))
           (inner : wst -> list bytes -> prog wres)
           (remaining : bytes) (rest : list bytes) (st : wst) (part : bytes) : prog wres :=
  if has_slash part then bail st None SafetyViolation else
  r <- os (w_openat fz (w_cur st) part OPATH_WALK_FLAGS 0) ;;
  match r with
  | Err e => ret_partial st None remaining e
  | Ok next =>
      r <- (if is_dotdot part then chk next (w_root st) (w_exp st) else Ret (Ok tt)) ;;
      match r with
      | Err e => bail st (Some next) e
      | Ok _ =>
          r <- os (w_fstatat fz next []) ;;
          match r with
          | Err e => bail st (Some next) e
          | Ok meta =>
              if negb (is_symlink_mode (st_mode meta)) then
                r <- stack_pop_part st part ;;
                match r with
                | Err _ => bail st (Some next) InternalError
                | Ok (stack', refs') =>
                    st' <- set_cur {| w_root := w_root st; w_cur := w_cur st; w_exp := w_exp st;
                                      w_refs := refs'; w_stack := stack' |}
                                   next true (w_exp st) stack' ;;
                    inner st' rest
                end
              else if is_nil rest && nofollow then
                (* current = next.into(); break *)
                st' <- set_cur st next true (w_exp st) (w_stack st) ;;
                fin st'
              else if nosym then ret_partial st (Some next) remaining (OsError ELOOP)
              else
                (* fs.protected_symlinks: every followed link, or (T0) only links in a trailing position *)
                r <- (if EMU_PS_ONLY_TRAILING && negb (ps_trailing rest) then Ret (Ok tt)
                      else may_follow_link (w_cur st) next) ;;
                match r with
                | Err e => bail st (Some next) e
                | Ok _ =>
                    match follow with
                    | None => ret_partial st (Some next) remaining (OsError ELOOP)
                    | Some go =>
                        r <- os (w_readlinkat fz next []) ;;
                        match r with
                        | Err e => bail st (Some next) e
                        | Ok target =>
                            r <- (if is_abs target
                                  then is_magiclink_filesystem fz next
                                  else Ret (Ok false)) ;;
                            match r with
                            | Err e => bail st (Some next) e
                            | Ok true => bail st (Some next) (OsError ELOOP)
                            | Ok false =>
                                (* stack.swap_link(&part, (&current, remaining), target) *)
                                match (match w_stack st with
                                       | None => Ok (None, w_refs st)
                                       | Some ss =>
                                           match ss_swap_link ss part (w_cur st) remaining target with
                                           | Ok ss' => Ok (Some ss', rc_inc (w_cur st) (w_refs st))
                                           | Err e => Err e
                                           end
                                       end) with
                                | Err _ => bail st (Some next) InternalError
                                | Ok (stack', refs') =>
                                    let exp' := pop_exp (w_exp st) in
                                    let st1 := {| w_root := w_root st; w_cur := w_cur st; w_exp := exp';
                                                  w_refs := refs'; w_stack := stack' |} in
                                    st2 <- (if is_abs target
                                            then set_cur st1 (w_root st) false [] stack'
                                            else Ret st1) ;;
                                    close next ;;;
                                    go st2 (raw_components target ++ rest)
                                end
                            end
                        end
                    end
                end
          end
      end
  end.

(* the `while let Some(part) = remaining_components.pop_front()` loop of
   do_resolve (imp.rs:213-449) *)
Definition walk_body (chk : Z -> Z -> list bytes -> prog (result unit ekind)) (fin : wst -> prog wres)
           (nosym nofollow : bool)
           (follow : option (wst -> list bytes -> prog wres))
  : wst -> list bytes -> prog wres :=
  fix inner (st : wst) (comps : list bytes) : prog wres :=
    match comps with
    | [] => fin st
    | part0 :: rest =>
        let remaining := join_slash (part0 :: rest) in
        let go_open := walk_open chk fin nosym nofollow follow inner remaining rest in
        if is_nil part0 then go_open st [DOT]
        else if is_dot part0 then go_open st part0
        else if is_dotdot part0 then
          match w_exp st with
          | [] =>
              (* at the root: pop from the stack, current = root, continue *)
              r <- stack_pop_part st part0 ;;
              match r with
              | Err _ => bail st None InternalError
              | Ok (stack', refs') =>
                  st' <- set_cur {| w_root := w_root st; w_cur := w_cur st; w_exp := w_exp st;
                                    w_refs := refs'; w_stack := stack' |}
                                 (w_root st) false [] stack' ;;
                  inner st' rest
              end
          | _ :: _ =>
              go_open {| w_root := w_root st; w_cur := w_cur st; w_exp := pop_exp (w_exp st);
                         w_refs := w_refs st; w_stack := w_stack st |} part0
          end
        else
          go_open {| w_root := w_root st; w_cur := w_cur st; w_exp := w_exp st ++ [part0];
                     w_refs := w_refs st; w_stack := w_stack st |} part0
    end.

Fixpoint walk_gen (chk : Z -> Z -> list bytes -> prog (result unit ekind)) (fin : wst -> prog wres)
         (budget : nat) (nosym nofollow : bool) : wst -> list bytes -> prog wres :=
  match budget with
  | O => walk_body chk fin nosym nofollow None
  | S bd =>
      walk_body chk fin nosym nofollow
        (match bd with O => None | S _ => Some (walk_gen chk fin bd nosym nofollow) end)
  end.

(* the walk of do_resolve: '..' steps are checked by check_current, the result by final_check *)
Definition walk : nat -> bool -> bool -> wst -> list bytes -> prog wres := walk_gen check_current final_check.

(* do_resolve (imp.rs:179-457) *)
Definition do_resolve (root : Z) (path : bytes) (nosym nofollow : bool) (stack : option sstack)
  : prog (result wres ekind) :=
  rootdup <-? os (dup_cloexec root) ;;
  let st := {| w_root := rootdup; w_cur := rootdup; w_exp := [];
               w_refs := [(rootdup, 2%nat)]; w_stack := stack |} in
  if EMPTY_PATH_IS_ENOENT && is_nil path then
    (* an empty path is ENOENT, like openat2(2): drop(root); Partial { current, "", ENOENT } *)
    r <- ret_partial st None [] (OsError ENOENT) ;; Ret (Ok r)
  else
  r <- walk (N.to_nat MAX_SYMLINK_TRAVERSALS) nosym nofollow st (raw_components path) ;;
  Ret (Ok r).

(* From<PartialLookup<Rc<OwnedFd>>> for PartialLookup<Handle>: Rc::try_unwrap().expect() *)
Definition unwrap_rc (l : lookup) (r : refs) : prog lookup :=
  let fd := match l with Complete fd => fd | Partial fd _ _ => fd end in
  match rc_get fd r with
  | S O => Ret l
  | _ => Panic PANIC_RC_UNWRAP
  end.

(* opath::resolve (imp.rs:507-514): do_resolve(..., None).and_then(TryInto::try_into) *)
Definition opath_resolve_root (root : Z) (path : bytes) (nosym nofollow : bool)
  : prog (result Z ekind) :=
  w <-? do_resolve root path nosym nofollow None ;;
  match r_out w with
  | Err e => Ret (Err e)
  | Ok l =>
      l' <- unwrap_rc l (r_refs w) ;;
      match l' with
      | Complete fd => Ret (Ok fd)
      | Partial fd _ e => close fd ;;; Ret (Err e)
      end
  end.

(* opath::resolve_partial (imp.rs:461-504) followed by `.map(Into::into)` in
   Resolver::resolve_partial *)
Definition opath_resolve_partial (root : Z) (path : bytes) (nosym nofollow : bool)
  : prog (result lookup ekind) :=
  w <-? do_resolve root path nosym nofollow (Some []) ;;
  let ss := match r_stack w with Some s => s | None => [] end in
  match r_out w with
  | Err e =>
      (* symlink_stack dropped at the end of the function *)
      rc_drop_all (map se_dir ss) (r_refs w) ;;; Ret (Err e)
  | Ok (Complete fd) =>
      r' <- rc_drop_all (map se_dir ss) (r_refs w) ;;
      l <- unwrap_rc (Complete fd) r' ;; Ret (Ok l)
  | Ok (Partial fd remaining e) =>
      match ss with
      | top :: rest_ss =>
          (* pop_top_symlink: its Rc moves into the result; the handle returned
             by do_resolve is dropped, then the rest of the stack *)
          r1 <- rc_drop fd (r_refs w) ;;
          r2 <- rc_drop_all (map se_dir rest_ss) r1 ;;
          l <- unwrap_rc (Partial (se_dir top) (se_rem top) e) r2 ;; Ret (Ok l)
      | [] =>
          l <- unwrap_rc (Partial fd remaining e) (r_refs w) ;; Ret (Ok l)
      end
  end.

End Opath.
