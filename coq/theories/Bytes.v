(* Bytes.v -- byte strings (paths, names, link bodies) as lists of N.       *)
(* Model file: definitions only, no proofs (proofs live in proofs/).        *)
From Coq Require Import String Ascii.
Export String.StringSyntax.
From Coq Require Export List NArith ZArith Bool Lia.
Export ListNotations.
Open Scope N_scope.

Definition byte := N.
Definition bytes := list N.

(* Literal helper: [b "abc"] is the byte string of the ASCII literal. *)
Fixpoint b (s : string) : bytes :=
  match s with
  | EmptyString => []
  | String a s' => N_of_ascii a :: b s'
  end.

Arguments b s%string_scope.

Definition SLASH : N := 47.
Definition DOT : N := 46.

Fixpoint beq (x y : bytes) : bool :=
  match x, y with
  | [], [] => true
  | a :: x', c :: y' => N.eqb a c && beq x' y'
  | _, _ => false
  end.

Definition is_nil {A} (l : list A) : bool :=
  match l with [] => true | _ => false end.

Definition has_byte (c : N) (p : bytes) : bool := existsb (N.eqb c) p.
Definition has_slash (p : bytes) : bool := has_byte SLASH p.
Definition has_nul (p : bytes) : bool := has_byte 0 p.

Definition is_dot (p : bytes) : bool := beq p [DOT].
Definition is_dotdot (p : bytes) : bool := beq p [DOT; DOT].

(* Path::is_absolute on Unix: has a root, i.e. starts with '/'. *)
Definition is_abs (p : bytes) : bool :=
  match p with c :: _ => N.eqb c SLASH | [] => false end.

(* generic result type *)
Inductive result (A E : Type) := Ok (a : A) | Err (e : E).
Arguments Ok {A E} a.
Arguments Err {A E} e.

(* decimal rendering of a natural number given as N (fd numbers, tids) *)
Fixpoint dec_fuel (fuel : nat) (n : N) (acc : bytes) : bytes :=
  match fuel with
  | O => acc
  | S f =>
      let d := 48 + n mod 10 in
      let q := n / 10 in
      if N.eqb q 0 then d :: acc else dec_fuel f q (d :: acc)
  end.
Definition dec (n : N) : bytes := dec_fuel (S (N.to_nat (N.log2 n))) n [].
