(* Symlinks.v -- fs.protected_symlinks: the kernel's rule (fs/namei.c may_follow_link,
   applied to links met in a trailing position only) and the emulated one
   (imp.rs may_follow_link). *)
From PV Require Export FSModel.
Open Scope N_scope.

(* true = following is allowed *)
Definition ps_rule (sysctl fsuid dir_mode dir_uid link_uid : N) : bool :=
  N.eqb sysctl 0
  || N.eqb link_uid fsuid
  || negb (N.eqb (N.land dir_mode STICKY_WRITABLE) STICKY_WRITABLE)
  || N.eqb link_uid dir_uid.

(* the kernel checks only links in a trailing position (WALK_TRAILING) *)
Definition k_may_follow (sysctl fsuid dir_mode dir_uid link_uid : N) (trailing : bool) : bool :=
  negb trailing || ps_rule sysctl fsuid dir_mode dir_uid link_uid.

(* the emulated resolver: every followed link, or -- if the source restricts it (T0) -- trailing ones only *)
Definition emu_may_follow (sysctl fsuid dir_mode dir_uid link_uid : N) (trailing : bool) : bool :=
  (EMU_PS_ONLY_TRAILING && negb trailing) || ps_rule sysctl fsuid dir_mode dir_uid link_uid.
