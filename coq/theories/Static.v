(* Static.v -- a static kernel: the answers Linux gives to the system calls of
   the emulated resolver on a directory tree that nobody modifies.  [run]
   executes a model program against it.  Together with FSModel this closes the
   chain   library program --(run on the static kernel)--> ewalk --> kwalk :
   proofs/StaticProofs.v shows that the program of the emulated resolver,
   executed here, returns exactly what [FSModel.ewalk] computes.

   Executable: tie T2' (tools/props/C01.py) replays recorded traces of the real
   library on real trees through [agree_trace] and reports the first call whose
   real answer differs from this file's. *)
From PV Require Export OpathM.
From PV Require FSModel.
Open Scope N_scope.

Notation fs := FSModel.fs.
Notation ROOT := FSModel.ROOT.

Definition fdt := list (Z * nat).          (* descriptor -> object of the tree *)

Fixpoint tfind (t : fdt) (fd : Z) : option nat :=
  match t with
  | [] => None
  | (f, o) :: r => if Z.eqb f fd then Some o else tfind r fd
  end.
(* descriptors are non-negative numbers *)
Definition tget (t : fdt) (fd : Z) : option nat := if Z.ltb fd 0 then None else tfind t fd.
Definition tdel (t : fdt) (fd : Z) : fdt := filter (fun e => negb (Z.eqb (fst e) fd)) t.
(* a descriptor number that is not in use (the kernel picks the lowest one;
   nothing in the library depends on which) *)
Definition fresh (t : fdt) : Z := fold_right (fun e m => Z.max (fst e + 1) m) 3%Z t.

(* do_resolve / opath::resolve with the check routine as a parameter; for
   check_current these are the functions of OpathM (StaticProofs.resolve_is_gen) *)
Section Gen.
Variable fz : nat.
Variable sysctl_ps : N.
Variable chk : Z -> Z -> list bytes -> prog (result unit ekind).

Definition do_resolve_gen (root : Z) (path : bytes) (nosym nofollow : bool) (stack : option sstack)
  : prog (result wres ekind) :=
  rootdup <-? os (dup_cloexec root) ;;
  let st := {| w_root := rootdup; w_cur := rootdup; w_exp := [];
               w_refs := [(rootdup, 2%nat)]; w_stack := stack |} in
  if EMPTY_PATH_IS_ENOENT && is_nil path then
    r <- ret_partial st None [] (OsError ENOENT) ;; Ret (Ok r)
  else
  r <- walk_gen fz sysctl_ps chk (final_check_gen chk) (N.to_nat MAX_SYMLINK_TRAVERSALS) nosym nofollow st (raw_components path) ;;
  Ret (Ok r).

Definition resolve_gen (root : Z) (path : bytes) (nosym nofollow : bool) : prog (result Z ekind) :=
  w <-? do_resolve_gen root path nosym nofollow None ;;
  match r_out w with
  | Err e => Ret (Err e)
  | Ok l =>
      l' <- unwrap_rc l (r_refs w) ;;
      match l' with
      | Complete fd => Ret (Ok fd)
      | Partial fd _ e => close fd ;;; Ret (Err e)
      end
  end.
End Gen.

Definition TMPFS_MAGIC := 16914836.    (* 0x01021994: some ordinary file system *)

Inductive outcome (A : Type) := Done (t : fdt) (a : A) | Panicked (site : N) | NoFuel.
Arguments Done {A} t a.
Arguments Panicked {A} site.
Arguments NoFuel {A}.

(* decimal descriptor numbers in "fd/<n>" *)
Definition num (l : bytes) : N := fold_left (fun a c => a * 10 + (c - 48)) l 0.
Definition parse_fd (path : bytes) : option Z :=
  match path with
  | 102 :: 100 :: 47 :: digits => Some (Z.of_N (num digits))     (* "fd/" *)
  | _ => None
  end.

(* openat(dirfd -> d, name, O_PATH|O_NOFOLLOW) for a single component, on a tree *)
Definition open1 (f : fs) (d : nat) (name : bytes) : nat + N :=
  if negb (FSModel.is_dir f d) then inr ENOTDIR
  else if is_dot name then inl d
  else if is_dotdot name then inl (FSModel.parent_of f d)
  else match FSModel.lookup f d name with
       | Some c => inl c
       | None => inr (FSModel.name_err name)
       end.

(* the static part of a procfs instance, as much of it as as_unsafe_path walks through:
   0 = /proc, 1 = thread-self (a symlink), 2 = /proc/1, 3 = task, 4 = the thread's own
   directory, 5 = its fd directory (whose entries, one magic-link per open descriptor,
   are dynamic and handled in [psem_open]) *)
Definition PFS : fs := FSModel.build
  [FSModel.MkLnk [b "thread-self"] (b "1/task/1"); FSModel.MkDir [b "1"]; FSModel.MkDir [b "1"; b "task"];
   FSModel.MkDir [b "1"; b "task"; b "1"]; FSModel.MkDir [b "1"; b "task"; b "1"; b "fd"]].
Definition NP : nat := 6.
Definition parse_dec (name : bytes) : option Z :=
  if beq (dec (num name)) name then Some (Z.of_N (num name)) else None.

Definition PROC_MNT := 7.     (* mount id of the procfs instance behind the handle *)
Definition FS_MNT := 3.       (* mount id of the file system the root lives on *)

Section Static.
Variable s : fs.
(* the kernel's rendering (d_path) of the root directory *)
Variable rootpath : bytes.

(* ---- a minimal procfs, as much as as_unsafe_path needs: the handle's root, the
   calling thread's directory, and one magic-link per open descriptor.  Objects of
   the tree are numbered below [PB]; procfs objects from [PB] on. *)
Definition PB : nat := length (FSModel.kinds s).
Definition P_THREAD : nat := PB + 4.
Definition P_FDDIR : nat := PB + 5.
Definition P_LINK (target : nat) : nat := PB + NP + target.
Definition obj_is_dir (o : nat) : bool :=
  if Nat.leb PB o then Nat.ltb (o - PB) NP && FSModel.is_dir PFS (o - PB) else FSModel.is_dir s o.

Definition render (exp : list bytes) : bytes := fold_left (fun acc c => acc ++ SLASH :: c) exp rootpath.

(* the name under which directory [d] holds object [o] *)
Fixpoint name_in (es : list (nat * bytes * nat)) (d o : nat) : option bytes :=
  match es with
  | [] => None
  | (d', n, c) :: r => if Nat.eqb d d' && Nat.eqb c o then Some n else name_in r d o
  end.
Fixpoint find_path_f (fuel o : nat) (acc : list bytes) : option (list bytes) :=
  if Nat.eqb o ROOT then Some acc else
  match fuel with
  | O => None
  | S f =>
      let d := FSModel.parent_of s o in
      match name_in (FSModel.ents s) d o with
      | Some n => find_path_f f d (n :: acc)
      | None => None
      end
  end.
Definition find_path (o : nat) : option (list bytes) := find_path_f PB o [].

Definition mode_of (k : FSModel.kind) : N :=
  match k with
  | FSModel.KDir => S_IFDIR | FSModel.KReg => S_IFREG | FSModel.KLnk _ => S_IFLNK
  | FSModel.KFifo => S_IFIFO | FSModel.KSock => S_IFSOCK | FSModel.KChr => S_IFCHR
  end.

Definition sem_open (d : nat) (name : bytes) : nat + N := open1 s d name.

Definition opath_nofollow (flags : N) : bool := has flags O_PATH && has flags O_NOFOLLOW.

(* a single component below a procfs object (numbered k = o - PB) *)
Definition psem_open (t : fdt) (k : nat) (name : bytes) : nat + N :=
  if Nat.eqb k 5 then
    match parse_dec name with
    | Some n => match tget t n with Some target => inl (P_LINK target) | None => inr ENOENT end
    | None => inr ENOENT
    end
  else if Nat.ltb k NP then
    match open1 PFS k name with inl c => inl (PB + c)%nat | inr e => inr e end
  else inr ENOTDIR.

Inductive sresp := SNew (o : nat) | SRet (r : resp) | SClose (fd : Z).

(* an ordinary (not O_PATH) read-only open of ONE component that is not followed and creates
   nothing -- what mkdir_all (O_DIRECTORY|O_NOFOLLOW) and remove_all (the same, and the
   re-open of "." with the descriptor's own flags) ask for; directories and regular files *)
Definition ord_open (d : nat) (path : bytes) (flags : N) : sresp :=
  if has flags O_PATH || has flags O_CREAT || intersects flags O_ACCMODE || has flags O_TRUNC
     || negb (has flags O_NOFOLLOW || is_dot path)
     || has_slash path || has_nul path || is_nil path || Nat.leb PB d
  then SRet (RErr ENOSYS)
  else match sem_open d path with
       | inr e => SRet (RErr e)
       | inl o =>
           match FSModel.kind_of s o with
           | FSModel.KDir => SNew o
           | FSModel.KReg => if has flags O_DIRECTORY then SRet (RErr ENOTDIR) else SNew o
           | FSModel.KLnk _ => SRet (RErr (if has flags O_DIRECTORY then ENOTDIR else ELOOP))
           | _ => if has flags O_DIRECTORY then SRet (RErr ENOTDIR) else SRet (RErr ENOSYS)
           end
       end.

(* what the kernel does for one call: allocate a descriptor for an object,
   answer, or release a descriptor.  ENOSYS marks "outside this model". *)

Definition sem (t : fdt) (c : call) : sresp :=
  match c with
  | Openat fd path flags _ =>
      match tget t fd with
      | None => SRet (RErr (if Z.eqb fd AT_FDCWD then ENOSYS else EBADF))
      | Some d =>
          if Nat.eqb d P_FDDIR && negb (has flags O_NOFOLLOW) then
            (* open("<N>") below the fd directory without O_NOFOLLOW: the kernel jumps to the
               open file the magic-link stands for *)
            match parse_dec path with
            | Some n => match tget t n with
                        | Some target => if has flags O_DIRECTORY && negb (obj_is_dir target) then SRet (RErr ENOTDIR) else SNew target
                        | None => SRet (RErr ENOENT)
                        end
            | None => SRet (RErr ENOENT)
            end
          else
          if negb (opath_nofollow flags) || has_slash path || has_nul path then ord_open d path flags
          else match (if Nat.leb PB d then psem_open t (d - PB) path else sem_open d path) with
               | inl o => if has flags O_DIRECTORY && negb (obj_is_dir o) then SRet (RErr ENOTDIR) else SNew o
               | inr e => SRet (RErr e)
               end
      end
  | Fstatat fd path _ =>
      if Z.eqb fd AT_FDCWD then SRet (RStat S_IFDIR 0 0 0)        (* FrozenFd's probes of the host /proc *)
      else match tget t fd with
           | None => SRet (RErr EBADF)
           | Some o => if is_nil path then
                         SRet (RStat (if Nat.leb PB o then (if obj_is_dir o then S_IFDIR else S_IFLNK)
                                      else mode_of (FSModel.kind_of s o)) 0 (N.of_nat o) 0)
                       else if Nat.eqb o PB && beq path (b "thread-self") then SRet (RStat S_IFLNK 0 0 0)
                       else SRet (RErr ENOSYS)
           end
  | Openat2 fd path flags _ resolve =>
      (* the kernel's own in-root resolution (what the openat2 backend asks for), and the two
         lookups of as_unsafe_path on the procfs handle *)
      match tget t fd with
      | None => SRet (RErr (if Z.eqb fd AT_FDCWD then ENOSYS else EBADF))
      | Some o =>
          if Nat.ltb o PB then
            (if Nat.eqb o ROOT && has resolve RESOLVE_IN_ROOT && has flags O_PATH then
               match FSModel.kwalk s path (has flags O_NOFOLLOW) (has resolve RESOLVE_NO_SYMLINKS) with
               | FSModel.WOk c => SNew c
               | FSModel.WErr e => SRet (RErr e)
               | FSModel.WBudget => SRet (RErr ELOOP)
               end
             else SRet (RErr ENOSYS))
          else if Nat.eqb o PB then
            (if beq path (b "thread-self") then SNew P_THREAD else SRet (RErr ENOSYS))
          else if Nat.eqb o P_THREAD && beq path (b "fd") then SNew P_FDDIR
          else if Nat.eqb o P_THREAD then
            match parse_fd path with
            | Some n => match tget t n with
                        | Some target => SNew (P_LINK target)
                        | None => SRet (RErr ENOENT)
                        end
            | None => SRet (RErr ENOSYS)
            end
          else SRet (RErr ENOSYS)
      end
  | Statx fd path _ _ =>
      match tget t fd with
      | None => SRet (RErr EBADF)
      | Some o => if is_nil path then SRet (RStatx STATX_WANT_MASK (if Nat.leb PB o then PROC_MNT else FS_MNT))
                  else if Nat.eqb o P_FDDIR then
                    (* statx(fd-dir, "<N>", AT_SYMLINK_NOFOLLOW): the magic-link itself, a procfs object *)
                    match parse_dec path with
                    | Some n => match tget t n with
                                | Some _ => SRet (RStatx STATX_WANT_MASK PROC_MNT)
                                | None => SRet (RErr ENOENT)
                                end
                    | None => SRet (RErr ENOENT)
                    end
                  else SRet (RErr ENOSYS)
      end
  | Readlinkat fd path =>
      match tget t fd with
      | None => SRet (RErr EBADF)
      | Some o => if negb (is_nil path) then SRet (RErr ENOSYS)
                  else match FSModel.link_body s o with
                       | Some body => SRet (RBytes body)
                       | None =>
                           if Nat.leb (PB + NP) o then
                             (* a procfs fd/N magic-link: the path of the object descriptor N is open on *)
                             match find_path (o - (PB + NP)) with
                             | Some exp => SRet (RBytes (render exp))
                             | None => SRet (RErr ENOENT)
                             end
                           else if Nat.leb PB o then
                             match FSModel.link_body PFS (o - PB) with
                             | Some body => SRet (RBytes body)
                             | None => SRet (RErr ENOENT)
                             end
                           else SRet (RErr ENOENT)
                       end
      end
  | Fstatfs fd =>
      match tget t fd with
      | None => SRet (RErr EBADF)
      | Some o => SRet (RFsType (if Nat.leb PB o then PROC_SUPER_MAGIC else TMPFS_MAGIC))
      end
  | DupCloexec fd =>
      match tget t fd with None => SRet (RErr EBADF) | Some o => SNew o end
  | Close fd => SClose fd
  | Geteuid => SRet (RNum 0)
  | Gettid => SRet (RNum 1)
  | Readlink _ => SRet (RBytes [])                               (* error-text only *)
  | _ => SRet (RErr ENOSYS)
  end.

Definition answer (t : fdt) (c : call) : fdt * resp :=
  match sem t c with
  | SNew o => let n := fresh t in ((n, o) :: t, RFd n)
  | SRet r => (t, r)
  | SClose fd => (tdel t fd, RUnit)
  end.

Fixpoint run {A} (t : fdt) (p : prog A) : outcome A :=
  match p with
  | Ret a => Done t a
  | Call c k => let (t', r) := answer t c in run t' (k r)
  | Panic site => Panicked site
  | OutOfFuel => NoFuel
  end.

(* ---- tie T2': recorded real answers against [sem] ------------------------------------
   The descriptor numbers are the real ones; calls on descriptors this model
   does not track (the procfs handle and what is opened through it) are skipped
   and counted. *)
Definition tracked_call (t : fdt) (c : call) : bool :=
  match c with
  | Openat fd _ _ _ | Openat2 fd _ _ _ _ | Readlinkat fd _ | Fstatfs fd | DupCloexec fd =>
      match tget t fd with Some _ => true | None => false end
  | Statx fd path _ _ => match tget t fd with Some _ => is_nil path | None => false end
  | Fstatat fd path _ => match tget t fd with Some _ => is_nil path | None => false end
  | Close _ => true
  | _ => false
  end.

Definition is_procfs_ctor (c : call) : bool :=
  match c with
  | Fsmount _ _ _ => true
  | OpenTree fd path _ => Z.eqb fd AT_FDCWD && beq path (b "/proc")
  | Openat fd path _ _ => Z.eqb fd AT_FDCWD && beq path (b "/proc")
  | _ => false
  end.

Definition resp_agrees (model real : resp) : bool :=
  match model, real with
  | RErr a, RErr c => N.eqb a c
  | RStat m _ _ _, RStat m' _ _ _ => N.eqb (N.land m S_IFMT) (N.land m' S_IFMT)
  | RBytes x, RBytes y => beq x y
  | RFsType x, RFsType y => Bool.eqb (N.eqb x PROC_SUPER_MAGIC) (N.eqb y PROC_SUPER_MAGIC)
  | RStatx m _, RStatx m' _ => Bool.eqb (intersects m STATX_WANT_MASK) (intersects m' STATX_WANT_MASK)
  | RUnit, RUnit => true
  | RUnit, RNum _ => true
  | _, _ => false
  end.

(* returns (index of the first disagreement + 1, or 0) , number of calls compared *)
Fixpoint agree_trace (t : fdt) (tr : list (call * resp)) (i compared : N) : N * N :=
  match tr with
  | [] => (0, compared)
  | (c, r) :: rest =>
      (* a descriptor the real kernel hands out is not in use any more, whatever we thought *)
      let forget t := match r with RFd n => tdel t n | _ => t end in
      if is_procfs_ctor c then
        (* a procfs handle being constructed: its descriptor denotes the procfs root from here on *)
        agree_trace (match r with RFd n => (n, PB) :: tdel t n | _ => t end) rest (i + 1) compared
      else if negb (tracked_call t c) then agree_trace (forget t) rest (i + 1) compared
      else match sem t c, r with
           | SNew o, RFd n => agree_trace ((n, o) :: tdel t n) rest (i + 1) (compared + 1)
           | SNew _, _ => (i + 1, compared)
           | SClose fd, _ => agree_trace (tdel t fd) rest (i + 1) (compared + 1)
           | SRet (RErr e), _ =>
               if N.eqb e ENOSYS then agree_trace (forget t) rest (i + 1) compared
               else if resp_agrees (RErr e) r then agree_trace t rest (i + 1) (compared + 1)
               else (i + 1, compared)
           | SRet m, _ =>
               if resp_agrees m r then agree_trace t rest (i + 1) (compared + 1) else (i + 1, compared)
           end
  end.

End Static.
