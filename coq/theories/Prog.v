(* Prog.v -- programs of system calls (free monad), the shape every model of a
   libpathrs function has.  A program is a tree: each [Call] node carries the
   literal system call and a continuation that is a Gallina function of the
   kernel's answer, so a theorem that quantifies over the continuation's
   argument quantifies over every tree, fault and attacker at once. *)
From PV Require Export Bytes Path.
Open Scope N_scope.

Definition AT_FDCWD : Z := (-100)%Z.

Inductive call :=
| Openat (fd : Z) (path : bytes) (flags mode : N)
| Openat2 (fd : Z) (path : bytes) (flags mode resolve : N)
| Readlinkat (fd : Z) (path : bytes)
| Fstatat (fd : Z) (path : bytes) (atflags : N)
| Statx (fd : Z) (path : bytes) (atflags mask : N)
| Fstatfs (fd : Z)
| Faccessat (fd : Z) (path : bytes) (mode atflags : N)
| Mkdirat (fd : Z) (path : bytes) (mode : N)
| Mknodat (fd : Z) (path : bytes) (mode dev : N)
| Unlinkat (fd : Z) (path : bytes) (atflags : N)
| Linkat (ofd : Z) (opath : bytes) (nfd : Z) (npath : bytes) (atflags : N)
| Symlinkat (target : bytes) (fd : Z) (path : bytes)
| Renameat (ofd : Z) (opath : bytes) (nfd : Z) (npath : bytes)
| Renameat2 (ofd : Z) (opath : bytes) (nfd : Z) (npath : bytes) (flags : N)
| FcntlGetfl (fd : Z)
| Getdents (fd : Z)
| DupCloexec (fd : Z)                 (* fcntl(fd, F_DUPFD_CLOEXEC, 3) *)
| Close (fd : Z)
| Read (fd : Z)
| Fsopen (name : bytes) (flags : N)
| FsconfigSetString (fd : Z) (key value : bytes)
| FsconfigCreate (fd : Z)
| Fsmount (fd : Z) (flags attrs : N)
| OpenTree (fd : Z) (path : bytes) (flags : N)
| Readlink (path : bytes)             (* legacy readlink(2): FrozenFd only *)
| Geteuid
| Gettid
| Rand.                               (* one draw of the error-id generator *)

Inductive resp :=
| RErr (e : N)
| RFd (n : Z)
| RUnit
| RStat (mode uid ino dev : N)
| RStatx (mask mnt_id : N)
| RFsType (t : N)
| RBytes (bs : bytes)
| RDents (l : list bytes)
| RNum (n : Z).

Inductive prog (A : Type) : Type :=
| Ret (a : A)
| Call (c : call) (k : resp -> prog A)
| Panic (site : N)
| OutOfFuel.
Arguments Ret {A} a.
Arguments Call {A} c k.
Arguments Panic {A} site.
Arguments OutOfFuel {A}.

Fixpoint bind {A B} (p : prog A) (f : A -> prog B) : prog B :=
  match p with
  | Ret a => f a
  | Call c k => Call c (fun r => bind (k r) f)
  | Panic s => Panic s
  | OutOfFuel => OutOfFuel
  end.

Notation "x <- p ;; q" := (bind p (fun x => q))
  (at level 61, p at next level, right associativity).
Notation "p ;;; q" := (bind p (fun _ => q))
  (at level 61, right associativity).

(* result-propagating bind: Rust's `?` *)
Definition bindR {A B E} (p : prog (result A E)) (f : A -> prog (result B E))
  : prog (result B E) :=
  bind p (fun r => match r with Ok a => f a | Err e => Ret (Err e) end).
Notation "x <-? p ;; q" := (bindR p (fun x => q))
  (at level 61, p at next level, right associativity).

Definition map_err {A E F} (g : E -> F) (p : prog (result A E)) : prog (result A F) :=
  bind p (fun r => Ret match r with Ok a => Ok a | Err e => Err (g e) end).

Definition call1 (c : call) : prog resp := Call c (fun r => Ret r).
Definition close (fd : Z) : prog unit := Call (Close fd) (fun _ => Ret tt).

(* errno values (x86-64 Linux ABI) used by the library's own logic *)
Definition EPERM := 1. Definition ENOENT := 2. Definition EIO := 5.
Definition EBADF := 9. Definition EAGAIN := 11. Definition ENOMEM := 12.
Definition EACCES := 13. Definition EEXIST := 17. Definition EXDEV := 18.
Definition ENOTDIR := 20. Definition EISDIR := 21. Definition EINVAL := 22.
Definition ENFILE := 23. Definition EMFILE := 24. Definition ENAMETOOLONG := 36.
Definition ENOSYS := 38. Definition ENOTEMPTY := 39. Definition ELOOP := 40.
Definition EINTR := 4.
(* a response of the wrong shape for the call: treated as EIO *)
Definition EBADRESP := EIO.

(* response decoders: total, so that "for all responses" really is all *)
(* a successful descriptor-returning call returns a non-negative number *)
Definition as_fd (r : resp) : result Z N :=
  match r with
  | RFd n => if Z.leb 0 n then Ok n else Err EBADRESP
  | RErr e => Err e
  | _ => Err EBADRESP
  end.
Definition as_unit (r : resp) : result unit N :=
  match r with RErr e => Err e | RUnit => Ok tt | RNum _ => Ok tt | _ => Err EBADRESP end.
Definition as_bytes (r : resp) : result bytes N :=
  match r with RBytes bs => Ok bs | RErr e => Err e | _ => Err EBADRESP end.
Record stat := { st_mode : N; st_uid : N; st_ino : N; st_dev : N }.
Definition as_stat (r : resp) : result stat N :=
  match r with
  | RStat m u i d => Ok {| st_mode := m; st_uid := u; st_ino := i; st_dev := d |}
  | RErr e => Err e | _ => Err EBADRESP end.
Definition as_statx (r : resp) : result (N * N) N :=
  match r with RStatx mask id => Ok (mask, id) | RErr e => Err e | _ => Err EBADRESP end.
Definition as_fstype (r : resp) : result N N :=
  match r with RFsType t => Ok t | RErr e => Err e | _ => Err EBADRESP end.
Definition as_dents (r : resp) : result (list bytes) N :=
  match r with RDents l => Ok l | RErr e => Err e | _ => Err EBADRESP end.
Definition as_num (r : resp) : Z :=
  match r with RNum n => n | _ => 0%Z end.

Definition is_err (r : resp) : bool := match r with RErr _ => true | _ => false end.

(* "P holds of every Call node of p, whatever the answers are". *)
Inductive all_calls {A} (P : call -> Prop) : prog A -> Prop :=
| ac_ret a : all_calls P (Ret a)
| ac_call c k : P c -> (forall r, all_calls P (k r)) -> all_calls P (Call c k)
| ac_panic s : all_calls P (Panic s)
| ac_fuel : all_calls P OutOfFuel.

(* "no Panic node is reachable, whatever the answers are". *)
Inductive no_panic {A} : prog A -> Prop :=
| np_ret a : no_panic (Ret a)
| np_call c k : (forall r, no_panic (k r)) -> no_panic (Call c k)
| np_fuel : no_panic OutOfFuel.

(* "p issues no system call at all and returns a" *)
Definition returns_immediately {A} (p : prog A) (a : A) : Prop := p = Ret a.
