From PV Require Import Dyn BitsProofs PathProofs StaticProofs StaticProcfs ProgTac StaticBal FaultProofs EffectProofs DynProofs DynMkdir DynRemove DynRemoveExact StaticEffects DynEffects.
From PV Require FSModel FSProofs.
From Coq Require Import Lia.
Open Scope N_scope.

(* ---- the entries afterwards are a FILTER of the entries before (stronger than [shrinks]: lengths) ---- *)

Definition sub (s s' : fs) : Prop :=
  kinds s' = kinds s /\ parents s' = parents s /\ exists f, ents s' = filter f (ents s).

Lemma filter_filter {A} (f g : A -> bool) l : filter f (filter g l) = filter (fun x => g x && f x) l.
Proof. induction l as [|x l IH]; cbn [filter]; [reflexivity|]. destruct (g x); cbn [filter andb]; [destruct (f x); rewrite IH; reflexivity|exact IH]. Qed.

Lemma filter_len {A} (f : A -> bool) l : (length (filter f l) <= length l)%nat.
Proof. induction l as [|x l IH]; cbn [filter length]; [lia|]. destruct (f x); cbn [length]; lia. Qed.

Lemma sub_refl s : sub s s.
Proof. repeat split; try reflexivity. exists (fun _ => true). induction (ents s) as [|x l IH]; cbn [filter]; [reflexivity|]. rewrite <- IH. reflexivity. Qed.

Lemma sub_trans s1 s2 s3 : sub s1 s2 -> sub s2 s3 -> sub s1 s3.
Proof.
  intros (A1 & B1 & f & C1) (A2 & B2 & g & C2). repeat split; [congruence|congruence|].
  exists (fun x => f x && g x). rewrite C2, C1. apply filter_filter.
Qed.

Lemma sub_shrinks s s' : sub s s' -> shrinks s s'.
Proof. intros (A & B & f & C). repeat split; [exact A|exact B|]. rewrite C. apply incl_filter. Qed.

Lemma sub_len s s' : sub s s' -> (length (ents s') <= length (ents s))%nat.
Proof. intros (_ & _ & f & C). rewrite C. apply filter_len. Qed.

Lemma filter_and_len {A} (f g : A -> bool) l : (length (filter (fun x => f x && g x) l) <= length (filter g l))%nat.
Proof.
  induction l as [|x l IH]; cbn [filter]; [lia|].
  destruct (f x), (g x); cbn [andb length]; lia.
Qed.

Lemma sub_dir_names s s' c : sub s s' -> (length (dir_names s' c) <= length (dir_names s c))%nat.
Proof.
  intros (_ & _ & f & C). unfold dir_names. rewrite !map_length, C, filter_filter. apply filter_and_len.
Qed.

Lemma unlink_sem_sub s d n fl s' : unlink_sem s d n fl = EUnit s' -> sub s s'.
Proof.
  unfold unlink_sem. intro H.
  repeat (first [discriminate | match type of H with context [match ?x with _ => _ end] => destruct x end]);
    inversion H; subst; repeat split; try reflexivity; eexists; unfold del_ent; cbn [FSModel.ents]; reflexivity.
Qed.

Lemma rm_inode_sub s d n : sub s (fst (rm_inode s d n)).
Proof.
  unfold rm_inode.
  destruct (unlink_sem s d n 0) as [|ue|s'|s' o] eqn:E1.
  - destruct (unlink_sem s d n AT_REMOVEDIR) as [|re|s'|s' o] eqn:E2; cbn [fst]; try apply sub_refl. exact (unlink_sem_sub _ _ _ _ _ E2).
  - destruct (unlink_sem s d n AT_REMOVEDIR) as [|re|s'|s' o] eqn:E2; cbn [fst]; try apply sub_refl. exact (unlink_sem_sub _ _ _ _ _ E2).
  - cbn [fst]. exact (unlink_sem_sub _ _ _ _ _ E1).
  - destruct (unlink_sem s d n AT_REMOVEDIR) as [|re|s''|s'' o'] eqn:E2; cbn [fst]; try apply sub_refl. exact (unlink_sem_sub _ _ _ _ _ E2).
Qed.

Lemma rm_inode_err_same s d n e : snd (rm_inode s d n) = Err e -> fst (rm_inode s d n) = s.
Proof.
  unfold rm_inode.
  destruct (unlink_sem s d n 0) as [|ue|s'|s' o]; destruct (unlink_sem s d n AT_REMOVEDIR) as [|re|s''|s'' o']; cbn [fst snd]; intro H; try reflexivity; discriminate.
Qed.

Lemma rm_entries_sub rec : (forall s n s' r, rec s n = Some (s', r) -> sub s s') ->
  forall g s c buf read seen s' r, rm_entries rec g s c buf read seen = Some (s', r) -> sub s s'.
Proof.
  intro Hrec. induction g as [|g IH]; intros s c buf read seen s' r H; cbn [rm_entries] in H; [discriminate|].
  destruct buf as [|n rest].
  - destruct read; [inversion H; subst; apply sub_refl|]. eapply IH. exact H.
  - destruct (dot_or_dotdot n); [eapply IH; exact H|].
    destruct (rec s n) as [[s1 r1]|] eqn:Er; [|discriminate]. pose proof (Hrec _ _ _ _ Er) as Hs1.
    destruct (ignore_enoent r1); [|inversion H; subst; exact Hs1].
    eapply sub_trans; [exact Hs1|]. eapply IH. exact H.
Qed.

Lemma rm_rounds_sub scan fin : (forall s s' r, scan s = Some (s', r) -> sub s s') -> (forall s, sub s (fst (fin s))) ->
  forall g s s' r, rm_rounds scan fin g s = Some (s', r) -> sub s s'.
Proof.
  intros Hscan Hfin. induction g as [|g IH]; intros s s' r H; cbn [rm_rounds] in H; [discriminate|].
  destruct (scan s) as [[s1 [[|]|e]]|] eqn:Es; try discriminate.
  - eapply sub_trans; [exact (Hscan _ _ _ Es)|]. eapply IH. exact H.
  - inversion H as [H1]. eapply sub_trans; [exact (Hscan _ _ _ Es)|]. pose proof (Hfin s1) as Hf. rewrite H1 in Hf. exact Hf.
  - inversion H; subst. exact (Hscan _ _ _ Es).
Qed.

Theorem rm_all_sub : forall fuel s d name s' r, rm_all fuel s d name = Some (s', r) -> sub s s'.
Proof.
  induction fuel as [|f IH]; intros s d name s' r H; cbn [rm_all] in H; [discriminate|].
  destruct (has_slash name); [inversion H; subst; apply sub_refl|].
  destruct (REMOVE_ALL_REFUSES_DOTS && dot_or_dotdot name); [inversion H; subst; apply sub_refl|].
  pose proof (rm_inode_sub s d name) as Hi. destruct (rm_inode s d name) as [s1 r1]. cbn [fst] in Hi.
  destruct (ignore_enoent r1); [inversion H; subst; exact Hi|].
  destruct (mk_open s1 d name) as [c|e'].
  - eapply sub_trans; [exact Hi|]. eapply rm_rounds_sub; [| |exact H].
    + intros s2 s3 r3 Hs. eapply rm_entries_sub; [|exact Hs]. intros s4 n s5 r5 Hr. cbv beta in Hr. eapply IH. exact Hr.
    + intro s2. cbv beta. pose proof (rm_inode_sub s2 d name) as Hi2. destruct (rm_inode s2 d name) as [s3 r3]. cbn [fst] in *. exact Hi2.
  - destruct (N.eqb e' ENOENT); inversion H; subst; exact Hi.
Qed.

(* ---- enough fuel: the sub-directories below [c] nest at most [k] deep ------------------------- *)

Fixpoint deep (s : fs) (k : nat) (c : nat) : Prop :=
  match k with
  | O => forall n c', In (c, n, c') (ents s) -> is_dir s c' = false
  | S k' => forall n c', In (c, n, c') (ents s) -> is_dir s c' = true -> deep s k' c'
  end.

Lemma deep_sub s s' : sub s s' -> forall k c, deep s k c -> deep s' k c.
Proof.
  intros Hs. pose proof (sub_shrinks _ _ Hs) as Hsh. induction k as [|k IH]; intros c H; cbn [deep] in *.
  - intros n c' Hin. rewrite (is_dir_shrinks _ _ c' Hsh). destruct Hsh as (_ & _ & Hi). exact (H n c' (Hi _ Hin)).
  - intros n c' Hin Hd. rewrite (is_dir_shrinks _ _ c' Hsh) in Hd. apply IH. destruct Hsh as (_ & _ & Hi). exact (H n c' (Hi _ Hin) Hd).
Qed.


Lemma lookup_none_shrinks' s s' d n : shrinks s s' -> lookup s d n = None -> lookup s' d n = None.
Proof.
  intros (_ & _ & Hi) H. destruct (lookup s' d n) as [c|] eqn:E; [|reflexivity]. exfalso.
  destruct (find_ent_in _ _ _ _ E) as (n' & Hin & Hb). exact (find_ent_none _ _ _ _ _ H (Hi _ Hin) Hb).
Qed.

(* one pass does not run out of fuel when the calls on the entries do not *)
Lemma entries_total rec c : (forall s n s' r, rec s n = Some (s', r) -> sub s s') ->
  forall g s0 s buf (read seen : bool), sub s0 s -> (forall s2 n, sub s0 s2 -> rec s2 n <> None) ->
  (length buf + (if read then 1 else length (dir_names s c) + 4) <= g)%nat ->
  rm_entries rec g s c buf read seen <> None.
Proof.
  intros Hsub. induction g as [|g IH]; intros s0 s buf read seen Hs Hrec Hg.
  - destruct read; lia.
  - cbn [rm_entries]. destruct buf as [|n rest].
    + destruct read; [discriminate|]. apply (IH s0 s); [exact Hs|exact Hrec|]. cbn [length]. cbn [length] in Hg. lia.
    + cbn [length] in Hg. destruct (dot_or_dotdot n); [apply (IH s0 s); [exact Hs|exact Hrec|lia]|].
      destruct (rec s n) as [[s1 r1]|] eqn:Er; [|exfalso; exact (Hrec s n Hs Er)].
      destruct (ignore_enoent r1); [|discriminate].
      pose proof (Hsub _ _ _ _ Er) as Hs1. apply (IH s0 s1); [eapply sub_trans; eassumption|exact Hrec|].
      pose proof (sub_dir_names _ _ c Hs1). destruct read; lia.
Qed.

Lemma plain_not_dots n : Dyn.plain n = true -> dot_or_dotdot n = false.
Proof. intro H. destruct (plain_facts _ H) as (_ & Hd & Hdd & _). unfold dot_or_dotdot. rewrite Hd, Hdd. reflexivity. Qed.

(* after a pass that went through, every (plain) name of the batch is gone *)
Lemma entries_clears rec c : (forall s n s' r, rec s n = Some (s', r) -> sub s s') ->
  (forall s n s', Dyn.plain n = true -> rec s n = Some (s', Ok tt) -> lookup s' c n = None) ->
  (forall s n s' e, rec s n = Some (s', Err e) -> errno_is e ENOENT = false) ->
  forall g s buf seen s' b, rm_entries rec g s c buf true seen = Some (s', Ok b) ->
  forall n, In n buf -> Dyn.plain n = true -> lookup s' c n = None.
Proof.
  intros Hsub Hgone Hne. induction g as [|g IH]; intros s buf seen s' b H n Hin Hpl; cbn [rm_entries] in H; [discriminate|].
  destruct buf as [|n0 rest]; [destruct Hin|].
  destruct (dot_or_dotdot n0) eqn:Ed0.
  - destruct Hin as [E|Hin]; [subst n0; rewrite (plain_not_dots _ Hpl) in Ed0; discriminate|]. exact (IH _ _ _ _ _ H n Hin Hpl).
  - destruct (rec s n0) as [[s1 r1]|] eqn:Er; [|discriminate].
    destruct r1 as [[]|e1].
    + cbn [ignore_enoent] in H. destruct Hin as [E|Hin]; [subst n0|exact (IH _ _ _ _ _ H n Hin Hpl)].
      pose proof (Hgone _ _ _ Hpl Er) as Hg1.
      pose proof (rm_entries_sub rec Hsub _ _ _ _ _ _ _ _ H) as Hs2.
      exact (lookup_none_shrinks' _ _ _ _ (sub_shrinks _ _ Hs2) Hg1).
    + cbn [ignore_enoent] in H. rewrite (Hne _ _ _ _ Er) in H. discriminate.
Qed.

(* a pass over a freshly opened directory that went through leaves the directory empty *)
Lemma pass_empties rec c : (forall s n s' r, rec s n = Some (s', r) -> sub s s') ->
  (forall s n s', Dyn.plain n = true -> rec s n = Some (s', Ok tt) -> lookup s' c n = None) ->
  (forall s n s' e, rec s n = Some (s', Err e) -> errno_is e ENOENT = false) ->
  forall g s seen s' b, ents_ok s -> rm_entries rec g s c [] false seen = Some (s', Ok b) -> dir_names s' c = [].
Proof.
  intros Hsub Hgone Hne g s seen s' b Hok H. destruct g as [|g]; [discriminate|]. cbn [rm_entries] in H.
  pose proof (entries_clears rec c Hsub Hgone Hne _ _ _ _ _ _ H) as Hclr.
  pose proof (rm_entries_sub rec Hsub _ _ _ _ _ _ _ _ H) as Hs.
  unfold dir_names. destruct (filter (fun e => Nat.eqb (ent_dir e) c) (ents s')) as [|e l] eqn:Ef; [reflexivity|exfalso].
  assert (Hin' : In e (ents s') /\ Nat.eqb (ent_dir e) c = true).
  { apply (proj1 (filter_In (fun e0 : ent => Nat.eqb (ent_dir e0) c) e (ents s'))). rewrite Ef. left. reflexivity. }
  destruct Hin' as [Hin' Hd]. apply Nat.eqb_eq in Hd.
  destruct (sub_shrinks _ _ Hs) as (_ & _ & Hincl). pose proof (Hincl _ Hin') as Hin.
  assert (Hnm : In (ent_name e) (dir_names s c)).
  { unfold dir_names. apply in_map. apply filter_In. split; [exact Hin|apply Nat.eqb_eq; exact Hd]. }
  pose proof (Hclr (ent_name e) (or_intror (or_intror Hnm)) (proj2 (Hok _ Hin))) as Hl.
  destruct e as [[ed en] ec]. cbn [ent_dir ent_name fst snd] in *. subst ed.
  unfold FSModel.lookup in Hl. exact (find_ent_none _ _ _ _ _ Hl Hin' (PathProofs.beq_refl en)).
Qed.

Lemma scan_of_empty rec c g s seen : dir_names s c = [] -> (4 <= g)%nat -> rm_entries rec g s c [] false seen = Some (s, Ok seen).
Proof.
  intros He Hg. do 4 (destruct g as [|g]; [lia|]). cbn [rm_entries]. rewrite He. reflexivity.
Qed.

Lemma rounds_total scan fin : (forall s s' r, scan s = Some (s', r) -> sub s s') ->
  forall s0, (forall s2, sub s0 s2 -> scan s2 <> None) ->
  (forall s2 s3, sub s0 s2 -> scan s2 = Some (s3, Ok true) -> scan s3 = Some (s3, Ok false)) ->
  forall g, (2 <= g)%nat -> rm_rounds scan fin g s0 <> None.
Proof.
  intros Hsub s0 Htot Hnext g Hg. do 2 (destruct g as [|g]; [lia|]). cbn [rm_rounds].
  destruct (scan s0) as [[s1 [[|]|e]]|] eqn:Es; try discriminate; [|exfalso; exact (Htot s0 (sub_refl s0) Es)].
  rewrite (Hnext s0 s1 (sub_refl s0) Es). discriminate.
Qed.

Lemma ignore_enoent_err r e : ignore_enoent r = Err e -> errno_is e ENOENT = false.
Proof. destruct r as [u|e0]; cbn [ignore_enoent]; [discriminate|]. destruct (errno_is e0 ENOENT) eqn:E; [discriminate|]. intro H. inversion H; subst. exact E. Qed.

Lemma entries_err rec : forall g s c buf rd sn s' e, rm_entries rec g s c buf rd sn = Some (s', Err e) -> errno_is e ENOENT = false.
Proof.
  induction g as [|g IH]; intros s c buf rd sn s' e H; cbn [rm_entries] in H; [discriminate|].
  destruct buf as [|n rest].
  - destruct rd; [discriminate|]. exact (IH _ _ _ _ _ _ _ H).
  - destruct (dot_or_dotdot n); [exact (IH _ _ _ _ _ _ _ H)|].
    destruct (rec s n) as [[s1 r1]|]; [|discriminate].
    destruct (ignore_enoent r1) as [u|e1] eqn:Ei; [exact (IH _ _ _ _ _ _ _ H)|]. inversion H; subst. exact (ignore_enoent_err _ _ Ei).
Qed.

Lemma rounds_err scan fin : (forall s s' e, scan s = Some (s', Err e) -> errno_is e ENOENT = false) ->
  (forall s e, snd (fin s) = Err e -> errno_is e ENOENT = false) ->
  forall g s s' e, rm_rounds scan fin g s = Some (s', Err e) -> errno_is e ENOENT = false.
Proof.
  intros Hscan Hfin. induction g as [|g IH]; intros s s' e H; cbn [rm_rounds] in H; [discriminate|].
  destruct (scan s) as [[s1 [[|]|e1]]|] eqn:Es; try discriminate.
  - exact (IH _ _ _ H).
  - inversion H as [H1]. apply (Hfin s1). rewrite H1. reflexivity.
  - inversion H; subst. exact (Hscan _ _ _ Es).
Qed.

Lemma rm_all_err_not_enoent : forall fuel s d name s' e, rm_all fuel s d name = Some (s', Err e) -> errno_is e ENOENT = false.
Proof.
  intros [|f] s d name s' e H; cbn [rm_all] in H; [discriminate|].
  destruct (has_slash name); [inversion H; reflexivity|].
  destruct (REMOVE_ALL_REFUSES_DOTS && dot_or_dotdot name); [inversion H; reflexivity|].
  destruct (rm_inode s d name) as [s1 r1]. destruct (ignore_enoent r1); [discriminate|].
  destruct (mk_open s1 d name) as [c|e'].
  - eapply rounds_err; [| |exact H].
    + intros s2 s3 e3 Hs. eapply entries_err. exact Hs.
    + intros s2 e2. cbv beta. destruct (rm_inode s2 d name) as [s3 r3]. cbn [snd]. apply ignore_enoent_err.
  - destruct (N.eqb_spec e' ENOENT); [discriminate|]. inversion H; subst.
    unfold errno_is. cbn [kind_errno opt_n_eqb]. apply N.eqb_neq. assumption.
Qed.

(* ---- remove_all does not run out of fuel -------------------------------------------------------- *)

Lemma mk_open_inl_dir s d name c : dot_or_dotdot name = false -> mk_open s d name = inl c -> lookup s d name = Some c /\ is_dir s c = true.
Proof.
  unfold dot_or_dotdot. intro Hd. apply orb_false_iff in Hd. destruct Hd as [Hd Hdd].
  unfold mk_open, open1. destruct (negb (is_dir s d)); [discriminate|]. rewrite Hd, Hdd.
  destruct (lookup s d name) as [c'|]; [|discriminate]. destruct (is_dir s c') eqn:E; intro H; inversion H; subst. split; [reflexivity|exact E].
Qed.

(* the named entry is absent or not a directory: one level, any fuel *)
Lemma rm_all_total_leaf f s d name : (1 <= f)%nat ->
  (forall c, lookup s d name = Some c -> is_dir s c = false) -> rm_all f s d name <> None.
Proof.
  intros Hf Hnd. destruct f as [|f]; [lia|]. cbn [rm_all].
  destruct (has_slash name); [discriminate|].
  destruct (REMOVE_ALL_REFUSES_DOTS && dot_or_dotdot name) eqn:Hdots; [discriminate|].
  change REMOVE_ALL_REFUSES_DOTS with true in Hdots. cbn [andb] in Hdots.
  pose proof (rm_inode_err_same s d name) as Hsame. destruct (rm_inode s d name) as [s1 r1]. cbn [fst snd] in Hsame.
  destruct (ignore_enoent r1) eqn:Ei; [discriminate|].
  assert (Hs1 : s1 = s) by (destruct r1 as [u|e1]; [discriminate|exact (Hsame e1 eq_refl)]). subst s1.
  destruct (mk_open s d name) as [c|e'] eqn:Eo.
  - destruct (mk_open_inl_dir _ _ _ _ Hdots Eo) as [Hl Hd]. rewrite (Hnd c Hl) in Hd. discriminate.
  - destruct (N.eqb e' ENOENT); discriminate.
Qed.

Theorem rm_all_total : forall k f s d name, ents_ok s -> (k + length (ents s) + 6 <= f)%nat ->
  (forall c, lookup s d name = Some c -> is_dir s c = true -> deep s k c) -> rm_all f s d name <> None.
Proof.
  induction k as [k IHk] using lt_wf_ind. intros f s d name Hok Hf Hdeep.
  destruct f as [|f]; [lia|]. cbn [rm_all].
  destruct (has_slash name); [discriminate|].
  destruct (REMOVE_ALL_REFUSES_DOTS && dot_or_dotdot name) eqn:Hdots; [discriminate|].
  change REMOVE_ALL_REFUSES_DOTS with true in Hdots. cbn [andb] in Hdots.
  pose proof (rm_inode_err_same s d name) as Hsame. destruct (rm_inode s d name) as [s1 r1]. cbn [fst snd] in Hsame.
  destruct (ignore_enoent r1) eqn:Ei; [discriminate|].
  assert (Hs1 : s1 = s) by (destruct r1 as [u|e1]; [discriminate|exact (Hsame e1 eq_refl)]). subst s1.
  destruct (mk_open s d name) as [c|e'] eqn:Eo; [|destruct (N.eqb e' ENOENT); discriminate].
  destruct (mk_open_inl_dir _ _ _ _ Hdots Eo) as [Hl Hd]. pose proof (Hdeep c Hl Hd) as Hdc.
  (* every call on an entry of c, on any later state, has enough fuel *)
  assert (Hrec : forall s3 n, sub s s3 -> rm_all f s3 c n <> None).
  { intros s3 n Hs3. pose proof (sub_len _ _ Hs3) as Hlen. pose proof (sub_shrinks _ _ Hs3) as Hsh3.
    destruct k as [|k'].
    - apply rm_all_total_leaf; [lia|]. intros c' Hl'. destruct (find_ent_in _ _ _ _ Hl') as (n' & Hin' & _).
      rewrite (is_dir_shrinks _ _ c' Hsh3). destruct Hsh3 as (_ & _ & Hi). exact (Hdc n' c' (Hi _ Hin')).
    - apply (IHk k' (Nat.lt_succ_diag_r k')); [exact (ents_ok_shrinks _ _ Hsh3 Hok)|lia|].
      intros c' Hl' Hd'. destruct (find_ent_in _ _ _ _ Hl') as (n' & Hin' & _).
      apply (deep_sub _ _ Hs3). rewrite (is_dir_shrinks _ _ c' Hsh3) in Hd'. destruct Hsh3 as (_ & _ & Hi). exact (Hdc n' c' (Hi _ Hin') Hd'). }
  assert (Hrsub : forall s3 n s4 r4, rm_all f s3 c n = Some (s4, r4) -> sub s3 s4) by (intros; eapply rm_all_sub; eassumption).
  apply (rounds_total _ _ (fun s2 s3 r3 Hs => rm_entries_sub _ Hrsub _ _ _ _ _ _ _ _ Hs) s).
  - (* a pass has enough fuel *)
    intros s2 Hs2. apply (entries_total _ c Hrsub f s s2 [] false false Hs2).
    + intros s3 n Hs3. apply Hrec. exact Hs3.
    + pose proof (sub_len _ _ Hs2). pose proof (sub_dir_names _ _ c Hs2).
      assert (length (dir_names s c) <= length (ents s))%nat by (unfold dir_names; rewrite map_length; apply filter_len).
      cbn [length]. lia.
  - (* after a pass that saw entries and went through, the directory is empty: the next pass sees nothing *)
    intros s2 s3 Hs2 Hscan.
    assert (He : dir_names s3 c = []).
    { eapply (pass_empties _ c Hrsub); [| |exact (ents_ok_shrinks _ _ (sub_shrinks _ _ Hs2) Hok)|exact Hscan].
      - intros s4 n s5 Hpn Hr. exact (rm_all_gone f s4 c n s5 Hpn Hr).
      - intros s4 n s5 e9 Hr. exact (rm_all_err_not_enoent f s4 c n s5 e9 Hr). }
    apply scan_of_empty; [exact He|lia].
  - lia.
Qed.
(* C13 end to end, kernel backend: RootRef::remove_all over any tree (names unique per directory, plain names,
   sub-directories below the target at most k deep, fuel k + #entries + 6): the run ends -- never out of fuel --
   with the descriptor table as it was, nothing added or modified, and, when it reports success, the entries are
   exactly the old ones minus the named entry and what is beneath it *)
Theorem remove_all_kernel_post s rp fz pfuel gh ps rs t root path dirp name o k rfuel :
  closed s -> fz <> 0%nat -> rs_kernel rs = true -> uniq s -> ents_ok s ->
  path_split path = Some (Ok (dirp, Some name)) -> has_nul dirp = false -> Dyn.plain name = true ->
  tget t root = Some ROOT ->
  FSModel.kwalk s dirp false (has (N.lor OPENAT2_RESOLVE_RESOLVE (rs_flags rs)) RESOLVE_NO_SYMLINKS) = FSModel.WOk o ->
  (forall c, lookup s o name = Some c -> is_dir s c = true -> deep s k c) -> (k + length (ents s) + 6 <= rfuel)%nat ->
  exists s' r,
    Dyn.drun rp {| ds := s; dt := t; dseen := [] |} (root_remove_all fz true pfuel gh ps rfuel rs root path) =
      DDone {| ds := s'; dt := t; dseen := [] |} r /\
    shrinks s s' /\
    (r = Ok tt -> forall e, In e (ents s') <-> (In e (ents s) /\ ~ under s o name e)).
Proof.
  intros Hcl Hfz Hk Hu Hok Hsplit Hnul Hpl Hroot Hw Hdeep Hfuel.
  destruct (plain_facts _ Hpl) as (Hnil & _ & _ & _ & Hnn).
  pose proof (parent_ok_kern s rp fz pfuel gh ps Hcl Hfz rs Hk t root path dirp name o Hsplit Hnul Hroot Hw) as Hp.
  pose proof (root_remove_all_exact s rp fz pfuel true gh ps rs Hfz rfuel t root path _ _ name o Hp Hok Hnn Hnil) as Hrun.
  pose proof (rm_all_total k rfuel s o name Hok Hfuel Hdeep) as Htot.
  destruct (rm_all rfuel s o name) as [[s' r]|] eqn:Erm; [|contradiction].
  exists s', r. split; [|split].
  - rewrite Hrun. f_equal. f_equal. cbn [tdel filter fst]. rewrite Z.eqb_refl. cbn [negb]. apply tdel_notin'. apply tfind_fresh_none'.
  - exact (rm_all_shrinks _ _ _ _ _ _ Erm).
  - intros ->. exact (rm_all_exact rfuel s o name s' Hu Hpl Erm).
Qed.

(* ---- a caller that comes after: the named entry is absent -> success, nothing changes -------------------- *)
Theorem rm_all_absent f s d name : Dyn.plain name = true -> too_long name = false -> is_dir s d = true ->
  lookup s d name = None -> rm_all (S f) s d name = Some (s, Ok tt).
Proof.
  intros Hp Hl Hd Hn. destruct (plain_facts _ Hp) as (Hnil & Hdot & Hdd & Hsl & Hnu).
  cbn [rm_all]. rewrite Hsl. unfold dot_or_dotdot. rewrite Hdot, Hdd, andb_false_r. cbn [orb].
  assert (Hne : FSModel.name_err name = ENOENT).
  { unfold FSModel.name_err. unfold too_long in Hl. rewrite Hl. reflexivity. }
  unfold rm_inode, unlink_sem. rewrite Hd, Hnil, Hsl, Hnu, Hdot, Hdd, Hn, Hne. vm_compute. reflexivity.
Qed.

Corollary rm_all_again f g s d name s' : Dyn.plain name = true -> too_long name = false -> is_dir s d = true ->
  rm_all f s d name = Some (s', Ok tt) -> rm_all (S g) s' d name = Some (s', Ok tt).
Proof.
  intros Hp Hl Hd H. apply rm_all_absent; try assumption.
  - destruct (rm_all_shrinks _ _ _ _ _ _ H) as (Hk & _). unfold FSModel.is_dir, FSModel.kind_of in *. rewrite Hk. exact Hd.
  - exact (rm_all_gone _ _ _ _ _ Hp H).
Qed.

(* ---- the same for the emulated backend: the parent lookup is C01's refinement on the static kernel --------- *)
Theorem remove_all_emu_post s rp F df fz pfuel o2 gh ps rs t root path dirp name o k rfuel :
  closed s -> fz <> 0%nat -> chk_static_ok s rp F (check_current fz o2 pfuel gh) -> FSProofs.wf s df -> links_ok s ->
  rs_kernel rs = false -> uniq s -> ents_ok s ->
  path_split path = Some (Ok (dirp, Some name)) -> has_nul dirp = false -> Dyn.plain name = true ->
  Frame s F t -> tget t root = Some ROOT ->
  FSModel.ewalk s dirp false (has (rs_flags rs) RESOLVE_NO_SYMLINKS) = FSModel.WOk o ->
  (forall c, lookup s o name = Some c -> is_dir s c = true -> deep s k c) -> (k + length (ents s) + 6 <= rfuel)%nat ->
  exists s' t' r,
    Dyn.drun rp {| ds := s; dt := t; dseen := [] |} (root_remove_all fz o2 pfuel gh ps rfuel rs root path) =
      DDone {| ds := s'; dt := t'; dseen := [] |} r /\
    (* no descriptor left behind *)
    (forall x, indom t' x -> indom t x) /\
    shrinks s s' /\
    (r = Ok tt -> forall e, In e (ents s') <-> (In e (ents s) /\ ~ under s o name e)).
Proof.
  intros Hcl Hfz Hchk Hwf Hl Hk Hu Hok Hsplit Hnul Hpl Hfr Hroot Hw Hdeep Hfuel.
  destruct (plain_facts _ Hpl) as (Hnil & _ & _ & _ & Hnn).
  destruct (parent_ok_emu s rp F df fz pfuel o2 gh ps Hcl Hfz Hchk Hwf Hl rs Hk t root path dirp name o Hsplit Hnul Hfr Hroot Hw)
    as (t1 & dir & Hp & _ & _).
  pose proof (root_remove_all_exact s rp fz pfuel o2 gh ps rs Hfz rfuel t root path _ _ name o Hp Hok Hnn Hnil) as Hrun.
  pose proof (rm_all_total k rfuel s o name Hok Hfuel Hdeep) as Htot.
  destruct (rm_all rfuel s o name) as [[s' r]|] eqn:Erm; [|contradiction].
  exists s', (tdel t1 dir), r. split; [exact Hrun|]. split; [|split].
  - intros x Hx. apply indom_del in Hx. destruct Hx as [Hin Hne]. destruct Hp as (_ & _ & _ & _ & Honly).
    destruct (Honly x Hin) as [H|H]; [exact H|contradiction].
  - exact (rm_all_shrinks _ _ _ _ _ _ Erm).
  - intros ->. exact (rm_all_exact rfuel s o name s' Hu Hpl Erm).
Qed.
