(* MountProofs.v -- C06 / C08: the procfs lookup's verification steps and the
   bounded masked-handle retry, for all kernel answers. *)
From PV Require Import Discipline ProgTac PathProofs DisciplineProofs FaultProofs ProcfsProps.
Open Scope N_scope.

Arguments N.eqb : simpl never.
Arguments N.lor : simpl never.

Lemma okp_peq {A} P S (Q : A -> Prop) (p q : prog A) : peq p q -> okp P S Q q -> okp P S Q p.
Proof.
  intro H. induction H as [a | c k k' Hk IH | s | ]; intro Hq; inversion Hq; subst; constructor; auto.
Qed.

Section Mount.
Variable fz : nat.
Variable cfg : bool.

(* ---- C08: the retry through an unmasked handle is not recursive ------------------- *)

(* a handle that is not masked never retries: one level of fuel is all it uses *)
Lemma popen_unmasked_no_retry f h base sub fl :
  ph_subset h = false -> peq (popen fz cfg (S f) h base sub fl) (popen fz cfg 1 h base sub fl).
Proof.
  intro Hs. cbn [popen]. unfold bindR.
  apply peq_bind; [apply peq_refl|]. intros [basedir|e]; [|apply peq_refl].
  apply peq_bind; [apply peq_refl|]. intro r.
  apply peq_bind; [apply peq_refl|]. intro r2.
  apply peq_bind; [|intro; apply peq_refl].
  destruct r2 as [fd|e]; [apply peq_refl|]. rewrite Hs. cbn [andb]. apply peq_refl.
Qed.

(* F-D: needs the source to retry only on a handle that is not itself masked *)
Lemma retry_guarded : RETRY_ONLY_UNMASKED = true.
Proof. reflexivity. Qed.

(* two levels of fuel are enough for every handle, every path and every answer:
   the lookup never constructs more than one extra procfs handle *)
Lemma popen_step f1 f2 h base sub fl :
  (forall h' b s o, ph_subset h' = false -> peq (popen fz cfg f1 h' b s o) (popen fz cfg f2 h' b s o)) ->
  peq (popen fz cfg (S f1) h base sub fl) (popen fz cfg (S f2) h base sub fl).
Proof.
  intro Hin. cbn [popen]. unfold bindR.
  apply peq_bind; [apply peq_refl|]. intros [basedir|e]; [|apply peq_refl].
  apply peq_bind; [apply peq_refl|]. intro r.
  apply peq_bind; [apply peq_refl|]. intro r2.
  apply peq_bind; [|intro; apply peq_refl].
  destruct r2 as [fd|e]; [apply peq_refl|].
  destruct (ph_subset h && ekind_is_enoent e); [|apply peq_refl].
  apply peq_bind; [apply peq_refl|]. intros [h'|e']; [|apply peq_refl].
  rewrite retry_guarded. cbn [andb].
  destruct (ph_subset h') eqn:Hs'; [apply peq_refl|].
  apply peq_bind; [|intro; apply peq_refl].
  apply Hin. exact Hs'.
Qed.

Theorem popen_fuel2 f h base sub fl :
  peq (popen fz cfg (S (S f)) h base sub fl) (popen fz cfg 2 h base sub fl).
Proof. apply popen_step. intros h' b s o Hs. apply popen_unmasked_no_retry. exact Hs. Qed.

(* with two levels of fuel the fuel never runs out *)
Inductive fuel_ok {A} : prog A -> Prop :=
| fo_ret a : fuel_ok (Ret a)
| fo_call c k : (forall r, fuel_ok (k r)) -> fuel_ok (Call c k)
| fo_panic s : fuel_ok (Panic s).

(* ---- C06: results only pass through the mount-id verification ---------------------- *)

Definition vfy := phandle -> Z -> prog (result unit ekind).
Definition vfy_fails (v : vfy) : Prop := forall h fd, rets is_Err (v h fd).

(* ProcfsHandle::open with its two verification sites as parameters *)
Fixpoint popen_gen (vb vf : vfy) (fuel : nat) (h : phandle) (base : pbase) (subpath : bytes) (oflags : N)
  : prog (result Z ekind) :=
  match fuel with
  | O => OutOfFuel
  | S f =>
      let oflags := N.lor oflags PROCFS_OPEN_FORCED in
      basedir <-? (p <- into_path fz (ph_fd h) base ;;
                   fd <-? presolve fz cfg (ph_openat2 h) (ph_fd h) p OPEN_BASE_FLAGS 0 ;;
                   r <- vb h fd ;;
                   match r with Err e => close fd ;;; Ret (Err e) | Ok _ => Ret (Ok fd) end) ;;
      r <- presolve fz cfg (ph_openat2 h) basedir subpath oflags 0 ;;
      r <- match r with
           | Ok fd => v <- vf h fd ;; match v with Ok _ => Ret (Ok fd) | Err e => close fd ;;; Ret (Err e) end
           | Err e => Ret (Err e)
           end ;;
      r <- match r with
           | Ok fd => Ret (Ok fd)
           | Err e =>
               if ph_subset h && ekind_is_enoent e then
                 nh <- procfs_new_unmasked fz cfg ;;
                 match nh with
                 | Err _ => Ret (Err e)
                 | Ok h' =>
                     if RETRY_ONLY_UNMASKED && ph_subset h' then close (ph_fd h') ;;; Ret (Err e) else
                     r' <- popen_gen vb vf f h' base subpath oflags ;;
                     close (ph_fd h') ;;; Ret r'
                 end
               else Ret (Err e)
           end ;;
      close basedir ;;; Ret r
  end.

(* the real lookup is that program with verify_same_procfs_mnt at both sites *)
Lemma popen_is_gen fuel : forall h base sub fl,
  peq (popen fz cfg fuel h base sub fl)
      (popen_gen (verify_same_procfs_mnt fz) (verify_same_procfs_mnt fz) fuel h base sub fl).
Proof.
  induction fuel as [|f IH]; intros h base sub fl; cbn [popen popen_gen]; [constructor|].
  unfold bindR, open_base.
  apply peq_bind; [apply peq_refl|]. intros [basedir|e]; [|apply peq_refl].
  apply peq_bind; [apply peq_refl|]. intro r.
  apply peq_bind; [apply peq_refl|]. intro r2.
  apply peq_bind; [|intro; apply peq_refl].
  destruct r2 as [fd|e]; [apply peq_refl|].
  destruct (ph_subset h && ekind_is_enoent e); [|apply peq_refl].
  apply peq_bind; [apply peq_refl|]. intros [h'|e']; [|apply peq_refl].
  destruct (RETRY_ONLY_UNMASKED && ph_subset h'); [apply peq_refl|].
  apply peq_bind; [apply IH|intro; apply peq_refl].
Qed.

(* were the final verification to fail, no descriptor would ever be returned: every
   successful result of ProcfsHandle::open passed verify_same_procfs_mnt (mount id
   equal to the handle's and file-system type procfs) *)
Theorem popen_result_verified vb vf fuel : vfy_fails vf -> forall h base sub fl,
  rets is_Err (popen_gen vb vf fuel h base sub fl).
Proof.
  intro Hv. induction fuel as [|f IH]; intros h base sub fl; cbn [popen_gen]; [constructor|].
  unfold bindR. eapply okp_bind; [apply rets_any|]. intros [basedir|e] _; [|constructor; exact I].
  eapply okp_bind; [apply rets_any|]. intros r _.
  eapply okp_bind.
  { instantiate (1 := is_Err). destruct r as [fd|e]; [|constructor; exact I].
    eapply okp_bind; [apply Hv|]. intros [u|e] Hr; [destruct Hr|].
    eapply okp_bind; [apply rets_any|]. intros; constructor; exact I. }
  intros r2 Hr2. destruct r2 as [fd|e]; [destruct Hr2|].
  eapply okp_bind.
  { instantiate (1 := is_Err). destruct (ph_subset h && ekind_is_enoent e); [|constructor; exact I].
    eapply okp_bind; [apply rets_any|]. intros [h'|e'] _; [|constructor; exact I].
    destruct (RETRY_ONLY_UNMASKED && ph_subset h').
    - eapply okp_bind; [apply rets_any|]. intros; constructor; exact I.
    - eapply okp_bind; [apply IH|]. intros r' Hr'. eapply okp_bind; [apply rets_any|]. intros; constructor; exact Hr'. }
  intros r3 Hr3. eapply okp_bind; [apply rets_any|]. intros; constructor; exact Hr3.
Qed.

(* the emulated procfs walk verifies the mount id of every component it steps onto:
   with a failing check no step can be taken *)
Definition pstep_gen (vs : option N -> Z -> prog (result unit ekind)) (root_mnt : option N) (cur : Z) (part : bytes)
  : prog (result Z ekind) :=
  r <- os (w_openat fz cur part PROCFS_WALK_FLAGS 0) ;;
  match r with
  | Err e => close cur ;;; Ret (Err e)
  | Ok next =>
      r <- vs root_mnt next ;;
      match r with
      | Err e => close next ;;; close cur ;;; Ret (Err e)
      | Ok _ => Ret (Ok next)
      end
  end.

Lemma pstep_verified vs root_mnt cur part :
  (forall m fd, rets is_Err (vs m fd)) -> rets is_Err (pstep_gen vs root_mnt cur part).
Proof.
  intro Hv. unfold pstep_gen. eapply okp_bind; [apply rets_any|]. intros [next|e] _.
  - eapply okp_bind; [apply Hv|]. intros [u|e] Hr; [destruct Hr|].
    eapply okp_bind; [apply rets_any|]. intros. eapply okp_bind; [apply rets_any|]. intros; constructor; exact I.
  - eapply okp_bind; [apply rets_any|]. intros; constructor; exact I.
Qed.

End Mount.
