(* ErrTableProofs.v -- C16: the error-id table over all histories. *)
From PV Require Import ErrTable.
Open Scope Z_scope.

Section Proofs.
Variable E : Type.
Notation table := (table E).

Lemma tlookup_tremove_same id (t : table) : tlookup E id (tremove E id t) = None.
Proof.
  induction t as [|[k e] r IH]; cbn; [reflexivity|].
  destruct (Z.eqb_spec k id); [exact IH|]. cbn. destruct (Z.eqb_spec k id); [contradiction|exact IH].
Qed.

Lemma tlookup_tremove_other id k (t : table) : k <> id -> tlookup E k (tremove E id t) = tlookup E k t.
Proof.
  intro Hne. induction t as [|[k' e] r IH]; cbn; [reflexivity|].
  destruct (Z.eqb_spec k' id) as [->|Hk].
  - destruct (Z.eqb_spec id k); [congruence|exact IH].
  - cbn. destruct (Z.eqb_spec k' k); [reflexivity|exact IH].
Qed.

(* store returns one of its draws, that draw was vacant, and nothing else changes *)
Lemma store_spec draws e (t : table) id t' :
  store E draws e t = Some (id, t') ->
  In id draws /\ tlookup E id t = None /\ t' = (id, e) :: t.
Proof.
  revert t'. induction draws as [|d rest IH]; intros t' H; cbn in H; [discriminate|].
  destruct (tlookup E d t) eqn:El.
  - destruct (IH _ H) as (Hin & Hv & Ht). split; [right; exact Hin|split; assumption].
  - inversion H; subst. split; [left; reflexivity|split; [exact El|reflexivity]].
Qed.

(* if some draw is vacant the loop terminates with an id (no RStuck) *)
Lemma store_progress draws e (t : table) :
  (exists d, In d draws /\ tlookup E d t = None) -> exists id t', store E draws e t = Some (id, t').
Proof.
  intros (d & Hin & Hv). induction draws as [|x rest IH]; [destruct Hin|].
  cbn. destruct (tlookup E x t) eqn:El.
  - destruct Hin as [->|Hin]; [congruence|]. apply IH, Hin.
  - eauto.
Qed.

(* refinement: every concrete step is the abstract map's step *)
Theorem step_refines (t : table) o :
  match o, step E t o with
  | OStore _ draws e, (t', RStored _ id) =>
      In id draws /\ abs E t id = None /\ forall k, abs E t' k = aset E (abs E t) id e k
  | OStore _ _ _, (t', RStuck _) => t' = t
  | OTake _ id, (t', RTaken _ r) => r = abs E t id /\ forall k, abs E t' k = adel E (abs E t) id k
  | _, _ => False
  end.
Proof.
  destruct o as [draws e|id]; cbn.
  - destruct (store E draws e t) as [[id t']|] eqn:Es; [|reflexivity].
    destruct (store_spec _ _ _ _ _ Es) as (Hin & Hv & ->).
    split; [exact Hin|split; [exact Hv|]]. intro k. unfold abs, aset. cbn.
    rewrite Z.eqb_sym. reflexivity.
  - split; [reflexivity|]. intro k. unfold abs, adel.
    destruct (Z.eqb_spec k id) as [->|Hne]; [apply tlookup_tremove_same|apply tlookup_tremove_other; exact Hne].
Qed.

(* ids never look like an errno: every id handed out lies in [INT_MIN, ERR_ID_MAX] *)
Definition draws_ok (o : op E) : Prop :=
  match o with OStore _ draws _ => Forall (fun d => in_range d = true) draws | OTake _ _ => True end.

Lemma in_range_not_errno d : in_range d = true -> d < -4095 /\ INT_MIN <= d.
Proof.
  unfold in_range. intro H. apply andb_true_iff in H as [H1 H2].
  apply Z.leb_le in H1, H2. change ERR_ID_MIN with INT_MIN in H1.
  assert (ERR_ID_MAX <= -4096) by (vm_compute; discriminate). lia.
Qed.

Theorem id_not_errno (t : table) o t' id :
  draws_ok o -> step E t o = (t', RStored E id) -> id < -4095 /\ INT_MIN <= id.
Proof.
  destruct o as [draws e|i]; cbn; intros Hd H.
  - destruct (store E draws e t) as [[id' t'']|] eqn:Es; [|discriminate]. inversion H; subst.
    destruct (store_spec _ _ _ _ _ Es) as (Hin & _ & _).
    apply in_range_not_errno. rewrite Forall_forall in Hd. apply Hd, Hin.
  - discriminate.
Qed.

(* a fresh id differs from every id that is stored and not yet consumed *)
Theorem unique_live (t : table) draws e t' id :
  step E t (OStore E draws e) = (t', RStored E id) -> tlookup E id t = None.
Proof.
  cbn. destruct (store E draws e t) as [[id' t'']|] eqn:Es; [|discriminate].
  intro H; inversion H; subst. destruct (store_spec _ _ _ _ _ Es) as (_ & Hv & _). exact Hv.
Qed.

(* consuming an id returns exactly what was stored under it, and a second
   consumption returns nothing *)
Theorem take_exact_once (t : table) draws e t1 id :
  step E t (OStore E draws e) = (t1, RStored E id) ->
  forall (others : list (op E)),
    Forall (fun o => match o with OTake _ i => i <> id | OStore _ _ _ => True end) others ->
    let '(t2, _) := run E t1 others in
    let '(t3, r1) := step E t2 (OTake E id) in
    let '(_, r2) := step E t3 (OTake E id) in
    r1 = RTaken E (Some e) /\ r2 = RTaken E None.
Proof.
  intros Hs others Hoth.
  assert (H1 : tlookup E id t1 = Some e).
  { cbn in Hs. destruct (store E draws e t) as [[id' t'']|] eqn:Es; [|discriminate]. inversion Hs; subst.
    destruct (store_spec _ _ _ _ _ Es) as (_ & _ & ->). cbn. rewrite Z.eqb_refl. reflexivity. }
  clear Hs. revert t1 H1. induction others as [|o rest IH]; intros t1 H1.
  - cbn. rewrite H1. split; [reflexivity|]. rewrite tlookup_tremove_same. reflexivity.
  - inversion Hoth as [|? ? Ho Hrest]; subst. cbn [run].
    destruct (step E t1 o) as [t1' x] eqn:Est.
    assert (H1' : tlookup E id t1' = Some e).
    { destruct o as [dr e'|i]; cbn in Est.
      - destruct (store E dr e' t1) as [[id' t'']|] eqn:Es; inversion Est; subst; [|exact H1].
        destruct (store_spec _ _ _ _ _ Es) as (_ & Hv & ->). cbn.
        destruct (Z.eqb_spec id' id) as [->|_]; [congruence|exact H1].
      - inversion Est; subst. rewrite tlookup_tremove_other; [exact H1|]. intro; subst; apply Ho; reflexivity. }
    specialize (IH Hrest t1' H1').
    destruct (run E t1' rest) as [t2 xs]. exact IH.
Qed.

End Proofs.

(* the errno a C caller sees for each error kind (table regenerated by T0) *)
Theorem errno_table :
  (forall e, saved_errno (OsError e) = e) /\
  saved_errno InvalidArgument = 22%N /\ saved_errno SafetyViolation = 18%N /\
  saved_errno NotImplemented = 38%N /\ saved_errno NotSupported = 0%N /\ saved_errno InternalError = 0%N.
Proof. repeat split. Qed.
