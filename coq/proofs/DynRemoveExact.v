(* DynRemoveExact.v -- C13, the exact statement about the pure function rm_all (DynRemove.v):
   whenever the entry of a directory disappears, that directory is empty from then on ([step_ok]: true of
   every unlink / rmdir -- rmdir needs an empty directory --, transitive, hence true of rm_all); after a
   success every directory below the named one is therefore empty ([rm_all_empties]), everything beneath it
   is gone, and the entries afterwards are exactly those before minus the named entry and what is beneath
   it ([rm_all_exact]).  Premise: names are unique within a directory ([uniq]). *)
From PV Require Import Dyn BitsProofs PathProofs StaticProofs StaticProcfs ProgTac StaticBal FaultProofs EffectProofs DynProofs DynMkdir DynRemove.
From PV Require FSModel FSProofs.
From Coq Require Import Lia.
Open Scope N_scope.

(* names are unique within a directory (entry-wise, so it survives the disappearance of entries) *)
Definition uniq (s : fs) : Prop :=
  forall d n1 n2 c1 c2, In (d, n1, c1) (ents s) -> In (d, n2, c2) (ents s) -> beq n1 n2 = true -> c1 = c2.

Lemma uniq_shrinks s s' : shrinks s s' -> uniq s -> uniq s'.
Proof. intros (_ & _ & Hi) H d n1 n2 c1 c2 H1 H2 Hb. exact (H d n1 n2 c1 c2 (Hi _ H1) (Hi _ H2) Hb). Qed.

Lemma has_child_shrinks s s' o : shrinks s s' -> has_child s' o = true -> has_child s o = true.
Proof.
  intros (_ & _ & Hi) H. unfold has_child in *. apply existsb_exists in H. destruct H as (e & He & Hd).
  apply existsb_exists. exists e. split; [apply Hi, He|exact Hd].
Qed.

(* a directory's entry disappears only when the directory is empty -- and it stays empty *)
Definition step_ok (s s' : fs) : Prop :=
  shrinks s s' /\
  forall o n o', In (o, n, o') (ents s) -> is_dir s o' = true -> ~ In (o, n, o') (ents s') -> has_child s' o' = false.

Lemma step_ok_refl s : step_ok s s.
Proof. split; [apply shrinks_refl|]. intros o n o' Hin _ Hn. contradiction. Qed.

Lemma step_ok_trans s1 s2 s3 : step_ok s1 s2 -> step_ok s2 s3 -> step_ok s1 s3.
Proof.
  intros [Hs12 H12] [Hs23 H23]. split; [eapply shrinks_trans; eassumption|].
  intros o n o' Hin Hd Hn.
  destruct (in_dec ent_dec (o, n, o') (ents s2)) as [Hin2|Hn2].
  - apply (H23 o n o' Hin2); [rewrite (is_dir_shrinks _ _ o' Hs12); exact Hd|exact Hn].
  - pose proof (H12 o n o' Hin Hd Hn2) as Hc. destruct (has_child s3 o') eqn:E; [|reflexivity].
    rewrite (has_child_shrinks _ _ _ Hs23 E) in Hc. discriminate.
Qed.

Lemma lookup_in_uniq s d name n' c : uniq s -> In (d, n', c) (ents s) -> beq name n' = true -> lookup s d name = Some c.
Proof.
  intros Hu Hin Hb. unfold FSModel.lookup.
  assert (Hex : exists c0, FSModel.find_ent (ents s) d name = Some c0).
  { clear Hu. induction (ents s) as [|[[d0 n0] c0] es IH]; [destruct Hin|]. cbn [FSModel.find_ent].
    destruct Hin as [E|Hin].
    - inversion E; subst. rewrite Nat.eqb_refl, Hb. eexists; reflexivity.
    - destruct (Nat.eqb d d0 && beq name n0); [eexists; reflexivity|exact (IH Hin)]. }
  destruct Hex as (c0 & Hc0). rewrite Hc0. f_equal.
  destruct (find_ent_in _ _ _ _ Hc0) as (n0 & Hin0 & Hb0).
  apply (Hu d n0 n' c0 c Hin0 Hin).
  apply beq_true_iff in Hb0. apply beq_true_iff in Hb. subst. apply PathProofs.beq_refl.
Qed.

(* what del_ent removes *)
Lemma del_ent_in s d n e : In e (ents s) -> ~ In e (ents (del_ent s d n)) -> ent_dir e = d /\ beq (ent_name e) n = true.
Proof.
  intros He Hne. unfold del_ent in Hne. cbn [FSModel.ents] in Hne.
  destruct (ent_at d n e) eqn:Ea.
  - unfold ent_at in Ea. apply andb_true_iff in Ea. destruct Ea as [E1 E2]. apply Nat.eqb_eq in E1. split; assumption.
  - exfalso. apply Hne. apply filter_In. split; [exact He|]. rewrite Ea. reflexivity.
Qed.

Lemma unlink_sem_step s d n fl s' : uniq s -> unlink_sem s d n fl = EUnit s' -> step_ok s s'.
Proof.
  intros Hu H. split; [exact (unlink_sem_shrinks _ _ _ _ _ H)|].
  intros o nm o' Hin Hd Hnin.
  unfold unlink_sem in H.
  destruct (negb (N.eqb fl 0 || N.eqb fl AT_REMOVEDIR)); [discriminate|].
  destruct (negb (is_dir s d)); [discriminate|].
  destruct (is_nil n); [discriminate|].
  destruct (has_slash n || has_nul n); [discriminate|].
  destruct (N.eqb fl 0).
  - destruct (is_dot n || is_dotdot n); [discriminate|].
    destruct (lookup s d n) as [c|] eqn:El; [|discriminate].
    destruct (is_dir s c) eqn:Ec; [discriminate|]. inversion H; subst s'.
    destruct (del_ent_in s d n (o, nm, o') Hin Hnin) as [E1 E2]. cbn [ent_dir ent_name fst snd] in E1, E2. subst o.
    rewrite PathProofs.beq_true_iff in E2. subst nm.
    rewrite (lookup_in_uniq s d n n o' Hu Hin (PathProofs.beq_refl n)) in El. inversion El; subst c. congruence.
  - destruct (is_dot n); [discriminate|]. destruct (is_dotdot n); [discriminate|].
    destruct (lookup s d n) as [c|] eqn:El; [|discriminate].
    destruct (negb (is_dir s c)); [discriminate|].
    destruct (has_child s c) eqn:Ech; [discriminate|]. inversion H; subst s'.
    destruct (del_ent_in s d n (o, nm, o') Hin Hnin) as [E1 E2]. cbn [ent_dir ent_name fst snd] in E1, E2. subst o.
    rewrite PathProofs.beq_true_iff in E2. subst nm.
    rewrite (lookup_in_uniq s d n n o' Hu Hin (PathProofs.beq_refl n)) in El. inversion El; subst c.
    destruct (has_child (del_ent s d n) o') eqn:E; [|reflexivity].
    assert (Hsh : shrinks s (del_ent s d n)) by (repeat split; try reflexivity; unfold del_ent; cbn [FSModel.ents]; apply incl_filter).
    rewrite (has_child_shrinks _ _ _ Hsh E) in Ech. discriminate.
Qed.

Lemma rm_inode_step s d n : uniq s -> step_ok s (fst (rm_inode s d n)).
Proof.
  intro Hu. unfold rm_inode.
  destruct (unlink_sem s d n 0) as [|ue|s'|s' o] eqn:E1.
  - destruct (unlink_sem s d n AT_REMOVEDIR) as [|re|s'|s' o] eqn:E2; cbn [fst]; try apply step_ok_refl. exact (unlink_sem_step _ _ _ _ _ Hu E2).
  - destruct (unlink_sem s d n AT_REMOVEDIR) as [|re|s'|s' o] eqn:E2; cbn [fst]; try apply step_ok_refl. exact (unlink_sem_step _ _ _ _ _ Hu E2).
  - cbn [fst]. exact (unlink_sem_step _ _ _ _ _ Hu E1).
  - destruct (unlink_sem s d n AT_REMOVEDIR) as [|re|s''|s'' o'] eqn:E2; cbn [fst]; try apply step_ok_refl. exact (unlink_sem_step _ _ _ _ _ Hu E2).
Qed.

Lemma rm_entries_step rec : (forall s n s' r, uniq s -> rec s n = Some (s', r) -> step_ok s s') ->
  forall g s c buf read seen s' r, uniq s -> rm_entries rec g s c buf read seen = Some (s', r) -> step_ok s s'.
Proof.
  intro Hrec. induction g as [|g IH]; intros s c buf read seen s' r Hu H; cbn [rm_entries] in H; [discriminate|].
  destruct buf as [|n rest].
  - destruct read; [inversion H; subst; apply step_ok_refl|]. eapply IH; eassumption.
  - destruct (dot_or_dotdot n); [eapply IH; eassumption|].
    destruct (rec s n) as [[s1 r1]|] eqn:Er; [|discriminate]. pose proof (Hrec _ _ _ _ Hu Er) as Hs1.
    destruct (ignore_enoent r1); [|inversion H; subst; exact Hs1].
    eapply step_ok_trans; [exact Hs1|]. eapply IH; [exact (uniq_shrinks _ _ (proj1 Hs1) Hu)|exact H].
Qed.

Lemma rm_rounds_step scan fin : (forall s s' r, uniq s -> scan s = Some (s', r) -> step_ok s s') -> (forall s, uniq s -> step_ok s (fst (fin s))) ->
  forall g s s' r, uniq s -> rm_rounds scan fin g s = Some (s', r) -> step_ok s s'.
Proof.
  intros Hscan Hfin. induction g as [|g IH]; intros s s' r Hu H; cbn [rm_rounds] in H; [discriminate|].
  destruct (scan s) as [[s1 [[|]|e]]|] eqn:Es; try discriminate.
  - pose proof (Hscan _ _ _ Hu Es) as Hs1. eapply step_ok_trans; [exact Hs1|]. eapply IH; [exact (uniq_shrinks _ _ (proj1 Hs1) Hu)|exact H].
  - pose proof (Hscan _ _ _ Hu Es) as Hs1. inversion H as [H1]. eapply step_ok_trans; [exact Hs1|].
    pose proof (Hfin s1 (uniq_shrinks _ _ (proj1 Hs1) Hu)) as Hf. rewrite H1 in Hf. exact Hf.
  - inversion H; subst. exact (Hscan _ _ _ Hu Es).
Qed.

Theorem rm_all_step : forall fuel s d name s' r, uniq s -> rm_all fuel s d name = Some (s', r) -> step_ok s s'.
Proof.
  induction fuel as [|f IH]; intros s d name s' r Hu H; cbn [rm_all] in H; [discriminate|].
  destruct (has_slash name); [inversion H; subst; apply step_ok_refl|].
  destruct (REMOVE_ALL_REFUSES_DOTS && dot_or_dotdot name); [inversion H; subst; apply step_ok_refl|].
  pose proof (rm_inode_step s d name Hu) as Hi. destruct (rm_inode s d name) as [s1 r1]. cbn [fst] in Hi.
  destruct (ignore_enoent r1); [inversion H; subst; exact Hi|].
  pose proof (uniq_shrinks _ _ (proj1 Hi) Hu) as Hu1.
  destruct (mk_open s1 d name) as [c|e'].
  - eapply step_ok_trans; [exact Hi|]. eapply rm_rounds_step; [| |exact Hu1|exact H].
    + intros s2 s3 r3 Hu2 Hs. eapply rm_entries_step; [|exact Hu2|exact Hs]. intros s4 n s5 r5 Hu4 Hr. cbv beta in Hr. exact (IH _ _ _ _ _ Hu4 Hr).
    + intros s2 Hu2. cbv beta. pose proof (rm_inode_step s2 d name Hu2) as Hi2. destruct (rm_inode s2 d name) as [s3 r3]. cbn [fst] in *. exact Hi2.
  - destruct (N.eqb e' ENOENT); inversion H; subst; exact Hi.
Qed.

(* the directories below [c]: [c] and what is reached from it through entries that are directories *)
Inductive desc (s : fs) (c : nat) : nat -> Prop :=
| desc_refl : desc s c c
| desc_step o n o' : desc s c o -> In (o, n, o') (ents s) -> is_dir s o' = true -> desc s c o'.

Lemma find_ent_none es d n n' c : FSModel.find_ent es d n = None -> In (d, n', c) es -> beq n n' = true -> False.
Proof.
  induction es as [|[[d0 n0] c0] es IH]; intros H Hin Hb; [destruct Hin|]. cbn [FSModel.find_ent] in H.
  destruct Hin as [E|Hin].
  - inversion E; subst. rewrite Nat.eqb_refl, Hb in H. discriminate.
  - destruct (Nat.eqb d d0 && beq n n0); [discriminate|]. exact (IH H Hin Hb).
Qed.

(* C13: when remove_all reports success, every directory below the named one is empty afterwards, hence
   every entry beneath the named one is gone *)
Theorem rm_all_empties fuel s d name s' n' c :
  uniq s -> Dyn.plain name = true -> rm_all fuel s d name = Some (s', Ok tt) ->
  In (d, n', c) (ents s) -> beq name n' = true -> is_dir s c = true ->
  forall o, desc s c o -> has_child s' o = false.
Proof.
  intros Hu Hp H Hin Hb Hdir.
  destruct (rm_all_step fuel s d name s' _ Hu H) as [Hsh Hstep].
  pose proof (rm_all_gone fuel s d name s' Hp H) as Hgone.
  induction 1 as [|o n o' _ IH Hin' Hd'].
  - apply (Hstep d n' c Hin Hdir). intro Hin2. unfold FSModel.lookup in Hgone. exact (find_ent_none _ _ _ _ _ Hgone Hin2 Hb).
  - apply (Hstep o n o' Hin' Hd'). intro Hin2.
    unfold has_child in IH. rewrite <- Bool.not_true_iff_false in IH. apply IH. apply existsb_exists.
    exists (o, n, o'). split; [exact Hin2|]. cbn [ent_dir fst]. apply Nat.eqb_refl.
Qed.

Lemma beneath_desc s c e : beneath s c e -> exists o, desc s c o /\ ent_dir e = o /\ In e (ents s).
Proof.
  induction 1 as [c e Hin Hd|c n c' e Hin Hdir _ IH].
  - exists c. split; [constructor|split; [exact Hd|exact Hin]].
  - destruct IH as (o & Hdesc & Ho & Hine). exists o. split; [|split; assumption].
    clear Ho Hine. induction Hdesc as [|o1 n1 o2 _ IH1 Hin1 Hd1].
    + eapply desc_step; [constructor|exact Hin|exact Hdir].
    + eapply desc_step; [exact IH1|exact Hin1|exact Hd1].
Qed.

Theorem rm_all_removes_everything_beneath fuel s d name s' n' c :
  uniq s -> Dyn.plain name = true -> rm_all fuel s d name = Some (s', Ok tt) ->
  In (d, n', c) (ents s) -> beq name n' = true -> is_dir s c = true ->
  forall e, beneath s c e -> ~ In e (ents s').
Proof.
  intros Hu Hp H Hin Hb Hdir e Hbe Hine.
  destruct (beneath_desc _ _ _ Hbe) as (o & Hdesc & Ho & _).
  pose proof (rm_all_empties fuel s d name s' n' c Hu Hp H Hin Hb Hdir o Hdesc) as Hc.
  unfold has_child in Hc. rewrite <- Bool.not_true_iff_false in Hc. apply Hc. apply existsb_exists.
  exists e. split; [exact Hine|]. rewrite Ho. apply Nat.eqb_refl.
Qed.

(* C13, the exact statement: after a successful remove_all the entries are exactly those that were there and are
   neither the named entry nor beneath the directory under that name; objects and parents untouched (rm_all_shrinks) *)
Theorem rm_all_exact fuel s d name s' :
  uniq s -> Dyn.plain name = true -> rm_all fuel s d name = Some (s', Ok tt) ->
  forall e, In e (ents s') <-> (In e (ents s) /\ ~ under s d name e).
Proof.
  intros Hu Hp H e. pose proof (rm_all_shrinks _ _ _ _ _ _ H) as (_ & _ & Hincl).
  pose proof (rm_all_gone fuel s d name s' Hp H) as Hgone.
  split.
  - intro Hin'. split; [apply Hincl, Hin'|]. intros [[Hd Hn]|(n2 & c2 & Hin2 & Hb2 & Hdir2 & Hbe)].
    + destruct e as [[ed en] ec]. cbn [ent_dir ent_name fst snd] in Hd, Hn. subst ed.
      unfold FSModel.lookup in Hgone. rewrite beq_sym in Hn. exact (find_ent_none _ _ _ _ _ Hgone Hin' Hn).
    + exact (rm_all_removes_everything_beneath fuel s d name s' n2 c2 Hu Hp H Hin2 Hb2 Hdir2 e Hbe Hin').
  - intros [Hin Hnu]. destruct (in_dec ent_dec e (ents s')) as [Hin'|Hnin]; [exact Hin'|].
    exfalso. apply Hnu. exact (rm_all_only fuel s s d name s' _ (shrinks_refl s) H e Hin Hnin).
Qed.
