(* MonitorProofs.v -- the judgements of BeneathProofs as executable monitors over recorded
   traces, and their soundness: a program that satisfies the judgement produces only traces
   the monitor accepts.  tools/props/C12.py and C13.py evaluate the monitors on the traces
   of the running library (no model involved in that evaluation). *)
From PV Require Import ProgTac PathProofs BitsProofs RootM Replay BeneathProofs FaultProofs EffectProofs.
From Coq Require Import Lia.
Open Scope N_scope.

Arguments N.eqb : simpl never.
Arguments N.lor : simpl never.
Arguments N.land : simpl never.

Lemma call_eqb_eq c c' : call_eqb c c' = true -> c = c'.
Proof.
  destruct c, c'; cbn [call_eqb]; try discriminate; intro E; try reflexivity;
    repeat match goal with H : _ && _ = true |- _ => apply andb_true_iff in H; destruct H end;
    repeat match goal with H : zeqb _ _ = true |- _ => apply Z.eqb_eq in H; subst end;
    repeat match goal with H : beq _ _ = true |- _ => apply beq_true_iff in H; subst end;
    repeat match goal with H : N.eqb _ _ = true |- _ => apply N.eqb_eq in H; subst end;
    reflexivity.
Qed.

Definition zmem (x : Z) (l : list Z) : bool := existsb (Z.eqb x) l.
Lemma zmem_in x l : zmem x l = true <-> In x l.
Proof.
  unfold zmem. rewrite existsb_exists. split.
  - intros (y & Hy & E). apply Z.eqb_eq in E. subst. exact Hy.
  - intro H. exists x. split; [exact H|apply Z.eqb_refl].
Qed.

(* ---- remove_all: stays beneath ------------------------------------------------------- *)

Definition plainb (n : bytes) : bool := negb (has_slash n) && negb (dot_or_dotdot n).

Definition call_okb (top : Z) (nm : bytes) (D : list Z) (c : call) : bool :=
  match c with
  | Unlinkat d n _ => (Z.eqb d top && beq n nm) || (zmem d D && plainb n)
  | Openat d n fl _ =>
      (Z.eqb d top && beq n nm && has fl O_NOFOLLOW) ||
      (zmem d D && ((plainb n && has fl O_NOFOLLOW) || beq n [DOT]))
  | Openat2 _ _ _ _ _ | Mkdirat _ _ _ | Mknodat _ _ _ _ | Linkat _ _ _ _ _ | Symlinkat _ _ _
  | Renameat _ _ _ _ | Renameat2 _ _ _ _ _ => false
  | _ => true
  end.

Lemma plainb_plain n : plainb n = true <-> plain n.
Proof.
  unfold plainb, plain. rewrite andb_true_iff, !negb_true_iff. tauto.
Qed.

Lemma call_okb_of top nm D c : call_ok top nm D c -> call_okb top nm D c = true.
Proof.
  destruct c; cbn [call_ok call_okb]; try tauto; try reflexivity.
  - intros [ [ -> [ -> H ] ] | [ Hin [ [ Hp H ] | -> ] ] ].
    + rewrite Z.eqb_refl, beq_refl, H. reflexivity.
    + apply zmem_in in Hin. apply plainb_plain in Hp. rewrite Hin, Hp, H. cbn [andb orb]. apply orb_true_r.
    + apply zmem_in in Hin. rewrite Hin, beq_refl. cbn [andb]. rewrite !orb_true_r. reflexivity.
  - intros [ [ -> -> ] | [ Hin Hp ] ].
    + rewrite Z.eqb_refl, beq_refl. reflexivity.
    + apply zmem_in in Hin. apply plainb_plain in Hp. rewrite Hin, Hp. apply orb_true_r.
Qed.

Fixpoint trace_sub (top : Z) (nm : bytes) (t : trace) (D : list Z) : bool :=
  match t with
  | [] => true
  | (c, r) :: t' => call_okb top nm D c && trace_sub top nm t' (grow D c r)
  end.

Theorem sub_sound {A} top nm (Q : A -> list Z -> Prop) (p : prog A) : forall D t idx a n,
  sub top nm Q D p -> run_trace p t idx = RDone a n -> trace_sub top nm t D = true.
Proof.
  intros D t idx a n Hs. revert t idx. induction Hs as [a0 D Ha|c k D Hc Hk IH|s D|D]; intros t idx Hr.
  - destruct t; cbn in Hr; [reflexivity|discriminate].
  - destruct t as [|[c' r] t']; cbn in Hr; [discriminate|].
    destruct (call_eqb c c') eqn:E; [|discriminate]. apply call_eqb_eq in E. subst c'.
    cbn [trace_sub]. rewrite (call_okb_of _ _ _ _ Hc). cbn [andb]. eapply IH. exact Hr.
  - cbn in Hr. discriminate.
  - cbn in Hr. discriminate.
Qed.

(* the monitor for a whole Root::remove_all trace: the first unlinkat names (dirfd, name);
   from there on the judgement is checked with an empty set of descending descriptors *)
Fixpoint trace_beneath (t : trace) : bool :=
  match t with
  | [] => true
  | (Unlinkat d n fl, r) :: t' => trace_sub d n t []
  | _ :: t' => trace_beneath t'
  end.

(* ---- mkdir_all: one chain -------------------------------------------------------------- *)

Definition chain_okb (st : cstate) (c : call) : bool :=
  match c with
  | Mkdirat d n _ => Z.eqb d (fst st) && (match snd st with None => true | Some _ => false end) &&
                     negb (has_slash n) && negb (dot_or_dotdot n) && negb (is_nil n)
  | Openat d n fl _ => Z.eqb d (fst st) && (match snd st with Some m => beq m n | None => false end) &&
                       has fl O_NOFOLLOW && has fl O_DIRECTORY
  | Openat2 _ _ _ _ _ | Mknodat _ _ _ _ | Unlinkat _ _ _ | Linkat _ _ _ _ _ | Symlinkat _ _ _
  | Renameat _ _ _ _ | Renameat2 _ _ _ _ _ => false
  | _ => true
  end.

Lemma chain_okb_of st c : chain_ok st c -> chain_okb st c = true.
Proof.
  destruct c; cbn [chain_ok chain_okb]; try tauto; try reflexivity.
  - intros (-> & Hs & H1 & H2). rewrite Z.eqb_refl, Hs, beq_refl, H1, H2. reflexivity.
  - intros (-> & Hs & H1 & H2 & H3). rewrite Z.eqb_refl, Hs, H1, H2. destruct path; [contradiction|reflexivity].
Qed.

Fixpoint trace_chain_from (t : trace) (st : cstate) : bool :=
  match t with
  | [] => true
  | (c, r) :: t' => chain_okb st c && trace_chain_from t' (chain_step st c r)
  end.

Theorem chain_sound {A} (Q : A -> cstate -> Prop) (p : prog A) : forall st t idx a n,
  chain Q st p -> run_trace p t idx = RDone a n -> trace_chain_from t st = true.
Proof.
  intros st t idx a n Hs. revert t idx. induction Hs as [st a0 Ha|c k st Hc Hk IH|s st|st]; intros t idx Hr.
  - destruct t; cbn in Hr; [reflexivity|discriminate].
  - destruct t as [|[c' r] t']; cbn in Hr; [discriminate|].
    destruct (call_eqb c c') eqn:E; [|discriminate]. apply call_eqb_eq in E. subst c'.
    cbn [trace_chain_from]. rewrite (chain_okb_of _ _ Hc). cbn [andb]. eapply IH. exact Hr.
  - cbn in Hr. discriminate.
  - cbn in Hr. discriminate.
Qed.

(* the monitor for a whole Root::mkdir_all trace: the chain starts at the first mkdirat *)
Fixpoint trace_chain (t : trace) : bool :=
  match t with
  | [] => true
  | (Mkdirat d n m, r) :: t' => trace_chain_from t (d, None)
  | _ :: t' => trace_chain t'
  end.

(* ---- how many tree-changing calls a trace contains --------------------------------------- *)

Fixpoint trace_count (f : call -> bool) (t : trace) : nat :=
  match t with
  | [] => 0%nat
  | (c, _) :: t' => ((if f c then 1 else 0) + trace_count f t')%nat
  end.

Theorem calls_le_sound {A} (f : call -> bool) (p : prog A) : forall n t idx a m,
  calls_le f n p -> run_trace p t idx = RDone a m -> (trace_count f t <= n)%nat.
Proof.
  intros n t idx a m Hc. revert t idx. induction Hc as [n a0|n c k Hf Hk IH|n c k Hf Hk IH|n s|n]; intros t idx Hr.
  - destruct t; cbn in Hr; [cbn; lia|discriminate].
  - destruct t as [|[c' r] t']; cbn in Hr; [discriminate|].
    destruct (call_eqb c c') eqn:E; [|discriminate]. apply call_eqb_eq in E. subst c'.
    cbn [trace_count]. rewrite Hf. specialize (IH r t' (S idx) Hr). lia.
  - destruct t as [|[c' r] t']; cbn in Hr; [discriminate|].
    destruct (call_eqb c c') eqn:E; [|discriminate]. apply call_eqb_eq in E. subst c'.
    cbn [trace_count]. rewrite Hf. specialize (IH r t' (S idx) Hr). lia.
  - cbn in Hr. discriminate.
  - cbn in Hr. discriminate.
Qed.

Definition trace_effects (t : trace) : Z := Z.of_nat (trace_count eff t).
