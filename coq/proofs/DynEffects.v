(* DynEffects.v -- C14, the full functional statement on the dynamic kernel (theories/Dyn.v):
   executing a single-entry Root operation ends in exactly the state that the corresponding
   *at call produces when applied to (the object the in-root walk of the parent path ends on,
   path_split's last component): the tree is [create_sem / unlink_sem / link_sem / rename_sem /
   creat_sem] of the old tree, or -- on an error -- the old tree itself with that errno; the
   descriptor table is what it was (the parent descriptor is closed again); nothing else.
   Proved for BOTH backends: the emulated one (through C01's refinement and C11's balance,
   carried over by the bridge DynProofs.drun_static) and the kernel one (one openat2). *)
From PV Require Import Dyn BitsProofs PathProofs StaticProofs CheckProofs ProgTac OpsProofs FdBalance FdBalProofs RootBal OpathBal StaticBal
                       FaultProofs EffectProofs StaticEffects StaticBackends DynProofs.
From PV Require FSModel FSProofs.
Open Scope N_scope.

Ltac split_cases := repeat (first [exact I | match goal with |- context [match ?x with _ => _ end] => destruct x end]).

(* ---- walks end inside the tree ---------------------------------------------------------- *)

Lemma ebody_lt s nf nosym follow : closed s ->
  (forall go, follow = Some go -> forall cur depth cs o, (cur < PB s)%nat -> go cur depth cs = FSModel.WOk o -> (o < PB s)%nat) ->
  forall comps cur depth o, (cur < PB s)%nat -> FSModel.ebody s nf nosym follow cur depth comps = FSModel.WOk o -> (o < PB s)%nat.
Proof.
  intros (H0 & Hlk & Hpar) Hgo. induction comps as [|c rest IH]; intros cur depth o Hcur H; cbn [FSModel.ebody] in H.
  - inversion H; subst. exact Hcur.
  - destruct (is_nil c || is_dot c).
    { destruct (FSModel.is_dir s cur); [|discriminate]. eapply IH; eassumption. }
    destruct (is_dotdot c).
    { destruct depth as [|d'].
      - eapply IH; [|exact H]. exact H0.
      - destruct (FSModel.is_dir s cur); [|discriminate]. eapply IH; [|exact H]. apply Hpar, Hcur. }
    destruct (negb (FSModel.is_dir s cur)); [discriminate|].
    destruct (FSModel.lookup s cur c) as [d|] eqn:El; [|discriminate].
    pose proof (Hlk _ _ _ El) as Hd.
    destruct (FSModel.link_body s d) as [body|].
    + destruct (is_nil rest && nf); [inversion H; subst; exact Hd|].
      destruct nosym; [discriminate|]. destruct follow as [go|]; [|discriminate].
      destruct (is_abs body); eapply (Hgo go eq_refl); try exact H; [exact H0|exact Hcur].
    + eapply IH; [exact Hd|exact H].
Qed.

Lemma ewalk_q_lt s nf nosym : closed s -> forall budget cur depth cs o,
  (cur < PB s)%nat -> FSModel.ewalk_q s nf nosym budget cur depth cs = FSModel.WOk o -> (o < PB s)%nat.
Proof.
  intro Hc. induction budget as [|b IH]; intros cur depth cs o Hcur H; cbn [FSModel.ewalk_q] in H.
  - eapply ebody_lt; [exact Hc| |exact Hcur|exact H]. intros go E. discriminate.
  - eapply ebody_lt; [exact Hc| |exact Hcur|exact H]. intros go E. inversion E; subst. intros; eapply IH; eassumption.
Qed.

Lemma ewalk_lt s p nf nosym o : closed s -> FSModel.ewalk s p nf nosym = FSModel.WOk o -> (o < PB s)%nat.
Proof.
  intros Hc H. unfold FSModel.ewalk in H. destruct (EMPTY_PATH_IS_ENOENT && is_nil p); [discriminate|].
  eapply ewalk_q_lt; [exact Hc| |exact H]. apply Hc.
Qed.

Lemma kbody_lt s nf nosym follow : closed s ->
  (forall go, follow = Some go -> forall cur cs o, (cur < PB s)%nat -> go cur cs = FSModel.WOk o -> (o < PB s)%nat) ->
  forall comps cur o, (cur < PB s)%nat -> FSModel.kbody s nf nosym follow cur comps = FSModel.WOk o -> (o < PB s)%nat.
Proof.
  intros (H0 & Hlk & Hpar) Hgo. induction comps as [|c rest IH]; intros cur o Hcur H; cbn [FSModel.kbody] in H.
  - inversion H; subst. exact Hcur.
  - destruct (negb (FSModel.is_dir s cur)); [discriminate|].
    destruct (is_nil c || is_dot c); [eapply IH; eassumption|].
    destruct (is_dotdot c).
    { eapply IH; [|exact H]. destruct (Nat.eqb cur ROOT); [exact H0|apply Hpar, Hcur]. }
    destruct (FSModel.lookup s cur c) as [d|] eqn:El; [|discriminate].
    pose proof (Hlk _ _ _ El) as Hd.
    destruct (FSModel.link_body s d) as [body|].
    + destruct (is_nil rest && nf); [inversion H; subst; exact Hd|].
      destruct nosym; [discriminate|]. destruct follow as [go|]; [|discriminate].
      eapply (Hgo go eq_refl); [|exact H]. destruct (is_abs body); [exact H0|exact Hcur].
    + eapply IH; [exact Hd|exact H].
Qed.

Lemma kwalk_q_lt s nf nosym : closed s -> forall budget cur cs o,
  (cur < PB s)%nat -> FSModel.kwalk_q s nf nosym budget cur cs = FSModel.WOk o -> (o < PB s)%nat.
Proof.
  intro Hc. induction budget as [|b IH]; intros cur cs o Hcur H; cbn [FSModel.kwalk_q] in H.
  - eapply kbody_lt; [exact Hc| |exact Hcur|exact H]. intros go E. discriminate.
  - eapply kbody_lt; [exact Hc| |exact Hcur|exact H]. intros go E. inversion E; subst. intros; eapply IH; eassumption.
Qed.

Lemma kwalk_lt s p nf nosym o : closed s -> FSModel.kwalk s p nf nosym = FSModel.WOk o -> (o < PB s)%nat.
Proof.
  intros Hc H. unfold FSModel.kwalk in H. destruct (is_nil p); [discriminate|].
  eapply kwalk_q_lt; [exact Hc| |exact H]. apply Hc.
Qed.

(* ---- what "the parent lookup succeeded" gives, whichever backend ran it ---------------- *)

Section OPS.
Variable s : fs.
Variable rp : bytes.
Variables fz pfuel : nat.
Variable o2 : bool.
Variable gh : phandle.
Variable ps : N.
Variable rs : resolver.
Hypothesis Hfz : fz <> 0%nat.

Notation drun := (drun rp).
Notation st_of t := {| ds := s; dt := t; dseen := [] |}.

(* the parent lookup of [path] from table [t]: ends with [dir] open on [o], everything else as it was *)
Definition parent_ok (t : fdt) (root : Z) (path : bytes) (t1 : fdt) (dir : Z) (name : bytes) (o : nat) : Prop :=
  run s rp t (parent_and_name fz o2 pfuel gh ps rs root path) = Done t1 (Ok (dir, name)) /\
  tget t1 dir = Some o /\ (o < PB s)%nat /\
  (forall x, indom t x -> tfind t1 x = tfind t x) /\
  (forall x, indom t1 x -> indom t x \/ x = dir).

Lemma drun_parent {B} (K : Z * bytes -> prog (result B ekind)) t root path t1 dir name o :
  parent_ok t root path t1 dir name o ->
  drun (st_of t) (dn <-? parent_and_name fz o2 pfuel gh ps rs root path ;; K dn) = drun (st_of t1) (K (dir, name)).
Proof.
  intros (Hrun & _). unfold bindR. rewrite drun_bind.
  rewrite (drun_static rp _ (parent_and_name_ne fz o2 pfuel gh ps rs root path) s t t1 _ Hrun). reflexivity.
Qed.

(* create(path, Directory(mode)) *)
Theorem create_dir_exact t root path t1 dir name o m :
  parent_ok t root path t1 dir name o -> has_nul name = false ->
  drun (st_of t) (root_create fz o2 pfuel gh ps rs root path (IDirectory m)) =
  after_unit s t1 dir (create_sem s o name FSModel.KDir).
Proof.
  intros Hp Hnn. unfold root_create. rewrite (drun_parent _ _ _ _ _ _ _ _ Hp). cbn beta iota.
  destruct Hp as (_ & Hd & Hlt & _).
  unfold w_mkdirat. apply (drun_simple1_unit rp fz Hfz s t1 dir name o); [exact Hd|exact Hnn| |].
  - cbn [Dyn.dsem ds dt dseen]. unfold on1. rewrite (tree_obj_get s t1 dir o Hd Hlt). reflexivity.
  - unfold create_sem. split_cases.
Qed.

(* create(path, File / Fifo / CharacterDevice): mknodat *)
Theorem create_node_exact t root path t1 dir name o ty k :
  parent_ok t root path t1 dir name o -> has_nul name = false ->
  node_type ty <> 0 -> kind_of_mode (N.lor (node_type ty) (N.land (node_raw ty) MODE_BITS)) = Some k ->
  drun (st_of t) (root_create fz o2 pfuel gh ps rs root path ty) = after_unit s t1 dir (create_sem s o name k).
Proof.
  intros Hp Hnn Hty Hk.
  assert (Hgen : forall kb raw d, N.land kb S_IFMT = kb -> kind_of_mode (N.lor kb (N.land raw MODE_BITS)) = Some k ->
    drun (st_of t) (dn <-? parent_and_name fz o2 pfuel gh ps rs root path ;;
                    let '(dir, name) := dn in r <- os (w_mknodat fz dir name (N.lor kb (perm raw)) d) ;; close dir ;;; Ret r)
    = after_unit s t1 dir (create_sem s o name k)).
  { intros kb raw d Hkm Hkk. rewrite (drun_parent _ _ _ _ _ _ _ _ Hp). cbn beta iota.
    destruct Hp as (_ & Hd & Hlt & _).
    unfold w_mknodat. rewrite (type_perm_split kb raw Hkm).
    apply (drun_simple1_unit rp fz Hfz s t1 dir name o); [exact Hd|exact Hnn| |].
    - cbn [Dyn.dsem ds dt dseen]. unfold on1. rewrite (tree_obj_get s t1 dir o Hd Hlt). rewrite Hkk. reflexivity.
    - unfold create_sem. split_cases. }
  destruct ty as [m|m|tg|tg|m|m d|m d]; cbn [node_type] in Hty; try (exfalso; apply Hty; reflexivity);
    cbn [node_type node_raw node_dev] in Hk; unfold root_create; apply Hgen; try reflexivity; exact Hk.
Qed.

(* create(path, Symlink(target)) *)
Theorem create_symlink_exact t root path t1 dir name o target :
  parent_ok t root path t1 dir name o -> has_nul name = false -> has_nul target = false ->
  drun (st_of t) (root_create fz o2 pfuel gh ps rs root path (ISymlink target)) =
  after_unit s t1 dir (if is_nil target then EErr ENOENT else create_sem s o name (FSModel.KLnk target)).
Proof.
  intros Hp Hnn Hnt. unfold root_create. rewrite (drun_parent _ _ _ _ _ _ _ _ Hp). cbn beta iota.
  destruct Hp as (_ & Hd & Hlt & _).
  unfold w_symlinkat. rewrite (tget_valid _ _ _ Hd), Hnt, Hnn. cbn [negb orb].
  apply (drun_call_unit rp fz Hfz s t1 dir).
  - cbn [Dyn.dsem ds dt dseen]. unfold on1. rewrite (tree_obj_get s t1 dir o Hd Hlt). reflexivity.
  - unfold create_sem. split_cases.
Qed.

(* remove_file / remove_dir *)
Theorem remove_exact t root path t1 dir name o isdir :
  parent_ok t root path t1 dir name o -> has_nul name = false ->
  drun (st_of t) (root_remove_inode fz o2 pfuel gh ps rs root path isdir) =
  after_unit s t1 dir (unlink_sem s o name (if isdir then AT_REMOVEDIR else 0)).
Proof.
  intros Hp Hnn. unfold root_remove_inode. rewrite (drun_parent _ _ _ _ _ _ _ _ Hp). cbn beta iota.
  destruct Hp as (_ & Hd & Hlt & _).
  unfold w_unlinkat. apply (drun_simple1_unit rp fz Hfz s t1 dir name o); [exact Hd|exact Hnn| |].
  - cbn [Dyn.dsem ds dt dseen]. unfold on1. rewrite (tree_obj_get s t1 dir o Hd Hlt). reflexivity.
  - unfold unlink_sem. split_cases.
Qed.

(* create_file(path, flags, mode): the O_CREAT open; the descriptor returned is open on the very
   object that is now (or already was) under that name *)
Theorem create_file_exact t root path t1 dir name o flags mode :
  has flags O_PATH = false ->
  parent_ok t root path t1 dir name o -> has_nul name = false ->
  let fl := N.lor (N.lor (N.lor (N.lor flags CREATE_FILE_FORCED) OPENAT_NOFOLLOW_FORCED) OPENAT_FORCED) O_LARGEFILE in
  drun (st_of t) (root_create_file fz o2 pfuel gh ps rs root path flags mode) =
  match creat_sem s o name fl with
  | EOpen s' ob =>
      let t2 := reloc (NPB s) (NPB s') t1 in
      DDone {| ds := s'; dt := tdel ((fresh t2, ob) :: t2) dir; dseen := [] |} (Ok (fresh t2))
  | EErr e => DDone {| ds := s; dt := tdel t1 dir; dseen := [] |} (Err (OsError e))
  | EOut => DDone {| ds := s; dt := tdel t1 dir; dseen := [] |} (Err (OsError ENOSYS))
  | EUnit _ => DNoFuel
  end.
Proof.
  intros Hop Hp Hnn fl. unfold root_create_file. rewrite Hop, andb_false_r. rewrite (drun_parent _ _ _ _ _ _ _ _ Hp). cbn beta iota.
  destruct Hp as (_ & Hd & Hlt & _).
  unfold w_openat, w_openat_follow, rustix_path. rewrite (tget_valid _ _ _ Hd), Hnn. cbn [negb].
  fold fl.
  assert (Hcr : has fl O_CREAT = true).
  { unfold fl. apply has_lor_l. apply has_lor_l. apply has_lor_l. apply has_lor_r. vm_compute. reflexivity. }
  unfold os, map_err. rewrite !drun_bind. cbn [Dyn.drun]. unfold Dyn.danswer.
  cbn [Dyn.dsem ds dt dseen]. rewrite Hcr. unfold on1. rewrite (tree_obj_get s t1 dir o Hd Hlt).
  destruct (creat_sem s o name fl) as [|e|s'|s' ob] eqn:Ec; cbn [of_eres ds dt dseen].
  - rewrite reloc_same. cbn [as_fd]. rewrite (drun_fail1 rp fz Hfz). cbn [Dyn.drun]. rewrite drun_bind, drun_close. reflexivity.
  - rewrite reloc_same. cbn [as_fd]. rewrite (drun_fail1 rp fz Hfz). cbn [Dyn.drun]. rewrite drun_bind, drun_close. reflexivity.
  - exfalso. unfold creat_sem in Ec.
    repeat (first [discriminate | match type of Ec with context [match ?x with _ => _ end] => destruct x end]).
  - cbn [as_fd]. set (t2 := reloc (NPB s) (NPB s') t1). pose proof (fresh_ge3 t2) as H3.
    destruct (Z.leb_spec 0 (fresh t2)); [|lia]. cbn [Dyn.drun]. rewrite drun_bind. reflexivity.
Qed.

(* create_file with O_PATH: refused before any system call (with O_PATH the kernel drops O_CREAT and would
   open the unresolved final component -- "..", for one -- as it is: F-S) *)
Theorem create_file_opath_refused root path flags mode :
  has flags O_PATH = true -> root_create_file fz o2 pfuel gh ps rs root path flags mode = Ret (Err InvalidArgument).
Proof. intro H. unfold root_create_file. rewrite H. reflexivity. Qed.

(* rename(src, dst, flags) *)
Theorem rename_exact t root src dst t1 d1 sname o1 t2 d2 dname o3 fl :
  parent_ok t root src t1 d1 sname o1 -> parent_ok t1 root dst t2 d2 dname o3 ->
  has_nul sname = false -> has_nul dname = false ->
  drun (st_of t) (root_rename fz o2 pfuel gh ps rs root src dst fl) =
  match rename_sem s o1 sname o3 dname fl with
  | EUnit s' => DDone {| ds := s'; dt := tdel (tdel (reloc (NPB s) (NPB s') t2) d2) d1; dseen := [] |} (Ok tt)
  | EErr e => DDone {| ds := s; dt := tdel (tdel t2 d2) d1; dseen := [] |} (Err (OsError e))
  | EOut => DDone {| ds := s; dt := tdel (tdel t2 d2) d1; dseen := [] |} (Err (OsError ENOSYS))
  | EOpen _ _ => DNoFuel
  end.
Proof.
  intros Hp1 Hp2 Hn1 Hn2. unfold root_rename. rewrite (drun_parent _ _ _ _ _ _ _ _ Hp1). cbn beta iota.
  destruct Hp1 as (_ & Hd1 & Hlt1 & _ & _). destruct Hp2 as (Hrun2 & Hd2 & Hlt2 & Hkeep2 & _).
  pose proof (tget_keep _ _ _ _ Hd1 Hkeep2) as Hd1'.
  rewrite drun_bind. rewrite (drun_static rp _ (parent_and_name_ne fz o2 pfuel gh ps rs root dst) s t1 t2 _ Hrun2). cbn beta iota.
  assert (Hno : not_open (rename_sem s o1 sname o3 dname fl)).
  { unfold rename_sem, reparent. split_cases. }
  assert (Hsem : forall c, (c = Renameat d1 sname d2 dname /\ fl = 0) \/ c = Renameat2 d1 sname d2 dname fl ->
                 Dyn.dsem rp (st_of t2) c = of_eres s [] (rename_sem s o1 sname o3 dname fl)).
  { intros c [[-> ->]| ->]; cbn [Dyn.dsem ds dt dseen]; unfold on2;
      rewrite (tree_obj_get s t2 d1 o1 Hd1' Hlt1), (tree_obj_get s t2 d2 o3 Hd2 Hlt2); reflexivity. }
  rewrite drun_bind.
  unfold w_renameat2, w_renameat, two_fd.
  destruct (N.eqb_spec fl 0) as [E0|E0].
  - rewrite (tget_valid _ _ _ Hd1'), (tget_valid _ _ _ Hd2), Hn1, Hn2. cbn [negb orb].
    rewrite (drun_call2_unit rp fz Hfz s t2 d1 d2 _ _ (Hsem _ (or_introl (conj eq_refl E0))) Hno).
    destruct (rename_sem s o1 sname o3 dname fl); try reflexivity.
  - rewrite (tget_valid _ _ _ Hd1'), (tget_valid _ _ _ Hd2), Hn1, Hn2. cbn [negb orb].
    rewrite (drun_call2_unit rp fz Hfz s t2 d1 d2 _ _ (Hsem _ (or_intror eq_refl)) Hno).
    destruct (rename_sem s o1 sname o3 dname fl); try reflexivity.
Qed.

(* create(path, Hardlink(target)) *)
Theorem hardlink_exact t root path target t1 d1 name o1 t2 d2 tname o3 :
  parent_ok t root path t1 d1 name o1 -> parent_ok t1 root target t2 d2 tname o3 ->
  has_nul name = false -> has_nul tname = false ->
  drun (st_of t) (root_create fz o2 pfuel gh ps rs root path (IHardlink target)) =
  match link_sem s o3 tname o1 name LINKAT_FLAGS with
  | EUnit s' => DDone {| ds := s'; dt := tdel (tdel (reloc (NPB s) (NPB s') t2) d1) d2; dseen := [] |} (Ok tt)
  | EErr e => DDone {| ds := s; dt := tdel (tdel t2 d1) d2; dseen := [] |} (Err (OsError e))
  | EOut => DDone {| ds := s; dt := tdel (tdel t2 d1) d2; dseen := [] |} (Err (OsError ENOSYS))
  | EOpen _ _ => DNoFuel
  end.
Proof.
  intros Hp1 Hp2 Hn1 Hn2. unfold root_create. rewrite (drun_parent _ _ _ _ _ _ _ _ Hp1). cbn beta iota.
  destruct Hp1 as (_ & Hd1 & Hlt1 & _ & _). destruct Hp2 as (Hrun2 & Hd2 & Hlt2 & Hkeep2 & _).
  pose proof (tget_keep _ _ _ _ Hd1 Hkeep2) as Hd1'.
  rewrite drun_bind. rewrite (drun_static rp _ (parent_and_name_ne fz o2 pfuel gh ps rs root target) s t1 t2 _ Hrun2). cbn beta iota.
  assert (Hno : not_open (link_sem s o3 tname o1 name LINKAT_FLAGS)).
  { unfold link_sem. split_cases. }
  rewrite drun_bind. unfold w_linkat, two_fd.
  rewrite (tget_valid _ _ _ Hd2), (tget_valid _ _ _ Hd1'), Hn2, Hn1. cbn [negb orb].
  rewrite (drun_call2_unit rp fz Hfz s t2 d2 d1 _ (link_sem s o3 tname o1 name LINKAT_FLAGS)); [|
    cbn [Dyn.dsem ds dt dseen]; unfold on2; rewrite (tree_obj_get s t2 d2 o3 Hd2 Hlt2), (tree_obj_get s t2 d1 o1 Hd1' Hlt1); reflexivity | exact Hno].
  destruct (link_sem s o3 tname o1 name LINKAT_FLAGS); try reflexivity.
Qed.

End OPS.

(* ---- the two backends establish [parent_ok] -------------------------------------------- *)

Section EMU.
Variable s : fs.
Variable rp : bytes.
Variable F : list (Z * nat).
Variable df : nat -> nat.
Variables fz pfuel : nat.
Variable o2 : bool.
Variable gh : phandle.
Variable ps : N.
Hypothesis Hcl : closed s.
Hypothesis Hfz : fz <> 0%nat.
Hypothesis Hchk : chk_static_ok s rp F (check_current fz o2 pfuel gh).
Hypothesis Hwf : FSProofs.wf s df.
Hypothesis Hl : links_ok s.
Variable rs : resolver.
Hypothesis Hk : rs_kernel rs = false.

(* emulated backend: C01's refinement + C11's balance, read on the static kernel *)
Lemma parent_ok_emu t root path dirp name o :
  path_split path = Some (Ok (dirp, Some name)) -> has_nul dirp = false ->
  Frame s F t -> tget t root = Some ROOT ->
  FSModel.ewalk s dirp false (has (rs_flags rs) RESOLVE_NO_SYMLINKS) = FSModel.WOk o ->
  exists t1 dir, parent_ok s rp fz pfuel o2 gh ps rs t root path t1 dir name o /\ Frame s F t1 /\ tget t1 root = Some ROOT.
Proof.
  intros Hsplit Hnul Hfr Hroot Hw.
  destruct (parent_strong s rp F df fz pfuel o2 gh ps Hcl Hfz Hchk Hwf Hl rs Hk t root path dirp name o Hsplit Hnul Hfr Hroot Hw)
    as (t1 & dir & Hrun & Hd & Hfr1 & Hroot1 & Hkeep & Honly).
  exists t1, dir. split; [|split; assumption].
  split; [exact Hrun|]. split; [exact Hd|]. split; [exact (ewalk_lt _ _ _ _ _ Hcl Hw)|]. split; assumption.
Qed.

End EMU.

Section KERN.
Variable s : fs.
Variable rp : bytes.
Variables fz pfuel : nat.
Variable gh : phandle.
Variable ps : N.
Hypothesis Hcl : closed s.
Hypothesis Hfz : fz <> 0%nat.
Variable rs : resolver.
Hypothesis Hk : rs_kernel rs = true.

Lemma tfind_fresh_none t : tfind t (fresh t) = None.
Proof. destruct (tfind t (fresh t)) eqn:E; [|reflexivity]. exfalso. exact (indom_fresh t ltac:(unfold indom; rewrite E; discriminate)). Qed.

(* kernel backend: one openat2(RESOLVE_IN_ROOT) answered with the kernel's walk *)
Lemma parent_ok_kern t root path dirp name o :
  path_split path = Some (Ok (dirp, Some name)) -> has_nul dirp = false ->
  tget t root = Some ROOT ->
  FSModel.kwalk s dirp false (has (N.lor OPENAT2_RESOLVE_RESOLVE (rs_flags rs)) RESOLVE_NO_SYMLINKS) = FSModel.WOk o ->
  parent_ok s rp fz pfuel true gh ps rs t root path ((fresh t, o) :: t) (fresh t) name o.
Proof.
  intros Hsplit Hnul Hroot Hw.
  pose proof (run_k_resolve s rp fz Hfz Hcl t root dirp (rs_flags rs) false Hroot Hnul) as Hr. rewrite Hw in Hr.
  split; [|split; [apply tget_new|split; [exact (kwalk_lt _ _ _ _ _ Hcl Hw)|split]]].
  - unfold parent_and_name, resolve_parent. rewrite Hsplit. unfold bindR. rewrite !(run_bind s rp).
    unfold r_resolve. rewrite Hk. rewrite Hr. reflexivity.
  - intros x Hx. cbn [tfind]. destruct (Z.eqb_spec (fresh t) x) as [E|_]; [|reflexivity].
    exfalso. rewrite <- E in Hx. exact (indom_fresh t Hx).
  - intros x Hx. unfold indom in *. cbn [tfind] in Hx. destruct (Z.eqb_spec (fresh t) x) as [E|_]; [right; symmetry; exact E|left; exact Hx].
Qed.

End KERN.


Lemma tdel_notin' t f : tfind t f = None -> tdel t f = t.
Proof.
  induction t as [|[k o] t IH]; intro H; [reflexivity|]. cbn [tfind] in H. cbn [tdel filter fst].
  destruct (Z.eqb_spec k f); [discriminate|]. cbn [negb]. f_equal. apply IH, H.
Qed.

Lemma tfind_fresh_none' t : tfind t (fresh t) = None.
Proof. destruct (tfind t (fresh t)) eqn:E; [|reflexivity]. exfalso. exact (indom_fresh t ltac:(unfold indom; rewrite E; discriminate)). Qed.

Lemma tdel_fresh_cons' t o : tdel ((fresh t, o) :: t) (fresh t) = t.
Proof. cbn [tdel filter fst]. rewrite Z.eqb_refl. cbn [negb]. apply tdel_notin', tfind_fresh_none'. Qed.

Lemma tfind_reloc' pb pb' t x : tfind (reloc pb pb' t) x = option_map (fun o => if Nat.leb pb o then (o + (pb' - pb))%nat else o) (tfind t x).
Proof.
  unfold reloc. induction t as [|[f o] t IH]; cbn [map tfind fst snd option_map]; [reflexivity|].
  destruct (Z.eqb f x); [reflexivity|exact IH].
Qed.

(* ---- the kernel backend, fully instantiated: no premise but the tree's -------------------------- *)

Section KERNFULL.
Variable s : fs.
Variable rp : bytes.
Variables fz pfuel : nat.
Variable gh : phandle.
Variable ps : N.
Variable rs : resolver.
Hypothesis Hcl : closed s.
Hypothesis Hfz : fz <> 0%nat.
Hypothesis Hk : rs_kernel rs = true.
Notation nosym := (has (N.lor OPENAT2_RESOLVE_RESOLVE (rs_flags rs)) RESOLVE_NO_SYMLINKS).

(* create(path, Directory): mkdirat's effect on (kernel walk of the parent, last component); the table as before *)
Theorem create_dir_kernel t root path dirp name o m :
  path_split path = Some (Ok (dirp, Some name)) -> has_nul dirp = false -> has_nul name = false ->
  tget t root = Some ROOT -> FSModel.kwalk s dirp false nosym = FSModel.WOk o ->
  Dyn.drun rp {| ds := s; dt := t; dseen := [] |} (root_create fz true pfuel gh ps rs root path (IDirectory m)) =
  match create_sem s o name FSModel.KDir with
  | EUnit s' => DDone {| ds := s'; dt := reloc (NPB s) (NPB s') t; dseen := [] |} (Ok tt)
  | EErr e => DDone {| ds := s; dt := t; dseen := [] |} (Err (OsError e))
  | EOut => DDone {| ds := s; dt := t; dseen := [] |} (Err (OsError ENOSYS))
  | EOpen _ _ => DNoFuel
  end.
Proof.
  intros Hsplit Hnul Hnn Hroot Hw.
  pose proof (parent_ok_kern s rp fz pfuel gh ps Hcl Hfz rs Hk t root path dirp name o Hsplit Hnul Hroot Hw) as Hp.
  rewrite (create_dir_exact s rp fz pfuel true gh ps rs Hfz t root path _ _ name o m Hp Hnn).
  unfold after_unit. destruct (create_sem s o name FSModel.KDir) as [|e|s'|s' ob]; try reflexivity.
  - rewrite tdel_fresh_cons'. reflexivity.
  - rewrite tdel_fresh_cons'. reflexivity.
  - f_equal. f_equal. cbn [reloc map fst snd]. cbn [tdel filter fst]. rewrite Z.eqb_refl. cbn [negb].
    apply tdel_notin'. rewrite tfind_reloc', tfind_fresh_none'. reflexivity.
Qed.

(* remove_file / remove_dir *)
Theorem remove_kernel t root path dirp name o isdir :
  path_split path = Some (Ok (dirp, Some name)) -> has_nul dirp = false -> has_nul name = false ->
  tget t root = Some ROOT -> FSModel.kwalk s dirp false nosym = FSModel.WOk o ->
  Dyn.drun rp {| ds := s; dt := t; dseen := [] |} (root_remove_inode fz true pfuel gh ps rs root path isdir) =
  match unlink_sem s o name (if isdir then AT_REMOVEDIR else 0) with
  | EUnit s' => DDone {| ds := s'; dt := reloc (NPB s) (NPB s') t; dseen := [] |} (Ok tt)
  | EErr e => DDone {| ds := s; dt := t; dseen := [] |} (Err (OsError e))
  | EOut => DDone {| ds := s; dt := t; dseen := [] |} (Err (OsError ENOSYS))
  | EOpen _ _ => DNoFuel
  end.
Proof.
  intros Hsplit Hnul Hnn Hroot Hw.
  pose proof (parent_ok_kern s rp fz pfuel gh ps Hcl Hfz rs Hk t root path dirp name o Hsplit Hnul Hroot Hw) as Hp.
  rewrite (remove_exact s rp fz pfuel true gh ps rs Hfz t root path _ _ name o isdir Hp Hnn).
  unfold after_unit. destruct (unlink_sem s o name _) as [|e|s'|s' ob]; try reflexivity.
  - rewrite tdel_fresh_cons'. reflexivity.
  - rewrite tdel_fresh_cons'. reflexivity.
  - f_equal. f_equal. cbn [reloc map fst snd]. cbn [tdel filter fst]. rewrite Z.eqb_refl. cbn [negb].
    apply tdel_notin'. rewrite tfind_reloc', tfind_fresh_none'. reflexivity.
Qed.

End KERNFULL.
