(* DynMkdir.v -- C12 on the dynamic kernel (theories/Dyn.v): the creation loop of mkdir_all.
   1. [mk_parts_dyn]: executing the loop (mkdirat / open O_NOFOLLOW|O_DIRECTORY / close per
      component) from a descriptor open on directory [o] computes exactly the pure function
      [mk_spec] of the tree: same resulting tree, same object behind the returned descriptor,
      same errno; every other descriptor stays as it was.
   2. What [mk_spec] does to ANY tree: the resulting tree is the old one plus new directories
      only ([extends]: nothing removed, nothing modified, every new object a directory entered
      under a name that did not exist) -- also when it fails, where what was created lies on
      the requested chain --; on success every component now exists and the result is the plain
      descent along them ([descend s' o parts = Some c]). *)
From PV Require Import Dyn BitsProofs PathProofs StaticProofs ProgTac StaticBal FaultProofs EffectProofs BeneathProofs DynProofs.
From PV Require FSModel FSProofs.
From Coq Require Import Lia.
Open Scope N_scope.

(* ---- the descriptor table under renumbering -------------------------------------------- *)

Definition shift (pb k o : nat) : nat := if Nat.leb pb o then (o + k)%nat else o.

Lemma tfind_reloc pb pb' t x : tfind (reloc pb pb' t) x = option_map (shift pb (pb' - pb)) (tfind t x).
Proof.
  unfold reloc. induction t as [|[f o] t IH]; cbn [map tfind fst snd option_map]; [reflexivity|].
  destruct (Z.eqb f x); [reflexivity|exact IH].
Qed.

Lemma tget_reloc pb pb' t x : tget (reloc pb pb' t) x = option_map (shift pb (pb' - pb)) (tget t x).
Proof. unfold tget. destruct (Z.ltb x 0); [reflexivity|apply tfind_reloc]. Qed.

Lemma fresh_reloc pb pb' t : fresh (reloc pb pb' t) = fresh t.
Proof. unfold reloc, fresh. induction t as [|[f o] t IH]; cbn [map fold_right fst]; [reflexivity|]. rewrite IH. reflexivity. Qed.

Lemma indom_reloc pb pb' t x : indom (reloc pb pb' t) x <-> indom t x.
Proof. unfold indom. rewrite tfind_reloc. destruct (tfind t x); cbn [option_map]; split; intro H; try exact H; try discriminate; intro E; discriminate. Qed.

Lemma shift_shift pb k1 k2 o : shift (pb + k1) k2 (shift pb k1 o) = shift pb (k1 + k2) o.
Proof.
  unfold shift. destruct (Nat.leb_spec pb o).
  - destruct (Nat.leb_spec (pb + k1) (o + k1)); lia.
  - destruct (Nat.leb_spec (pb + k1) o); lia.
Qed.

Lemma shift_small pb k o : (o < pb)%nat -> shift pb k o = o.
Proof. intro H. unfold shift. destruct (Nat.leb_spec pb o); [lia|reflexivity]. Qed.

Lemma tget_del_other t fd x : x <> fd -> tget (tdel t fd) x = tget t x.
Proof.
  intro Hne. unfold tget. destruct (Z.ltb x 0); [reflexivity|].
  unfold tdel. induction t as [|[f o] t IH]; cbn [filter tfind fst]; [reflexivity|].
  destruct (Z.eqb_spec f fd) as [->|Hf]; cbn [negb].
  - destruct (Z.eqb_spec fd x); [congruence|exact IH].
  - cbn [tfind]. destruct (Z.eqb f x); [reflexivity|exact IH].
Qed.

Lemma indom_del t fd x : indom (tdel t fd) x -> indom t x /\ x <> fd.
Proof.
  unfold indom, tdel. induction t as [|[f o] t IH]; cbn [filter tfind fst]; [intro H; contradiction|].
  destruct (Z.eqb_spec f fd) as [->|Hf]; cbn [negb].
  - intro H. destruct (IH H) as [H1 H2]. split; [|exact H2]. destruct (Z.eqb_spec fd x); [congruence|exact H1].
  - cbn [tfind]. destruct (Z.eqb_spec f x) as [->|Hx].
    + intros _. split; [discriminate|congruence].
    + exact IH.
Qed.

Lemma indom_cons t n o x : indom ((n, o) :: t) x -> x = n \/ indom t x.
Proof. unfold indom. cbn [tfind]. destruct (Z.eqb_spec n x); [left; congruence|right; assumption]. Qed.

Lemma tget_cons_other t n o x : x <> n -> tget ((n, o) :: t) x = tget t x.
Proof. intro H. unfold tget. destruct (Z.ltb x 0); [reflexivity|]. cbn [tfind]. destruct (Z.eqb_spec n x); [congruence|reflexivity]. Qed.

Lemma tget_indom' t x o : tget t x = Some o -> indom t x.
Proof. unfold tget, indom. destruct (Z.ltb x 0); [discriminate|]. intros H E. rewrite E in H. discriminate. Qed.

(* ---- the pure function ---------------------------------------------------------------- *)

(* open(dir, name, O_NOFOLLOW|O_DIRECTORY): the directory under that name *)
Definition mk_open (s : fs) (o : nat) (part : bytes) : nat + N :=
  match open1 s o part with
  | inl c => if is_dir s c then inl c else inr ENOTDIR
  | inr e => inr e
  end.

(* mkdirat(dir, name): the tree afterwards, EEXIST tolerated *)
Definition mk_dir (s : fs) (o : nat) (part : bytes) : fs + N :=
  match create_sem s o part FSModel.KDir with
  | EUnit s' => inl s'
  | EErr e => if N.eqb e EEXIST then inl s else inr e
  | _ => inr ENOSYS
  end.

Fixpoint mk_spec (s : fs) (o : nat) (ps : list bytes) : fs * (nat + N) :=
  match ps with
  | [] => (s, inl o)
  | part :: rest =>
      match mk_dir s o part with
      | inr e => (s, inr e)
      | inl s1 => match mk_open s1 o part with
                  | inl c => mk_spec s1 c rest
                  | inr e => (s1, inr e)
                  end
      end
  end.

(* the tree invariant the loop maintains: objects and parents numbered alike, lookups and
   parents stay inside *)
Definition closed2 (s : fs) : Prop := closed s /\ length (parents s) = length (kinds s).

Lemma find_ent_app es es' d n : FSModel.find_ent (es ++ es') d n =
  match FSModel.find_ent es d n with Some c => Some c | None => FSModel.find_ent es' d n end.
Proof.
  induction es as [|[[d' n'] c] es IH]; cbn [app FSModel.find_ent]; [reflexivity|].
  destruct (Nat.eqb d d' && beq n n'); [reflexivity|exact IH].
Qed.

Lemma beq_refl x : beq x x = true.
Proof. induction x as [|a x IH]; cbn [beq]; [reflexivity|]. rewrite N.eqb_refl, IH. reflexivity. Qed.

Lemma lookup_add_obj s d n k d' n' :
  lookup (FSModel.add_obj s d n k) d' n' =
  match lookup s d' n' with Some c => Some c | None => if Nat.eqb d' d && beq n' n then Some (length (kinds s)) else None end.
Proof. unfold FSModel.lookup, FSModel.add_obj. cbn [FSModel.ents]. rewrite find_ent_app. cbn [FSModel.find_ent]. reflexivity. Qed.

Lemma kind_add_obj_old s d n k o : (o < length (kinds s))%nat -> FSModel.kind_of (FSModel.add_obj s d n k) o = FSModel.kind_of s o.
Proof. intro H. unfold FSModel.kind_of, FSModel.add_obj. cbn [FSModel.kinds]. apply app_nth1. exact H. Qed.

Lemma kind_add_obj_new s d n k : FSModel.kind_of (FSModel.add_obj s d n k) (length (kinds s)) = k.
Proof. unfold FSModel.kind_of, FSModel.add_obj. cbn [FSModel.kinds]. rewrite app_nth2 by lia. rewrite Nat.sub_diag. reflexivity. Qed.

Lemma closed2_add_obj s d n k : closed2 s -> (d < length (kinds s))%nat -> closed2 (FSModel.add_obj s d n k).
Proof.
  intros [(H0 & Hlk & Hpar) Hlen] Hd. unfold closed2, closed, PB in *.
  assert (Hk : length (kinds (FSModel.add_obj s d n k)) = S (length (kinds s))).
  { unfold FSModel.add_obj. cbn [FSModel.kinds]. rewrite app_length. cbn. lia. }
  split; [split; [|split]|].
  - rewrite Hk. lia.
  - intros d' n' c Hl. rewrite lookup_add_obj in Hl. rewrite Hk.
    destruct (lookup s d' n') eqn:E; [inversion Hl; subst; specialize (Hlk _ _ _ E); lia|].
    destruct (Nat.eqb d' d && beq n' n); inversion Hl; lia.
  - intros o Ho. rewrite Hk in *. unfold FSModel.parent_of, FSModel.add_obj. cbn [FSModel.parents].
    destruct (Nat.lt_ge_cases o (length (parents s))) as [Hlt|Hge].
    + rewrite app_nth1 by exact Hlt. specialize (Hpar o ltac:(lia)). unfold FSModel.parent_of in Hpar. lia.
    + rewrite app_nth2 by exact Hge. assert (o = length (parents s)) by lia. subst o. rewrite Nat.sub_diag. cbn. lia.
  - unfold FSModel.add_obj. cbn [FSModel.kinds FSModel.parents]. rewrite !app_length. cbn. lia.
Qed.

Lemma plain_facts p : Dyn.plain p = true ->
  is_nil p = false /\ is_dot p = false /\ is_dotdot p = false /\ has_slash p = false /\ has_nul p = false.
Proof.
  unfold Dyn.plain. intro H. apply negb_true_iff in H.
  repeat (apply orb_false_iff in H; destruct H as [H ?]). repeat split; assumption.
Qed.

Lemma mk_dir_inl s o part s1 : closed2 s -> (o < length (kinds s))%nat -> mk_dir s o part = inl s1 ->
  closed2 s1 /\ (length (kinds s) <= length (kinds s1))%nat /\
  (s1 = s \/ (s1 = FSModel.add_obj s o part FSModel.KDir /\ lookup s o part = None /\ is_dir s o = true)).
Proof.
  intros Hc Ho. unfold mk_dir, create_sem.
  destruct (negb (is_dir s o)) eqn:Ed; [cbn; intro H; discriminate|].
  destruct (is_nil part); [cbn; intro H; discriminate|].
  destruct (has_slash part || has_nul part); [intro H; discriminate|].
  destruct (is_dot part || is_dotdot part); [cbn; intro H; inversion H; subst; split; [exact Hc|split; [lia|left; reflexivity]]|].
  destruct (too_long part); [cbn; intro H; discriminate|].
  destruct (lookup s o part) eqn:El.
  - cbn. intro H. inversion H; subst. split; [exact Hc|split; [lia|left; reflexivity]].
  - intro H. inversion H; subst. split; [apply closed2_add_obj; assumption|]. split.
    + unfold FSModel.add_obj. cbn [FSModel.kinds]. rewrite app_length. lia.
    + right. split; [reflexivity|]. split; [reflexivity|]. apply negb_false_iff in Ed. exact Ed.
Qed.

Lemma mk_open_inl s o part c : closed2 s -> Dyn.plain part = true -> mk_open s o part = inl c ->
  lookup s o part = Some c /\ is_dir s c = true /\ (c < length (kinds s))%nat.
Proof.
  intros [(H0 & Hlk & Hpar) Hlen] Hp. destruct (plain_facts _ Hp) as (_ & Hd & Hdd & _ & _).
  unfold mk_open, open1. destruct (negb (is_dir s o)); [intro H; discriminate|].
  rewrite Hd, Hdd. destruct (lookup s o part) as [c'|] eqn:El; [|intro H; discriminate].
  destruct (is_dir s c') eqn:Ec; intro H; inversion H; subst. split; [reflexivity|]. split; [exact Ec|]. exact (Hlk _ _ _ El).
Qed.

Lemma mk_spec_grows : forall ps s o, closed2 s -> (o < length (kinds s))%nat -> Forall (fun p => Dyn.plain p = true) ps ->
  (length (kinds s) <= length (kinds (fst (mk_spec s o ps))))%nat.
Proof.
  induction ps as [|part rest IH]; intros s o Hc Ho Hps; cbn [mk_spec fst]; [lia|].
  inversion Hps as [|? ? Hp Hrest]; subst.
  destruct (mk_dir s o part) as [s1|e] eqn:Em; [|cbn; lia].
  destruct (mk_dir_inl _ _ _ _ Hc Ho Em) as (Hc1 & Hle & _).
  destruct (mk_open s1 o part) as [c|e] eqn:Eo; [|cbn; exact Hle].
  destruct (mk_open_inl _ _ _ _ Hc1 Hp Eo) as (_ & _ & Hlt).
  specialize (IH s1 c Hc1 Hlt Hrest). lia.
Qed.

(* ---- the program computes the pure function -------------------------------------------- *)

Section MK.
Variable rp : bytes.
Variable fz : nat.
Hypothesis Hfz : fz <> 0%nat.
Notation drun := (drun rp).

Definition MKF : N := N.lor (N.lor (N.lor MKDIR_ALL_OPEN_FLAGS OPENAT_NOFOLLOW_FORCED) OPENAT_FORCED) O_LARGEFILE.

Lemma sem_mk_open s t cur o part mode0 : tget t cur = Some o -> (o < PB s)%nat -> Dyn.plain part = true ->
  sem s rp t (Openat cur part MKF mode0) =
  match mk_open s o part with inl c => SNew c | inr e => SRet (RErr e) end.
Proof.
  intros Hc Ho Hp. destruct (plain_facts _ Hp) as (Hnil & Hd & Hdd & Hsl & Hnu).
  cbn [sem]. rewrite Hc.
  replace (has MKF O_NOFOLLOW) with true by (vm_compute; reflexivity). cbn [negb]. rewrite andb_false_r.
  replace (opath_nofollow MKF) with false by (vm_compute; reflexivity). cbn [negb orb].
  unfold ord_open.
  replace (has MKF O_PATH) with false by (vm_compute; reflexivity).
  replace (has MKF O_CREAT) with false by (vm_compute; reflexivity).
  replace (intersects MKF O_ACCMODE) with false by (vm_compute; reflexivity).
  replace (has MKF O_TRUNC) with false by (vm_compute; reflexivity).
  replace (has MKF O_NOFOLLOW) with true by (vm_compute; reflexivity).
  replace (has MKF O_DIRECTORY) with true by (vm_compute; reflexivity).
  rewrite Hsl, Hnu, Hnil. cbn [orb negb].
  destruct (Nat.leb_spec (PB s) o); [lia|].
  unfold mk_open, sem_open. destruct (open1 s o part) as [c|e]; [|reflexivity].
  unfold FSModel.is_dir. destruct (FSModel.kind_of s c); reflexivity.
Qed.

Definition rel (s s' : fs) (ob : nat) : nat := shift (NPB s) (NPB s' - NPB s) ob.

Theorem mk_parts_dyn mode : forall ps s t cur o,
  closed2 s -> tget t cur = Some o -> (o < NPB s)%nat -> Forall (fun p => Dyn.plain p = true) ps ->
  exists t',
    (forall x ob, x <> cur -> tget t x = Some ob -> tget t' x = Some (rel s (fst (mk_spec s o ps)) ob)) /\
    match snd (mk_spec s o ps) with
    | inl c => exists fd,
        drun {| ds := s; dt := t; dseen := [] |} (mk_parts fz mode ps cur) =
          DDone {| ds := fst (mk_spec s o ps); dt := t'; dseen := [] |} (Ok fd) /\
        tget t' fd = Some c /\ (c < NPB (fst (mk_spec s o ps)))%nat /\
        (forall x, indom t' x -> x = fd \/ (indom t x /\ x <> cur)) /\ (ps = [] -> fd = cur)
    | inr e =>
        drun {| ds := s; dt := t; dseen := [] |} (mk_parts fz mode ps cur) =
          DDone {| ds := fst (mk_spec s o ps); dt := t'; dseen := [] |} (Err (OsError e)) /\
        (forall x, indom t' x -> indom t x /\ x <> cur)
    end.
Proof.
  induction ps as [|part rest IH]; intros s t cur o Hc Hcur Ho Hps.
  - cbn [mk_spec fst snd mk_parts]. exists t. split.
    + intros x ob _ Hx. unfold rel. rewrite Nat.sub_diag. unfold shift. rewrite Nat.add_0_r. destruct (Nat.leb _ _); exact Hx.
    + exists cur. split; [reflexivity|]. split; [exact Hcur|]. split; [exact Ho|]. split; [|reflexivity].
      intros x Hx. destruct (Z.eq_dec x cur); [left; assumption|right; split; assumption].
  - inversion Hps as [|? ? Hp Hrest]; subst. destruct (plain_facts _ Hp) as (Hnil & Hd & Hdd & Hsl & Hnu).
    change (mk_parts fz mode (part :: rest) cur) with
      (if has_slash part then close cur ;;; Ret (Err SafetyViolation) else
       r <- w_mkdirat fz cur part mode ;;
       match (match r with Ok _ => None | Err e => if N.eqb e EEXIST then None else Some e end) with
       | Some e => close cur ;;; Ret (Err (OsError e))
       | None => r <- os (w_openat fz cur part MKDIR_ALL_OPEN_FLAGS 0) ;;
                 match r with Err e => close cur ;;; Ret (Err e) | Ok next => close cur ;;; mk_parts fz mode rest next end
       end).
    rewrite Hsl. rewrite drun_bind.
    unfold w_mkdirat, simple1, rustix_path. rewrite (tget_valid _ _ _ Hcur), Hnu. cbn [negb Dyn.drun].
    unfold Dyn.danswer. cbn [Dyn.dsem ds dt dseen]. unfold on1. rewrite (tree_obj_get s t cur o Hcur Ho).
    cbn [mk_spec]. unfold mk_dir.
    destruct (create_sem s o part FSModel.KDir) as [|e|s1|s1 ob] eqn:Ecs; cbn [of_eres ds dt dseen].
    + (* outside the model: impossible for a Dyn.plain name *)
      exfalso. unfold create_sem in Ecs. rewrite Hnil, Hsl, Hnu, Hd, Hdd in Ecs. cbn [orb] in Ecs.
      repeat (first [discriminate | match type of Ecs with context [match ?x with _ => _ end] => destruct x end]).
    + (* mkdirat failed *)
      rewrite reloc_same. cbn [as_unit]. rewrite (drun_fail1 rp fz Hfz). cbn beta iota.
      destruct (N.eqb_spec e EEXIST) as [->|Hne].
      * (* EEXIST: tolerated; open it *)
        cbn [fst snd]. rewrite drun_bind. unfold os, map_err. rewrite drun_bind.
        unfold w_openat, w_openat_follow, rustix_path. rewrite (tget_valid _ _ _ Hcur), Hnu. cbn [negb Dyn.drun].
        fold MKF.
        rewrite (danswer_static rp) by (cbn [eff]; vm_compute; reflexivity). cbn [ds dt dseen seen_after].
        unfold answer. rewrite (sem_mk_open s t cur o part _ Hcur Ho Hp).
        destruct (mk_open s o part) as [c|e'] eqn:Eo; cbn [fst snd].
        -- pose proof (fresh_ge3 t) as H3. cbn [as_fd]. destruct (Z.leb_spec 0 (fresh t)); [|lia]. cbn [Dyn.drun].
           rewrite drun_bind, drun_close.
           destruct (mk_open_inl _ _ _ _ Hc Hp Eo) as (_ & _ & Hclt).
           assert (Hnew : tget (tdel ((fresh t, c) :: t) cur) (fresh t) = Some c).
           { rewrite tget_del_other; [apply tget_new|]. intro E. rewrite <- E in Hcur. rewrite tget_fresh_none in Hcur. discriminate. }
           destruct (IH s (tdel ((fresh t, c) :: t) cur) (fresh t) c Hc Hnew Hclt Hrest) as (t' & Hfr & Hres).
           exists t'. split.
           ++ intros x ob Hx Hxo. apply Hfr.
              ** intro E. subst x. rewrite tget_fresh_none in Hxo. discriminate.
              ** rewrite tget_del_other by exact Hx. rewrite tget_cons_other; [exact Hxo|].
                 intro E. subst x. rewrite tget_fresh_none in Hxo. discriminate.
           ++ destruct (snd (mk_spec s c rest)) as [c2|e2].
              ** destruct Hres as (fd & Hrun & Hfd & Hlt2 & Hdom & Hnil2). exists fd. split; [exact Hrun|]. split; [exact Hfd|]. split; [exact Hlt2|]. split; [|intro E; discriminate].
                 intros x Hx. destruct (Hdom x Hx) as [->|[Hin Hne]]; [left; reflexivity|].
                 apply indom_del in Hin. destruct Hin as [Hin Hxc]. apply indom_cons in Hin. destruct Hin as [->|Hin]; [contradiction|].
                 right. split; assumption.
              ** destruct Hres as (Hrun & Hdom). split; [exact Hrun|].
                 intros x Hx. destruct (Hdom x Hx) as [Hin Hne].
                 apply indom_del in Hin. destruct Hin as [Hin Hxc]. apply indom_cons in Hin. destruct Hin as [->|Hin]; [contradiction|].
                 split; assumption.
        -- cbn [as_fd]. rewrite (drun_fail1 rp fz Hfz). cbn [Dyn.drun]. rewrite drun_bind, drun_close. cbn [Dyn.drun].
           exists (tdel t cur). split.
           ++ intros x ob Hx Hxo. rewrite tget_del_other by exact Hx. unfold rel. rewrite Nat.sub_diag. unfold shift. rewrite Nat.add_0_r. destruct (Nat.leb _ _); exact Hxo.
           ++ split; [reflexivity|]. intros x Hx. apply indom_del in Hx. exact Hx.
      * (* any other errno: the loop ends *)
        cbn [fst snd]. rewrite drun_bind, drun_close. cbn [Dyn.drun].
        exists (tdel t cur). split.
        -- intros x ob Hx Hxo. rewrite tget_del_other by exact Hx. unfold rel. rewrite Nat.sub_diag. unfold shift. rewrite Nat.add_0_r. destruct (Nat.leb _ _); exact Hxo.
        -- split; [reflexivity|]. intros x Hx. apply indom_del in Hx. exact Hx.
    + (* created *)
      cbn [as_unit Dyn.drun]. cbn beta iota.
      assert (Hm : mk_dir s o part = inl s1) by (unfold mk_dir; rewrite Ecs; reflexivity).
      destruct (mk_dir_inl _ _ _ _ Hc Ho Hm) as (Hc1 & Hle & Hs1).
      set (t1 := reloc (NPB s) (NPB s1) t).
      assert (Hcur1 : tget t1 cur = Some o).
      { unfold t1. rewrite tget_reloc, Hcur. cbn [option_map]. rewrite shift_small by exact Ho. reflexivity. }
      assert (Ho1 : (o < NPB s1)%nat) by (unfold NPB in *; lia).
      rewrite drun_bind. unfold os, map_err. rewrite drun_bind.
      unfold w_openat, w_openat_follow, rustix_path. rewrite (tget_valid _ _ _ Hcur), Hnu. cbn [negb Dyn.drun].
      fold MKF.
      rewrite (danswer_static rp) by (cbn [eff]; vm_compute; reflexivity). cbn [ds dt dseen seen_after].
      unfold answer. rewrite (sem_mk_open s1 t1 cur o part _ Hcur1 Ho1 Hp).
      destruct (mk_open s1 o part) as [c|e'] eqn:Eo; cbn [fst snd].
      * pose proof (fresh_ge3 t1) as H3. cbn [as_fd]. destruct (Z.leb_spec 0 (fresh t1)); [|lia]. cbn [Dyn.drun].
        rewrite drun_bind, drun_close.
        destruct (mk_open_inl _ _ _ _ Hc1 Hp Eo) as (_ & _ & Hclt).
        assert (Hfne : fresh t1 <> cur).
        { intro E. rewrite <- E in Hcur1. rewrite tget_fresh_none in Hcur1. discriminate. }
        assert (Hnew : tget (tdel ((fresh t1, c) :: t1) cur) (fresh t1) = Some c).
        { rewrite tget_del_other by exact Hfne. apply tget_new. }
        destruct (IH s1 (tdel ((fresh t1, c) :: t1) cur) (fresh t1) c Hc1 Hnew Hclt Hrest) as (t' & Hfr & Hres).
        pose proof (mk_spec_grows rest s1 c Hc1 Hclt Hrest) as Hgrow.
        exists t'. split.
        -- intros x ob Hx Hxo.
           assert (Hx1 : tget t1 x = Some (rel s s1 ob)).
           { unfold t1. rewrite tget_reloc, Hxo. reflexivity. }
           assert (Hxf : x <> fresh t1).
           { intro E. subst x. rewrite tget_fresh_none in Hx1. discriminate. }
           rewrite (Hfr x (rel s s1 ob) Hxf).
           ++ f_equal. unfold rel. unfold NPB in *.
              replace (length (kinds s1)) with (length (kinds s) + (length (kinds s1) - length (kinds s)))%nat at 1 by lia.
              rewrite shift_shift. f_equal. lia.
           ++ rewrite tget_del_other by exact Hx. rewrite tget_cons_other by exact Hxf. exact Hx1.
        -- destruct (snd (mk_spec s1 c rest)) as [c2|e2].
           ++ destruct Hres as (fd & Hrun & Hfd & Hlt2 & Hdom & _). exists fd. split; [exact Hrun|]. split; [exact Hfd|]. split; [exact Hlt2|]. split; [|intro E; discriminate].
              intros x Hx. destruct (Hdom x Hx) as [->|[Hin Hne]]; [left; reflexivity|].
              apply indom_del in Hin. destruct Hin as [Hin Hxc]. apply indom_cons in Hin. destruct Hin as [->|Hin]; [contradiction|].
              right. split; [|exact Hxc]. unfold t1 in Hin. apply indom_reloc in Hin. exact Hin.
           ++ destruct Hres as (Hrun & Hdom). split; [exact Hrun|].
              intros x Hx. destruct (Hdom x Hx) as [Hin Hne].
              apply indom_del in Hin. destruct Hin as [Hin Hxc]. apply indom_cons in Hin. destruct Hin as [->|Hin]; [contradiction|].
              split; [|exact Hxc]. unfold t1 in Hin. apply indom_reloc in Hin. exact Hin.
      * cbn [as_fd]. rewrite (drun_fail1 rp fz Hfz). cbn [Dyn.drun]. rewrite drun_bind, drun_close. cbn [Dyn.drun].
        exists (tdel t1 cur). split.
        -- intros x ob Hx Hxo. rewrite tget_del_other by exact Hx. unfold t1. rewrite tget_reloc, Hxo. reflexivity.
        -- split; [reflexivity|]. intros x Hx. apply indom_del in Hx. destruct Hx as [Hin Hne]. unfold t1 in Hin. apply indom_reloc in Hin. split; assumption.
    + (* mkdirat does not return a descriptor *)
      exfalso. unfold create_sem in Ecs.
      repeat (first [discriminate | match type of Ecs with context [match ?x with _ => _ end] => destruct x end]).
Qed.

End MK.

(* ---- what the pure function does to a tree ---------------------------------------------- *)

(* [s'] is [s] plus new directories: nothing removed, nothing modified *)
Inductive extends : fs -> fs -> Prop :=
| ext_refl s : extends s s
| ext_add s s' d n : extends s s' -> is_dir s' d = true -> lookup s' d n = None ->
                     extends s (FSModel.add_obj s' d n FSModel.KDir).

Lemma extends_trans_add s s1 s2 : extends s s1 -> extends s1 s2 -> extends s s2.
Proof. intros H1 H2. induction H2 as [|s1 s2 d n _ IH Hd Hl]; [exact H1|]. apply ext_add; [apply IH; exact H1|exact Hd|exact Hl]. Qed.

(* everything that was there is still there, unchanged *)
Lemma extends_frame s s' : extends s s' ->
  (forall o, (o < length (kinds s))%nat -> FSModel.kind_of s' o = FSModel.kind_of s o) /\
  (forall d n c, lookup s d n = Some c -> lookup s' d n = Some c) /\
  (length (kinds s) <= length (kinds s'))%nat /\
  (exists new, ents s' = ents s ++ new /\ Forall (fun e => (length (kinds s) <= ent_obj e)%nat /\ FSModel.kind_of s' (ent_obj e) = FSModel.KDir) new).
Proof.
  induction 1 as [s|s s' d n _ IH Hd Hl].
  - repeat split; try lia; try (intros; assumption). exists []. rewrite app_nil_r. split; [reflexivity|constructor].
  - destruct IH as (Hk & Hlk & Hlen & new & Hents & Hnew). repeat split.
    + intros o Ho. rewrite kind_add_obj_old by lia. apply Hk. exact Ho.
    + intros d' n' c Hc. rewrite lookup_add_obj, (Hlk _ _ _ Hc). reflexivity.
    + unfold FSModel.add_obj. cbn [FSModel.kinds]. rewrite app_length. lia.
    + exists (new ++ [(d, n, length (kinds s'))]). split.
      * unfold FSModel.add_obj. cbn [FSModel.ents]. rewrite Hents, app_assoc. reflexivity.
      * apply Forall_app. split.
        -- eapply Forall_impl; [|exact Hnew]. intros e [He1 He2]. split; [exact He1|].
           destruct (Nat.lt_ge_cases (ent_obj e) (length (kinds s'))) as [Hlt|Hge].
           ++ rewrite kind_add_obj_old by exact Hlt. exact He2.
           ++ unfold FSModel.kind_of in He2 |- *. rewrite nth_overflow in He2 by exact Hge. discriminate.
        -- constructor; [|constructor]. cbn [ent_obj snd]. split; [lia|apply kind_add_obj_new].
Qed.

Fixpoint descend_dirs (s : fs) (o : nat) (ps : list bytes) : option nat :=
  match ps with
  | [] => Some o
  | p :: rest => match lookup s o p with
                 | Some c => if is_dir s c then descend_dirs s c rest else None
                 | None => None
                 end
  end.

Lemma descend_dirs_extends s s' : extends s s' -> forall ps o c, (o < length (kinds s))%nat -> closed2 s ->
  descend_dirs s o ps = Some c -> descend_dirs s' o ps = Some c.
Proof.
  intros He. destruct (extends_frame _ _ He) as (Hk & Hlk & _ & _).
  induction ps as [|p rest IH]; intros o c Ho Hc H; cbn [descend_dirs] in *; [exact H|].
  destruct (lookup s o p) as [c'|] eqn:El; [|discriminate]. rewrite (Hlk _ _ _ El).
  destruct Hc as [(H0 & Hlkc & Hpar) Hlen]. pose proof (Hlkc _ _ _ El) as Hc'. unfold PB in Hc'.
  unfold FSModel.is_dir in *. rewrite (Hk c' Hc'). destruct (FSModel.kind_of s c'); try discriminate.
  apply IH; [exact Hc'|split; [split; [exact H0|split; assumption]|exact Hlen]|exact H].
Qed.

Theorem mk_spec_post : forall ps s o, closed2 s -> (o < length (kinds s))%nat -> Forall (fun p => Dyn.plain p = true) ps ->
  extends s (fst (mk_spec s o ps)) /\ closed2 (fst (mk_spec s o ps)) /\
  match snd (mk_spec s o ps) with
  | inl c => descend_dirs (fst (mk_spec s o ps)) o ps = Some c /\ (is_dir s o = true -> is_dir (fst (mk_spec s o ps)) c = true)
  | inr _ => True
  end.
Proof.
  induction ps as [|part rest IH]; intros s o Hc Ho Hps; cbn [mk_spec fst snd].
  - split; [constructor|]. split; [exact Hc|]. split; [reflexivity|intro H; exact H].
  - inversion Hps as [|? ? Hp Hrest]; subst.
    destruct (mk_dir s o part) as [s1|e] eqn:Em; cbn [fst snd]; [|split; [constructor|split; [exact Hc|exact I]]].
    destruct (mk_dir_inl _ _ _ _ Hc Ho Em) as (Hc1 & Hle & Hs1).
    assert (He1 : extends s s1).
    { destruct Hs1 as [->|(-> & Hl & Hd)]; [constructor|apply ext_add; [constructor|exact Hd|exact Hl]]. }
    destruct (mk_open s1 o part) as [c|e] eqn:Eo; cbn [fst snd]; [|split; [exact He1|split; [exact Hc1|exact I]]].
    destruct (mk_open_inl _ _ _ _ Hc1 Hp Eo) as (Hl1 & Hd1 & Hclt).
    destruct (IH s1 c Hc1 Hclt Hrest) as (He2 & Hc2 & Hpost).
    split; [eapply extends_trans_add; eassumption|]. split; [exact Hc2|].
    destruct (snd (mk_spec s1 c rest)) as [c2|e2]; [|exact I].
    destruct Hpost as [Hdesc Hdir]. split; [|intros _; apply Hdir; exact Hd1].
    cbn [descend_dirs]. destruct (extends_frame _ _ He2) as (Hk & Hlk & _ & _).
    rewrite (Hlk _ _ _ Hl1). unfold FSModel.is_dir in *. rewrite (Hk c Hclt).
    destruct (FSModel.kind_of s1 c); try discriminate. exact Hdesc.
Qed.
